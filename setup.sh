#!/bin/bash
# Build the checker from files on disk only (offline). Run once after a fresh restore.
set -euo pipefail
. "$(dirname "${BASH_SOURCE[0]}")/env.sh"
cd "$VERIF_DIR/checker"
go build -o "$VERIF_DIR/bin/nvcheck" .
echo "built $VERIF_DIR/bin/nvcheck with $(go version)"
