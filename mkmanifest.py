#!/usr/bin/env python3
"""Regenerates /verif/MANIFEST.json from the rule registry of the built checker (bin/nvcheck -list)."""
import json, os, subprocess, collections

verif = os.path.dirname(os.path.abspath(__file__))
rules = collections.OrderedDict()
out = subprocess.run([os.path.join(verif, "bin/nvcheck"), "-list"], capture_output=True, text=True, check=True).stdout
for line in out.splitlines():
    pid, rule, doc = line.split("\t", 2)
    rules.setdefault(pid, []).append((rule, doc))

NA = {
    "C14": "Equivalence of compiled-and-interpreted versus natively compiled Go over all programs and arguments is a relation between two run-time results; no necessary condition of it is visible in the shape of pkg/compiler (the AST visitor has no rejecting default by design; label resolution and stack depth are value-level), so static analysis has nothing sound to decide here (DESIGN.md §4 C14).",
    "C18": "Algebraic round-trip / sign-verify laws over all keys, messages and integers, and schedule-independence of a result computed from goroutine arrival order, are value-level; the only structural fact (workers write disjoint slots) decides none of the stated clauses (DESIGN.md §4 C18).",
}
NOT_BUILT = "No static rule for this property is armed in the committed checker yet (see DESIGN.md §0 for the planned structural clauses); not claimed until the rule is exact on the pinned tree."

checks = []
for pid in sorted(rules):
    names = [r for r, _ in rules[pid]]
    checks.append({
        "property_id": pid,
        "quick_cmd": "./check.sh %s quick" % pid,
        "thorough_cmd": "./check.sh %s thorough" % pid,
        "evidence_file": "/verif/evidence/%s.json" % pid,
        "replay_cmd_template": "./check.sh --replay {path}",
        "engine": "nvcheck",
        "technique": "static analysis: repository-specific rules over the type-checked program, per-function CFGs, SSA and a module-restricted call graph (" + ", ".join(names) + ")",
        "level_claimed": {
            "category": "other",
            "text": "Decides structural necessary conditions of the property for every site and every CFG path of /repo's current source (rules: " + "; ".join("%s = %s" % (r, d) for r, d in rules[pid]) + "). It does not decide the behaviour itself: values, arithmetic and interleavings beyond lock structure are out of static reach and are listed per property under 'Not covered' in DESIGN.md §4. This is the right level because the property quantifies over histories/inputs/schedules no static argument in reach can bound, while the clauses checked are site-level facts whose breakage breaks the behaviour.",
            "design_ref": "DESIGN.md §4 " + pid,
        },
        "level_note": "Trusted: Go type checker and go/ssa (x/tools v0.50.0); the module-restricted call resolution of DESIGN.md §2.2; the frozen tables in /verif/checker (each row re-resolved against the program on every run, a row that no longer resolves fails as coverage-lost). Instance floors make a rule that no longer sees its code fail instead of passing vacuously.",
    })
na = []
for i in range(1, 21):
    pid = "C%02d" % i
    if pid in rules:
        continue
    na.append({"property_id": pid, "reason": NA.get(pid, NOT_BUILT)})

man = {
    "version": 1,
    "setup_cmd": "./setup.sh",
    "hooks": {
        "guard": "verif",
        "enable": "none: static analysis needs no instrumentation; no hook commits exist and no build tag is read",
        "baseline_off_cmd": "for m in $(cat /w/out/gomods.txt); do MF=$(cd /repo/$m && . /w/out/goenv.sh && gomodflag); (cd /repo/$m && go test $MF -json -vet=off -count=1 -timeout 25m ./...); done",
        "source_commits": [],
        "add_only": True,
    },
    "engines": [{
        "name": "nvcheck",
        "path": "/verif/checker",
        "serves_properties": sorted(rules),
        "kind_free_text": "custom Go static analyser (go/packages, go/types, go/cfg, go/ssa of x/tools v0.50.0 on go1.26.8): guard-dominance, typestate, lockset, table-agreement, who-may-write and effect-summary rules specific to neo-go; re-loads /repo on every run",
    }],
    "checks": checks,
    "not_applicable": na,
    "notes": "All claims are at level 'other' (structural necessary conditions decided statically; see DESIGN.md). known_findings.json lists genuine defects recorded rather than repaired and the fix: commits made to /repo.",
}
json.dump(man, open(os.path.join(verif, "MANIFEST.json"), "w"), indent=1)
print("claimed:", " ".join(sorted(rules)), "| not applicable:", " ".join(x["property_id"] for x in na))
