#!/usr/bin/env python3
"""Negative controls for the thorough tier.

usage: controls.py <property> <repo> <workdir> <nvcheck>

Every directory /verif/controls/<name>/ and /verif/seeded/<name>/ holding a meta.json whose "property"
(or "properties") names the property and a patch.diff is applied to copies of the touched files of the
*current* tree (in <workdir>, removed by the caller); the checker is run with those copies as an in-memory
overlay (one process per control) and must exit 1 naming the property. Directories under /verif/benign/ are
behaviour-preserving variants (renames, reorderings, helper extraction): on those the checker must exit 0.
Results go to <workdir>/controls.json.
A patch that no longer applies is "stale"; nothing here fails the check.
"""
import json, os, re, shutil, subprocess, sys
from concurrent.futures import ThreadPoolExecutor

prop, repo, work, binp = sys.argv[1:5]
verif = os.path.dirname(os.path.abspath(__file__))
cands = []
for base in ("controls", "seeded", "benign"):
    d = os.path.join(verif, base)
    if not os.path.isdir(d):
        continue
    for name in sorted(os.listdir(d)):
        mp = os.path.join(d, name, "meta.json")
        pp = os.path.join(d, name, "patch.diff")
        if not (os.path.isfile(mp) and os.path.isfile(pp)):
            continue
        meta = json.load(open(mp))
        props = meta.get("properties") or [meta.get("property")]
        if prop in props:
            cands.append((base + "/" + name, pp, meta))

def run(c):
    name, patch, meta = c
    od = os.path.join(work, "ov_" + re.sub(r"[^A-Za-z0-9]+", "_", name))
    os.makedirs(od, exist_ok=True)
    files = re.findall(r"^\+\+\+ b/(\S+)", open(patch).read(), re.M)
    for f in files:
        src = os.path.join(repo, f)
        dst = os.path.join(od, f)
        os.makedirs(os.path.dirname(dst), exist_ok=True)
        if os.path.exists(src):
            shutil.copy(src, dst)
    r = subprocess.run(["patch", "-p1", "-s", "--no-backup-if-mismatch", "-d", od, "-i", patch], capture_output=True, text=True)
    benign = name.startswith("benign/")
    res = {"control": name, "kind": "benign variant (must stay silent)" if benign else "negative control (must be reported)",
           "expects_rule": meta.get("detected_by"), "what": meta.get("what", meta.get("needs", ""))[:200]}
    if r.returncode != 0:
        res["result"] = "stale (patch no longer applies)"
        return res
    # only non-test go files can be overlaid meaningfully
    for root, _, fs in os.walk(od):
        for f in fs:
            if f.endswith("_test.go") or not f.endswith(".go"):
                os.remove(os.path.join(root, f))
    out = os.path.join(work, "out_" + os.path.basename(od))
    r = subprocess.run([binp, "-repo", repo, "-property", prop, "-tier", "thorough", "-overlay-dir", od,
                        "-known", os.path.join(verif, "known_findings.json"), "-out", out], capture_output=True, text=True)
    viol = [l for l in r.stdout.splitlines() if l.startswith("VIOLATION") or l.startswith("  ")]
    rules = sorted(set(re.findall(r"rule (\S+) \[violation\]", r.stdout)))
    res["exit"] = r.returncode
    res["rules_fired"] = rules
    lost = "[coverage-lost]" in r.stdout
    if benign:
        res["result"] = "silent" if r.returncode == 0 else "FALSE ALARM"
    elif r.returncode == 1 and rules:
        res["result"] = "detected"
    elif r.returncode == 1 and lost:
        res["result"] = "coverage-lost only"
    else:
        res["result"] = "missed"
    res["first_report"] = viol[1].strip()[:300] if len(viol) > 1 else ""
    shutil.rmtree(od, ignore_errors=True)
    shutil.rmtree(out, ignore_errors=True)
    return res

with ThreadPoolExecutor(max_workers=4) as ex:
    results = list(ex.map(run, cands))
json.dump(results, open(os.path.join(work, "controls.json"), "w"), indent=1)
bad = 0
for r in results:
    print("control %-40s %s %s" % (r["control"], r["result"], ",".join(r.get("rules_fired", []))))
    exp = next((m for n, _, m in cands if n == r["control"]), {})
    if r["result"] == "FALSE ALARM" or (r["result"] != "detected" and exp.get("detected_by")):
        bad += 1
sys.exit(1 if bad else 0)
