package main

import (
	"fmt"
	"go/ast"
	"go/token"
	"go/types"
	"os"
	"path/filepath"
	"sort"
	"strings"

	"golang.org/x/tools/go/packages"
	"golang.org/x/tools/go/ssa"
	"golang.org/x/tools/go/ssa/ssautil"
)

const modPath = "github.com/nspcc-dev/neo-go"

// Program is the loaded, type-checked neo-go module plus lazily built SSA.
type Program struct {
	RepoDir string
	Fset    *token.FileSet
	Pkgs    []*packages.Package          // module packages only, sorted by path
	ByPath  map[string]*packages.Package // import path -> package (module only)
	AllPkgs []*packages.Package          // including dependencies

	ssaProg *ssa.Program
	ssaPkgs map[*types.Package]*ssa.Package

	// index of function declarations: types.Func -> decl + package
	declOf map[*types.Func]*FuncDecl
	bySym  map[string]*FuncDecl
	mrg    *MRG
}

// FuncDecl couples a declaration with its package.
type FuncDecl struct {
	Pkg  *packages.Package
	Decl *ast.FuncDecl
	Obj  *types.Func
}

// LoadProgram loads ./pkg/... ./cli/... ./internal/... of repoDir (no tests).
// overlay maps absolute file names to replacement contents (negative controls).
func LoadProgram(repoDir string, overlay map[string][]byte, extraEnv ...string) (*Program, error) {
	fset := token.NewFileSet()
	cfg := &packages.Config{
		Mode:    packages.LoadAllSyntax,
		Dir:     repoDir,
		Fset:    fset,
		Tests:   false,
		Overlay: overlay,
		Env:     append(os.Environ(), extraEnv...),
	}
	pkgs, err := packages.Load(cfg, "./pkg/...", "./cli/...", "./internal/...")
	if err != nil {
		return nil, fmt.Errorf("packages.Load: %w", err)
	}
	p := &Program{RepoDir: repoDir, Fset: fset, ByPath: map[string]*packages.Package{}, declOf: map[*types.Func]*FuncDecl{}}
	var errs []string
	packages.Visit(pkgs, nil, func(pk *packages.Package) {
		p.AllPkgs = append(p.AllPkgs, pk)
		if strings.HasPrefix(pk.PkgPath, modPath) && !strings.HasPrefix(pk.PkgPath, modPath+"/pkg/interop") {
			for _, e := range pk.Errors {
				errs = append(errs, e.Error())
			}
			if pk.Types != nil && pk.TypesInfo != nil {
				p.Pkgs = append(p.Pkgs, pk)
				p.ByPath[pk.PkgPath] = pk
			}
		}
	})
	if len(errs) > 0 {
		sort.Strings(errs)
		if len(errs) > 10 {
			errs = errs[:10]
		}
		return nil, fmt.Errorf("type/load errors in module packages (coverage lost): %s", strings.Join(errs, "; "))
	}
	if len(p.Pkgs) < 100 {
		return nil, fmt.Errorf("only %d module packages loaded (floor 100): coverage lost", len(p.Pkgs))
	}
	sort.Slice(p.Pkgs, func(i, j int) bool { return p.Pkgs[i].PkgPath < p.Pkgs[j].PkgPath })
	for _, pk := range p.Pkgs {
		for _, f := range pk.Syntax {
			for _, d := range f.Decls {
				fd, ok := d.(*ast.FuncDecl)
				if !ok {
					continue
				}
				if obj, ok := pk.TypesInfo.Defs[fd.Name].(*types.Func); ok {
					p.declOf[obj] = &FuncDecl{Pkg: pk, Decl: fd, Obj: obj}
				}
			}
		}
	}
	return p, nil
}

// SSA builds (once) the SSA form of the whole program.
func (p *Program) SSA() *ssa.Program {
	if p.ssaProg != nil {
		return p.ssaProg
	}
	prog, _ := ssautil.AllPackages(p.AllPkgs, ssa.InstantiateGenerics)
	prog.Build()
	p.ssaProg = prog
	p.ssaPkgs = map[*types.Package]*ssa.Package{}
	for _, sp := range prog.AllPackages() {
		p.ssaPkgs[sp.Pkg] = sp
	}
	return prog
}

// Pkg returns the module package with the given path relative to the module root ("pkg/core").
func (p *Program) Pkg(rel string) *packages.Package {
	return p.ByPath[modPath+"/"+rel]
}

// Pos renders a position relative to the repository root.
func (p *Program) Pos(pos token.Pos) string {
	if !pos.IsValid() {
		return "?"
	}
	ps := p.Fset.Position(pos)
	rel, err := filepath.Rel(p.RepoDir, ps.Filename)
	if err != nil {
		rel = ps.Filename
	}
	return fmt.Sprintf("%s:%d", rel, ps.Line)
}

// FuncByName finds a package-level function or method: recv=="" for functions.
func (p *Program) Func(rel, recv, name string) *FuncDecl {
	pk := p.Pkg(rel)
	if pk == nil {
		return nil
	}
	if recv == "" {
		if f, ok := pk.Types.Scope().Lookup(name).(*types.Func); ok {
			return p.declOf[f]
		}
		return nil
	}
	tn, ok := pk.Types.Scope().Lookup(recv).(*types.TypeName)
	if !ok {
		return nil
	}
	named, ok := tn.Type().(*types.Named)
	if !ok {
		return nil
	}
	for i := 0; i < named.NumMethods(); i++ {
		if m := named.Method(i); m.Name() == name {
			return p.declOf[m]
		}
	}
	return nil
}

// DeclOf returns the declaration of a function object (generic origins resolved).
func (p *Program) DeclOf(f *types.Func) *FuncDecl {
	if f == nil {
		return nil
	}
	return p.declOf[f.Origin()]
}

// InModule reports whether the object belongs to the neo-go module (interop stubs excluded).
func InModule(pkg *types.Package) bool {
	if pkg == nil {
		return false
	}
	return strings.HasPrefix(pkg.Path(), modPath) && !strings.HasPrefix(pkg.Path(), modPath+"/pkg/interop")
}

// FuncKey is the stable, line-free name of a function: "pkg/core.(*Blockchain).AddBlock".
func FuncKey(f *types.Func) string {
	if f == nil {
		return "<nil>"
	}
	pkg := ""
	if f.Pkg() != nil {
		pkg = strings.TrimPrefix(f.Pkg().Path(), modPath+"/")
	}
	sig, _ := f.Type().(*types.Signature)
	if sig != nil && sig.Recv() != nil {
		t := sig.Recv().Type()
		ptr := ""
		if pt, ok := t.(*types.Pointer); ok {
			t = pt.Elem()
			ptr = "*"
		}
		name := "?"
		if n, ok := t.(*types.Named); ok {
			name = n.Obj().Name()
		} else if a, ok := t.(*types.Alias); ok {
			name = a.Obj().Name()
		}
		return fmt.Sprintf("%s.(%s%s).%s", pkg, ptr, name, f.Name())
	}
	return pkg + "." + f.Name()
}

// AllFuncDecls returns every function declaration of the module in stable order.
func (p *Program) AllFuncDecls() []*FuncDecl {
	var out []*FuncDecl
	for _, fd := range p.declOf {
		out = append(out, fd)
	}
	sort.Slice(out, func(i, j int) bool {
		a, b := FuncKey(out[i].Obj), FuncKey(out[j].Obj)
		if a != b {
			return a < b
		}
		return out[i].Decl.Pos() < out[j].Decl.Pos()
	})
	return out
}

// funcBySym finds the declaration of the module function whose FuncKey is sym (nil if none).
func (p *Program) funcBySym(sym string) *FuncDecl {
	if p.bySym == nil {
		p.bySym = map[string]*FuncDecl{}
		for fo, fd := range p.declOf {
			p.bySym[FuncKey(fo)] = fd
		}
	}
	return p.bySym[sym]
}
