package main

import (
	"fmt"
	"go/ast"
	"go/token"
	"go/types"
	"sort"
	"strings"

	"golang.org/x/tools/go/cfg"
)

// nilKey names an identifier or a selector chain (r.Err) for nil tracking; "" if not trackable.
func (f *FuncCFG) nilKey(e ast.Expr) string {
	switch x := ast.Unparen(e).(type) {
	case *ast.Ident:
		if o := f.Info.ObjectOf(x); o != nil {
			if _, isVar := o.(*types.Var); isVar {
				return fmt.Sprintf("%s@%d", x.Name, o.Pos())
			}
		}
	case *ast.SelectorExpr:
		if b := f.nilKey(x.X); b != "" {
			return b + "." + x.Sel.Name
		}
	}
	return ""
}

// nilFactsOf records what `cond == value` implies about identifiers compared with nil (atoms only).
func (f *FuncCFG) nilFactsOf(cond ast.Expr, value bool, facts map[types.Object]bool) bool {
	var atoms []struct {
		e ast.Expr
		v bool
	}
	impliedAtoms(cond, value, &atoms)
	for _, a := range atoms {
		be, isBin := ast.Unparen(a.e).(*ast.BinaryExpr)
		if !isBin || (be.Op != token.EQL && be.Op != token.NEQ) {
			continue
		}
		var id *ast.Ident
		if x, ok := ast.Unparen(be.X).(*ast.Ident); ok && isNilIdent(f.Info, be.Y) {
			id = x
		} else if y, ok := ast.Unparen(be.Y).(*ast.Ident); ok && isNilIdent(f.Info, be.X) {
			id = y
		}
		if id == nil {
			continue
		}
		o := f.Info.ObjectOf(id)
		isNil := (be.Op == token.EQL) == a.v
		if old, ok := facts[o]; ok && old != isNil {
			return false
		}
		facts[o] = isNil
	}
	return true
}

// nilFactsStr is nilFactsOf over identifiers and selector chains, keyed by nilKey.
func (f *FuncCFG) nilFactsStr(cond ast.Expr, value bool, facts map[string]bool) bool {
	var atoms []struct {
		e ast.Expr
		v bool
	}
	impliedAtoms(cond, value, &atoms)
	for _, a := range atoms {
		be, ok := ast.Unparen(a.e).(*ast.BinaryExpr)
		if !ok || (be.Op != token.EQL && be.Op != token.NEQ) {
			continue
		}
		var k string
		if isNilIdent(f.Info, be.Y) {
			k = f.nilKey(be.X)
		} else if isNilIdent(f.Info, be.X) {
			k = f.nilKey(be.Y)
		}
		if k == "" {
			continue
		}
		isNil := (be.Op == token.EQL) == a.v
		if old, ok := facts[k]; ok && old != isNil {
			return false // contradiction: infeasible
		}
		facts[k] = isNil
	}
	return true
}

// certainlyNonNil: the expression is an error constructor or a sentinel error.
func (f *FuncCFG) certainlyNonNil(e ast.Expr) bool {
	switch x := ast.Unparen(e).(type) {
	case *ast.CallExpr:
		s := f.calleeSym(x)
		return s == "errors.New" || s == "fmt.Errorf"
	case *ast.Ident:
		if v, ok := f.Info.ObjectOf(x).(*types.Var); ok && v.Pkg() != nil && v.Parent() == v.Pkg().Scope() && isErrorType(v.Type()) {
			return true
		}
	case *ast.SelectorExpr:
		if v, ok := f.Info.ObjectOf(x.Sel).(*types.Var); ok && !v.IsField() && isErrorType(v.Type()) {
			return true
		}
	}
	return false
}

// reachesNilAware: can a target be reached from start without entering blocks in avoid, honouring what is
// known about nil-ness of identifiers and selector chains (facts are set by `x = errors.New(..)`, killed by
// other assignments)?
func (f *FuncCFG) reachesNilAware(start *cfg.Block, avoid, targets map[*cfg.Block]bool, assume *Assume, facts0 map[types.Object]bool) bool {
	facts := map[string]bool{}
	for o, v := range facts0 {
		facts[fmt.Sprintf("%s@%d", o.Name(), o.Pos())] = v
	}
	return f.reachesNilAwareStr(start, avoid, targets, assume, facts)
}

func (f *FuncCFG) reachesNilAwareStr(start *cfg.Block, avoid, targets map[*cfg.Block]bool, assume *Assume, facts map[string]bool) bool {
	type st struct {
		b *cfg.Block
		k string
	}
	key := func(m map[string]bool) string {
		var ps []string
		for o, v := range m {
			ps = append(ps, fmt.Sprintf("%s=%v", o, v))
		}
		sort.Strings(ps)
		return strings.Join(ps, ",")
	}
	type item struct {
		b *cfg.Block
		m map[string]bool
	}
	if avoid[start] {
		return false
	}
	seen := map[st]bool{}
	work := []item{{start, facts}}
	for len(work) > 0 {
		it := work[len(work)-1]
		work = work[:len(work)-1]
		sk := st{it.b, key(it.m)}
		if seen[sk] || len(seen) > 4000 {
			continue
		}
		seen[sk] = true
		if targets[it.b] {
			return true
		}
		m := map[string]bool{}
		for k, v := range it.m {
			m[k] = v
		}
		for _, n := range it.b.Nodes {
			inspectNoLit(n, func(x ast.Node) bool {
				switch a := x.(type) {
				case *ast.AssignStmt:
					for i, l := range a.Lhs {
						k := f.nilKey(l)
						if k == "" {
							continue
						}
						for fk := range m {
							if fk == k || strings.HasPrefix(fk, k+".") {
								delete(m, fk)
							}
						}
						if len(a.Rhs) == len(a.Lhs) && f.certainlyNonNil(a.Rhs[i]) {
							m[k] = false
						}
					}
				case *ast.UnaryExpr:
					if a.Op == token.AND {
						if k := f.nilKey(a.X); k != "" {
							delete(m, k)
						}
					}
				case *ast.CallExpr:
					// a call receiving the root object may change its fields (r.ReadB() can set r.Err)
					for fk, v := range m {
						if !v || !strings.Contains(fk, ".") {
							continue
						}
						base := fk[:strings.Index(fk, ".")]
						uses := false
						ast.Inspect(a, func(y ast.Node) bool {
							if id, ok := y.(*ast.Ident); ok && f.nilKey(id) == base {
								uses = true
							}
							return !uses
						})
						if uses {
							delete(m, fk) // was known nil, may be set now
						}
					}
				}
				return true
			})
		}
		succs := f.Succs(it.b, assume)
		for _, s := range succs {
			if avoid[s] {
				continue
			}
			nm := map[string]bool{}
			for k, v := range m {
				nm[k] = v
			}
			if len(it.b.Succs) == 2 {
				if c := f.Cond(it.b); c != nil {
					if !f.nilFactsStr(c, s == it.b.Succs[0], nm) {
						continue
					}
				}
			}
			work = append(work, item{s, nm})
		}
	}
	return false
}
