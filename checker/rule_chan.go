package main

import (
	"fmt"
	"go/ast"
	"go/token"
	"strings"

	"golang.org/x/tools/go/cfg"
)

// chanTypestate: for a channel field closed by its owner under a lock and announced by a flag, every send
// on the channel happens with the lock held and after the flag was seen unset *since the lock was last acquired*.
type chanSpec struct {
	Pkg, Type string
	ChanField string // symbol of the channel field
	LockPath  string // e.g. "bq.queueLock"
	FlagLoad  string // symbol mentioned by the check (the flag field)
	FlagField string
}

type chanClient struct {
	lockClient
	spec  chanSpec
	sends []chanSend
}

type chanSend struct {
	pos     token.Pos
	held    bool
	checked bool
}

func (cc *chanClient) Node(f *FuncCFG, b *cfg.Block, idx int, n ast.Node, st *FState) {
	// a send on the channel?
	var sendCh ast.Expr
	switch x := n.(type) {
	case *ast.SendStmt:
		sendCh = x.Chan
	}
	if sendCh != nil && f.Mentions(sendCh, b)[cc.spec.ChanField] {
		cc.sends = append(cc.sends, chanSend{n.Pos(), st.Facts["W:"+cc.spec.LockPath] > 0, st.Facts["flag-checked"] == 1})
	}
	before := st.Facts["W:"+cc.spec.LockPath]
	cc.lockClient.Node(f, b, idx, n, st)
	after := st.Facts["W:"+cc.spec.LockPath]
	if after != before {
		// entering or leaving the critical section invalidates what was learnt about the flag
		st.Facts["flag-checked"] = 0
	}
}

func (cc *chanClient) Edge(f *FuncCFG, b *cfg.Block, cond ast.Expr, value bool, st *FState) bool {
	// the atom is exactly the flag load: the unset outcome establishes the fact
	c := ast.Unparen(cond)
	if _, isCall := c.(*ast.CallExpr); !isCall {
		return true
	}
	if !f.Mentions(c, nil)[cc.spec.FlagField] {
		return true
	}
	if !value && st.Facts["W:"+cc.spec.LockPath] > 0 {
		st.Facts["flag-checked"] = 1
	}
	return true
}

func ruleChanTypestate(c *Ctx) {
	spec := chanSpec{Pkg: "pkg/network/bqueue", Type: "Queue", ChanField: "pkg/network/bqueue#checkBlocks", LockPath: "bq.queueLock", FlagField: "pkg/network/bqueue#discarded"}
	wr := c.P.lockWrappers()
	nsend, nclose := 0, 0
	for _, fd := range c.P.AllFuncDecls() {
		if pkgRel(fd.Obj.Pkg()) != spec.Pkg || fd.Decl.Body == nil {
			continue
		}
		f := c.P.NewFuncCFG(fd)
		// sends
		hasSend := false
		ast.Inspect(fd.Decl.Body, func(n ast.Node) bool {
			if s, ok := n.(*ast.SendStmt); ok && f.Mentions(s.Chan, nil)[spec.ChanField] {
				hasSend = true
			}
			if call, ok := n.(*ast.CallExpr); ok && f.calleeSym(call) == "builtin.close" && len(call.Args) == 1 && f.Mentions(call.Args[0], nil)[spec.ChanField] {
				nclose++
				// close must happen under the lock, after the flag was set by this very function
				key := FuncKey(fd.Obj) + ".close"
				m := f.Mentions(fd.Decl.Body, nil)
				if m["sync/atomic.(*Bool).CompareAndSwap"] || m["sync/atomic.(*Bool).Store"] {
					c.OK(key, c.P.Pos(call.Pos()), "the channel is closed by the function that sets the flag")
				} else {
					c.Fail(key, c.P.Pos(call.Pos()), "channel closed by a function that does not set the `discarded` flag first: senders cannot learn about the close")
				}
			}
			return true
		})
		if !hasSend {
			continue
		}
		wakeUpOnEveryPut(c, f, fd, spec)
		cc := &chanClient{lockClient: lockClient{p: c.P, wrappers: wr, seen: map[string]bool{}, exitIdx: map[token.Pos]int{}}, spec: spec}
		// receiver name may differ from "bq": derive lock path from the receiver
		if fd.Decl.Recv != nil && len(fd.Decl.Recv.List) == 1 && len(fd.Decl.Recv.List[0].Names) == 1 {
			cc.spec.LockPath = fd.Decl.Recv.List[0].Names[0].Name + ".queueLock"
		}
		res := f.RunFlow(cc, FState{Bools: map[string]bool{}, Facts: map[string]int{}}, nil)
		if res.Overflow {
			c.Unclassified(FuncKey(fd.Obj)+".overflow", c.P.Pos(fd.Decl.Pos()), "state overflow")
			continue
		}
		bad := map[token.Pos]string{}
		good := map[token.Pos]bool{}
		for _, s := range cc.sends {
			switch {
			case !s.held:
				bad[s.pos] = "send on checkBlocks without holding queueLock (Discard closes the channel under that lock)"
			case !s.checked:
				bad[s.pos] = "send on checkBlocks on a path where `discarded` was not re-checked after queueLock was (re-)acquired: Discard() may have closed the channel in between (send on closed channel panics)"
			default:
				good[s.pos] = true
			}
		}
		i := 0
		ast.Inspect(fd.Decl.Body, func(n ast.Node) bool {
			s, ok := n.(*ast.SendStmt)
			if !ok || !f.Mentions(s.Chan, nil)[spec.ChanField] {
				return true
			}
			i++
			nsend++
			key := fmt.Sprintf("%s.send#%d", FuncKey(fd.Obj), i)
			if msg, isBad := bad[s.Pos()]; isBad {
				c.Fail(key, c.P.Pos(s.Pos()), msg)
			} else if good[s.Pos()] {
				c.OK(key, c.P.Pos(s.Pos()), "every path to this send holds queueLock and saw discarded==false since the lock was last acquired")
			} else {
				c.Unclassified(key, c.P.Pos(s.Pos()), "send not reached by the flow analysis")
			}
			return true
		})
	}
	c.Floor("send sites on checkBlocks", nsend, 1)
	c.Floor("close sites of checkBlocks", nclose, 1)
}

// wakeUpOnEveryPut: whatever Put finds in the slot (free, older element, the same element again), it offers the
// wake-up signal to the consumer before returning: a duplicate delivered after the ledger moved on by other means is
// the only event that can make the consumer look at what is already queued.
func wakeUpOnEveryPut(c *Ctx, f *FuncCFG, fd *FuncDecl, spec chanSpec) {
	var sel *ast.SelectStmt
	ast.Inspect(fd.Decl.Body, func(n ast.Node) bool {
		if s, ok := n.(*ast.SelectStmt); ok && sel == nil {
			ast.Inspect(s, func(m ast.Node) bool {
				if sd, ok := m.(*ast.SendStmt); ok && f.Mentions(sd.Chan, nil)[spec.ChanField] {
					sel = s
				}
				return true
			})
		}
		return true
	})
	key := FuncKey(fd.Obj) + ".wake-up"
	if sel == nil {
		return
	}
	// the slot logic starts at the computation of the ring position
	var from []*cfg.Block
	attempt := map[*cfg.Block]bool{}
	for _, b := range f.G.Blocks {
		if !b.Live {
			continue
		}
		for _, n := range b.Nodes {
			if containsNode(sel, n) {
				attempt[b] = true
			}
			inspectNoLit(n, func(x ast.Node) bool {
				if call, ok := x.(*ast.CallExpr); ok && strings.HasSuffix(f.calleeSym(call), ").indexToPosition") && !containsNode(sel, call) {
					from = append(from, b)
				}
				return true
			})
		}
		if b.Stmt != nil && containsNode(sel, b.Stmt) && b.Stmt != ast.Stmt(sel) {
			attempt[b] = true
		}
	}
	if len(from) == 0 {
		c.Unclassified(key, c.P.Pos(sel.Pos()), "no ring-position computation found before the wake-up signal")
		return
	}
	r := f.reach(from, attempt, nil)
	for _, rs := range f.OKReturns() {
		if attempt[rs.blk] {
			continue
		}
		if _, ok := r[rs.blk]; ok {
			c.Fail(key, c.P.Pos(sel.Pos()), "Put can return (at "+c.P.Pos(rs.node.Pos())+") after looking at the slot without offering the wake-up signal: re-delivered elements no longer wake the consumer, which then never drains what is queued", f.pathTo(r, rs.blk)...)
			return
		}
	}
	c.OK(key, c.P.Pos(sel.Pos()), "every path through the slot logic offers the wake-up signal")
}
