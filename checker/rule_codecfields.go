package main

import (
	"fmt"
	"go/ast"
	"go/token"
	"go/types"
	"os"
	"sort"
	"strings"
)

// ---------------------------------------------------------------------------
// codec-fields (C17; generic site enumeration): for every struct type of the node's packages that has both halves of
// a codec family - EncodeBinary/DecodeBinary, MarshalJSON/UnmarshalJSON, ToStackItem/FromStackItem - the set of the
// type's own fields the encoder *reads* (directly, through methods of the same receiver, or by letting the whole value
// escape) and the set of fields the decoder *writes* (assignment, address taken, pointer-receiver method call on the
// field, `*t = T{...}` literal or whole-value assignment) are compared. A field that is encoded and never restored is
// lost by a round trip; a field restored from the wire that the encoder never writes is decoded from bytes the encoder
// does not produce. Legitimate asymmetries (cached identities, fields carried by the enclosing message, presence
// flags) are tabled with one line of reason each.

type codecFamily struct{ name, enc, dec string }

var codecFamilies = []codecFamily{
	{"binary", "EncodeBinary", "DecodeBinary"},
	{"json", "MarshalJSON", "UnmarshalJSON"},
	{"stackitem", "ToStackItem", "FromStackItem"},
}

// codecFieldsOK: "<pkg>.<Type>.<family>.<field>.<dir>" -> reason. dir is "enc-only" (read by the encoder, not written
// by the decoder) or "dec-only".
var codecFieldsOK = map[string]string{
	"pkg/core/block.Header.binary.hash.dec-only":                      "cached identity: DecodeBinary computes it from the decoded hashable fields (createHash), it is not wire data",
	"pkg/network/payload.P2PNotaryRequest.binary.hash.dec-only":       "cached identity computed from the two decoded transactions (isValid), not wire data",
	"pkg/crypto/keys.PublicKey.binary.Curve.dec-only":                 "the binary form is a compressed secp256r1 point: the decoder fixes the curve, the encoder has nothing to write for it",
	"pkg/smartcontract/manifest.Manifest.stackitem.Features.dec-only": "reserved member: ToStackItem emits a constant empty map, FromStackItem accepts only an empty map and sets the empty value",
}

type fieldUse struct {
	set   map[*types.Var]bool
	reads map[*types.Var]bool // decoders only: fields the decoder reads (context the caller supplies)
	whole bool                // the whole value escapes (encoder) / is assigned (decoder)
}

func (p *Program) methodDecl(nt *types.Named, name string) *FuncDecl {
	for i := 0; i < nt.NumMethods(); i++ {
		if m := nt.Method(i); m.Name() == name {
			return p.DeclOf(m)
		}
	}
	return nil
}

// directField maps a selector rooted at the receiver to the field of the receiver's struct it goes through first.
func directField(info *types.Info, st *types.Struct, recv types.Object, se *ast.SelectorExpr) *types.Var {
	// find the innermost selector whose X is the receiver identifier
	for {
		switch x := ast.Unparen(se.X).(type) {
		case *ast.Ident:
			if info.ObjectOf(x) != recv {
				return nil
			}
			sel := info.Selections[se]
			if sel == nil || len(sel.Index()) == 0 {
				return nil
			}
			if sel.Kind() == types.FieldVal {
				return st.Field(sel.Index()[0])
			}
			if len(sel.Index()) > 1 { // method promoted through an embedded field
				return st.Field(sel.Index()[0])
			}
			return nil
		case *ast.SelectorExpr:
			se = x
		case *ast.IndexExpr:
			if s, ok := ast.Unparen(x.X).(*ast.SelectorExpr); ok {
				se = s
			} else {
				return nil
			}
		case *ast.StarExpr:
			if s, ok := ast.Unparen(x.X).(*ast.SelectorExpr); ok {
				se = s
			} else {
				return nil
			}
		default:
			return nil
		}
	}
}

func scanCodecSide(p *Program, nt *types.Named, st *types.Struct, fd *FuncDecl, decoder bool, use *fieldUse, seen map[*FuncDecl]bool, depth int) {
	if fd == nil || fd.Decl.Body == nil || fd.Decl.Recv == nil || len(fd.Decl.Recv.List[0].Names) == 0 || seen[fd] || depth > 3 {
		return
	}
	seen[fd] = true
	info := fd.Pkg.TypesInfo
	recv := info.ObjectOf(fd.Decl.Recv.List[0].Names[0])
	isRecv := func(e ast.Expr) bool {
		e = ast.Unparen(e)
		if s, ok := e.(*ast.StarExpr); ok {
			e = ast.Unparen(s.X)
		}
		if u, ok := e.(*ast.UnaryExpr); ok && u.Op == token.AND {
			e = ast.Unparen(u.X)
		}
		id, ok := e.(*ast.Ident)
		return ok && info.ObjectOf(id) == recv
	}
	lhs := map[ast.Expr]bool{}
	ast.Inspect(fd.Decl.Body, func(n ast.Node) bool {
		switch x := n.(type) {
		case *ast.AssignStmt:
			for i, l := range x.Lhs {
				lhs[ast.Unparen(l)] = true
				if decoder {
					if isRecv(l) { // *t = ...
						marked := false
						if len(x.Rhs) == len(x.Lhs) {
							r := ast.Unparen(x.Rhs[i])
							if u, ok := r.(*ast.UnaryExpr); ok && u.Op == token.AND {
								r = ast.Unparen(u.X)
							}
							if cl, ok := r.(*ast.CompositeLit); ok && len(cl.Elts) > 0 {
								if _, keyed := cl.Elts[0].(*ast.KeyValueExpr); keyed {
									for _, el := range cl.Elts {
										if kv, ok := el.(*ast.KeyValueExpr); ok {
											if id, ok := kv.Key.(*ast.Ident); ok {
												if v, ok := info.ObjectOf(id).(*types.Var); ok && v.IsField() {
													use.set[v] = true
												}
											}
										}
									}
									marked = true
								}
							}
						}
						if !marked {
							use.whole = true
						}
					} else if se, ok := ast.Unparen(l).(*ast.SelectorExpr); ok {
						if f := directField(info, st, recv, se); f != nil {
							use.set[f] = true
						}
					} else if ie, ok := ast.Unparen(l).(*ast.IndexExpr); ok {
						if se, ok := ast.Unparen(ie.X).(*ast.SelectorExpr); ok {
							if f := directField(info, st, recv, se); f != nil {
								use.set[f] = true
							}
						}
					}
				}
			}
		case *ast.UnaryExpr:
			if x.Op == token.AND && decoder {
				if se, ok := ast.Unparen(x.X).(*ast.SelectorExpr); ok {
					if f := directField(info, st, recv, se); f != nil {
						use.set[f] = true
					}
				}
				if ie, ok := ast.Unparen(x.X).(*ast.IndexExpr); ok {
					if se, ok := ast.Unparen(ie.X).(*ast.SelectorExpr); ok {
						if f := directField(info, st, recv, se); f != nil {
							use.set[f] = true
						}
					}
				}
			}
		case *ast.CallExpr:
			// method on the receiver itself: follow
			if se, ok := ast.Unparen(x.Fun).(*ast.SelectorExpr); ok {
				if id, ok := ast.Unparen(se.X).(*ast.Ident); ok && info.ObjectOf(id) == recv {
					if m, ok := info.ObjectOf(se.Sel).(*types.Func); ok {
						sel := info.Selections[se]
						if sel != nil && len(sel.Index()) > 1 {
							// promoted method of an embedded field: the embedded field is used as a whole
							use.set[st.Field(sel.Index()[0])] = true
						} else {
							scanCodecSide(p, nt, st, p.DeclOf(m), decoder, use, seen, depth+1)
						}
					}
				} else if decoder {
					// pointer-receiver method called on a field: recv.f.DecodeBinary(r)
					if inner, ok := ast.Unparen(se.X).(*ast.SelectorExpr); ok {
						if m, ok := info.ObjectOf(se.Sel).(*types.Func); ok {
							if sig, ok := m.Type().(*types.Signature); ok && sig.Recv() != nil {
								if f := directField(info, st, recv, inner); f != nil {
									if _, isPtr := sig.Recv().Type().(*types.Pointer); isPtr {
										use.set[f] = true
									}
								}
							}
						}
					}
				}
			}
			if decoder {
				for _, a := range x.Args {
					a = ast.Unparen(a)
					if sl, ok := a.(*ast.SliceExpr); ok {
						if se, ok := ast.Unparen(sl.X).(*ast.SelectorExpr); ok {
							if f := directField(info, st, recv, se); f != nil {
								use.set[f] = true // r.ReadBytes(t.f[:]) fills the field
							}
						}
					}
				}
			}
			// the receiver handed to a function as a whole
			for _, a := range x.Args {
				if isRecv(a) {
					// handed to a module function: follow it if it is a plain function with the receiver as parameter
					followed := false
					if callee := calleeFunc(info, x); callee != nil && InModule(callee.Pkg()) {
						if cd := p.DeclOf(callee); cd != nil && cd.Decl.Recv == nil {
							followed = scanHelperWithParam(p, nt, st, cd, x, a, decoder, use, depth)
						}
					}
					if !followed {
						use.whole = true
					}
				}
			}
		case *ast.SelectorExpr:
			if !lhs[x] {
				if f := directField(info, st, recv, x); f != nil {
					if decoder {
						use.reads[f] = true
					} else {
						use.set[f] = true
					}
				}
			}
		case *ast.ReturnStmt:
			if !decoder {
				for _, r := range x.Results {
					if isRecv(r) {
						use.whole = true
					}
				}
			}
		case *ast.CompositeLit:
			if !decoder {
				for _, el := range x.Elts {
					e := el
					if kv, ok := el.(*ast.KeyValueExpr); ok {
						e = kv.Value
					}
					if isRecv(e) {
						use.whole = true
					}
				}
			}
		}
		return true
	})
}

// scanHelperWithParam follows the receiver into a plain helper function: the parameter that receives it plays the
// receiver's part there.
func scanHelperWithParam(p *Program, nt *types.Named, st *types.Struct, cd *FuncDecl, call *ast.CallExpr, arg ast.Expr, decoder bool, use *fieldUse, depth int) bool {
	if depth > 2 || cd.Decl.Body == nil {
		return false
	}
	idx := -1
	for i, a := range call.Args {
		if a == arg {
			idx = i
		}
	}
	if idx < 0 {
		return false
	}
	var pname *ast.Ident
	pi := 0
	for _, fld := range cd.Decl.Type.Params.List {
		for _, n := range fld.Names {
			if pi == idx {
				pname = n
			}
			pi++
		}
	}
	if pname == nil {
		return false
	}
	// the parameter must be of the struct's (pointer) type, otherwise it is an interface and everything may be used
	pt := cd.Pkg.TypesInfo.ObjectOf(pname).Type()
	if pp, ok := pt.(*types.Pointer); ok {
		pt = pp.Elem()
	}
	if !types.Identical(pt, nt) {
		return false
	}
	fake := &FuncDecl{Pkg: cd.Pkg, Obj: cd.Obj, Decl: &ast.FuncDecl{Name: cd.Decl.Name, Type: cd.Decl.Type, Body: cd.Decl.Body,
		Recv: &ast.FieldList{List: []*ast.Field{{Names: []*ast.Ident{pname}}}}}}
	scanCodecSide(p, nt, st, fake, decoder, use, map[*FuncDecl]bool{}, depth+1)
	return true
}

func ruleCodecFields(c *Ctx) {
	debug := os.Getenv("NV_CODECFIELDS") != ""
	type inst struct {
		nt  *types.Named
		st  *types.Struct
		pkg string
	}
	var insts []inst
	for _, pk := range c.P.Pkgs {
		rel := pkgRel(pk.Types)
		if !strings.HasPrefix(rel, "pkg/") || strings.HasPrefix(rel, "pkg/rpcclient") || strings.HasPrefix(rel, "pkg/compiler") || strings.HasPrefix(rel, "pkg/interop") || strings.HasPrefix(rel, "pkg/neotest") {
			continue
		}
		sc := pk.Types.Scope()
		for _, n := range sc.Names() {
			tn, ok := sc.Lookup(n).(*types.TypeName)
			if !ok || tn.IsAlias() {
				continue
			}
			nt, ok := tn.Type().(*types.Named)
			if !ok {
				continue
			}
			st, ok := nt.Underlying().(*types.Struct)
			if !ok || st.NumFields() == 0 {
				continue
			}
			insts = append(insts, inst{nt, st, rel})
		}
	}
	sort.Slice(insts, func(i, j int) bool {
		return insts[i].pkg+"."+insts[i].nt.Obj().Name() < insts[j].pkg+"."+insts[j].nt.Obj().Name()
	})
	npairs := 0
	usedOK := map[string]bool{}
	for _, in := range insts {
		for _, fam := range codecFamilies {
			enc, dec := c.P.methodDecl(in.nt, fam.enc), c.P.methodDecl(in.nt, fam.dec)
			if enc == nil || dec == nil || enc.Decl.Body == nil || dec.Decl.Body == nil {
				continue
			}
			npairs++
			r := &fieldUse{set: map[*types.Var]bool{}, reads: map[*types.Var]bool{}}
			w := &fieldUse{set: map[*types.Var]bool{}, reads: map[*types.Var]bool{}}
			scanCodecSide(c.P, in.nt, in.st, enc, false, r, map[*FuncDecl]bool{}, 0)
			scanCodecSide(c.P, in.nt, in.st, dec, true, w, map[*FuncDecl]bool{}, 0)
			base := in.pkg + "." + in.nt.Obj().Name() + "." + fam.name
			if len(r.set) == 0 && !r.whole || len(w.set) == 0 && !w.whole {
				// one side touches no field directly (delegates to another representation): nothing to compare
				c.Unclassified("codec-fields."+base, c.P.Pos(enc.Decl.Pos()), "one side touches no field of the type directly (delegation to another representation)")
				continue
			}
			for i := 0; i < in.st.NumFields(); i++ {
				f := in.st.Field(i)
				inR := r.whole || r.set[f]
				inW := w.whole || w.set[f]
				if inR == inW || (inR && r.whole) || (inW && w.whole) {
					continue // nothing can be attributed to a field when the whole value is handed over
				}
				if inR && !inW && w.reads[f] {
					continue // the decoder itself consults the field: context supplied by whoever created the value
				}
				dir := "enc-only"
				pos := enc.Decl.Pos()
				msg := fmt.Sprintf("%s.%s: field %s is written out by %s but never restored by %s: a round trip loses it", in.pkg, in.nt.Obj().Name(), f.Name(), fam.enc, fam.dec)
				if inW {
					dir = "dec-only"
					pos = dec.Decl.Pos()
					msg = fmt.Sprintf("%s.%s: field %s is restored by %s but %s never writes it out", in.pkg, in.nt.Obj().Name(), f.Name(), fam.dec, fam.enc)
				}
				key := base + "." + f.Name() + "." + dir
				if debug {
					fmt.Fprintf(os.Stderr, "CODECFIELDS %s  rwhole=%v wwhole=%v  %s\n", key, r.whole, w.whole, c.P.Pos(pos))
				}
				if why, ok := codecFieldsOK[key]; ok {
					usedOK[key] = true
					c.OK("codec-fields."+key, c.P.Pos(pos), "tabled asymmetry: "+why)
					continue
				}
				c.Fail("codec-fields."+key, c.P.Pos(pos), msg)
			}
			c.OK("codec-fields."+base, c.P.Pos(enc.Decl.Pos()), fmt.Sprintf("%d fields compared between %s and %s", in.st.NumFields(), fam.enc, fam.dec))
		}
	}
	for k := range codecFieldsOK {
		if !usedOK[k] {
			c.Note("tabled asymmetry %s no longer occurs", k)
		}
	}
	c.Floor("codec pairs with field comparison", npairs, 60)
}

// ---------------------------------------------------------------------------
// copy-complete (generic): a method Copy/Clone of a struct type that builds its result field by field (composite
// literal or assignments) names every field of the struct, or the field is tabled with the reason it is left out
// (caches that are recomputed). A copy that starts from the whole value (`cp := *t`, `*cp = *t`) is complete by
// construction.
var copyCompleteOK = map[string]string{
	"pkg/network/payload.P2PNotaryRequest.Copy.hash":     "cached identity, recomputed lazily by Hash() from the copied transactions",
	"pkg/neorpc.NotificationFilter.Copy.parametersCache": "lazily rebuilt from Parameters by ParametersSI()",
}

func ruleCopyComplete(c *Ctx, floor int, pkgs ...string) {
	debug := os.Getenv("NV_CODECFIELDS") != ""
	want := map[string]bool{}
	for _, p := range pkgs {
		want[p] = true
	}
	n := 0
	for _, fd := range c.P.AllFuncDecls() {
		if fd.Decl.Recv == nil || fd.Decl.Body == nil || len(fd.Decl.Recv.List[0].Names) == 0 {
			continue
		}
		switch fd.Decl.Name.Name {
		case "Copy", "Clone", "Dup", "copy", "clone":
		default:
			continue
		}
		rel := pkgRel(fd.Pkg.Types)
		if !want[rel] {
			continue
		}
		sig := fd.Obj.Type().(*types.Signature)
		rt := sig.Recv().Type()
		if p, ok := rt.(*types.Pointer); ok {
			rt = p.Elem()
		}
		nt, ok := rt.(*types.Named)
		if !ok {
			continue
		}
		st, ok := nt.Underlying().(*types.Struct)
		if !ok || st.NumFields() == 0 || sig.Params().Len() != 0 {
			continue
		}
		info := fd.Pkg.TypesInfo
		recv := info.ObjectOf(fd.Decl.Recv.List[0].Names[0])
		set := map[*types.Var]bool{}
		whole := false
		isT := func(t types.Type) bool {
			if p, ok := t.(*types.Pointer); ok {
				t = p.Elem()
			}
			return types.Identical(t, nt)
		}
		derefRecv := func(e ast.Expr) bool {
			e = ast.Unparen(e)
			if s, ok := e.(*ast.StarExpr); ok {
				e = ast.Unparen(s.X)
			}
			id, ok := e.(*ast.Ident)
			return ok && info.ObjectOf(id) == recv
		}
		ast.Inspect(fd.Decl.Body, func(x ast.Node) bool {
			switch s := x.(type) {
			case *ast.CompositeLit:
				if t := info.TypeOf(s); t != nil && isT(t) {
					if len(s.Elts) > 0 {
						if _, keyed := s.Elts[0].(*ast.KeyValueExpr); !keyed {
							whole = true
						}
					}
					for _, el := range s.Elts {
						if kv, ok := el.(*ast.KeyValueExpr); ok {
							if id, ok := kv.Key.(*ast.Ident); ok {
								if v, ok := info.ObjectOf(id).(*types.Var); ok && v.IsField() {
									set[v] = true
								}
							}
						}
					}
				}
			case *ast.AssignStmt:
				for i, l := range s.Lhs {
					if len(s.Rhs) == len(s.Lhs) && derefRecv(s.Rhs[i]) {
						if t := info.TypeOf(s.Rhs[i]); t != nil {
							if _, isPtr := t.(*types.Pointer); !isPtr && isT(t) {
								whole = true // cp := *t / *cp = *t
							}
						}
					}
					if se, ok := ast.Unparen(l).(*ast.SelectorExpr); ok {
						if sel := info.Selections[se]; sel != nil && sel.Kind() == types.FieldVal && isT(sel.Recv()) {
							set[st.Field(sel.Index()[0])] = true
						}
					}
				}
			case *ast.ValueSpec:
				for _, v := range s.Values {
					if derefRecv(v) {
						if t := info.TypeOf(v); t != nil {
							if _, isPtr := t.(*types.Pointer); !isPtr && isT(t) {
								whole = true
							}
						}
					}
				}
			case *ast.ReturnStmt:
				for _, r := range s.Results {
					if derefRecv(r) {
						whole = true // value receiver returned as is
					}
				}
			case *ast.CallExpr:
				// delegation to another copy method of the same type, or a constructor taking the receiver's fields
				if callee := calleeFunc(info, s); callee != nil && callee != fd.Obj {
					if cs, ok := callee.Type().(*types.Signature); ok && cs.Recv() != nil && isT(cs.Recv().Type()) {
						switch callee.Name() {
						case "Copy", "Clone", "Dup", "copy", "clone":
							whole = true
						}
					}
				}
			}
			return true
		})
		n++
		base := rel + "." + nt.Obj().Name() + "." + fd.Decl.Name.Name
		if whole {
			c.OK("copy-complete."+base, c.P.Pos(fd.Decl.Pos()), "copy starts from the whole value")
			continue
		}
		if len(set) == 0 {
			c.Unclassified("copy-complete."+base, c.P.Pos(fd.Decl.Pos()), "result is not built from fields of the type")
			continue
		}
		for i := 0; i < st.NumFields(); i++ {
			f := st.Field(i)
			if set[f] {
				continue
			}
			key := base + "." + f.Name()
			if debug {
				fmt.Fprintf(os.Stderr, "COPYCOMPLETE %s %s\n", key, c.P.Pos(fd.Decl.Pos()))
			}
			if why, ok := copyCompleteOK[key]; ok {
				c.OK("copy-complete."+key, c.P.Pos(fd.Decl.Pos()), "tabled: "+why)
				continue
			}
			c.Fail("copy-complete."+key, c.P.Pos(fd.Decl.Pos()), fmt.Sprintf("%s.%s builds its result field by field and leaves out %s: the copy differs from the original in that field", nt.Obj().Name(), fd.Decl.Name.Name, f.Name()))
		}
		c.OK("copy-complete."+base, c.P.Pos(fd.Decl.Pos()), fmt.Sprintf("%d fields", st.NumFields()))
	}
	c.Floor("copy methods of struct types", n, floor)
}

// ---------------------------------------------------------------------------
// encode-pure (C17): encoding a value does not change it. For every encoder method (EncodeBinary,
// EncodeBinaryWithContext, MarshalJSON, ToStackItem, Bytes) with a pointer receiver - and the methods of the same
// receiver it calls - no field of the receiver is assigned, except fields tabled as lazily filled caches. An encoder
// that marks the value while writing it (a flag bit or-ed into a field) hands every later reader of that value a
// different one: the block that was just stored is then compared with Halt and is not.
var encodePureOK = map[string]string{
	"pkg/core/mpt#bytes":                  "BaseNode cache of the node's own encoding, filled on first use and invalidated by every structural change",
	"pkg/core/mpt#bytesValid":             "validity flag of that cache",
	"pkg/core/mpt#hash":                   "BaseNode cache of the node hash",
	"pkg/core/mpt#hashValid":              "validity flag of that cache",
	"pkg/core/block#hash":                 "cached identity, computed from the hashable fields on first use",
	"pkg/core/transaction#hash":           "cached identity",
	"pkg/core/transaction#hashed":         "validity flag of the cached identity",
	"pkg/core/transaction#size":           "cached size of the encoding",
	"pkg/network/payload#Data":            "consensus.Payload derives the extensible payload's Data from its message once, while Data is nil (encodeData)",
	"pkg/network/payload#ValidBlockStart": "set together with Data by encodeData (constant 0)",
	"pkg/network/payload#ValidBlockEnd":   "set together with Data by encodeData (the block index)",
	"pkg/network/payload#hash":            "cached identity",
	"pkg/core/state#hash":                 "cached identity",
}

func ruleEncodePure(c *Ctx) {
	enc := map[string]bool{"EncodeBinary": true, "EncodeBinaryWithContext": true, "MarshalJSON": true, "ToStackItem": true, "Bytes": true, "EncodeHashableFields": true, "encodeHashableFields": true}
	n := 0
	for _, fd := range c.P.AllFuncDecls() {
		if fd.Decl.Recv == nil || fd.Decl.Body == nil || !enc[fd.Decl.Name.Name] || len(fd.Decl.Recv.List[0].Names) == 0 {
			continue
		}
		rel := pkgRel(fd.Pkg.Types)
		if !strings.HasPrefix(rel, "pkg/") || strings.HasPrefix(rel, "pkg/rpcclient") || strings.HasPrefix(rel, "pkg/compiler") || strings.HasPrefix(rel, "pkg/neotest") || rel == "pkg/io" {
			continue
		}
		sig := fd.Obj.Type().(*types.Signature)
		pt, ok := sig.Recv().Type().(*types.Pointer)
		if !ok {
			continue // a value receiver cannot change the caller's value
		}
		nt, ok := pt.Elem().(*types.Named)
		if !ok {
			continue
		}
		if _, ok := nt.Underlying().(*types.Struct); !ok {
			continue
		}
		n++
		seen := map[*FuncDecl]bool{}
		var scan func(md *FuncDecl, depth int)
		scan = func(md *FuncDecl, depth int) {
			if md == nil || md.Decl.Body == nil || md.Decl.Recv == nil || len(md.Decl.Recv.List[0].Names) == 0 || seen[md] || depth > 2 {
				return
			}
			seen[md] = true
			info := md.Pkg.TypesInfo
			recv := info.ObjectOf(md.Decl.Recv.List[0].Names[0])
			ast.Inspect(md.Decl.Body, func(x ast.Node) bool {
				switch y := x.(type) {
				case *ast.AssignStmt:
					for _, l := range y.Lhs {
						se, ok := ast.Unparen(l).(*ast.SelectorExpr)
						if !ok {
							continue
						}
						id, ok := ast.Unparen(se.X).(*ast.Ident)
						if !ok || info.ObjectOf(id) != recv {
							continue
						}
						v, ok := info.ObjectOf(se.Sel).(*types.Var)
						if !ok || !v.IsField() {
							continue
						}
						key := "encode-pure." + rel + "." + nt.Obj().Name() + "." + fd.Decl.Name.Name + "." + v.Name()
						if why, ok := encodePureOK[symOf(v)]; ok {
							c.OK(key, c.P.Pos(y.Pos()), "tabled cache field: "+why)
						} else {
							c.Fail(key, c.P.Pos(y.Pos()), fmt.Sprintf("%s.%s changes the value it encodes: field %s is assigned in %s", nt.Obj().Name(), fd.Decl.Name.Name, v.Name(), FuncKey(md.Obj)))
						}
					}
				case *ast.CallExpr:
					if se, ok := ast.Unparen(y.Fun).(*ast.SelectorExpr); ok {
						if id, ok := ast.Unparen(se.X).(*ast.Ident); ok && info.ObjectOf(id) == recv {
							if m, ok := info.ObjectOf(se.Sel).(*types.Func); ok {
								scan(c.P.DeclOf(m), depth+1)
							}
						}
					}
				}
				return true
			})
		}
		scan(fd, 0)
		c.OK("encode-pure."+rel+"."+nt.Obj().Name()+"."+fd.Decl.Name.Name, c.P.Pos(fd.Decl.Pos()), "encoder examined")
	}
	c.Floor("pointer-receiver encoders", n, 40)
}
