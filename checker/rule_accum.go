package main

import (
	"fmt"
	"go/ast"
	"go/token"
	"go/types"
	"os"
	"strings"
)

// loop-accumulator: a boolean that is to say "some element needs X" / "all elements satisfy Y" after a loop must be
// accumulated monotonically: set to a constant (and the loop left, or the constant never taken back), or combined
// with its previous value (x = x || e, x = x && e). An assignment x = e inside the loop, with e computed from the
// current element only, makes the last element decide for all of them. Decided for the boolean locals of the scanned
// packages that are assigned inside a loop and read after it.
func ruleLoopAccumulator(c *Ctx, pkgs ...string) {
	want := map[string]bool{}
	for _, p := range pkgs {
		want[p] = true
	}
	n := 0
	for _, fd := range c.P.AllFuncDecls() {
		if !want[pkgRel(fd.Pkg.Types)] || fd.Decl.Body == nil {
			continue
		}
		info := fd.Pkg.TypesInfo
		idx := 0
		var loops []ast.Stmt
		ast.Inspect(fd.Decl.Body, func(x ast.Node) bool {
			switch l := x.(type) {
			case *ast.ForStmt:
				loops = append(loops, l)
			case *ast.RangeStmt:
				loops = append(loops, l)
			}
			return true
		})
		for _, loop := range loops {
			var body *ast.BlockStmt
			switch l := loop.(type) {
			case *ast.ForStmt:
				body = l.Body
			case *ast.RangeStmt:
				body = l.Body
			}
			ast.Inspect(body, func(x ast.Node) bool {
				if _, ok := x.(*ast.FuncLit); ok {
					return false
				}
				as, ok := x.(*ast.AssignStmt)
				if !ok || as.Tok != token.ASSIGN || len(as.Lhs) != 1 || len(as.Rhs) != 1 {
					return true
				}
				id, ok := as.Lhs[0].(*ast.Ident)
				if !ok {
					return true
				}
				v, ok := info.ObjectOf(id).(*types.Var)
				if !ok || !isBoolType(v.Type()) || v.IsField() {
					return true
				}
				// declared outside the loop?
				if v.Pos() >= loop.Pos() && v.Pos() <= loop.End() {
					return true
				}
				// read after the loop?
				readAfter := false
				ast.Inspect(fd.Decl.Body, func(y ast.Node) bool {
					if u, ok := y.(*ast.Ident); ok && u.Pos() > loop.End() && info.ObjectOf(u) == v {
						readAfter = true
					}
					return true
				})
				if !readAfter {
					return true
				}
				n++
				idx++
				key := fmt.Sprintf("%s.%s#%d", FuncKey(fd.Obj), "flag", idx)
				rhs := ast.Unparen(as.Rhs[0])
				if _, isC := boolConst(info, rhs); isC {
					c.OK(key, c.P.Pos(as.Pos()), "set to a constant inside the loop")
					return true
				}
				self := false
				ast.Inspect(rhs, func(y ast.Node) bool {
					if u, ok := y.(*ast.Ident); ok && info.ObjectOf(u) == v {
						self = true
					}
					return true
				})
				if self {
					c.OK(key, c.P.Pos(as.Pos()), "combined with its previous value")
					return true
				}
				// only assigned while still unset/set: the enclosing condition tests the flag itself
				guarded := false
				ast.Inspect(body, func(y ast.Node) bool {
					is, ok := y.(*ast.IfStmt)
					if !ok || !containsNode(is.Body, as) {
						return true
					}
					ast.Inspect(is.Cond, func(z ast.Node) bool {
						if u, ok := z.(*ast.Ident); ok && info.ObjectOf(u) == v {
							guarded = true
						}
						return true
					})
					return true
				})
				if guarded {
					c.OK(key, c.P.Pos(as.Pos()), "assigned only under a test of the flag itself")
					return true
				}
				// followed, in the same block, by leaving the loop?
				leaves := false
				ast.Inspect(body, func(y ast.Node) bool {
					blk, ok := y.(*ast.BlockStmt)
					if !ok {
						return true
					}
					for i, st := range blk.List {
						if st == ast.Stmt(as) {
							for _, nx := range blk.List[i+1:] {
								switch b := nx.(type) {
								case *ast.BranchStmt:
									if b.Tok == token.BREAK || b.Tok == token.GOTO {
										leaves = true
									}
								case *ast.ReturnStmt:
									leaves = true
								}
							}
						}
					}
					return true
				})
				if leaves {
					c.OK(key, c.P.Pos(as.Pos()), "the loop is left right after the assignment")
					return true
				}
				if os.Getenv("NV_ACCUM") != "" {
					fmt.Println("ACCUM", c.P.Pos(as.Pos()), FuncKey(fd.Obj), types.ExprString(as.Lhs[0]), "=", types.ExprString(rhs))
				}
				c.Fail(key, c.P.Pos(as.Pos()), fmt.Sprintf("%s assigns %s = %s inside a loop and reads it after the loop: the value computed for the last element overwrites what earlier elements established (accumulate with ||/&&, or set a constant and leave the loop)", FuncKey(fd.Obj), id.Name, trunc(types.ExprString(rhs), 60)))
				return true
			})
		}
	}
	c.OK("scope."+strings.Join(pkgs, "+"), "", fmt.Sprintf("%d boolean flags assigned in a loop and read after it examined", n))
}
