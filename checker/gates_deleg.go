package main

import (
	"go/ast"
	"go/types"
	"strings"

	"golang.org/x/tools/go/cfg"
)

// Helper delegation. A check that a refactoring moved into a helper still protects the target if
//   (1) inside the helper the check gates the helper's own success exit (nil error / `true`), and
//   (2) in the caller the helper's failure outcome gates the target (`if err := h(..); err != nil { return }`).
// Both parts are decided by the same gate engine; parameter/local symbols of the original guard are dropped
// inside the helper (names change across the call), program symbols must still be mentioned.

type helperCall struct {
	fd     *FuncDecl
	target string // "ok-return" or "return-true"
}

func (f *FuncCFG) helperCalls(p *Program, self *types.Func) []helperCall {
	seen := map[*types.Func]bool{}
	var out []helperCall
	inspectNoLit(f.Body, func(n ast.Node) bool {
		call, ok := n.(*ast.CallExpr)
		if !ok {
			return true
		}
		fd := staticCalleeDecl(p, f.Info, call)
		if fd == nil || fd.Decl.Body == nil || fd.Obj == self || seen[fd.Obj] {
			return true
		}
		sig := fd.Obj.Type().(*types.Signature)
		if sig.Results().Len() == 0 {
			return true
		}
		last := sig.Results().At(sig.Results().Len() - 1).Type()
		switch {
		case isErrorType(last):
			seen[fd.Obj] = true
			out = append(out, helperCall{fd, "ok-return"})
		case sig.Results().Len() == 1 && isBoolType(last):
			seen[fd.Obj] = true
			out = append(out, helperCall{fd, "return-true"})
		}
		return true
	})
	return out
}

func helperTargets(h *FuncCFG, target string) map[*cfg.Block]bool {
	switch target {
	case "ok-return":
		return blocksOf(h.OKReturns())
	case "return-true":
		var sites []site
		for _, r := range h.Returns() {
			rs := r.node.(*ast.ReturnStmt)
			if len(rs.Results) == 0 {
				continue
			}
			// every exit that is not the literal `false` may report success
			if v, isConst := boolConst(h.Info, rs.Results[0]); !(isConst && !v) {
				sites = append(sites, r)
			}
		}
		return blocksOf(sites)
	}
	return nil
}

func stripLocalSyms(g Guard) (Guard, bool) {
	ng := g
	ng.Alts = nil
	for _, alt := range g.Alts {
		var na []string
		for _, s := range alt {
			if strings.HasPrefix(s, "param:") || strings.HasPrefix(s, "param#") || s == "recv" || strings.HasPrefix(s, "local:") || strings.HasPrefix(s, "local<-") {
				continue
			}
			na = append(na, s)
		}
		if len(na) == 0 {
			return g, false
		}
		ng.Alts = append(ng.Alts, na)
	}
	return ng, true
}

// delegatedGate: is guard g enforced for the targets through a helper called by f?
func delegatedGate(p *Program, f *FuncCFG, self *types.Func, region ast.Node, from []*cfg.Block, targets map[*cfg.Block]bool, g Guard, assume *Assume, depth int) (bool, string) {
	if depth > 2 {
		return false, ""
	}
	hg, ok := stripLocalSyms(g)
	if !ok {
		return false, ""
	}
	for _, hc := range f.helperCalls(p, self) {
		h := p.NewFuncCFG(hc.fd)
		if h == nil {
			continue
		}
		ht := helperTargets(h, hc.target)
		if len(ht) == 0 {
			continue
		}
		inner := h.CheckGate(h.Entry(), ht, hg, assume)
		innerMsg := inner.Msg
		if !inner.OK {
			ok2, m2 := delegatedGate(p, h, hc.fd.Obj, nil, h.Entry(), ht, hg, assume, depth+1)
			if !ok2 {
				continue
			}
			innerMsg = m2
		}
		// the helper's failure outcome must gate the target in the caller
		outer := f.CheckGateIn(region, from, targets, Guard{ID: g.ID, Doc: g.Doc, Alts: [][]string{{symOf(hc.fd.Obj)}}}, assume)
		if outer.OK {
			return true, "through helper " + FuncKey(hc.fd.Obj) + " (" + innerMsg + "; its failure leaves: " + strings.Join(outer.GatePos, "; ") + ")"
		}
	}
	return false, ""
}

// delegatedMustCall: every path to the targets passes a call of a helper that itself calls one of syms on every
// path to its success exit.
func delegatedMustCall(p *Program, f *FuncCFG, self *types.Func, from []*cfg.Block, targets map[*cfg.Block]bool, assume *Assume, syms []string, depth int) (bool, string) {
	if depth > 2 {
		return false, ""
	}
	for _, hc := range f.helperCalls(p, self) {
		h := p.NewFuncCFG(hc.fd)
		if h == nil {
			continue
		}
		ht := helperTargets(h, hc.target)
		if len(ht) == 0 {
			continue
		}
		inner, _ := h.CheckMustCall(h.Entry(), ht, nil, syms...)
		if !inner {
			if ok2, _ := delegatedMustCall(p, h, hc.fd.Obj, h.Entry(), ht, nil, syms, depth+1); !ok2 {
				continue
			}
		}
		if ok, _ := f.CheckMustCall(from, targets, assume, symOf(hc.fd.Obj)); ok {
			return true, "through helper " + FuncKey(hc.fd.Obj)
		}
	}
	return false, ""
}
