package main

import (
	"fmt"
	"go/ast"
	"go/token"
	"go/types"
	"sort"
	"strings"

	"golang.org/x/tools/go/cfg"
	"golang.org/x/tools/go/ssa"
)

// C02 stage-machine: resumable reset / jump are switch-with-fallthrough machines over stateChangeStage.
func ruleStageMachine(c *Ctx) {
	jumpTipRecorded(c)
	atomicStage(c)
	pk := c.P.Pkg("pkg/core")
	if pk == nil {
		c.Lost("anchor", "pkg/core not found")
		return
	}
	info := pk.TypesInfo
	stageSym := "pkg/core/storage.SYSStateChangeStage"
	nmach := 0
	for _, fd := range c.P.AllFuncDecls() {
		if fd.Pkg != pk || fd.Decl.Body == nil {
			continue
		}
		sws := constSwitches(info, fd.Decl.Body, "pkg/core", "stateChangeStage")
		if len(sws) == 0 {
			continue
		}
		f := c.P.NewFuncCFG(fd)
		for _, arms := range sws {
			if len(arms) < 3 {
				continue
			}
			nmach++
			name := fd.Decl.Name.Name
			sw := arms[0].Switch
			labels := map[string]int{}
			var def *switchArm
			for i := range arms {
				if arms[i].Default {
					def = &arms[i]
				}
				for _, l := range arms[i].Consts {
					labels[l] = i
				}
			}
			// default rejects
			if def == nil {
				c.Fail(name+".default", c.P.Pos(sw.Pos()), name+": the stage switch has no default arm: an unknown persisted stage would silently skip every step")
			} else if m := armDirectMentions(f, *def); m["fmt.Errorf"] || m["errors.New"] {
				c.OK(name+".default", c.P.Pos(def.Clause.Pos()), "an unknown persisted stage is an error")
			} else {
				c.Fail(name+".default", c.P.Pos(def.Clause.Pos()), name+": the default arm of the stage switch does not return an error")
			}
			// the stage key variable
			var keyObj types.Object
			for o, ds := range f.defs {
				for _, d := range ds {
					for _, r := range d.rhs {
						if f.DirectMentions(r)[stageSym] {
							keyObj = o
						}
					}
				}
			}
			if keyObj == nil {
				c.Lost(name+".stage-key", "no local holding the SYSStateChangeStage key")
				continue
			}
			isMarkerPut := func(call *ast.CallExpr) (string, bool) {
				if f.calleeSym(call) != "pkg/core/storage.(*MemCachedStore).Put" || len(call.Args) != 2 {
					return "", false
				}
				if id, ok := ast.Unparen(call.Args[0]).(*ast.Ident); !ok || info.ObjectOf(id) != keyObj {
					return "", false
				}
				// value: []byte{[stateResetBit |] byte(<stage>)}
				var stage string
				ast.Inspect(call.Args[1], func(n ast.Node) bool {
					if id, ok := n.(*ast.Ident); ok {
						if cst, ok := info.ObjectOf(id).(*types.Const); ok && namedTypeIs(cst.Type(), "pkg/core", "stateChangeStage") {
							stage = id.Name
						}
					}
					return true
				})
				return stage, stage != ""
			}
			for i, arm := range arms {
				if arm.Default || len(arm.Consts) == 0 {
					continue
				}
				lbl := arm.Consts[0]
				// marker puts in this clause
				var puts []*ast.CallExpr
				var stages []string
				for _, s := range arm.Body {
					inspectNoLit(s, func(n ast.Node) bool {
						if call, ok := n.(*ast.CallExpr); ok {
							if st, ok := isMarkerPut(call); ok {
								puts = append(puts, call)
								stages = append(stages, st)
							}
						}
						return true
					})
				}
				hasFall := len(arm.Body) > 0 && isFallthrough(arm.Body[len(arm.Body)-1])
				if len(puts) == 0 {
					if len(arm.Body) == 0 || (!hasFall && onlyComments(arm.Body)) {
						c.OK(name+".clause."+lbl, c.P.Pos(arm.Clause.Pos()), "final clause: nothing to do, the common tail follows")
						continue
					}
					c.Fail(name+".clause."+lbl+".marker", c.P.Pos(arm.Clause.Pos()), fmt.Sprintf("%s: stage %s does work but records no stage marker: a crash after it restarts the work of this stage on already changed data", name, lbl))
					continue
				}
				// (c) the marker names the next clause
				last := stages[len(stages)-1]
				if j, ok := labels[last]; !ok {
					c.Fail(name+".clause."+lbl+".next", c.P.Pos(puts[len(puts)-1].Pos()), fmt.Sprintf("%s: stage %s records marker %s, for which the machine has no clause: a restart cannot resume", name, lbl, last))
				} else if j != i+1 {
					c.Fail(name+".clause."+lbl+".next", c.P.Pos(puts[len(puts)-1].Pos()), fmt.Sprintf("%s: stage %s records marker %s, but the interrupted run continues with clause %v: a restart resumes somewhere else than the uninterrupted run", name, lbl, last, arms[min(i+1, len(arms)-1)].Consts))
				} else {
					c.OK(name+".clause."+lbl+".next", c.P.Pos(puts[len(puts)-1].Pos()), fmt.Sprintf("stage %s ends by recording %s, the label of the next clause", lbl, last))
				}
				// (b) after the marker a persist of the same layer follows before the clause is left, and nothing else
				// is written to that layer in between
				put := puts[len(puts)-1]
				layer := rootObj(info, put.Fun.(*ast.SelectorExpr).X)
				persisted := false
				dirtyBetween := ""
				after := false
				for _, s := range arm.Body {
					inspectNoLit(s, func(n ast.Node) bool {
						call, ok := n.(*ast.CallExpr)
						if !ok {
							return true
						}
						if call == put {
							after = true
							return true
						}
						if !after || persisted {
							return true
						}
						cs := f.calleeSym(call)
						se, isSel := call.Fun.(*ast.SelectorExpr)
						if !isSel {
							return true
						}
						sameLayer := rootObj(info, se.X) == layer
						if sameLayer && (strings.HasSuffix(cs, ".PersistSync") || strings.HasSuffix(cs, ".Persist")) {
							persisted = true
							return true
						}
						if sameLayer && (strings.Contains(cs, ".Put") || strings.Contains(cs, ".Delete") || strings.Contains(cs, ".Store") || strings.Contains(cs, ".Purge")) {
							dirtyBetween = shortSym(cs)
						}
						return true
					})
				}
				switch {
				case !persisted:
					c.Fail(name+".clause."+lbl+".persist", c.P.Pos(put.Pos()), fmt.Sprintf("%s: stage %s records its marker but does not persist the layer it wrote it to before the next stage starts", name, lbl))
				case dirtyBetween != "":
					c.Fail(name+".clause."+lbl+".persist", c.P.Pos(put.Pos()), fmt.Sprintf("%s: stage %s writes to the layer (%s) after recording the marker and before persisting: the marker no longer is the last thing of the stage", name, lbl, dirtyBetween))
				default:
					c.OK(name+".clause."+lbl+".persist", c.P.Pos(put.Pos()), "marker is the last write of the stage and the layer is persisted before the next stage")
				}
				if !hasFall && i+1 < len(arms) && !arms[i+1].Default && len(arms[i+1].Body) > 0 && !onlyComments(arms[i+1].Body) {
					c.Fail(name+".clause."+lbl+".fallthrough", c.P.Pos(arm.Clause.Pos()), fmt.Sprintf("%s: stage %s does not fall through into the next stage, which has work to do", name, lbl))
				}
			}
			// resumable reads: a value captured before the switch from a field that a stage changes must not be used
			// after that stage (a resumed run captures the changed value instead)
			type mod struct {
				root types.Object
				fld  string
				arm  int
			}
			var mods []mod
			for i, arm := range arms {
				for _, s := range arm.Body {
					for _, w := range nodeWrites(info, s, false) {
						if as, ok := w.Node.(*ast.AssignStmt); ok {
							for _, l := range as.Lhs {
								if se, ok := ast.Unparen(l).(*ast.SelectorExpr); ok && symOf(info.ObjectOf(se.Sel)) == w.Field {
									if r := rootObj(info, se.X); r != nil {
										mods = append(mods, mod{r, w.Field, i})
									}
								}
							}
						}
					}
				}
			}
			nstale := 0
			for o, ds := range f.defs {
				for _, d := range ds {
					if d.node.Pos() >= sw.Pos() {
						continue
					}
					for _, r := range d.rhs {
						for _, m := range mods {
							if rootObj(info, r) != m.root || !f.DirectMentions(r)[m.fld] {
								continue
							}
							// the modifying clause keeps the captured local in step (assigns it or one of its fields)
							inStep := false
							for _, st := range arms[m.arm].Body {
								ast.Inspect(st, func(n ast.Node) bool {
									if as, ok := n.(*ast.AssignStmt); ok {
										for _, l := range as.Lhs {
											if rootObj(info, l) == o {
												inStep = true
											}
										}
									}
									return true
								})
							}
							if inStep {
								continue
							}
							// uses of o after the modifying clause
							ast.Inspect(fd.Decl.Body, func(n ast.Node) bool {
								id, ok := n.(*ast.Ident)
								if !ok || info.Uses[id] != o {
									return true
								}
								if id.Pos() > arms[m.arm].Clause.End() {
									nstale++
									c.Fail(fmt.Sprintf("%s.stale-capture.%s", name, o.Name()), c.P.Pos(id.Pos()), fmt.Sprintf("%s: %s is captured from %s before the stage switch, stage %v changes (and persists) that field, and %s is used after it: an uninterrupted run uses the old value, a run resumed after that stage captures the new one", name, o.Name(), types.ExprString(r), arms[m.arm].Consts, o.Name()))
								}
								return true
							})
						}
					}
				}
			}
			if nstale == 0 {
				c.OK(name+".stale-capture", c.P.Pos(sw.Pos()), fmt.Sprintf("no value captured before the switch from a field that one of the %d stages modifies is used after that stage", len(arms)))
			}
			// (e) the tail removes the marker and persists
			tailDel := false
			ast.Inspect(fd.Decl.Body, func(n ast.Node) bool {
				if call, ok := n.(*ast.CallExpr); ok && call.Pos() > sw.End() && f.calleeSym(call) == "pkg/core/storage.(*MemCachedStore).Delete" && len(call.Args) == 1 {
					if id, ok := ast.Unparen(call.Args[0]).(*ast.Ident); ok && info.ObjectOf(id) == keyObj {
						tailDel = true
					}
				}
				return true
			})
			if tailDel {
				c.OK(name+".marker-removed", c.P.Pos(sw.End()), "the common tail removes the stage marker")
				stageTailClosed(c, name, fd, f, sw.End(), keyObj)
			} else {
				c.Fail(name+".marker-removed", c.P.Pos(sw.End()), name+": the stage marker is never removed after the last stage: every restart would resume the finished operation")
			}
		}
	}
	c.Floor("stage machines", nmach, 2)
	// start-up dispatches on the marker
	if in := c.P.Func("pkg/core", "Blockchain", "init"); in != nil {
		m := c.P.NewFuncCFG(in).Mentions(in.Decl.Body, nil)
		if m[stageSym] && m[symBC+"resetStateInternal"] && m[symBC+"jumpToStateInternal"] {
			c.OK("init.resumes", c.P.Pos(in.Decl.Pos()), "Blockchain.init reads the stage marker and resumes reset / jump")
		} else {
			c.Fail("init.resumes", c.P.Pos(in.Decl.Pos()), "Blockchain.init no longer resumes an interrupted reset/jump from the persisted stage marker")
		}
	} else {
		c.Lost("init.anchor", "Blockchain.init not found")
	}
}

func isFallthrough(s ast.Stmt) bool {
	b, ok := s.(*ast.BranchStmt)
	return ok && b.Tok.String() == "fallthrough"
}

func onlyComments(ss []ast.Stmt) bool {
	for _, s := range ss {
		if _, ok := s.(*ast.EmptyStmt); !ok {
			return false
		}
	}
	return true
}

// ruleResumePath: what the start-up path needs before it can dispatch on the stage marker must survive every stage,
// and in-memory state a stage establishes must be re-established when that stage is skipped on resume.
func ruleResumePath(c *Ctx) {
	pk := c.P.Pkg("pkg/core")
	in := c.P.Func("pkg/core", "Blockchain", "init")
	if pk == nil || in == nil {
		c.Lost("anchor", "Blockchain.init not found")
		return
	}
	info := pk.TypesInfo
	f := c.P.NewFuncCFG(in)
	g := c.P.MRG()
	// position of the dispatch: the condition testing the result of reading the stage marker
	var dispatchPos ast.Node
	inspectNoLit(in.Decl.Body, func(n ast.Node) bool {
		if call, ok := n.(*ast.CallExpr); ok && dispatchPos == nil && f.DirectMentions(call)["pkg/core/storage.SYSStateChangeStage"] {
			dispatchPos = call
		}
		return true
	})
	if dispatchPos == nil {
		c.Lost("init.dispatch", "Blockchain.init does not read the stage marker")
		return
	}
	// module functions called by init before the dispatch
	var pre []*ssa.Function
	var preNames []string
	inspectNoLit(in.Decl.Body, func(n ast.Node) bool {
		call, ok := n.(*ast.CallExpr)
		if !ok || call.Pos() >= dispatchPos.Pos() {
			return true
		}
		var fo *types.Func
		switch fn := ast.Unparen(call.Fun).(type) {
		case *ast.Ident:
			fo, _ = info.ObjectOf(fn).(*types.Func)
		case *ast.SelectorExpr:
			fo, _ = info.ObjectOf(fn.Sel).(*types.Func)
		}
		if fo != nil && InModule(fo.Pkg()) {
			if sf := c.P.SSAFunc(fo.Origin()); sf != nil {
				pre = append(pre, sf)
				preNames = append(preNames, fo.Name())
			}
		}
		return true
	})
	preReach := g.Reach(pre, nil)
	readers := map[string]string{"pkg/core/dao.(*Simple).GetBlock": "block/header records", "pkg/core/dao.(*Simple).GetHeader": "block/header records", "pkg/core/dao.(*Simple).getBlock": "block/header records"}
	deleters := map[string]string{"pkg/core/dao.(*Simple).DeleteBlock": "block/header records", "pkg/core/dao.(*Simple).PurgeHeader": "block/header records"}
	needs := map[string]string{} // data class -> reader path
	for fn := range preReach {
		if cls, ok := readers[FnKey(fn)]; ok {
			if _, seen := needs[cls]; !seen {
				needs[cls] = strings.Join(g.PathTo(preReach, fn), " -> ")
			}
		}
	}
	c.Floor("module calls made by init before the stage dispatch", len(pre), 3)
	// stage clauses that delete such data before a later stage marker is recorded
	for _, fd := range c.P.AllFuncDecls() {
		if fd.Pkg != pk || fd.Decl.Body == nil {
			continue
		}
		sws := constSwitches(info, fd.Decl.Body, "pkg/core", "stateChangeStage")
		for _, arms := range sws {
			if len(arms) < 3 {
				continue
			}
			mf := c.P.NewFuncCFG(fd)
			name := fd.Decl.Name.Name
			recv := mf.recvObj(fd)
			for i, arm := range arms {
				if arm.Default || len(arm.Consts) == 0 {
					continue
				}
				lbl := arm.Consts[0]
				for _, s := range arm.Body {
					ast.Inspect(s, func(n ast.Node) bool {
						call, ok := n.(*ast.CallExpr)
						if !ok {
							return true
						}
						cs := mf.calleeSym(call)
						// (1) deletes what the start-up path reads before dispatching; harmless only in the last working stage
						inLoop := false
						for _, st2 := range arm.Body {
							ast.Inspect(st2, func(q ast.Node) bool {
								switch l := q.(type) {
								case *ast.ForStmt:
									if containsNode(l, call) {
										inLoop = true
									}
								case *ast.RangeStmt:
									if containsNode(l, call) {
										inLoop = true
									}
								}
								return true
							})
						}
						movesPointer := false
						for _, st2 := range arm.Body {
							ast.Inspect(st2, func(q ast.Node) bool {
								if qc, ok := q.(*ast.CallExpr); ok && mf.calleeSym(qc) == "pkg/core/dao.(*Simple).PutCurrentHeader" {
									movesPointer = true
								}
								return true
							})
						}
						// a whole range of recent blocks is removed while the current-header pointer init starts from stays
						if cls, ok := deleters[cs]; ok && needs[cls] != "" && i+2 < len(arms) && inLoop && !movesPointer {
							c.Fail(fmt.Sprintf("%s.stage.%s.deletes-startup-data.%s", name, lbl, shortSym(cs)), c.P.Pos(call.Pos()),
								fmt.Sprintf("%s: stage %s deletes %s (%s), which Blockchain.init reads BEFORE it looks at the stage marker (%s): after a crash once this stage has persisted, the node cannot start and therefore cannot resume", name, lbl, cls, shortSym(cs), needs[cls]))
						}
						// (2) in-memory state of a long-lived module established only inside this clause
						se, isSel := call.Fun.(*ast.SelectorExpr)
						if !isSel || recv == nil || rootObj(info, se.X) != recv {
							return true
						}
						fo, _ := info.ObjectOf(se.Sel).(*types.Func)
						if fo == nil || fo.Pkg() == nil || !InModule(fo.Pkg()) || fo.Pkg() == pk.Types {
							return true
						}
						if rel := pkgRel(fo.Pkg()); rel == "pkg/core/dao" || rel == "pkg/core/storage" {
							return true // the persistent layers: their in-memory content is what the stages persist
						}
						sig := fo.Type().(*types.Signature)
						if sig.Recv() == nil {
							return true
						}
						rt := sig.Recv().Type()
						if p, ok := rt.(*types.Pointer); ok {
							rt = p.Elem()
						}
						nt, ok := rt.(*types.Named)
						if !ok {
							return true
						}
						if _, isStruct := nt.Underlying().(*types.Struct); !isStruct {
							return true
						}
						// does the callee (transitively, in its package) write fields of its receiver type?
						ws := c.P.PkgWriteSummary(pkgRel(fo.Pkg()))
						st := nt.Underlying().(*types.Struct)
						var memFields []string
						for j := 0; j < st.NumFields(); j++ {
							if ws.Trans[fo.Origin()][symOf(st.Field(j))] {
								memFields = append(memFields, st.Field(j).Name())
							}
						}
						if len(memFields) == 0 {
							return true
						}
						readBeforeEstablish(c, fmt.Sprintf("%s.stage.%s", name, lbl), fo.Origin(), st)
						// is the same module state (re)established outside the clauses (before the switch or in the tail)?
						sw := arm.Switch
						reestablished := false
						ast.Inspect(fd.Decl.Body, func(m ast.Node) bool {
							oc, ok := m.(*ast.CallExpr)
							if !ok || (oc.Pos() >= sw.Pos() && oc.End() <= sw.End()) {
								return true
							}
							ose, ok := oc.Fun.(*ast.SelectorExpr)
							if !ok {
								return true
							}
							ofo, _ := info.ObjectOf(ose.Sel).(*types.Func)
							if ofo == nil || ofo.Pkg() == nil {
								return true
							}
							// direct call on the same module, or a Blockchain method that calls into it
							var tw map[string]bool
							if ofo.Pkg() == fo.Pkg() {
								tw = ws.Trans[ofo.Origin()]
							} else if ofo.Pkg() == pk.Types {
								if od := c.P.DeclOf(ofo); od != nil {
									tw = map[string]bool{}
									ast.Inspect(od.Decl.Body, func(q ast.Node) bool {
										if qc, ok := q.(*ast.CallExpr); ok {
											if qs, ok := qc.Fun.(*ast.SelectorExpr); ok {
												if qf, _ := info.ObjectOf(qs.Sel).(*types.Func); qf != nil && qf.Pkg() == fo.Pkg() {
													for k, v := range ws.Trans[qf.Origin()] {
														if v {
															tw[k] = true
														}
													}
												}
											}
										}
										return true
									})
								}
							}
							all := len(tw) > 0
							for j := 0; j < st.NumFields(); j++ {
								s := symOf(st.Field(j))
								if ws.Trans[fo.Origin()][s] && !tw[s] {
									all = false
								}
							}
							if all {
								reestablished = true
							}
							return true
						})
						key := fmt.Sprintf("%s.stage.%s.in-memory-only.%s.%s", name, lbl, nt.Obj().Name(), fo.Name())
						if reestablished {
							c.OK(key, c.P.Pos(call.Pos()), fmt.Sprintf("%s.%s sets in-memory state (%s) that the common path sets as well", nt.Obj().Name(), fo.Name(), strings.Join(memFields, ",")))
						} else if i+1 < len(arms) {
							c.Fail(key, c.P.Pos(call.Pos()), fmt.Sprintf("%s: stage %s calls %s.%s, which also sets in-memory state of the module (%s); a run resumed from a later stage skips this clause and nothing on the common path sets that state: the module stays uninitialised after the resumed operation", name, lbl, nt.Obj().Name(), fo.Name(), strings.Join(memFields, ",")))
						}
						return true
					})
				}
			}
		}
	}
	if len(needs) == 0 {
		c.OK("init.pre-dispatch-reads", c.P.Pos(in.Decl.Pos()), "the start-up path reads no block/header records before dispatching on the stage marker")
	} else {
		c.Note("init reads before dispatch via %s: %v", strings.Join(preNames, ","), needs)
	}
}

func (f *FuncCFG) recvObj(fd *FuncDecl) types.Object {
	if fd.Decl.Recv == nil || len(fd.Decl.Recv.List) != 1 || len(fd.Decl.Recv.List[0].Names) != 1 {
		return nil
	}
	return f.Info.Defs[fd.Decl.Recv.List[0].Names[0]]
}

// readBeforeEstablish: a module method called by a stage establishes in-memory state of the module (fields it
// writes). A run resumed after a crash enters it with that state unset (start-up returns into the stage machine
// before the module is initialised), so the method must not read such a field before it has written it.
func readBeforeEstablish(c *Ctx, keyBase string, fo *types.Func, st *types.Struct) {
	fd := c.P.DeclOf(fo)
	if fd == nil || fd.Decl.Body == nil {
		return
	}
	f := c.P.NewFuncCFG(fd)
	ws := c.P.PkgWriteSummary(pkgRel(fo.Pkg()))
	for j := 0; j < st.NumFields(); j++ {
		fld := symOf(st.Field(j))
		isAtomic := strings.HasPrefix(st.Field(j).Type().String(), "sync/atomic.")
		if len(ws.Direct[fo][fld]) == 0 && !isAtomic {
			continue // established by a callee: not followed
		}
		// sync/atomic fields are written through their Store/Swap/Add methods
		atomicWrite := func(n ast.Node) (ast.Node, bool) {
			var hit ast.Node
			inspectNoLit(n, func(x ast.Node) bool {
				call, ok := x.(*ast.CallExpr)
				if !ok {
					return true
				}
				m, ok := call.Fun.(*ast.SelectorExpr)
				if !ok {
					return true
				}
				switch m.Sel.Name {
				case "Store", "Swap", "Add", "CompareAndSwap":
				default:
					return true
				}
				if se, ok := ast.Unparen(m.X).(*ast.SelectorExpr); ok && symOf(f.Info.ObjectOf(se.Sel)) == fld {
					hit = se
				}
				return true
			})
			return hit, hit != nil
		}
		writes := map[*cfg.Block]token.Pos{}
		type rd struct {
			b   *cfg.Block
			pos token.Pos
		}
		var reads []rd
		for _, b := range f.G.Blocks {
			if !b.Live {
				continue
			}
			for _, n := range b.Nodes {
				wrote := false
				for _, w := range nodeWrites(f.Info, n, false) {
					if w.Field == fld {
						wrote = true
						if p, ok := writes[b]; !ok || n.Pos() < p {
							writes[b] = n.Pos()
						}
					}
				}
				if wrote {
					continue
				}
				var skip ast.Node
				if isAtomic {
					if se, ok := atomicWrite(n); ok {
						skip = se
						if p, ok := writes[b]; !ok || n.Pos() < p {
							writes[b] = n.Pos()
						}
					}
				}
				inspectNoLit(n, func(x ast.Node) bool {
					if se, ok := x.(*ast.SelectorExpr); ok && x != skip && symOf(f.Info.ObjectOf(se.Sel)) == fld {
						reads = append(reads, rd{b, se.Pos()})
					}
					return true
				})
			}
		}
		if len(writes) == 0 {
			continue
		}
		key := fmt.Sprintf("%s.%s.reads-own-state.%s", keyBase, fo.Name(), st.Field(j).Name())
		wblocks := map[*cfg.Block]bool{}
		for b := range writes {
			wblocks[b] = true
		}
		r := f.reach(f.Entry(), wblocks, nil)
		bad := token.NoPos
		for _, x := range reads {
			if wp, ok := writes[x.b]; ok {
				// same block: the read must come after the write; and the block must not be reachable unwritten
				if x.pos < wp {
					for _, p := range f.preds[x.b] {
						if _, ok := r[p]; ok {
							bad = x.pos
						}
					}
					if x.b == f.G.Blocks[0] {
						bad = x.pos
					}
				}
				continue
			}
			if _, ok := r[x.b]; ok {
				bad = x.pos
			}
		}
		if bad != token.NoPos {
			c.Fail(key, c.P.Pos(bad), fmt.Sprintf("%s reads the module's in-memory %s before establishing it: on a run resumed after a crash the module is not initialised when the stage machine calls it, so the value read is the zero value, not the one the interrupted run saw", FuncKey(fo), st.Field(j).Name()))
		} else {
			c.OK(key, c.P.Pos(fd.Decl.Pos()), fmt.Sprintf("%s does not read %s before establishing it", FuncKey(fo), st.Field(j).Name()))
		}
	}
}

// stageTailClosed: everything the operation writes to the store is in, or before, the batch that removes the stage
// marker. A store write made after that batch was persisted reaches disk only with some later flush: a crash in
// between leaves a database that has no marker (so nothing resumes) and lacks the write.
// stageTailCut: callees whose store writes are start-up normalisations repeated by every start (one reason each).
var stageTailCut = map[string]string{
	"pkg/core.(*HeaderHashes).init": "rebuilds the in-memory header index; what it writes (the trusted header pointer of an empty database, compacted header-hash pages) is written again by the next start-up if lost",
}

func stageTailClosed(c *Ctx, name string, fd *FuncDecl, f *FuncCFG, after token.Pos, keyObj types.Object) {
	info := fd.Pkg.TypesInfo
	var del, persist *ast.CallExpr
	ast.Inspect(fd.Decl.Body, func(n ast.Node) bool {
		call, ok := n.(*ast.CallExpr)
		if !ok || call.Pos() <= after {
			return true
		}
		cs := f.calleeSym(call)
		if del == nil && cs == "pkg/core/storage.(*MemCachedStore).Delete" && len(call.Args) == 1 {
			if id, ok := ast.Unparen(call.Args[0]).(*ast.Ident); ok && info.ObjectOf(id) == keyObj {
				del = call
			}
		}
		if del != nil && persist == nil && call.Pos() > del.End() && (strings.HasSuffix(cs, "(*MemCachedStore).Persist") || strings.HasSuffix(cs, "(*MemCachedStore).PersistSync") || strings.HasSuffix(cs, "(*Simple).Persist") || strings.HasSuffix(cs, "(*Simple).PersistSync")) {
			persist = call
		}
		return true
	})
	key := name + ".tail-closed"
	if del == nil || persist == nil {
		c.Unclassified(key, c.P.Pos(fd.Decl.Pos()), "the tail does not persist the marker removal in a recognisable way")
		return
	}
	mut := c.P.storeMutators()
	g := c.P.MRG()
	var bad []string
	ast.Inspect(fd.Decl.Body, func(n ast.Node) bool {
		call, ok := n.(*ast.CallExpr)
		if !ok || call.Pos() <= persist.End() {
			return true
		}
		d := staticCalleeDecl(c.P, info, call)
		if d == nil {
			return true
		}
		sf := c.P.SSAFunc(d.Obj)
		if sf == nil {
			return true
		}
		reach := g.Reach([]*ssa.Function{sf}, func(e *MEdge) bool {
			_, cut := stageTailCut[FnKey(e.Callee.Fn)]
			return cut
		})
		for fn := range reach {
			if mut[fn] {
				bad = append(bad, fmt.Sprintf("%s at %s (reaches %s)", FuncKey(d.Obj), c.P.Pos(call.Pos()), FnKey(fn)))
				break
			}
		}
		return true
	})
	if len(bad) > 0 {
		sort.Strings(bad)
		c.Fail(key, c.P.Pos(persist.Pos()), name+": store writes after the batch that removes the stage marker: "+strings.Join(bad, "; ")+" - a crash before the next flush leaves no marker to resume from and not these writes")
	} else {
		c.OK(key, c.P.Pos(persist.Pos()), "nothing after the marker-removing persist writes to the store")
	}
}

// gc-keeps-startup-page: HeaderHashes.init unconditionally loads the last complete page of header hashes
// (GetHeaderHashes(storedHeaderCount - batch)) when the node starts. Whatever deletes pages of that key space on disk
// (SeekGC over IXHeaderHashList) must therefore bound itself by the current header height, not only by the
// traceability index it was given: with MaxTraceableBlocks below the page size the index passes the last complete page.
// startupWalkProtected: the second thing HeaderHashes.init reads unconditionally are the block records of the page
// that is not stored yet - it walks them from the current header down to the last stored page, or down to the
// genesis block while no page is complete. Whoever deletes block records from the bottom up must therefore know
// about pages: every call of dao.DeleteBlock in package core lies in a function that tests or computes with
// headerBatchCount before the call (the collector aligns its target, the state jump keeps the genesis block while
// there is no complete page); the top-down removal of the state reset is tabled - it is known finding 10.
func startupWalkProtected(c *Ctx) {
	tabled := map[string]string{"pkg/core.(*Blockchain).resetStateInternal": "removes blocks from the top down; what that does to an interrupted reset is known finding 10 (resume-path)"}
	pk := c.P.Pkg("pkg/core")
	if pk == nil {
		return
	}
	n := 0
	for _, fd := range c.P.AllFuncDecls() {
		if fd.Pkg != pk || fd.Decl.Body == nil {
			continue
		}
		f := c.P.NewFuncCFG(fd)
		sites := f.CallSites("pkg/core/dao.(*Simple).DeleteBlock")
		if len(sites) == 0 {
			continue
		}
		n++
		key := "startup-walk." + FuncKey(fd.Obj)
		if why, ok := tabled[FuncKey(fd.Obj)]; ok {
			c.OK(key, c.P.Pos(sites[0].call.Pos()), "tabled: "+why)
			continue
		}
		aware := false
		ast.Inspect(fd.Decl.Body, func(x ast.Node) bool {
			if id, ok := x.(*ast.Ident); ok && id.Pos() < sites[0].call.Pos() {
				if cst, ok := f.Info.ObjectOf(id).(*types.Const); ok && cst.Name() == "headerBatchCount" && cst.Pkg() == pk.Types {
					aware = true
				}
			}
			return true
		})
		if aware {
			c.OK(key, c.P.Pos(sites[0].call.Pos()), "deletes block records in a function that takes the header-hash page size into account first")
		} else {
			c.Fail(key, c.P.Pos(sites[0].call.Pos()), fmt.Sprintf("%s deletes a block record without regard to header-hash pages: HeaderHashes.init restores the hashes of the page that is not stored yet by walking block records down to the last stored page - down to the genesis block while there is none - so on a chain shorter than one page the node cannot start any more once the record is gone", FuncKey(fd.Obj)))
		}
	}
	c.Floor("functions deleting block records", n, 3)
}

func ruleGCKeepsStartupPage(c *Ctx) {
	startupWalkProtected(c)
	const symGC, symPfx, symHH = "pkg/core/storage.(Store).SeekGC", "pkg/core/storage.IXHeaderHashList", "pkg/core.(*HeaderHashes).HeaderHeight"
	// the reader: init loads a page
	if fd := c.P.Func("pkg/core", "HeaderHashes", "init"); fd != nil {
		f := c.P.NewFuncCFG(fd)
		if len(f.CallSites("pkg/core/dao.(*Simple).GetHeaderHashes")) == 0 {
			c.Lost("reader", "HeaderHashes.init no longer loads a page of header hashes: the rule's premise is gone")
		}
	} else {
		c.Lost("reader", "HeaderHashes.init not found")
	}
	n := 0
	for _, fd := range c.P.AllFuncDecls() {
		if fd.Decl.Body == nil || pkgRel(fd.Obj.Pkg()) != "pkg/core" {
			continue
		}
		f := c.P.NewFuncCFG(fd)
		for _, s := range f.CallSites(symGC) {
			if len(s.call.Args) != 2 || !f.Mentions(s.call.Args[0], s.blk)[symPfx] {
				continue
			}
			lit, ok := ast.Unparen(s.call.Args[1]).(*ast.FuncLit)
			if !ok {
				continue
			}
			n++
			key := FuncKey(fd.Obj) + ".page-bound"
			// the captured variables the callback compares page numbers with
			bounded, inMemory := false, false
			var boundNames []string
			ast.Inspect(lit.Body, func(x ast.Node) bool {
				be, ok := x.(*ast.BinaryExpr)
				if !ok {
					return true
				}
				switch be.Op {
				case token.LSS, token.LEQ, token.GTR, token.GEQ:
				default:
					return true
				}
				for _, side := range []ast.Expr{be.X, be.Y} {
					ast.Inspect(side, func(y ast.Node) bool {
						id, ok := y.(*ast.Ident)
						if !ok {
							return true
						}
						v, ok := f.Info.ObjectOf(id).(*types.Var)
						if !ok || v.IsField() || v.Pos() >= lit.Pos() { // declared inside the callback: not a captured bound
							return true
						}
						boundNames = append(boundNames, v.Name())
						if m := f.Mentions(id, s.blk); m["pkg/core#persistedHeight"] {
							bounded = true
						} else if m[symHH] || m["pkg/core.(*Blockchain).HeaderHeight"] || m["pkg/core.(*Blockchain).BlockHeight"] {
							inMemory = true
						}
						return true
					})
				}
				return true
			})
			if bounded && !inMemory {
				c.OK(key, c.P.Pos(s.call.Pos()), "the page bound of the header-hash collector depends on the persisted height: the page start-up loads from the database is kept")
			} else if inMemory {
				c.Fail(key, c.P.Pos(s.call.Pos()), fmt.Sprintf("%s bounds the header-hash pages it deletes on disk by an in-memory height: blocks accepted since the last flush can push that height two pages ahead of what the database says (fast synchronisation), and the page HeaderHashes.init loads for the persisted height is deleted; after a power loss the node does not start", FuncKey(fd.Obj)))
			} else {
				c.Fail(key, c.P.Pos(s.call.Pos()), fmt.Sprintf("%s deletes header-hash pages on disk up to a bound (%s) that does not depend on the current header height, while HeaderHashes.init loads the last complete page unconditionally: with MaxTraceableBlocks below the page size a cleanly stopped node does not start ('failed to retrieve header hash page')", FuncKey(fd.Obj), strings.Join(boundNames, ", ")))
			}
		}
	}
	c.Floor("on-disk collectors of header-hash pages", n, 1)
}
