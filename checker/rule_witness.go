package main

import (
	"fmt"
	"go/ast"
	"go/token"
	"go/types"
	"sort"
	"strings"

	"golang.org/x/tools/go/cfg"
)

const txPkg = "pkg/core/transaction"

// ---------------------------------------------------------------------------
// C15 cond-tables (+ depth guard of the condition decoders, shared with C17)

// condTypeOf returns kind constant name -> Go type name, from the Type() methods.
func condKindTypes(c *Ctx) (map[string]string, map[string]*FuncDecl) {
	out := map[string]string{}
	decl := map[string]*FuncDecl{}
	pk := c.P.Pkg(txPkg)
	if pk == nil {
		return out, decl
	}
	for _, fd := range c.P.AllFuncDecls() {
		if fd.Pkg != pk || fd.Decl.Recv == nil || fd.Decl.Name.Name != "Type" || fd.Decl.Body == nil || len(fd.Decl.Body.List) != 1 {
			continue
		}
		sig := fd.Obj.Type().(*types.Signature)
		if sig.Results().Len() != 1 || !namedTypeIs(sig.Results().At(0).Type(), txPkg, "WitnessConditionType") {
			continue
		}
		rs, ok := fd.Decl.Body.List[0].(*ast.ReturnStmt)
		if !ok || len(rs.Results) != 1 {
			continue
		}
		rt := sig.Recv().Type()
		if p, ok := rt.(*types.Pointer); ok {
			rt = p.Elem()
		}
		tn := rt.(*types.Named).Obj().Name()
		k := constName(pk.TypesInfo, rs.Results[0])
		if prev, dup := out[k]; dup {
			c.Fail("kind-type.unique."+k, c.P.Pos(fd.Decl.Pos()), fmt.Sprintf("two condition types report kind %s: %s and %s", k, prev, tn))
		}
		out[k] = tn
		decl[tn] = fd
	}
	return out, decl
}

func ruleCondTables(c *Ctx) {
	pk := c.P.Pkg(txPkg)
	if pk == nil {
		c.Lost("anchor", "package transaction not found")
		return
	}
	kinds := c.P.constsOfType(txPkg, "WitnessConditionType")
	c.Floor("condition kinds", len(kinds), 9)
	kt, _ := condKindTypes(c)
	all := map[string]bool{}
	for k := range kinds {
		all[k] = true
		if _, ok := kt[k]; !ok {
			c.Fail("kind-type."+k, txPkg, "no condition type reports kind "+k+" from its Type() method")
		} else {
			c.OK("kind-type."+k, txPkg, "kind "+k+" is reported by exactly one type: "+kt[k])
		}
	}
	condTypes := map[string]bool{}
	for _, t := range kt {
		condTypes["type:"+txPkg+"."+t] = true
	}
	checkDecoder := func(name string, arms []switchArm, fd *FuncDecl) {
		f := c.P.NewFuncCFG(fd)
		seen := map[string]bool{}
		hasDefault := false
		for _, a := range arms {
			if a.Default {
				hasDefault = true
				m := armMentions(f, a)
				if m["errors.New"] || m["fmt.Errorf"] {
					c.OK(name+".default-rejects", c.P.Pos(a.Clause.Pos()), "an unknown condition kind is rejected")
				} else {
					c.Fail(name+".default-rejects", c.P.Pos(a.Clause.Pos()), name+": the default arm does not reject an unknown condition kind")
				}
				continue
			}
			want := map[string]bool{}
			for _, k := range a.Consts {
				seen[k] = true
				if t, ok := kt[k]; ok {
					want["type:"+txPkg+"."+t] = true
				}
			}
			got := map[string]bool{}
			for s := range armDirectMentions(f, a) {
				if condTypes[s] {
					got[s] = true
				}
			}
			key := name + ".arm." + strings.Join(a.Consts, "+")
			if d1, d2 := setDiff(want, got), setDiff(got, want); len(d1)+len(d2) > 0 {
				c.Fail(key, c.P.Pos(a.Clause.Pos()), fmt.Sprintf("%s: arm for %v constructs %v but the kind(s) belong to %v", name, a.Consts, sortedKeys(got), sortedKeys(want)))
			} else {
				c.OK(key, c.P.Pos(a.Clause.Pos()), fmt.Sprintf("arm for %v constructs %v", a.Consts, sortedKeys(got)))
			}
		}
		if d := setDiff(all, seen); len(d) > 0 {
			c.Fail(name+".exhaustive", c.P.Pos(fd.Decl.Pos()), fmt.Sprintf("%s has no arm for condition kinds %v (encodable but not decodable)", name, d))
		} else {
			c.OK(name+".exhaustive", c.P.Pos(fd.Decl.Pos()), fmt.Sprintf("%s has an arm for each of the %d kinds", name, len(all)))
		}
		if !hasDefault {
			c.Fail(name+".default-rejects", c.P.Pos(fd.Decl.Pos()), name+" has no default arm")
		}
	}
	for _, name := range []string{"decodeBinaryCondition", "condFromStackItem"} {
		fd := c.P.Func(txPkg, "", name)
		if fd == nil {
			c.Lost(name+".anchor", name+" not found")
			continue
		}
		sws := constSwitches(pk.TypesInfo, fd.Decl.Body, txPkg, "WitnessConditionType")
		if len(sws) == 0 {
			c.Lost(name+".switch", "no switch over the condition kind in "+name)
			continue
		}
		sort.Slice(sws, func(i, j int) bool { return len(sws[i]) > len(sws[j]) })
		checkDecoder(name, sws[0], fd)
	}
	// JSON: cases are <Kind>.String()
	if fd := c.P.Func(txPkg, "", "unmarshalConditionJSON"); fd == nil {
		c.Lost("unmarshalConditionJSON.anchor", "unmarshalConditionJSON not found")
	} else {
		var arms []switchArm
		ast.Inspect(fd.Decl.Body, func(n ast.Node) bool {
			sw, ok := n.(*ast.SwitchStmt)
			if !ok || sw.Tag == nil || len(arms) > 0 {
				return true
			}
			var as []switchArm
			str := 0
			for _, cl := range sw.Body.List {
				cc := cl.(*ast.CaseClause)
				arm := switchArm{Body: cc.Body, Clause: cc, Switch: sw, Default: cc.List == nil}
				for _, e := range cc.List {
					if call, ok := e.(*ast.CallExpr); ok {
						if se, ok := call.Fun.(*ast.SelectorExpr); ok && se.Sel.Name == "String" {
							arm.Consts = append(arm.Consts, constName(pk.TypesInfo, se.X))
							str++
						}
					}
				}
				as = append(as, arm)
			}
			if str >= 5 {
				arms = as
			}
			return true
		})
		if len(arms) == 0 {
			c.Lost("unmarshalConditionJSON.switch", "no switch over <Kind>.String() in unmarshalConditionJSON")
		} else {
			checkDecoder("unmarshalConditionJSON", arms, fd)
		}
	}
	ruleDepthGuard(c)
}

// ruleDepthGuard: recursive condition decoders carry a depth parameter that is tested and strictly decreases.
func ruleDepthGuard(c *Ctx) {
	pk := c.P.Pkg(txPkg)
	gates := []string{"decodeBinaryCondition", "condFromStackItem", "unmarshalConditionJSON"}
	isGate := map[*types.Func]bool{}
	for _, g := range gates {
		fd := c.P.Func(txPkg, "", g)
		if fd == nil {
			c.Lost("depth."+g, g+" not found")
			continue
		}
		isGate[fd.Obj] = true
		f := c.P.NewFuncCFG(fd)
		// every exit that yields a condition is gated by the depth test
		targets := blocksOf(f.OKReturns())
		if g == "decodeBinaryCondition" { // reports failure through r.Err and a nil result: the recursion step is the target
			targets = blocksOf(f.CallSites(txPkg + ".(WitnessCondition).DecodeBinarySpecific"))
			if len(targets) == 0 {
				c.Lost("depth."+g+".target", "no DecodeBinarySpecific call in "+g)
				continue
			}
		}
		// the depth parameter: the one of type int
		depthSym := ""
		pi := 0
		for _, fl := range fd.Decl.Type.Params.List {
			for range fl.Names {
				if b, ok := f.Info.TypeOf(fl.Type).Underlying().(*types.Basic); ok && b.Kind() == types.Int {
					depthSym = fmt.Sprintf("param#%d", pi)
				}
				pi++
			}
		}
		if depthSym == "" {
			c.Lost("depth."+g+".param", g+" has no int parameter carrying the remaining depth")
			continue
		}
		res := f.CheckGate(f.Entry(), targets, Guard{ID: "depth", Doc: "nesting depth exhausted => error", Alts: [][]string{{depthSym}}}, nil)
		if res.OK {
			c.OK("depth."+g+".tested", c.P.Pos(fd.Decl.Pos()), g+" tests its depth parameter before producing a condition")
		} else {
			c.Fail("depth."+g+".tested", c.P.Pos(fd.Decl.Pos()), g+" can produce a condition without testing the remaining nesting depth: "+res.Msg, res.Path...)
		}
	}
	// every call of a function with a maxDepth parameter passes maxDepth-1 into a gate function, and never more than
	// its own maxDepth into a helper; entry points pass the MaxConditionNesting constant
	n := 0
	for _, fd := range c.P.AllFuncDecls() {
		if fd.Pkg != pk || fd.Decl.Body == nil {
			continue
		}
		var own types.Object
		if oi := depthParamIndex(fd.Obj.Type().(*types.Signature)); oi >= 0 {
			own = fd.Obj.Type().(*types.Signature).Params().At(oi)
		}
		idx := 0
		ast.Inspect(fd.Decl.Body, func(x ast.Node) bool {
			call, ok := x.(*ast.CallExpr)
			if !ok {
				return true
			}
			var callee *types.Func
			switch fn := ast.Unparen(call.Fun).(type) {
			case *ast.Ident:
				callee, _ = pk.TypesInfo.ObjectOf(fn).(*types.Func)
			case *ast.SelectorExpr:
				callee, _ = pk.TypesInfo.ObjectOf(fn.Sel).(*types.Func)
			}
			if callee == nil || callee.Pkg() != pk.Types {
				return true
			}
			sig := callee.Type().(*types.Signature)
			di := depthParamIndex(sig)
			if di < 0 || di >= len(call.Args) {
				return true
			}
			n++
			idx++
			arg := ast.Unparen(call.Args[di])
			key := fmt.Sprintf("depth.call.%s#%d->%s", FuncKey(fd.Obj), idx, callee.Name())
			pos := c.P.Pos(call.Pos())
			decr := false
			same := false
			if be, ok := arg.(*ast.BinaryExpr); ok && be.Op == token.SUB {
				if id, ok := ast.Unparen(be.X).(*ast.Ident); ok && own != nil && pk.TypesInfo.ObjectOf(id) == own {
					if tv := pk.TypesInfo.Types[be.Y]; tv.Value != nil && tv.Value.String() != "0" && !strings.HasPrefix(tv.Value.String(), "-") {
						decr = true
					}
				}
			}
			if id, ok := arg.(*ast.Ident); ok && own != nil && pk.TypesInfo.ObjectOf(id) == own {
				same = true
			}
			isConstEntry := own == nil && pk.TypesInfo.Types[arg].Value != nil
			switch {
			case isConstEntry:
				c.OK(key, pos, "entry point passes the constant nesting limit "+types.ExprString(arg))
			case isGate[callee.Origin()] && decr:
				c.OK(key, pos, "recursive step passes maxDepth-1")
			case !isGate[callee.Origin()] && (decr || same):
				c.OK(key, pos, "helper receives the caller's own (or a smaller) depth")
			default:
				c.Fail(key, pos, fmt.Sprintf("%s passes %s as nesting depth to %s: the depth does not strictly decrease towards the tested decoder (unbounded recursion on crafted input)", FuncKey(fd.Obj), types.ExprString(arg), callee.Name()))
			}
			return true
		})
	}
	c.Floor("depth-carrying calls", n, 10)
}

// ---------------------------------------------------------------------------
// C15 cond-context, scope-context

func ruleCondContext(c *Ctx) {
	ruleMatchErrorFalse(c)
	// the caller-is-the-account shortcut of CheckWitness applies only when there is a caller at all
	runGates(c, []GateSpec{{
		ID: "CheckHashedWitness.caller-shortcut", Fn: [3]string{"pkg/core/interop/runtime", "", "CheckHashedWitness"}, Target: "return-true",
		Guards: []Guard{
			{ID: "caller-is-account", Doc: "the calling script hash equals the checked account", Alts: [][]string{{"param#1", "pkg/vm.(*VM).GetCallingScriptHash", "pkg/util.(Uint160).Equals"}}},
			{ID: "caller-exists", Doc: "the calling script hash is not the zero hash (entry scripts, verification scripts and verify methods have no caller)", Alts: [][]string{{"type:pkg/util.Uint160", "pkg/vm.(*VM).GetCallingScriptHash"}}},
		},
	}})
	callerComparisonsGuarded(c)
	verificationHasNoCaller(c)
	overrideOutlivesCallout(c)
	pk := c.P.Pkg(txPkg)
	if pk == nil {
		c.Lost("anchor", "package transaction not found")
		return
	}
	kt, _ := condKindTypes(c)
	// kind -> the one MatchContext method its Match must consult (NEO witness rule specification)
	table := map[string]string{
		"WitnessScriptHash":       "GetCurrentScriptHash",
		"WitnessGroup":            "CurrentScriptHasGroup",
		"WitnessCalledByEntry":    "IsCalledByEntry",
		"WitnessCalledByContract": "GetCallingScriptHash",
		"WitnessCalledByGroup":    "CallingScriptHasGroup",
	}
	mcPrefix := txPkg + ".(MatchContext)."
	for _, k := range sortedKeys(table) {
		tn, ok := kt[k]
		if !ok {
			c.Lost("match."+k, "no type for kind "+k)
			continue
		}
		fd := c.P.Func(txPkg, tn, "Match")
		if fd == nil {
			c.Lost("match."+k, tn+".Match not found")
			continue
		}
		f := c.P.NewFuncCFG(fd)
		used := map[string]bool{}
		for s := range f.Mentions(fd.Decl.Body, nil) {
			if strings.HasPrefix(s, mcPrefix) {
				used[strings.TrimPrefix(s, mcPrefix)] = true
			}
		}
		want := map[string]bool{table[k]: true}
		if d1, d2 := setDiff(want, used), setDiff(used, want); len(d1)+len(d2) > 0 {
			c.Fail("match."+k, c.P.Pos(fd.Decl.Pos()), fmt.Sprintf("%s.Match consults %v of the match context; a %s condition is defined over %s", tn, sortedKeys(used), strings.TrimPrefix(k, "Witness"), table[k]))
		} else {
			c.OK("match."+k, c.P.Pos(fd.Decl.Pos()), fmt.Sprintf("%s.Match consults exactly %s", tn, table[k]))
		}
	}
	// adapters of the runtime: calling/current are not swapped
	rt := "pkg/core/interop/runtime"
	adapter := func(method, wantSym, notSym string) {
		fd := c.P.Func(rt, "scopeContext", method)
		if fd == nil {
			c.Lost("adapter."+method, "scopeContext."+method+" not found")
			return
		}
		f := c.P.NewFuncCFG(fd)
		m := f.Mentions(fd.Decl.Body, nil)
		// every answer comes from the accessor: no return that decides without consulting it (a shortcut such as
		// "called by entry, so the caller has no groups" answers for a caller it never looked at - the entry of a
		// verification is the signer's own verify method, a contract that may well be in a group)
		shortcut := ""
		for _, r := range f.Returns() {
			ret, ok := r.node.(*ast.ReturnStmt)
			if !ok || len(ret.Results) == 0 {
				continue
			}
			rm := map[string]bool{}
			for _, e := range ret.Results {
				for k := range f.Mentions(e, r.blk) {
					rm[k] = true
				}
			}
			if !rm[wantSym] && !rm["var:error"] {
				shortcut = c.P.Pos(ret.Pos())
			}
		}
		if shortcut != "" {
			c.Fail("adapter."+method+".no-shortcut", shortcut, fmt.Sprintf("scopeContext.%s returns an answer here that does not come from %s: the question is decided without looking at the script it is about", method, shortSym(wantSym)))
		} else {
			c.OK("adapter."+method+".no-shortcut", c.P.Pos(fd.Decl.Pos()), "every answer of "+method+" comes from "+shortSym(wantSym))
		}
		if m[wantSym] && !m[notSym] {
			c.OK("adapter."+method, c.P.Pos(fd.Decl.Pos()), method+" is answered from "+shortSym(wantSym))
		} else {
			c.Fail("adapter."+method, c.P.Pos(fd.Decl.Pos()), fmt.Sprintf("scopeContext.%s must be answered from %s and not from %s", method, shortSym(wantSym), shortSym(notSym)))
		}
	}
	adapter("CallingScriptHasGroup", "pkg/vm.(*VM).GetCallingScriptHash", "pkg/vm.(*VM).GetCurrentScriptHash")
	adapter("CurrentScriptHasGroup", "pkg/vm.(*VM).GetCurrentScriptHash", "pkg/vm.(*VM).GetCallingScriptHash")
	adapter("IsCalledByEntry", "pkg/vm.(*Context).IsCalledByEntry", "pkg/vm.(*VM).GetCallingScriptHash")

	fnCS := [3]string{rt, "", "checkScope"}
	runGates(c, []GateSpec{
		{ID: "checkScope.allow", Fn: fnCS, Target: "allow-return",
			Guards: []Guard{{ID: "account-match", Doc: "only a signer whose account is the checked hash can witness", Alts: [][]string{{"pkg/core/transaction#Account", "param#1"}}}}},
		{ID: "checkScope.called-by-entry", Fn: fnCS, IfMentions: "pkg/core/transaction.CalledByEntry", Target: "return-true",
			Guards: []Guard{{ID: "entry-relation", Doc: "CalledByEntry allows only the entry script or a contract it calls directly", Alts: [][]string{{"pkg/vm.(*Context).IsCalledByEntry"}}}}},
		{ID: "checkScope.custom-contracts", Fn: fnCS, IfMentions: "pkg/core/transaction.CustomContracts", Target: "return-true",
			Guards: []Guard{{ID: "current-in-allowed", Doc: "CustomContracts allows only when the executing contract is listed", Alts: [][]string{{"pkg/core/transaction#AllowedContracts", "pkg/vm.(*VM).GetCurrentScriptHash", "slices.Contains"}}}}},
		{ID: "checkScope.custom-groups", Fn: fnCS, IfMentions: "pkg/core/transaction.CustomGroups", Target: "return-true",
			Guards: []Guard{{ID: "current-group-allowed", Doc: "CustomGroups allows only when a group of the executing contract is listed", Alts: [][]string{{"pkg/core/transaction#AllowedGroups", "pkg/vm.(*VM).GetCurrentScriptHash", "pkg/core/interop/runtime.getContractGroups"}}}}},
		{ID: "checkScope.rules", Fn: fnCS, IfMentions: "pkg/core/transaction.Rules", Target: "allow-return",
			Guards: []Guard{{ID: "first-matching-rule", Doc: "a rule decides only when its condition matched", Alts: [][]string{{"pkg/core/transaction.(WitnessCondition).Match"}}}}},
		{ID: "CheckHashedWitness.shortcut", Fn: [3]string{rt, "", "CheckHashedWitness"}, Target: "return-true",
			Guards: []Guard{{ID: "is-caller", Doc: "the shortcut applies only when the hash is the calling contract's", Alts: [][]string{{"pkg/vm.(*VM).GetCallingScriptHash", "param#1", "pkg/util.(Uint160).Equals"}}}}},
		{ID: "getContractGroups", Fn: [3]string{rt, "", "getContractGroups"}, Target: "call:pkg/core/interop.(*Context).GetContract",
			Guards: []Guard{{ID: "read-states", Doc: "group lookup needs the ReadStates flag", Alts: [][]string{{"pkg/smartcontract/callflag.ReadStates", symHas}}}}},
	})
	// scopes combine by "or": a scope whose test says no does not answer for the signer, the scopes after it (and the
	// rules) are still consulted. Inside the arm of CalledByEntry / CustomContracts / CustomGroups the only returns are
	// `return true, nil` and error returns; `return <test>, nil` would end the evaluation on a negative answer.
	if fd := c.P.Func(rt, "", "checkScope"); fd != nil {
		f := c.P.NewFuncCFG(fd)
		narm := 0
		ast.Inspect(fd.Decl.Body, func(x ast.Node) bool {
			is, ok := x.(*ast.IfStmt)
			if !ok {
				return true
			}
			m := f.DirectMentions(is.Cond)
			arm := ""
			for _, sc := range []string{"CalledByEntry", "CustomContracts", "CustomGroups"} {
				if m["pkg/core/transaction."+sc] && m["pkg/core/transaction#Scopes"] {
					arm = sc
				}
			}
			if arm == "" {
				return true
			}
			narm++
			bad := ""
			ast.Inspect(is.Body, func(y ast.Node) bool {
				ret, ok := y.(*ast.ReturnStmt)
				if !ok || len(ret.Results) != 2 {
					return true
				}
				if v, isC := boolConst(f.Info, ret.Results[0]); isC {
					if v {
						return true // allow
					}
					// `return false, err`
					if id, ok := ast.Unparen(ret.Results[1]).(*ast.Ident); !ok || id.Name != "nil" {
						return true
					}
				}
				bad = c.P.Pos(ret.Pos())
				return true
			})
			key := "checkScope.arm-falls-through." + arm
			if bad == "" {
				c.OK(key, c.P.Pos(is.Pos()), "a negative answer of the "+arm+" scope falls through to the scopes after it")
			} else {
				c.Fail(key, bad, "checkScope: the "+arm+" arm returns its own test result: when the test says no the evaluation ends there and the scopes that follow (the signer's rules) are never consulted - a signer with this scope and Rules set is refused where its rules allow")
			}
			return true
		})
		c.Floor("scope arms of checkScope", narm, 3)
	}
	// group answers are looked up for the very contract asked about, on every call: every use of a contract's groups
	// in the runtime package is preceded by getContractGroups in the same function (no answer reused across contracts)
	if rp := c.P.Pkg(rt); rp != nil {
		nuse := 0
		for _, d := range c.P.AllFuncDecls() {
			if d.Pkg != rp || d.Decl.Body == nil {
				continue
			}
			ff := c.P.NewFuncCFG(d)
			uses := ff.CallSites("pkg/smartcontract/manifest.(Groups).Contains")
			if len(uses) == 0 {
				continue
			}
			nuse += len(uses)
			ok, path := ff.CheckMustCall(ff.Entry(), blocksOf(uses), nil, "pkg/core/interop/runtime.getContractGroups")
			key := "groups-fresh." + FuncKey(d.Obj)
			if ok {
				c.OK(key, c.P.Pos(d.Decl.Pos()), "the groups consulted are fetched by getContractGroups on every path of this call")
			} else {
				c.Fail(key, c.P.Pos(d.Decl.Pos()), FuncKey(d.Obj)+" can answer a group question without fetching the groups of the contract asked about (a remembered answer of another contract is reused)", path...)
			}
		}
		c.Floor("uses of contract groups in the runtime package", nuse, 1)
		// the groups come from the contract's *state* (ContractManagement storage, through Context.GetContract): the
		// manifest a running frame carries is a snapshot taken when the frame was loaded, and a contract that updated or
		// destroyed itself earlier in the same invocation is no longer what that snapshot says
		nsrc := 0
		for _, d := range c.P.AllFuncDecls() {
			if d.Pkg != rp || d.Decl.Body == nil {
				continue
			}
			sig := d.Obj.Type().(*types.Signature)
			if sig.Results().Len() == 0 || !namedTypeIs(sig.Results().At(0).Type(), "pkg/smartcontract/manifest", "Groups") {
				continue
			}
			ff := c.P.NewFuncCFG(d)
			for _, rs := range ff.Returns() {
				ret, ok := rs.node.(*ast.ReturnStmt)
				if !ok || len(ret.Results) == 0 {
					continue
				}
				if id, ok := ast.Unparen(ret.Results[0]).(*ast.Ident); ok && id.Name == "nil" {
					continue
				}
				nsrc++
				key := fmt.Sprintf("groups-from-state.%s#%d", FuncKey(d.Obj), nsrc)
				m := ff.Mentions(ret.Results[0], rs.blk)
				switch {
				case m["pkg/vm.(*Context).GetManifest"]:
					c.Fail(key, c.P.Pos(ret.Pos()), FuncKey(d.Obj)+" answers a group question from the manifest snapshot of a running frame (vm.Context.GetManifest): a contract that removed its group by update, or destroyed itself, earlier in the same invocation still counts as a member")
				case m["pkg/core/interop.(*Context).GetContract"]:
					c.OK(key, c.P.Pos(ret.Pos()), "groups are read from the contract state")
				default:
					c.Fail(key, c.P.Pos(ret.Pos()), FuncKey(d.Obj)+" returns groups that do not derive from the contract state (Context.GetContract)")
				}
			}
		}
		c.Floor("group sources in the runtime package", nsrc, 1)
	}
	// what the VM is executing when it loads a script is that script's *caller*: wherever a loader passes the current
	// script hash to loadScriptWithCallingHash it is the caller argument, never the hash of the loaded script
	if ld := c.P.Func("pkg/vm", "VM", "loadScriptWithCallingHash"); ld == nil {
		c.Lost("vm.load.caller-arg.anchor", "VM.loadScriptWithCallingHash not found")
	} else {
		callerIdx := -1
		pi := 0
		for _, fl := range ld.Decl.Type.Params.List {
			for range fl.Names {
				if namedTypeIs(ld.Pkg.TypesInfo.TypeOf(fl.Type), "pkg/util", "Uint160") && callerIdx < 0 {
					callerIdx = pi // the first Uint160 parameter is the calling hash, the second the script's own hash
				}
				pi++
			}
		}
		nsite := 0
		for _, fd := range c.P.AllFuncDecls() {
			if pkgRel(fd.Pkg.Types) != "pkg/vm" || fd.Decl.Body == nil {
				continue
			}
			f := c.P.NewFuncCFG(fd)
			for _, s := range f.CallSites("pkg/vm.(*VM).loadScriptWithCallingHash") {
				for i, a := range s.call.Args {
					if cl, ok := ast.Unparen(a).(*ast.CallExpr); ok && f.calleeSym(cl) == "pkg/vm.(*VM).GetCurrentScriptHash" {
						nsite++
						key := FuncKey(fd.Obj) + ".current-is-caller"
						if i == callerIdx {
							c.OK(key, c.P.Pos(s.call.Pos()), "the executing script's hash is handed on as the calling hash of the loaded script")
						} else {
							c.Fail(key, c.P.Pos(s.call.Pos()), fmt.Sprintf("%s hands the executing script's hash to loadScriptWithCallingHash as argument %d, not as the calling hash (argument %d): the loaded script runs under its loader's identity, so scope and rule checks see the wrong current and calling contracts", FuncKey(fd.Obj), i, callerIdx))
						}
					}
				}
			}
		}
		c.Floor("loaders passing the current script hash", nsite, 2)
	}
	// entry relation: a context's calling context is linked whenever there is a parent context
	runGates(c, []GateSpec{{
		ID: "vm.load.calling-context", Fn: [3]string{"pkg/vm", "VM", "loadScriptWithCallingHash"}, Target: "write:pkg/vm#istack",
		Assume:   &Assume{Conds: []AssumeCond{{Mentions: []string{"local<-pkg/vm.(*VM).Context"}, Val: true}}},
		MustNode: [][]string{{"pkg/vm#callingContext", "local<-pkg/vm.(*VM).Context"}},
	}})
	// the rule's verdict is Action == WitnessAllow
	fd := c.P.Func(rt, "", "checkScope")
	if fd != nil {
		f := c.P.NewFuncCFG(fd)
		found := false
		for _, r := range f.Returns() {
			rs := r.node.(*ast.ReturnStmt)
			if len(rs.Results) > 0 {
				if be, ok := ast.Unparen(rs.Results[0]).(*ast.BinaryExpr); ok && be.Op == token.EQL {
					m := f.Mentions(be, r.blk)
					if m["pkg/core/transaction#Action"] && m["pkg/core/transaction.WitnessAllow"] {
						found = true
					}
				}
			}
		}
		if found {
			c.OK("checkScope.rule-verdict", c.P.Pos(fd.Decl.Pos()), "a matching rule yields Action == WitnessAllow")
		} else {
			c.Fail("checkScope.rule-verdict", c.P.Pos(fd.Decl.Pos()), "the verdict of a matching witness rule is no longer `Action == WitnessAllow`")
		}
	}
}

// ruleMatchErrorFalse: a condition whose evaluation failed (group lookup without ReadStates) matches nothing: every
// return of a Match method that can carry a non-nil error has `false` as its first result, also through negation.
func ruleMatchErrorFalse(c *Ctx) {
	pk := c.P.Pkg(txPkg)
	n := 0
	for _, fd := range c.P.AllFuncDecls() {
		if fd.Pkg != pk || fd.Decl.Body == nil || fd.Decl.Name.Name != "Match" || fd.Decl.Recv == nil {
			continue
		}
		sig := fd.Obj.Type().(*types.Signature)
		if sig.Results().Len() != 2 || !isBoolType(sig.Results().At(0).Type()) || !isErrorType(sig.Results().At(1).Type()) {
			continue
		}
		f := c.P.NewFuncCFG(fd)
		idx := 0
		for _, r := range f.Returns() {
			rs := r.node.(*ast.ReturnStmt)
			if len(rs.Results) != 2 {
				continue // forwarding `return x.Match(ctx)`
			}
			if isNilIdent(f.Info, rs.Results[1]) {
				continue
			}
			eid, ok := ast.Unparen(rs.Results[1]).(*ast.Ident)
			if !ok {
				continue // a freshly built error: fine whatever the first result, checked below only for identifiers
			}
			eobj := f.Info.ObjectOf(eid)
			if nilOnEdge(f, r.blk, eobj) {
				continue
			}
			n++
			idx++
			key := fmt.Sprintf("%s.error-means-false#%d", FuncKey(fd.Obj), idx)
			v, known := evalUnderErr(f, rs.Results[0], eobj)
			if known && !v {
				c.OK(key, c.P.Pos(rs.Pos()), "when the error is set the first result is false")
			} else {
				c.Fail(key, c.P.Pos(rs.Pos()), fmt.Sprintf("%s can return a non-nil error together with a first result that is not forced to false (`%s`): a caller that looks at the result first (Or, Not) turns a failed evaluation into a match", FuncKey(fd.Obj), types.ExprString(rs.Results[0])))
			}
		}
	}
	c.Floor("returns of Match methods that may carry an error", n, 3)
}

// evalUnderErr evaluates a boolean expression assuming `e != nil`.
func evalUnderErr(f *FuncCFG, x ast.Expr, e types.Object) (bool, bool) {
	x = ast.Unparen(x)
	if v, isC := boolConst(f.Info, x); isC {
		return v, true
	}
	switch y := x.(type) {
	case *ast.UnaryExpr:
		if y.Op == token.NOT {
			v, k := evalUnderErr(f, y.X, e)
			return !v, k
		}
	case *ast.BinaryExpr:
		switch y.Op {
		case token.LAND, token.LOR:
			lv, lk := evalUnderErr(f, y.X, e)
			rv, rk := evalUnderErr(f, y.Y, e)
			if y.Op == token.LAND {
				if (lk && !lv) || (rk && !rv) {
					return false, true
				}
				return true, lk && rk
			}
			if (lk && lv) || (rk && rv) {
				return true, true
			}
			return false, lk && rk
		case token.EQL, token.NEQ:
			var other ast.Expr
			if id, ok := ast.Unparen(y.X).(*ast.Ident); ok && f.Info.ObjectOf(id) == e {
				other = y.Y
			} else if id, ok := ast.Unparen(y.Y).(*ast.Ident); ok && f.Info.ObjectOf(id) == e {
				other = y.X
			}
			if other != nil && isNilIdent(f.Info, other) {
				return y.Op == token.NEQ, true
			}
		}
	}
	return false, false
}

// nilOnEdge: block b is entered only through edges on which o == nil is known.
func nilOnEdge(f *FuncCFG, b *cfg.Block, o types.Object) bool {
	for i := 0; i < 8; i++ {
		ps := f.preds[b]
		if len(ps) != 1 {
			return false
		}
		p := ps[0]
		if cnd := f.Cond(p); cnd != nil {
			if be, ok := ast.Unparen(cnd).(*ast.BinaryExpr); ok && (be.Op == token.NEQ || be.Op == token.EQL) {
				var other ast.Expr
				if id, ok := ast.Unparen(be.X).(*ast.Ident); ok && f.Info.ObjectOf(id) == o {
					other = be.Y
				} else if id, ok := ast.Unparen(be.Y).(*ast.Ident); ok && f.Info.ObjectOf(id) == o {
					other = be.X
				}
				if other != nil && isNilIdent(f.Info, other) {
					return (be.Op == token.NEQ && p.Succs[1] == b) || (be.Op == token.EQL && p.Succs[0] == b)
				}
			}
		}
		for _, n := range p.Nodes {
			if as, ok := n.(*ast.AssignStmt); ok {
				for _, lh := range as.Lhs {
					if id, ok := lh.(*ast.Ident); ok && f.Info.ObjectOf(id) == o {
						return false
					}
				}
			}
		}
		b = p
	}
	return false
}

// depthParamIndex: the remaining-nesting-depth parameter of a witness-condition decoder, recognised by shape, not by
// name: the only parameter of type int of a function that produces conditions (a WitnessCondition or a slice of
// them among its results) or decodes one (method of a type implementing WitnessCondition). -1 if there is none.
func depthParamIndex(sig *types.Signature) int {
	idx, n := -1, 0
	for i := 0; i < sig.Params().Len(); i++ {
		if b, ok := sig.Params().At(i).Type().Underlying().(*types.Basic); ok && b.Kind() == types.Int {
			idx = i
			n++
		}
	}
	if n != 1 {
		return -1
	}
	mentionsCond := func(t types.Type) bool {
		s := t.String()
		return strings.Contains(s, "transaction.WitnessCondition")
	}
	for i := 0; i < sig.Results().Len(); i++ {
		if mentionsCond(sig.Results().At(i).Type()) {
			return idx
		}
	}
	if r := sig.Recv(); r != nil {
		ms := types.NewMethodSet(r.Type())
		if ms.Lookup(r.Pkg(), "DecodeBinarySpecific") != nil && ms.Lookup(r.Pkg(), "Match") != nil {
			return idx
		}
	}
	return -1
}

// callerComparisonsGuarded: the VM reports "no calling contract" (entry script, verification script) as the zero
// script hash. Whoever compares the calling script hash with a hash from the transaction - the caller shortcut of
// CheckWitness, the CalledByContract condition - has to exclude that value first: otherwise a rule naming the zero
// hash is "called by" a contract that does not exist (allow CalledByContract(0) holds in the entry script, deny
// CalledByContract(0) refuses it there; the reference compares with a null caller, which equals no hash).
func callerComparisonsGuarded(c *Ctx) {
	n := 0
	for _, fd := range c.P.AllFuncDecls() {
		rel := pkgRel(fd.Pkg.Types)
		if fd.Decl.Body == nil || (rel != txPkg && rel != "pkg/core/interop/runtime") {
			continue
		}
		f := c.P.NewFuncCFG(fd)
		info := f.Info
		isCaller := func(e ast.Expr) bool {
			m := f.Mentions(e, nil)
			return m["pkg/vm.(*VM).GetCallingScriptHash"] || m["pkg/core/transaction.(MatchContext).GetCallingScriptHash"]
		}
		isZero := func(e ast.Expr) bool {
			cl, ok := ast.Unparen(e).(*ast.CompositeLit)
			return ok && len(cl.Elts) == 0 && namedTypeIs(info.TypeOf(cl), "pkg/util", "Uint160")
		}
		compares, guarded := token.NoPos, false
		ast.Inspect(fd.Decl.Body, func(x ast.Node) bool {
			var a, b ast.Expr
			switch y := x.(type) {
			case *ast.CallExpr:
				if sel, ok := y.Fun.(*ast.SelectorExpr); ok && sel.Sel.Name == "Equals" && len(y.Args) == 1 {
					a, b = sel.X, y.Args[0]
				}
			case *ast.BinaryExpr:
				if y.Op == token.EQL || y.Op == token.NEQ {
					a, b = y.X, y.Y
				}
			}
			if a == nil || info.TypeOf(a) == nil || !namedTypeIs(info.TypeOf(a), "pkg/util", "Uint160") {
				return true
			}
			switch {
			case isCaller(a) && isZero(b), isCaller(b) && isZero(a):
				guarded = true
			case isCaller(a) || isCaller(b):
				if !compares.IsValid() {
					compares = x.Pos()
				}
			}
			return true
		})
		if !compares.IsValid() {
			continue
		}
		n++
		key := "caller-exists." + FuncKey(fd.Obj)
		if guarded {
			c.OK(key, c.P.Pos(compares), "the calling script hash is tested against the zero hash where it is compared with a hash from the transaction")
		} else {
			c.Fail(key, c.P.Pos(compares), fmt.Sprintf("%s compares the calling script hash with a hash without excluding the zero hash, which the VM uses for \"there is no calling contract\": in the entry script a condition or account equal to the zero hash counts as the caller", FuncKey(fd.Obj)))
		}
	}
	c.Floor("comparisons of the calling script hash", n, 2)
}
