package main

import (
	"fmt"
	"go/ast"
	"go/token"
	"go/types"
	"os"
	"sort"
	"strings"

	"golang.org/x/tools/go/cfg"
)

// Generic lockset. For a struct type with a mutex field, every access to a guarded field through the method receiver
// happens while the receiver's mutex is held (write lock for writes), or in a method all of whose call sites inside
// the package hold it (caller-holds, derived), or in a tabled constructor/single-owner function. Which fields are
// guarded is frozen per type below; the table was derived from the access statistics of the pinned tree
// (`NV_LOCKSTATS=1` prints them) and each row was confirmed by reading.
type locksetSpec struct {
	Pkg, Type, Mutex string
	Guarded          map[string]string // field -> what it is (doc)
	Exempt           map[string]string // function key -> reason it may touch the fields without the lock
}

type lsAccess struct {
	field   string
	write   bool
	heldW   bool
	heldR   bool
	pos     token.Pos
	fn      string
	inLit   bool
	viaCall bool
}

type lsCall struct {
	callee string
	heldW  bool
	heldR  bool
	pos    token.Pos
}

func locksetGeneric(c *Ctx, sp locksetSpec) {
	pk := c.P.Pkg(sp.Pkg)
	if pk == nil {
		c.Lost(sp.Type+".anchor", "package "+sp.Pkg+" not found")
		return
	}
	tn, _ := pk.Types.Scope().Lookup(sp.Type).(*types.TypeName)
	if tn == nil {
		c.Lost(sp.Type+".anchor", "type "+sp.Type+" not found")
		return
	}
	st, _ := tn.Type().Underlying().(*types.Struct)
	if st == nil {
		c.Lost(sp.Type+".anchor", sp.Type+" is not a struct")
		return
	}
	fieldOf := map[types.Object]string{}
	hasMutex := false
	for i := 0; i < st.NumFields(); i++ {
		fieldOf[st.Field(i)] = st.Field(i).Name()
		if st.Field(i).Name() == sp.Mutex {
			hasMutex = true
		}
	}
	if !hasMutex {
		c.Lost(sp.Type+".mutex", sp.Type+" has no field "+sp.Mutex)
		return
	}
	for g := range sp.Guarded {
		found := false
		for _, n := range fieldOf {
			if n == g {
				found = true
			}
		}
		if !found {
			c.Lost(sp.Type+".field."+g, "guarded field "+g+" no longer exists in "+sp.Type)
		}
	}
	wr := c.P.lockWrappers()
	var accesses []lsAccess
	calls := map[string][]lsCall{} // callee key -> call sites inside methods of the type
	methods := map[string]*FuncDecl{}
	for _, fd := range c.P.AllFuncDecls() {
		if fd.Pkg != pk || fd.Decl.Body == nil || fd.Decl.Recv == nil || len(fd.Decl.Recv.List) != 1 || len(fd.Decl.Recv.List[0].Names) != 1 {
			continue
		}
		if !namedTypeIs(pk.TypesInfo.TypeOf(fd.Decl.Recv.List[0].Type), sp.Pkg, sp.Type) {
			continue
		}
		recvName := fd.Decl.Recv.List[0].Names[0].Name
		recvObj := pk.TypesInfo.Defs[fd.Decl.Recv.List[0].Names[0]]
		fk := FuncKey(fd.Obj)
		methods[fk] = fd
		lockPath := recvName + "." + sp.Mutex
		f := c.P.NewFuncCFG(fd)
		watch := func(f *FuncCFG, b *cfg.Block, idx int, n ast.Node, fs *FState) {
			if _, isDefer := n.(*ast.DeferStmt); isDefer {
				return
			}
			heldW := fs.Facts["W:"+lockPath] > 0
			heldR := fs.Facts["R:"+lockPath] > 0
			// written selectors of this node
			written := map[ast.Node]bool{}
			markBase := func(e ast.Expr) {
				for {
					switch x := ast.Unparen(e).(type) {
					case *ast.IndexExpr:
						e = x.X
						continue
					case *ast.SliceExpr:
						e = x.X
						continue
					case *ast.StarExpr:
						e = x.X
						continue
					case *ast.SelectorExpr:
						written[x] = true
						if _, ok := ast.Unparen(x.X).(*ast.SelectorExpr); ok {
							e = x.X
							continue
						}
					}
					return
				}
			}
			switch s := n.(type) {
			case *ast.AssignStmt:
				for _, l := range s.Lhs {
					markBase(l)
				}
			case *ast.IncDecStmt:
				markBase(s.X)
			}
			inspectNoLit(n, func(x ast.Node) bool {
				if call, ok := x.(*ast.CallExpr); ok {
					cs := f.calleeSym(call)
					if (cs == "builtin.delete" || cs == "builtin.clear") && len(call.Args) > 0 {
						markBase(call.Args[0])
					}
					if d := staticCalleeDecl(c.P, f.Info, call); d != nil {
						if se, ok := ast.Unparen(call.Fun).(*ast.SelectorExpr); ok {
							if id, ok := ast.Unparen(se.X).(*ast.Ident); ok && f.Info.ObjectOf(id) == recvObj {
								calls[FuncKey(d.Obj)] = append(calls[FuncKey(d.Obj)], lsCall{FuncKey(d.Obj), heldW, heldR, call.Pos()})
							}
						}
					}
				}
				return true
			})
			inspectNoLit(n, func(x ast.Node) bool {
				se, ok := x.(*ast.SelectorExpr)
				if !ok {
					return true
				}
				id, ok := ast.Unparen(se.X).(*ast.Ident)
				if !ok || f.Info.ObjectOf(id) != recvObj {
					return true
				}
				fo := f.Info.ObjectOf(se.Sel)
				if v, ok := fo.(*types.Var); ok {
					fo = v.Origin() // fields of generic types are instantiated per use
				}
				name, isField := fieldOf[fo]
				if !isField || name == sp.Mutex {
					return true
				}
				accesses = append(accesses, lsAccess{field: name, write: written[se], heldW: heldW, heldR: heldR, pos: se.Pos(), fn: fk})
				return true
			})
		}
		_, res := c.P.AnalyzeLocks(f, wr, nil, watch)
		if res.Overflow {
			c.Unclassified(sp.Type+"."+fd.Decl.Name.Name+".overflow", c.P.Pos(fd.Decl.Pos()), "state overflow: lock set undecided for this method")
		}
	}
	// caller-holds: methods every in-type call site of which holds the lock (fixpoint over the held mode)
	holds := map[string]string{} // method -> "W" | "R"
	for changed := true; changed; {
		changed = false
		for fk := range methods {
			cs := calls[fk]
			if len(cs) == 0 {
				continue
			}
			mode := "W"
			for _, cl := range cs {
				// a call made from a caller-holds method inherits its mode
				callerMode := ""
				for ck, cm := range holds {
					if fd := methods[ck]; fd != nil && fd.Decl.Pos() <= cl.pos && cl.pos <= fd.Decl.End() {
						callerMode = cm
					}
				}
				switch {
				case cl.heldW || callerMode == "W":
				case cl.heldR || callerMode == "R":
					if mode == "W" {
						mode = "R"
					}
				default:
					mode = ""
				}
				if mode == "" {
					break
				}
			}
			if mode != "" && holds[fk] != mode {
				if holds[fk] == "" || (holds[fk] == "W" && mode == "R") {
					holds[fk] = mode
					changed = true
				}
			}
		}
	}
	if os.Getenv("NV_LOCKSTATS") != "" {
		type stat struct{ held, unheld int }
		stats := map[string]*stat{}
		var lines []string
		for _, a := range accesses {
			s := stats[a.field]
			if s == nil {
				s = &stat{}
				stats[a.field] = s
			}
			ok := a.heldW || (!a.write && a.heldR) || holds[a.fn] == "W" || (!a.write && holds[a.fn] == "R")
			if ok {
				s.held++
			} else {
				s.unheld++
				lines = append(lines, fmt.Sprintf("   unheld %s.%s (write=%v) in %s at %s", sp.Type, a.field, a.write, a.fn, c.P.Pos(a.pos)))
			}
		}
		var fs []string
		for f := range stats {
			fs = append(fs, f)
		}
		sort.Strings(fs)
		for _, f := range fs {
			fmt.Printf("LOCKSTATS %s.%s held=%d unheld=%d\n", sp.Type, f, stats[f].held, stats[f].unheld)
		}
		sort.Strings(lines)
		for _, l := range lines {
			fmt.Println(l)
		}
		fmt.Println("LOCKSTATS caller-holds:", holds)
	}
	n := 0
	seen := map[string]int{}
	// one site is visited once per flow state: it is unheld if unheld in any of them
	type sitek struct {
		pos   token.Pos
		write bool
	}
	worst := map[sitek]lsAccess{}
	var order []sitek
	for _, a := range accesses {
		k := sitek{a.pos, a.write}
		ok := a.heldW || (!a.write && a.heldR) || holds[a.fn] == "W" || (!a.write && holds[a.fn] == "R")
		if w, dup := worst[k]; dup {
			wok := w.heldW || (!w.write && w.heldR) || holds[w.fn] == "W" || (!w.write && holds[w.fn] == "R")
			if wok && !ok {
				worst[k] = a
			}
			continue
		}
		worst[k] = a
		order = append(order, k)
	}
	accesses = accesses[:0]
	for _, k := range order {
		accesses = append(accesses, worst[k])
	}
	for _, a := range accesses {
		if _, g := sp.Guarded[a.field]; !g {
			continue
		}
		n++
		if _, ex := sp.Exempt[a.fn]; ex {
			continue
		}
		ok := a.heldW || (!a.write && a.heldR) || holds[a.fn] == "W" || (!a.write && holds[a.fn] == "R")
		if ok {
			continue
		}
		base := fmt.Sprintf("%s.%s.%s", a.fn, a.field, map[bool]string{true: "write", false: "read"}[a.write])
		seen[base]++
		key := base
		if seen[base] > 1 {
			key = fmt.Sprintf("%s#%d", base, seen[base])
		}
		need := "the lock"
		if a.write {
			need = "the write lock"
		}
		c.Fail(key, c.P.Pos(a.pos), fmt.Sprintf("%s %s %s.%s (%s) without holding %s %s.%s: a concurrent writer can be in the middle of updating it together with the other indexes", a.fn, map[bool]string{true: "writes", false: "reads"}[a.write], sp.Type, a.field, sp.Guarded[a.field], need, sp.Type, sp.Mutex))
	}
	var hs []string
	for k, v := range holds {
		hs = append(hs, shortSym(k)+":"+v)
	}
	sort.Strings(hs)
	c.OK(sp.Type+".lockset", c.P.Pos(tn.Pos()), fmt.Sprintf("%d accesses of the %d guarded fields of %s examined; methods entered with the lock held at every call site: %s", n, len(sp.Guarded), sp.Type, strings.Join(hs, ", ")))
	c.Floor("accesses of guarded fields of "+sp.Type, n, 5)
}

var lockSpecs = []locksetSpec{
	{Pkg: "pkg/network/bqueue", Type: "Queue", Mutex: "queueLock",
		Guarded: map[string]string{"queue": "the ring of queued elements", "len": "number of queued elements", "lastQ": "highest contiguous queued index"}},
	{Pkg: "pkg/core/statesync", Type: "Module", Mutex: "lock",
		Guarded: map[string]string{"syncStage": "which parts of the state are already synchronised", "syncPoint": "height the state is synchronised to", "blockHeight": "height of the last stored sync block",
			"lastStoredKey": "progress marker of contract-storage sync", "localTrie": "trie rebuilt from received storage items", "billet": "partially restored MPT", "mptpool": "hashes of MPT nodes still to fetch"},
		Exempt: map[string]string{"pkg/core/statesync.(*Module).restoreNode": "callback of the traversal AddMPTNodes starts while holding the lock (passed as a method value, so no call site shows it)"}},
	{Pkg: "pkg/core/statesync", Type: "Pool", Mutex: "lock",
		Guarded: map[string]string{"hashes": "MPT node hashes still to fetch, with their paths"}},
}

// ruleLocksetPool (C08): the pool is entered concurrently by the P2P handlers, the RPC server, consensus and block
// processing; its indexes agree with each other only if every writer excludes everybody else. A map written under the
// read lock is written by two readers at once (finding 93: Pool.Verify, a query, stored into the fee cache).
func ruleLocksetPool(c *Ctx) {
	locksetGeneric(c, locksetSpec{Pkg: "pkg/core/mempool", Type: "Pool", Mutex: "lock",
		Guarded: map[string]string{"verifiedMap": "hash -> transaction", "verifiedTxes": "the list ordered by priority", "fees": "per-payer balance and sum of fees",
			"conflicts": "hashes named by Conflicts attributes -> pooled transactions naming them", "oracleResp": "oracle request id -> pooled response"},
		Exempt: map[string]string{"pkg/core/mempool.New": "constructor: the pool is not shared yet"}})
}

// ruleLocksetSync: C20 quantifies over arrival orders from concurrent producers: the queue ring and the state-sync
// bookkeeping are touched only under their mutex.
func ruleLocksetSync(c *Ctx) {
	for _, sp := range lockSpecs {
		locksetGeneric(c, sp)
	}
}
