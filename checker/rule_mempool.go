package main

import (
	"fmt"
	"go/ast"
	"go/token"
	"go/types"
	"sort"
	"strings"

	"golang.org/x/tools/go/cfg"
)

var poolStateFields = []string{
	"pkg/core/mempool#verifiedMap", "pkg/core/mempool#verifiedTxes", "pkg/core/mempool#fees",
	"pkg/core/mempool#conflicts", "pkg/core/mempool#oracleResp",
}

const mpPkg = "pkg/core/mempool"

func isPoolState(f string) bool {
	for _, s := range poolStateFields {
		if s == f {
			return true
		}
	}
	return false
}

// ---------------------------------------------------------------------------
// add-failure-atomic

type atomicClient struct {
	ws       *WriteSummary
	info     *types.Info
	removal  map[string]string // callee key -> reason (pure removals: neutralised at the capacity exit)
	neutral  map[string]string // callee key -> reason (no observable pool-state change)
	failures map[token.Pos]atomicFailure
	exits    map[token.Pos]bool
	okExits  map[token.Pos]bool
}

type atomicFailure struct {
	writePos token.Pos
	what     string
}

func (ac *atomicClient) Node(f *FuncCFG, b *cfg.Block, idx int, n ast.Node, st *FState) {
	// error variables re-assigned: forget nil facts
	if a, ok := n.(*ast.AssignStmt); ok {
		for _, l := range a.Lhs {
			if id, ok := l.(*ast.Ident); ok {
				delete(st.Facts, "nil:"+id.Name)
			}
		}
	}
	for _, w := range nodeWrites(ac.info, n, false) {
		if isPoolState(w.Field) && st.Facts["dirty"] == 0 {
			st.Facts["dirty"] = int(w.Pos)
		}
	}
	inspectNoLit(n, func(x ast.Node) bool {
		call, ok := x.(*ast.CallExpr)
		if !ok {
			return true
		}
		var id *ast.Ident
		switch fn := ast.Unparen(call.Fun).(type) {
		case *ast.Ident:
			id = fn
		case *ast.SelectorExpr:
			id = fn.Sel
		}
		if id == nil {
			return true
		}
		fo, ok := ac.info.ObjectOf(id).(*types.Func)
		if !ok {
			return true
		}
		writes := false
		for fld := range ac.ws.Trans[fo.Origin()] {
			if isPoolState(fld) {
				writes = true
			}
		}
		if !writes {
			return true
		}
		k := FuncKey(fo)
		if _, ok := ac.neutral[k]; ok {
			return true
		}
		if _, ok := ac.removal[k]; ok {
			if st.Facts["removed"] == 0 {
				st.Facts["removed"] = int(call.Pos())
			}
			return true
		}
		if st.Facts["dirty"] == 0 {
			st.Facts["dirty"] = int(call.Pos())
		}
		return true
	})
}

func (ac *atomicClient) Edge(f *FuncCFG, b *cfg.Block, cond ast.Expr, value bool, st *FState) bool {
	if be, ok := ast.Unparen(cond).(*ast.BinaryExpr); ok && (be.Op == token.EQL || be.Op == token.NEQ) {
		// nil tests of identifiers
		var id *ast.Ident
		if x, ok := ast.Unparen(be.X).(*ast.Ident); ok && isNilIdent(ac.info, be.Y) {
			id = x
		} else if y, ok := ast.Unparen(be.Y).(*ast.Ident); ok && isNilIdent(ac.info, be.X) {
			id = y
		}
		if id != nil {
			isNil := (be.Op == token.EQL) == value
			if isNil {
				st.Facts["nil:"+id.Name] = 1
			} else {
				st.Facts["nil:"+id.Name] = 2
			}
			return true
		}
		// the capacity test: after a removal the pool cannot be full (|pool| <= capacity is the pool's invariant)
		if be.Op == token.EQL && value && st.Facts["removed"] != 0 {
			m := f.Mentions(cond, b)
			if m["pkg/core/mempool#capacity"] && m["pkg/core/mempool#verifiedTxes"] && m["builtin.len"] {
				return false
			}
		}
	}
	return true
}

func isNilIdent(info *types.Info, e ast.Expr) bool {
	id, ok := ast.Unparen(e).(*ast.Ident)
	if !ok {
		return false
	}
	_, isNil := info.ObjectOf(id).(*types.Nil)
	return isNil
}

func (ac *atomicClient) Deferred(f *FuncCFG, op string, st *FState) {}

func (ac *atomicClient) Exit(f *FuncCFG, b *cfg.Block, r *ast.ReturnStmt, st *FState) {
	if r == nil || len(r.Results) == 0 {
		return
	}
	last := ast.Unparen(r.Results[len(r.Results)-1])
	tv := ac.info.Types[last]
	if tv.Type == nil || !isErrorType(tv.Type) {
		if !tv.IsNil() {
			return
		}
	}
	failing := true
	if isNilIdent(ac.info, last) {
		failing = false
	} else if id, ok := last.(*ast.Ident); ok && st.Facts["nil:"+id.Name] == 1 {
		failing = false
	}
	ac.exits[r.Pos()] = true
	if !failing {
		ac.okExits[r.Pos()] = true
		return
	}
	if p := st.Facts["dirty"]; p != 0 {
		ac.failures[r.Pos()] = atomicFailure{token.Pos(p), "pool-state write"}
	} else if p := st.Facts["removed"]; p != 0 {
		ac.failures[r.Pos()] = atomicFailure{token.Pos(p), "removal of a pooled transaction"}
	}
}

func ruleAddFailureAtomic(c *Ctx) {
	pk := c.P.Pkg(mpPkg)
	if pk == nil {
		c.Lost("anchor", "package mempool not found")
		return
	}
	ws := c.P.PkgWriteSummary(mpPkg)
	// the five state fields must exist
	pool, _ := pk.Types.Scope().Lookup("Pool").(*types.TypeName)
	if pool == nil {
		c.Lost("anchor.Pool", "type Pool not found")
		return
	}
	st, _ := pool.Type().Underlying().(*types.Struct)
	have := map[string]bool{}
	for i := 0; st != nil && i < st.NumFields(); i++ {
		have[symOf(st.Field(i))] = true
	}
	for _, f := range poolStateFields {
		if !have[f] {
			c.Lost("anchor."+shortSym(f), "state field "+f+" no longer exists in Pool (table stale)")
		}
	}
	removal := map[string]string{
		"pkg/core/mempool.(*Pool).removeInternal": "drops a pooled transaction from every index: afterwards |pool| < capacity, so the only later error exit (capacity) is infeasible; the exit on ErrOracleResponse precedes it",
	}
	neutral := map[string]string{
		"pkg/core/mempool.(*Pool).checkTxConflicts": "its only write is the balance-cache fill fees[p] = {balance, feeSum 0}, equal to what the next lookup would fetch (checked separately: it writes nothing on its own error exits)",
	}
	n := 0
	for _, name := range []string{"Add", "checkTxConflicts"} {
		fd := c.P.Func(mpPkg, "Pool", name)
		if fd == nil {
			c.Lost("anchor."+name, "Pool."+name+" not found")
			continue
		}
		f := c.P.NewFuncCFG(fd)
		ac := &atomicClient{ws: ws, info: pk.TypesInfo, removal: removal, neutral: neutral, failures: map[token.Pos]atomicFailure{}, exits: map[token.Pos]bool{}, okExits: map[token.Pos]bool{}}
		if name == "checkTxConflicts" {
			ac.neutral = map[string]string{}
		}
		res := f.RunFlow(ac, FState{Bools: map[string]bool{}, Facts: map[string]int{}}, nil)
		if res.Overflow {
			c.Lost(name+".overflow", "state overflow in "+name)
			continue
		}
		var exits []token.Pos
		for p := range ac.exits {
			exits = append(exits, p)
		}
		sort.Slice(exits, func(i, j int) bool { return exits[i] < exits[j] })
		k := 0
		for _, p := range exits {
			if ac.okExits[p] && ac.failures[p].writePos == 0 {
				if _, failing := ac.failures[p]; !failing {
					// an exit seen only as success exit
					continue
				}
			}
			k++
			n++
			key := fmt.Sprintf("%s.error-exit#%d", name, k)
			if fl, bad := ac.failures[p]; bad {
				c.Fail(key, c.P.Pos(p), fmt.Sprintf("Pool.%s can fail here after a %s: a failed addition leaves the pool changed", name, fl.what),
					"write at "+c.P.Pos(fl.writePos), "error exit at "+c.P.Pos(p))
			} else {
				c.OK(key, c.P.Pos(p), fmt.Sprintf("no pool-state write on any path from the entry of Pool.%s to this error exit", name))
			}
		}
	}
	c.Floor("error exits of Add/checkTxConflicts", n, 5)
	var notes []string
	for k, v := range removal {
		notes = append(notes, k+": "+v)
	}
	for k, v := range neutral {
		notes = append(notes, k+": "+v)
	}
	sort.Strings(notes)
	c.Note("tabled: %s", strings.Join(notes, " | "))
}

// ---------------------------------------------------------------------------
// index-comaintenance

func ruleIndexComaintenance(c *Ctx) {
	ws := c.P.PkgWriteSummary(mpPkg)
	need := map[string][]string{
		"removeInternal":                poolStateFields,
		"RemoveStale":                   poolStateFields,
		"Add":                           poolStateFields,
		"removeFromMapWithFeesAndAttrs": {"pkg/core/mempool#verifiedMap", "pkg/core/mempool#fees", "pkg/core/mempool#conflicts", "pkg/core/mempool#oracleResp"},
	}
	for _, name := range []string{"Add", "RemoveStale", "removeFromMapWithFeesAndAttrs", "removeInternal"} {
		fd := c.P.Func(mpPkg, "Pool", name)
		if fd == nil {
			c.Lost("anchor."+name, "Pool."+name+" not found")
			continue
		}
		for _, fld := range need[name] {
			key := name + ".maintains." + shortSym(fld)
			if ws.Trans[fd.Obj][fld] {
				c.OK(key, c.P.Pos(fd.Decl.Pos()), fmt.Sprintf("Pool.%s (transitively) updates %s", name, shortSym(fld)))
			} else {
				c.Fail(key, c.P.Pos(fd.Decl.Pos()), fmt.Sprintf("Pool.%s no longer updates the %s index: the indexes of the pool go out of step on this path", name, shortSym(fld)))
			}
		}
	}
	// removeFromMapWithFeesAndAttrs leaves verifiedTxes to its callers: each caller must write it itself
	helper := c.P.Func(mpPkg, "Pool", "removeFromMapWithFeesAndAttrs")
	if helper != nil {
		ncall := 0
		for fn, callees := range ws.Calls {
			for _, ce := range callees {
				if ce == helper.Obj {
					ncall++
					key := "caller-of-removeFromMap." + fn.Name()
					if len(ws.Direct[fn]["pkg/core/mempool#verifiedTxes"]) > 0 {
						c.OK(key, c.P.Pos(c.P.DeclOf(fn).Decl.Pos()), fn.Name()+" adjusts verifiedTxes itself around removeFromMapWithFeesAndAttrs")
					} else {
						c.Fail(key, c.P.Pos(c.P.DeclOf(fn).Decl.Pos()), fn.Name()+" calls removeFromMapWithFeesAndAttrs (which does not touch verifiedTxes) without updating verifiedTxes itself")
					}
					break
				}
			}
		}
		c.Floor("callers of removeFromMapWithFeesAndAttrs", ncall, 2)
	}
	ruleRefreshResets(c)
	ruleMultimapAppend(c)
	// fee buckets are keyed the way balances are looked up: a payer key carries a depositor (secondary account)
	// exactly when the sender is the Notary contract - that is the test Feer.GetUtilityTokenBalance applies to decide
	// between an account's GAS and a depositor's Notary deposit
	if fd := c.P.Func(mpPkg, "", "getPayer"); fd == nil {
		c.Lost("getPayer.anchor", "mempool.getPayer not found")
	} else {
		f := c.P.NewFuncCFG(fd)
		targets := map[*cfg.Block]bool{}
		for _, r := range f.Returns() {
			ast.Inspect(r.node, func(x ast.Node) bool {
				if cl, ok := x.(*ast.CompositeLit); ok {
					for _, el := range cl.Elts {
						if kv, ok := el.(*ast.KeyValueExpr); ok {
							if id, ok := kv.Key.(*ast.Ident); ok && id.Name == "secondary" {
								targets[r.blk] = true
							}
						}
					}
				}
				return true
			})
		}
		key := "getPayer.sponsored-iff-notary-sender"
		if len(targets) == 0 {
			c.Lost(key+".target", "getPayer builds no payer key with a secondary account")
		} else {
			res := f.CheckGate(f.Entry(), targets, Guard{ID: "sender-is-notary", Doc: "the two-account payer key is used only when the transaction's sender is the Notary contract",
				Alts: [][]string{{"pkg/core/transaction.(*Transaction).Sender", "pkg/core/native/nativehashes.Notary", "pkg/util.(Uint160).Equals"}}}, nil)
			if res.OK {
				c.OK(key, c.P.Pos(fd.Decl.Pos()), "a payer key carries a depositor exactly when the sender is the Notary contract: "+res.Msg)
			} else {
				c.Fail(key, c.P.Pos(fd.Decl.Pos()), "getPayer builds a two-account payer key without the sender being tested against the Notary contract: the fees of one account are then summed in several buckets, each checked against the full balance: "+res.Msg, res.Path...)
			}
		}
	}
	// fee sums are adjusted only for the payer of the very transaction concerned
	runGates(c, []GateSpec{{
		ID: "checkTxConflicts.fee-credit", Fn: [3]string{mpPkg, "Pool", "checkTxConflicts"}, Target: "call:github.com/holiman/uint256.(*Int).SubUint64",
		Guards: []Guard{
			{ID: "same-primary", Doc: "fees of a conflicting transaction are credited only when it has the same primary payer account",
				Alts: [][]string{{"pkg/core/mempool#primary", "pkg/core/mempool.getPayer", "pkg/util.(Uint160).Equals"}}},
			{ID: "same-secondary", Doc: "fees of a conflicting transaction are credited only when it has the same secondary payer account (notary depositor)",
				Alts: [][]string{{"pkg/core/mempool#secondary", "pkg/core/mempool.getPayer", "pkg/util.(Uint160).Equals"}}},
		},
	}})
}

// ---------------------------------------------------------------------------
// index-fresh: a position computed on verifiedTxes is not used after a call that may restructure the slice

type freshClient struct {
	ws    *WriteSummary
	info  *types.Info
	f     *FuncCFG
	vars  map[types.Object]bool // position variables
	bad   map[token.Pos]string
	uses  map[token.Pos]bool
	field string
}

func (fc *freshClient) Node(f *FuncCFG, b *cfg.Block, idx int, n ast.Node, st *FState) {
	// uses first (a statement both using and redefining uses the old value)
	inspectNoLit(n, func(x ast.Node) bool {
		if as, ok := x.(*ast.AssignStmt); ok {
			// do not count the defining occurrence on the LHS as a use
			for _, r := range as.Rhs {
				fc.scanUses(r, st)
			}
			for _, l := range as.Lhs {
				if _, isId := l.(*ast.Ident); !isId {
					fc.scanUses(l, st)
				}
			}
			return false
		}
		if id, ok := x.(*ast.Ident); ok {
			fc.useIdent(id, st)
		}
		return true
	})
	// kills: calls of package functions that (transitively) write the slice field
	inspectNoLit(n, func(x ast.Node) bool {
		call, ok := x.(*ast.CallExpr)
		if !ok {
			return true
		}
		var id *ast.Ident
		switch fn := ast.Unparen(call.Fun).(type) {
		case *ast.Ident:
			id = fn
		case *ast.SelectorExpr:
			id = fn.Sel
		}
		if id == nil {
			return true
		}
		if fo, ok := fc.info.ObjectOf(id).(*types.Func); ok && fc.ws.Trans[fo.Origin()][fc.field] {
			for v := range fc.vars {
				if st.Facts["def:"+v.Name()] != 0 {
					st.Facts["stale:"+v.Name()] = int(call.Pos())
				}
			}
		}
		return true
	})
	// definitions
	if as, ok := n.(*ast.AssignStmt); ok {
		for _, l := range as.Lhs {
			if id, ok := l.(*ast.Ident); ok && fc.vars[fc.info.ObjectOf(id)] {
				st.Facts["def:"+id.Name] = 1
				st.Facts["stale:"+id.Name] = 0
			}
		}
	}
}

func (fc *freshClient) scanUses(e ast.Expr, st *FState) {
	inspectNoLit(e, func(x ast.Node) bool {
		if id, ok := x.(*ast.Ident); ok {
			fc.useIdent(id, st)
		}
		return true
	})
}

func (fc *freshClient) useIdent(id *ast.Ident, st *FState) {
	o := fc.info.Uses[id]
	if o == nil || !fc.vars[o] {
		return
	}
	fc.uses[id.Pos()] = true
	if p := st.Facts["stale:"+id.Name]; p != 0 {
		fc.bad[id.Pos()] = fmt.Sprintf("position %s was computed on verifiedTxes before the call at %s restructured the slice", id.Name, fc.f.P.Pos(token.Pos(p)))
	}
}

func (fc *freshClient) Deferred(f *FuncCFG, op string, st *FState)                   {}
func (fc *freshClient) Exit(f *FuncCFG, b *cfg.Block, r *ast.ReturnStmt, st *FState) {}

func ruleIndexFresh(c *Ctx) {
	pk := c.P.Pkg(mpPkg)
	if pk == nil {
		c.Lost("anchor", "package mempool not found")
		return
	}
	ws := c.P.PkgWriteSummary(mpPkg)
	field := "pkg/core/mempool#verifiedTxes"
	nvars := 0
	for _, fd := range c.P.AllFuncDecls() {
		if fd.Pkg != pk || fd.Decl.Body == nil {
			continue
		}
		f := c.P.NewFuncCFG(fd)
		// position variables: integer locals with a definition mentioning the slice field
		vars := map[types.Object]bool{}
		for o, ds := range f.defs {
			b, ok := o.Type().Underlying().(*types.Basic)
			if !ok || b.Info()&types.IsInteger == 0 {
				continue
			}
			for _, d := range ds {
				for _, r := range d.rhs {
					m := map[string]bool{}
					f.mentions(r, nil, m, map[types.Object]bool{o: true}, 5)
					if m[field] {
						vars[o] = true
					}
				}
			}
		}
		if len(vars) == 0 {
			continue
		}
		nvars += len(vars)
		fc := &freshClient{ws: ws, info: pk.TypesInfo, f: f, vars: vars, bad: map[token.Pos]string{}, uses: map[token.Pos]bool{}, field: field}
		res := f.RunFlow(fc, FState{Bools: map[string]bool{}, Facts: map[string]int{}}, nil)
		if res.Overflow {
			c.Unclassified(FuncKey(fd.Obj)+".overflow", c.P.Pos(fd.Decl.Pos()), "state overflow")
			continue
		}
		if len(fc.bad) == 0 {
			c.OK(FuncKey(fd.Obj), c.P.Pos(fd.Decl.Pos()), fmt.Sprintf("%d uses of positions computed on verifiedTxes, none after a restructuring call", len(fc.uses)))
			continue
		}
		var ps []token.Pos
		for p := range fc.bad {
			ps = append(ps, p)
		}
		sort.Slice(ps, func(i, j int) bool { return ps[i] < ps[j] })
		c.Fail(FuncKey(fd.Obj)+".stale-position", c.P.Pos(ps[0]), fc.bad[ps[0]]+": the sorted order / bounds of the pool are computed on a slice that no longer exists")
	}
	c.Floor("position variables over verifiedTxes", nvars, 2)
}

// ruleRefreshResets: RemoveStale rebuilds the per-payer balance cache and the conflicts index from scratch; both
// must be reset (clear(...) or a whole-field assignment) on every path through the function, whatever the pool holds.
func ruleRefreshResets(c *Ctx) {
	fd := c.P.Func(mpPkg, "Pool", "RemoveStale")
	if fd == nil {
		return // reported by the maintains.* obligations
	}
	f := c.P.NewFuncCFG(fd)
	for _, fld := range []string{"pkg/core/mempool#fees", "pkg/core/mempool#conflicts"} {
		resets := map[*cfg.Block]bool{}
		for _, b := range f.G.Blocks {
			if !b.Live {
				continue
			}
			for _, n := range b.Nodes {
				inspectNoLit(n, func(x ast.Node) bool {
					switch y := x.(type) {
					case *ast.CallExpr:
						if f.calleeSym(y) == "builtin.clear" && len(y.Args) == 1 && f.DirectMentions(y.Args[0])[fld] {
							resets[b] = true
						}
					case *ast.AssignStmt:
						for _, lh := range y.Lhs {
							if se, ok := ast.Unparen(lh).(*ast.SelectorExpr); ok && symOf(f.Info.ObjectOf(se.Sel)) == fld {
								resets[b] = true
							}
						}
					}
					return true
				})
			}
		}
		key := "RemoveStale.resets." + shortSym(fld)
		if len(resets) == 0 {
			c.Fail(key, c.P.Pos(fd.Decl.Pos()), "Pool.RemoveStale no longer resets "+shortSym(fld)+" before rebuilding it: entries of transactions and payers that left the pool survive the block")
			continue
		}
		r := f.reach(f.Entry(), resets, nil)
		bad := ""
		var path []string
		for _, rs := range f.OKReturns() {
			if resets[rs.blk] {
				continue
			}
			if _, ok := r[rs.blk]; ok {
				bad = c.P.Pos(rs.node.Pos())
				path = f.pathTo(r, rs.blk)
				break
			}
		}
		if bad != "" {
			c.Fail(key, c.P.Pos(fd.Decl.Pos()), "Pool.RemoveStale can return (at "+bad+") without resetting "+shortSym(fld)+": what the pool cached before the block (payer balances, conflict links) is then used against the new ledger state", path...)
		} else {
			c.OK(key, c.P.Pos(fd.Decl.Pos()), "every path through Pool.RemoveStale resets "+shortSym(fld))
		}
	}
}

// ruleMultimapAppend: the conflicts index maps a hash to *all* pooled transactions naming it; an element store
// must extend or filter the element it replaces (read-modify-write of the same map), never overwrite it.
func ruleMultimapAppend(c *Ctx) {
	pk := c.P.Pkg(mpPkg)
	if pk == nil {
		return
	}
	const fld = "pkg/core/mempool#conflicts"
	n := 0
	for _, fd := range c.P.AllFuncDecls() {
		if fd.Pkg != pk || fd.Decl.Body == nil {
			continue
		}
		f := c.P.NewFuncCFG(fd)
		idx := 0
		ast.Inspect(fd.Decl.Body, func(x ast.Node) bool {
			as, ok := x.(*ast.AssignStmt)
			if !ok || len(as.Lhs) != len(as.Rhs) {
				return true
			}
			for i, lh := range as.Lhs {
				ie, ok := ast.Unparen(lh).(*ast.IndexExpr)
				if !ok {
					continue
				}
				se, ok := ast.Unparen(ie.X).(*ast.SelectorExpr)
				if !ok || symOf(f.Info.ObjectOf(se.Sel)) != fld {
					continue
				}
				n++
				idx++
				key := fmt.Sprintf("%s.conflicts-store#%d", FuncKey(fd.Obj), idx)
				if f.DirectMentions(as.Rhs[i])[fld] {
					c.OK(key, c.P.Pos(as.Pos()), "the stored list is derived from the list it replaces")
				} else {
					c.Fail(key, c.P.Pos(as.Pos()), "an element of the conflicts index is overwritten with a list that is not derived from the one it replaces: other pooled transactions naming the same hash are forgotten and stay pooled next to it")
				}
			}
			return true
		})
	}
	c.Floor("element stores into the conflicts index", n, 3)
}

// single-comparator: the pool's priority order (HighPriority, then fee per byte, then network fee) is decided in one
// place, item.Compare. A comparison that puts the priority fields of two transactions side by side anywhere else in
// the package is a second, partial order - it forgets one of the three levels. Tabled: the oracle-response
// replacement rule, which by design looks at the network fee only.
var priorityCompareOK = map[string]string{
	"pkg/core/mempool.(*Pool).Add": "an oracle response replaces the pooled response for the same request only if it pays a strictly higher network fee (NetworkFee >= on the verifiedMap entry of that request id)",
}

func ruleSingleComparator(c *Ctx) {
	pk := c.P.Pkg(mpPkg)
	if pk == nil {
		c.Lost("anchor", "package mempool not found")
		return
	}
	prio := []string{"pkg/core/transaction#NetworkFee", "pkg/core/transaction.(*Transaction).FeePerByte"}
	mentionsPrio := func(f *FuncCFG, e ast.Expr) bool {
		m := f.DirectMentions(e)
		for _, p := range prio {
			if m[p] {
				return true
			}
		}
		return false
	}
	ncmp, nelse := 0, 0
	usedTab := map[string]int{}
	for _, fd := range c.P.AllFuncDecls() {
		if fd.Pkg != pk || fd.Decl.Body == nil {
			continue
		}
		f := c.P.NewFuncCFG(fd)
		fk := FuncKey(fd.Obj)
		isComparator := fd.Decl.Name.Name == "Compare" || fd.Decl.Name.Name == "CompareTo"
		idx := 0
		ast.Inspect(fd.Decl.Body, func(x ast.Node) bool {
			be, ok := x.(*ast.BinaryExpr)
			if !ok {
				return true
			}
			switch be.Op {
			case token.EQL, token.NEQ, token.LSS, token.GTR, token.LEQ, token.GEQ, token.SUB:
			default:
				return true
			}
			if !mentionsPrio(f, be.X) || !mentionsPrio(f, be.Y) {
				return true
			}
			if isComparator {
				ncmp++
				return true
			}
			nelse++
			idx++
			key := fmt.Sprintf("%s.priority-comparison#%d", fk, idx)
			if why, ok := priorityCompareOK[fk]; ok && usedTab[fk] == 0 {
				usedTab[fk]++
				c.OK(key, c.P.Pos(be.Pos()), "tabled: "+why)
				return true
			}
			c.Fail(key, c.P.Pos(be.Pos()), fmt.Sprintf("%s compares the priority fields of two transactions (`%s`) outside item.Compare: a second, partial order that ignores part of (HighPriority, fee per byte, network fee) decides a placement or an eviction", fk, trunc(types.ExprString(be), 80)))
			return true
		})
	}
	if ncmp < 2 {
		c.Lost("comparator", fmt.Sprintf("the comparator of pool items compares %d priority fields (expected fee per byte and network fee)", ncmp))
	} else {
		c.OK("comparator", "", fmt.Sprintf("item.Compare holds %d priority-field comparisons; %d elsewhere, all tabled", ncmp, nelse))
	}
}
