package main

import (
	"fmt"
	"go/ast"
	"go/types"
	"sort"
	"strings"
)

// err-discipline: an error returned by a function of the module is a failed check or a failed write. In the packages
// a property lives in, no such error is discarded - neither by calling the function as a statement nor by assigning
// the error to the blank identifier - except at the tabled sites (caller -> callee), each with the reason the code
// itself gives. Errors of the standard library and of third-party packages are out of scope (logging, formatting).
type errScope struct {
	pkgs []string
}

func ruleErrDiscipline(c *Ctx, pkgs ...string) {
	want := map[string]bool{}
	for _, p := range pkgs {
		want[p] = true
	}
	n, nsites := 0, 0
	used := map[string]bool{}
	for _, fd := range c.P.AllFuncDecls() {
		rel := pkgRel(fd.Pkg.Types)
		if !want[rel] || fd.Decl.Body == nil {
			continue
		}
		info := fd.Pkg.TypesInfo
		seenKey := map[string]int{}
		report := func(call *ast.CallExpr, how string) {
			callee := calleeFunc(info, call)
			if callee == nil || !InModule(callee.Pkg()) {
				return
			}
			sig, ok := callee.Type().(*types.Signature)
			if !ok || sig.Results().Len() == 0 || !isErrorType(sig.Results().At(sig.Results().Len()-1).Type()) {
				return
			}
			nsites++
			base := FuncKey(fd.Obj) + "->" + FuncKey(callee.Origin())
			seenKey[base]++
			key := base
			if seenKey[base] > 1 {
				key = fmt.Sprintf("%s#%d", base, seenKey[base])
			}
			if why, ok := errDiscardTable[base]; ok {
				used[base] = true
				c.OK(key, c.P.Pos(call.Pos()), "tabled: "+why)
				return
			}
			n++
			c.Fail(key, c.P.Pos(call.Pos()), fmt.Sprintf("%s %s the error of %s: a failed check or write goes unnoticed and execution continues as if it had succeeded", FuncKey(fd.Obj), how, FuncKey(callee.Origin())))
		}
		ast.Inspect(fd.Decl.Body, func(x ast.Node) bool {
			switch s := x.(type) {
			case *ast.ExprStmt:
				if call, ok := s.X.(*ast.CallExpr); ok {
					report(call, "ignores")
				}
			case *ast.GoStmt, *ast.DeferStmt:
				return true
			case *ast.AssignStmt:
				if len(s.Rhs) == 1 {
					if call, ok := s.Rhs[0].(*ast.CallExpr); ok && len(s.Lhs) >= 1 {
						if id, ok := s.Lhs[len(s.Lhs)-1].(*ast.Ident); ok && id.Name == "_" {
							if tv, ok := info.Types[call]; ok {
								// the last result must be the error
								var last types.Type
								if tup, ok := tv.Type.(*types.Tuple); ok && tup.Len() == len(s.Lhs) {
									last = tup.At(tup.Len() - 1).Type()
								} else if len(s.Lhs) == 1 {
									last = tv.Type
								}
								if last != nil && isErrorType(last) {
									report(call, "assigns to _")
								}
							}
						}
					}
				}
			case *ast.ValueSpec:
				if len(s.Values) == 1 && len(s.Names) >= 1 && s.Names[len(s.Names)-1].Name == "_" {
					if call, ok := s.Values[0].(*ast.CallExpr); ok {
						if tv, ok := info.Types[call]; ok {
							if tup, ok := tv.Type.(*types.Tuple); ok && tup.Len() == len(s.Names) && isErrorType(tup.At(tup.Len()-1).Type()) {
								report(call, "assigns to _")
							}
						}
					}
				}
			}
			return true
		})
	}
	// how many error-returning module calls were looked at in all (used or not)
	total := 0
	for _, fd := range c.P.AllFuncDecls() {
		if !want[pkgRel(fd.Pkg.Types)] || fd.Decl.Body == nil {
			continue
		}
		ast.Inspect(fd.Decl.Body, func(x ast.Node) bool {
			if call, ok := x.(*ast.CallExpr); ok {
				if callee := calleeFunc(fd.Pkg.TypesInfo, call); callee != nil && InModule(callee.Pkg()) {
					if sig, ok := callee.Type().(*types.Signature); ok && sig.Results().Len() > 0 && isErrorType(sig.Results().At(sig.Results().Len()-1).Type()) {
						total++
					}
				}
			}
			return true
		})
	}
	c.OK("scope."+strings.Join(pkgs, "+"), "", fmt.Sprintf("%d calls of error-returning module functions examined; %d discard the error, %d of them outside the table", total, nsites, n))
	c.Floor("calls of error-returning module functions in scope", total, 1)
	c.Note("module-function errors discarded in %s: %d sites, %d not tabled", strings.Join(pkgs, ","), nsites, n)
	// stale table rows for these packages
	var stale []string
	for k := range errDiscardTable {
		caller := strings.SplitN(k, "->", 2)[0]
		for p := range want {
			if strings.HasPrefix(caller, p+".") && !used[k] {
				stale = append(stale, k)
			}
		}
	}
	sort.Strings(stale)
	for _, k := range stale {
		c.Note("tabled exemption no longer matched: %s", k)
	}
}

func calleeFunc(info *types.Info, call *ast.CallExpr) *types.Func {
	switch fx := ast.Unparen(call.Fun).(type) {
	case *ast.Ident:
		f, _ := info.ObjectOf(fx).(*types.Func)
		return f
	case *ast.SelectorExpr:
		f, _ := info.ObjectOf(fx.Sel).(*types.Func)
		return f
	}
	return nil
}

var errDiscardTable = map[string]string{
	"pkg/consensus.(*service).Start->pkg/core/interop.(Ledger).GetBlock":                                      "the code's own reason: \"Can't fail, we have some current block\" (the hash comes from the same ledger a line earlier)",
	"pkg/consensus.(*service).eventLoop->pkg/core/interop.(Ledger).GetBlock":                                  "same as Start: current block of the same ledger",
	"pkg/consensus.(*service).getTx->pkg/consensus.(Ledger).GetTransaction":                                   "absence is the answer: dBFT asks whether the transaction is known, a nil transaction is returned for any error",
	"pkg/core.(*Blockchain).ApplyPolicyToTxSet->pkg/smartcontract.CreateDefaultMultiSigRedeemScript":          "validators come from the NEO contract, the list is never empty: the script builder cannot fail; only the script length is used",
	"pkg/core.(*Blockchain).processTokenTransfer->pkg/core.appendTokenTransfer":                               "the code's own reason: \"Nothing useful we can do\" - the transfer log is a node-local index, not part of state",
	"pkg/core.(*Blockchain).resetStateInternal->pkg/core/mpt.(*TrieStore).Close":                              "TrieStore.Close only drops the trie reference and always returns nil",
	"pkg/core.(*HeaderHashes).initMinTrustedHeader->pkg/core.(*HeaderHashes).tryStoreBatch":                   "the code's own reason: \"ignore serialization error\" - the page is stored again by the next batch",
	"pkg/core/native.(*Designate).hashFromNodes->pkg/smartcontract.CreateDefaultMultiSigRedeemScript":         "the node list was validated non-empty and within limits by designateAsRole before it was stored",
	"pkg/core/native.(*Designate).hashFromNodes->pkg/smartcontract.CreateMultiSigRedeemScript":                "as above (single-signature case)",
	"pkg/core/native.(*NEO).getCandidates->pkg/crypto/keys.NewPublicKeyFromBytes":                             "the code's own reason: \"No error can occur\" - keys are storage keys written from valid public keys",
	"pkg/core/native.(*Oracle).getOriginalTxID->pkg/core/native.(*Oracle).GetRequestInternal":                 "the response transaction passed verifyTxAttributes, which requires the request to exist, in the same block",
	"pkg/core/native.(*Policy).BlockAccountInternalDeferrable->pkg/core/native.(INEO).RevokeVotesDeferrable":  "the code's own reason: \"ignore error, as in the reference\" implementation",
	"pkg/core/state.(*NEOBalance).Bytes->pkg/core/state.(*NEOBalance).ToStackItem":                            "the code's own reason: \"Never returns an error\"",
	"pkg/core/stateroot.(*Module).UpdateStateValidators->pkg/smartcontract.CreateDefaultMultiSigRedeemScript": "validator keys come from the Designate contract, validated when stored",
	"pkg/core/statesync.(*Module).AddContractStorageItems->pkg/core/storage.(*MemCachedStore).PutChangeSet":   "MemCachedStore.PutChangeSet only updates the in-memory maps and always returns nil (the error exists for the Store interface)",
	"pkg/core/storage.(*MemCachedStore).Close->pkg/core/storage.(*MemoryStore).Close":                         "MemoryStore.Close never returns an error (stated in its doc comment)",
	"pkg/smartcontract/manifest.(*PermissionDesc).FromStackItem->pkg/util.Uint160DecodeBytesBE":               "inside `case util.Uint160Size` of a switch over len(byteArr): the only error of the decoder is a wrong length",
	"pkg/vm/stackitem.TryMake->pkg/vm/stackitem.TryMake":                                                      "the code's own reason: \"Can't fail for int\" / \"for string\" elements of a typed slice",
}
