package main

import (
	"fmt"
	"go/ast"
	"go/token"
	"go/types"
	"strings"

	"golang.org/x/tools/go/cfg"
)

// GateSpec: in function Fn, every path (from the entry, or from the body entry of the loop ranging over
// LoopOver) to Target crosses each of Guards (an atomic condition mentioning the given symbols, one of whose
// branches cannot reach the target) and passes a call to each of MustCall.
type GateSpec struct {
	ID       string
	Fn       [3]string // package (relative), receiver type ("" for functions), name
	LoopOver string    // symbol mentioned by the ranged expression; region = loop body, Target "loop-next"
	Target   string    // "call:<sym>|<sym>", "ok-return", "loop-next", "any-return"
	Assume   *Assume
	Guards   []Guard
	MustCall [][]string // each entry: alternative callee symbols, one of which must be passed
	MustNode [][]string // each entry: symbols a statement on every path must mention (e.g. a masking assignment)
	MinSites int        // minimal number of target sites (default 1)
	// IfMentions restricts the check to the body of the unique if statement whose condition mentions all of
	// these symbols (comma separated).
	IfMentions string
	// Arm restricts the check to one clause of the switch over Opcode constants (pkg/vm): the clause
	// containing this constant; From = entries of the clause, guards and targets inside it.
	Arm string
}

func symAssume(kv ...any) *Assume {
	a := &Assume{Sym: map[string]bool{}}
	for i := 0; i+1 < len(kv); i += 2 {
		a.Sym[kv[i].(string)] = kv[i+1].(bool)
	}
	return a
}

// runGates evaluates the specs; obligations are keyed by spec id + guard id.
func runGates(c *Ctx, specs []GateSpec) {
	for _, sp := range specs {
		fd := c.P.Func(sp.Fn[0], sp.Fn[1], sp.Fn[2])
		base := sp.ID
		if fd == nil {
			c.Lost(base+".anchor", fmt.Sprintf("function %s.%s.%s not found", sp.Fn[0], sp.Fn[1], sp.Fn[2]))
			continue
		}
		f := c.P.NewFuncCFG(fd)
		if f == nil {
			c.Lost(base+".anchor", "function has no body")
			continue
		}
		from := f.Entry()
		var region ast.Node
		if sp.Arm != "" {
			for _, arms := range constSwitches(f.Info, f.Body, "pkg/vm/opcode", "Opcode") {
				for _, a := range arms {
					for _, cn := range a.Consts {
						if cn == sp.Arm && len(arms) > 50 {
							region = a.Clause
						}
					}
				}
			}
			if region == nil {
				c.Lost(base+".arm", fmt.Sprintf("%s: no arm for opcode %s in the dispatch switch", FuncKey(fd.Obj), sp.Arm))
				continue
			}
			from = f.regionEntries(region)
			if len(from) == 0 {
				c.Lost(base+".arm", fmt.Sprintf("%s: arm of %s has no entry block", FuncKey(fd.Obj), sp.Arm))
				continue
			}
		}
		var ifCond ast.Expr
		if sp.IfMentions != "" {
			want := strings.Split(sp.IfMentions, ",")
			var found []*ast.IfStmt
			inspectNoLit(f.Body, func(n ast.Node) bool {
				if is, ok := n.(*ast.IfStmt); ok {
					m := f.Mentions(is.Cond, nil)
					all := true
					for _, w := range want {
						if !m[w] {
							all = false
						}
					}
					if all {
						found = append(found, is)
					}
				}
				return true
			})
			if len(found) != 1 {
				c.Lost(base+".if", fmt.Sprintf("%s: expected one if statement mentioning %s, found %d", FuncKey(fd.Obj), sp.IfMentions, len(found)))
				continue
			}
			region = found[0].Body
			ifCond = found[0].Cond
			from = f.regionEntries(region)
			if len(from) == 0 {
				c.Lost(base+".if", fmt.Sprintf("%s: body of the if mentioning %s has no entry block", FuncKey(fd.Obj), sp.IfMentions))
				continue
			}
		}
		inRegion := func(ss []site) []site {
			if region == nil {
				return ss
			}
			var out []site
			for _, s := range ss {
				if containsNode(region, s.node) {
					out = append(out, s)
				}
			}
			return out
		}
		var targets map[*cfg.Block]bool
		var targetSites []site
		var tdesc string
		var loopHead *cfg.Block
		if sp.LoopOver != "" {
			var found []Loop
			for _, l := range f.Loops() {
				if l.X != nil && f.Mentions(l.X, nil)[sp.LoopOver] {
					found = append(found, l)
				}
			}
			if len(found) > 1 {
				// several loops over the same collection: the one meant is the one whose body holds what the spec is about
				// (a callee it must pass, or the first symbol of its first guard)
				var want []string
				for _, mc := range sp.MustCall {
					want = append(want, mc...)
				}
				for _, g := range sp.Guards {
					for _, alt := range g.Alts {
						if len(alt) > 0 {
							want = append(want, alt[0])
						}
					}
				}
				var keep []Loop
				for _, l := range found {
					m := f.Mentions(l.Stmt, nil)
					for _, w := range want {
						if m[w] {
							keep = append(keep, l)
							break
						}
					}
				}
				if len(keep) > 0 {
					found = keep
				}
			}
			if len(found) != 1 {
				c.Lost(base+".loop", fmt.Sprintf("%s: expected exactly one loop ranging over %s, found %d", FuncKey(fd.Obj), sp.LoopOver, len(found)))
				continue
			}
			from = []*cfg.Block{found[0].Body}
			loopHead = found[0].Head
		}
		switch {
		case strings.HasPrefix(sp.Target, "call:"):
			spec := strings.TrimPrefix(sp.Target, "call:")
			mention := ""
			if i := strings.Index(spec, "@"); i >= 0 {
				spec, mention = spec[:i], spec[i+1:]
			}
			syms := strings.Split(spec, "|")
			sites := inRegion(f.CallSites(syms...))
			if mention != "" {
				var keep []site
				for _, s := range sites {
					if f.Mentions(s.call, s.blk)[mention] {
						keep = append(keep, s)
					}
				}
				sites = keep
			}
			min := sp.MinSites
			if min == 0 {
				min = 1
			}
			if len(sites) < min {
				c.Lost(base+".target", fmt.Sprintf("%s: %d call sites of %s (need %d)", FuncKey(fd.Obj), len(sites), strings.Join(syms, "|"), min))
				continue
			}
			targets = blocksOf(sites)
			targetSites = sites
			tdesc = "call of " + strings.Join(syms, "|")
		case strings.HasPrefix(sp.Target, "node:"):
			syms := strings.Split(strings.TrimPrefix(sp.Target, "node:"), ",")
			sites := inRegion(f.NodeSites(syms...))
			if len(sites) == 0 {
				c.Lost(base+".target", fmt.Sprintf("%s: no statement mentioning %s", FuncKey(fd.Obj), strings.Join(syms, " + ")))
				continue
			}
			targets = blocksOf(sites)
			targetSites = sites
			tdesc = "statement mentioning " + strings.Join(syms, " + ")
		case strings.HasPrefix(sp.Target, "write:"):
			fld := strings.TrimPrefix(sp.Target, "write:")
			sites := inRegion(f.WriteSites(fld))
			if len(sites) == 0 {
				c.Lost(base+".target", fmt.Sprintf("%s: no write of %s", FuncKey(fd.Obj), fld))
				continue
			}
			targets = blocksOf(sites)
			tdesc = "write of " + fld
		case sp.Target == "return-true" || sp.Target == "allow-return":
			var sites []site
			for _, r := range f.Returns() {
				rs := r.node.(*ast.ReturnStmt)
				if len(rs.Results) == 0 {
					continue
				}
				v, isConst := boolConst(f.Info, rs.Results[0])
				if (sp.Target == "return-true" && isConst && v) || (sp.Target == "allow-return" && !(isConst && !v)) {
					sites = append(sites, r)
				}
			}
			sites = inRegion(sites)
			if len(sites) == 0 {
				c.Lost(base+".target", FuncKey(fd.Obj)+": no "+sp.Target+" exit found")
				continue
			}
			targets = blocksOf(sites)
			tdesc = sp.Target + " exit"
		case sp.Target == "ok-return":
			sites := f.OKReturns()
			if len(sites) == 0 {
				c.Lost(base+".target", FuncKey(fd.Obj)+": no success exit found")
				continue
			}
			targets = blocksOf(sites)
			tdesc = "success exit"
		case sp.Target == "loop-next":
			if loopHead == nil {
				c.Lost(base+".target", "loop-next without LoopOver")
				continue
			}
			targets = map[*cfg.Block]bool{loopHead: true}
			tdesc = "next iteration of the loop over " + sp.LoopOver
		default:
			c.Lost(base+".target", "bad target spec "+sp.Target)
			continue
		}
		for _, g := range sp.Guards {
			res := f.CheckGateIn(region, from, targets, g, sp.Assume)
			key := base + "." + g.ID
			pos := c.P.Pos(fd.Decl.Pos())
			if !res.OK && ifCond != nil {
				// the guard is a conjunct of the very condition the region stands under (`if bit && listed { … }`)
				var conj []ast.Expr
				var split func(e ast.Expr)
				split = func(e ast.Expr) {
					if be, ok := ast.Unparen(e).(*ast.BinaryExpr); ok && be.Op == token.LAND {
						split(be.X)
						split(be.Y)
						return
					}
					conj = append(conj, e)
				}
				split(ifCond)
				for _, cj := range conj {
					if len(conj) < 2 {
						break
					}
					m := f.Mentions(cj, nil)
					for _, alt := range g.Alts {
						all := len(alt) > 0
						for _, a := range alt {
							if !m[a] {
								all = false
							}
						}
						if all && !strings.HasPrefix(types.ExprString(ast.Unparen(cj)), "!") {
							res = GateResult{OK: true, Msg: fmt.Sprintf("guard %q is a conjunct of the condition the region stands under", g.ID)}
						}
					}
				}
			}
			if !res.OK {
				if ok, how := delegatedGate(c.P, f, fd.Obj, region, from, targets, g, sp.Assume, 0); ok {
					res = GateResult{OK: true, Msg: fmt.Sprintf("guard %q enforced %s", g.ID, how)}
				}
			}
			if res.OK {
				c.OK(key, pos, fmt.Sprintf("%s: %s is gated: %s", FuncKey(fd.Obj), tdesc, res.Msg))
			} else {
				path := res.Path
				if len(res.GatePos) > 0 {
					path = append([]string{"gating conditions found: " + strings.Join(res.GatePos, "; ")}, path...)
				}
				c.Fail(key, pos, fmt.Sprintf("%s: %s is not protected: %s", FuncKey(fd.Obj), tdesc, res.Msg), path...)
			}
		}
		for _, mn := range sp.MustNode {
			ok, path, n := f.CheckMustNode(from, targets, sp.Assume, mn...)
			if ok && n > 0 && targetSites != nil {
				// same-block order: the statement must come before the target, not merely share its block
				if ok2, p2 := f.mustBefore(from, targetSites, f.NodeSites(mn...), sp.Assume); !ok2 {
					ok, path = false, p2
				}
			}
			key := base + ".must-pass." + shortSym(mn[len(mn)-1])
			if ok && n > 0 {
				c.OK(key, c.P.Pos(fd.Decl.Pos()), fmt.Sprintf("%s: every path to the %s passes a statement mentioning %s", FuncKey(fd.Obj), tdesc, strings.Join(mn, " + ")))
			} else {
				c.Fail(key, c.P.Pos(fd.Decl.Pos()), fmt.Sprintf("%s: a path reaches the %s without passing a statement mentioning %s", FuncKey(fd.Obj), tdesc, strings.Join(mn, " + ")), path...)
			}
		}
		for _, mc := range sp.MustCall {
			ok, path := f.CheckMustCall(from, targets, sp.Assume, mc...)
			if ok && targetSites != nil {
				if ok2, p2 := f.mustBefore(from, targetSites, f.CallSites(mc...), sp.Assume); !ok2 {
					ok, path = false, p2
				}
			}
			key := base + ".must-call." + shortSym(mc[0])
			if !ok {
				if ok2, _ := delegatedMustCall(c.P, f, fd.Obj, from, targets, sp.Assume, mc, 0); ok2 {
					ok = true
				}
			}
			if ok {
				c.OK(key, c.P.Pos(fd.Decl.Pos()), fmt.Sprintf("%s: every path to the %s passes a call of %s", FuncKey(fd.Obj), tdesc, strings.Join(mc, "|")))
			} else {
				c.Fail(key, c.P.Pos(fd.Decl.Pos()), fmt.Sprintf("%s: a path reaches the %s without calling %s", FuncKey(fd.Obj), tdesc, strings.Join(mc, "|")), path...)
			}
		}
	}
}

func shortSym(s string) string {
	if i := strings.LastIndexAny(s, ".#"); i >= 0 {
		return s[i+1:]
	}
	return s
}

// argMentions: some call of callee in fn has argument number idx mentioning all of syms.
func argMentions(c *Ctx, key string, fn [3]string, callee string, idx int, syms ...string) {
	fd := c.P.Func(fn[0], fn[1], fn[2])
	if fd == nil {
		c.Lost(key+".anchor", fmt.Sprintf("function %v not found", fn))
		return
	}
	f := c.P.NewFuncCFG(fd)
	sites := f.CallSites(callee)
	if len(sites) == 0 {
		c.Lost(key+".target", fmt.Sprintf("%s: no call of %s", FuncKey(fd.Obj), callee))
		return
	}
	for _, s := range sites {
		if idx >= len(s.call.Args) {
			c.Fail(key, c.P.Pos(s.call.Pos()), "call has too few arguments")
			continue
		}
		var arg ast.Expr = s.call.Args[idx]
		m := deepMentions(c.P, f, arg, s.blk, 2)
		var missing []string
		for _, sy := range syms {
			if !m[sy] {
				missing = append(missing, sy)
			}
		}
		if len(missing) > 0 {
			c.Fail(key, c.P.Pos(s.call.Pos()), fmt.Sprintf("%s: argument %d of %s is no longer derived from %s", FuncKey(fd.Obj), idx, callee, strings.Join(missing, ", ")))
		} else {
			c.OK(key, c.P.Pos(s.call.Pos()), fmt.Sprintf("%s: argument %d of %s derives from %s", FuncKey(fd.Obj), idx, callee, strings.Join(syms, ", ")))
		}
	}
}

// deepMentions: Mentions of e plus, for every module function mentioned (a value computed by a helper), the symbols
// mentioned by the results that helper returns - so "derived from X" survives the extraction of the computation.
func deepMentions(p *Program, f *FuncCFG, e ast.Node, blk *cfg.Block, depth int) map[string]bool {
	out := f.Mentions(e, blk)
	if depth <= 0 {
		return out
	}
	for s := range out {
		if !strings.Contains(s, "(") && !strings.Contains(s, ".") {
			continue
		}
		fd := p.funcBySym(s)
		if fd == nil || fd.Decl.Body == nil {
			continue
		}
		hf := p.NewFuncCFG(fd)
		if hf == nil {
			continue
		}
		for _, r := range hf.Returns() {
			for _, res := range r.node.(*ast.ReturnStmt).Results {
				for k := range deepMentions(p, hf, res, r.blk, depth-1) {
					if !strings.HasPrefix(k, "param") && !strings.HasPrefix(k, "local") && k != "recv" {
						out[k] = true
					}
				}
			}
		}
	}
	return out
}
