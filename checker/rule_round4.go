package main

import (
	"fmt"
	"go/ast"
	"go/token"
	"go/types"
	"strings"

	"golang.org/x/tools/go/cfg"
)

// ---------------------------------------------------------------------------
// dead-update (generic): a local that is only ever assigned, incremented or has its fields/elements written - never
// read, passed, returned or captured - is a computation whose result is lost: typically a copy that was modified
// while the stale original went on being used (`lower := rng; lower.SearchDepth--; ps.Seek(rng, ...)`).
func ruleDeadUpdate(c *Ctx, pkgs ...string) {
	want := map[string]bool{}
	for _, p := range pkgs {
		want[p] = true
	}
	nloc := 0
	for _, fd := range c.P.AllFuncDecls() {
		if !want[pkgRel(fd.Pkg.Types)] || fd.Decl.Body == nil {
			continue
		}
		info := fd.Pkg.TypesInfo
		// classify every identifier occurrence of a local variable
		type use struct{ reads, writes, fieldWrites int }
		uses := map[*types.Var]*use{}
		declPos := map[*types.Var]token.Pos{}
		get := func(v *types.Var) *use {
			if uses[v] == nil {
				uses[v] = &use{}
			}
			return uses[v]
		}
		isLocal := func(o types.Object) *types.Var {
			v, ok := o.(*types.Var)
			if !ok || v.IsField() || v.Pkg() == nil || v.Parent() == v.Pkg().Scope() {
				return nil
			}
			return v
		}
		params := map[*types.Var]bool{}
		sig := fd.Obj.Type().(*types.Signature)
		for i := 0; i < sig.Params().Len(); i++ {
			params[sig.Params().At(i)] = true
		}
		for i := 0; i < sig.Results().Len(); i++ {
			params[sig.Results().At(i)] = true
		}
		if sig.Recv() != nil {
			params[sig.Recv()] = true
		}
		written := map[*ast.Ident]bool{} // identifier occurrences that are pure write targets
		var markTarget func(e ast.Expr, field bool)
		markTarget = func(e ast.Expr, field bool) {
			switch x := ast.Unparen(e).(type) {
			case *ast.Ident:
				written[x] = true
				if v := isLocal(info.ObjectOf(x)); v != nil {
					if field {
						get(v).fieldWrites++
					} else {
						get(v).writes++
					}
				}
			case *ast.SelectorExpr:
				// writing a field of a struct-typed local (not through a pointer: that is visible elsewhere)
				if t := info.TypeOf(x.X); t != nil {
					if _, isPtr := t.Underlying().(*types.Pointer); isPtr {
						return
					}
				}
				markTarget(x.X, true)
			}
		}
		ast.Inspect(fd.Decl.Body, func(n ast.Node) bool {
			switch x := n.(type) {
			case *ast.AssignStmt:
				for _, l := range x.Lhs {
					markTarget(l, false)
				}
				if x.Tok == token.DEFINE {
					for _, l := range x.Lhs {
						if id, ok := l.(*ast.Ident); ok {
							if v := isLocal(info.ObjectOf(id)); v != nil && info.Defs[id] != nil {
								declPos[v] = id.Pos()
							}
						}
					}
				}
				// `x op= e` also reads x, but only into itself
			case *ast.IncDecStmt:
				markTarget(x.X, false)
			case *ast.ValueSpec:
				for _, nm := range x.Names {
					if v := isLocal(info.ObjectOf(nm)); v != nil {
						declPos[v] = nm.Pos()
						written[nm] = true
						get(v).writes++
					}
				}
			}
			return true
		})
		// reads that only serve the variable's own updates do not count: the right-hand side of an assignment to it,
		// and the condition of an `if` whose arms do nothing but update it (`if lower.Depth > 1 { lower.Depth-- }`)
		rootVar := func(e ast.Expr) *types.Var {
			for {
				switch x := ast.Unparen(e).(type) {
				case *ast.Ident:
					return isLocal(info.ObjectOf(x))
				case *ast.SelectorExpr:
					e = x.X
				case *ast.IndexExpr:
					e = x.X
				default:
					return nil
				}
			}
		}
		var onlyUpdates func(st ast.Stmt) *types.Var // the single variable st updates and does nothing else, or nil
		onlyUpdates = func(st ast.Stmt) *types.Var {
			switch x := st.(type) {
			case *ast.AssignStmt:
				var v *types.Var
				for _, l := range x.Lhs {
					r := rootVar(l)
					if r == nil || (v != nil && r != v) {
						return nil
					}
					v = r
				}
				for _, r := range x.Rhs {
					pure := true
					ast.Inspect(r, func(y ast.Node) bool {
						if call, ok := y.(*ast.CallExpr); ok {
							if tv, ok := info.Types[call.Fun]; !ok || !tv.IsType() {
								pure = false
							}
						}
						return pure
					})
					if !pure {
						return nil
					}
				}
				return v
			case *ast.IncDecStmt:
				return rootVar(x.X)
			case *ast.BlockStmt:
				var v *types.Var
				for _, s2 := range x.List {
					r := onlyUpdates(s2)
					if r == nil || (v != nil && r != v) {
						return nil
					}
					v = r
				}
				return v
			case *ast.IfStmt:
				if x.Init != nil {
					return nil
				}
				v := onlyUpdates(x.Body)
				if v == nil {
					return nil
				}
				if x.Else != nil && onlyUpdates(x.Else) != v {
					return nil
				}
				return v
			}
			return nil
		}
		selfServing := map[*ast.Ident]bool{}
		ast.Inspect(fd.Decl.Body, func(n ast.Node) bool {
			st, ok := n.(ast.Stmt)
			if !ok {
				return true
			}
			v := onlyUpdates(st)
			if v == nil {
				return true
			}
			ast.Inspect(st, func(y ast.Node) bool {
				if id, ok := y.(*ast.Ident); ok && info.ObjectOf(id) == types.Object(v) {
					selfServing[id] = true
				}
				return true
			})
			return true
		})
		ast.Inspect(fd.Decl.Body, func(n ast.Node) bool {
			id, ok := n.(*ast.Ident)
			if !ok || written[id] || selfServing[id] {
				return true
			}
			if v := isLocal(info.ObjectOf(id)); v != nil {
				get(v).reads++
			}
			return true
		})
		k := 0
		for v, u := range uses {
			if params[v] || v.Name() == "_" || u.reads > 0 || u.fieldWrites == 0 {
				continue
			}
			// only struct/array typed locals: a scalar that is written and never read does not compile ("declared and not used")
			switch v.Type().Underlying().(type) {
			case *types.Struct, *types.Array:
			default:
				continue
			}
			nloc++
			k++
			c.Fail(fmt.Sprintf("%s.dead-update#%d", FuncKey(fd.Obj), k), c.P.Pos(declPos[v]), fmt.Sprintf("%s: the local %s is assigned and has its fields updated but is never read, passed on or returned: the updated copy is lost and whatever is used instead still has the old value", FuncKey(fd.Obj), v.Name()))
		}
	}
	c.OK("scope."+strings.Join(pkgs, "+"), "", fmt.Sprintf("no struct-typed local is updated without ever being read (%d found)", nloc))
}

// ---------------------------------------------------------------------------
// check-all-loop (generic): a loop whose body rejects (returns a non-nil error / false) on a property of the current
// element validates *every* element; leaving it early with `break` once something else was found lets the remaining
// elements escape the check.
var checkAllLoopOK = map[string]string{}

func ruleCheckAllLoop(c *Ctx, pkgs ...string) {
	want := map[string]bool{}
	for _, p := range pkgs {
		want[p] = true
	}
	n := 0
	for _, fd := range c.P.AllFuncDecls() {
		if !want[pkgRel(fd.Pkg.Types)] || fd.Decl.Body == nil {
			continue
		}
		info := fd.Pkg.TypesInfo
		f := (*FuncCFG)(nil)
		k := 0
		ast.Inspect(fd.Decl.Body, func(x ast.Node) bool {
			rs, ok := x.(*ast.RangeStmt)
			if !ok {
				return true
			}
			// the element: value variable, or index variable used to index the ranged expression
			elem := func(e ast.Node) bool {
				hit := false
				ast.Inspect(e, func(y ast.Node) bool {
					id, ok := y.(*ast.Ident)
					if !ok {
						return true
					}
					for _, kv := range []ast.Expr{rs.Key, rs.Value} {
						if kid, ok := kv.(*ast.Ident); ok && kid.Name != "_" && info.ObjectOf(kid) == info.ObjectOf(id) {
							hit = true
						}
					}
					// ... or a local that is declared inside the loop body: it is computed anew for every element
					// (`existing, ok := pool[attr.hash]`, `signerOK` derived from it)
					if o := info.ObjectOf(id); o != nil {
						if v, ok := o.(*types.Var); ok && !v.IsField() && rs.Body.Pos() <= v.Pos() && v.Pos() < rs.Body.End() {
							hit = true
						}
					}
					return true
				})
				return hit
			}
			// (1) a top-level rejecting check on the element: `if <cond on element> { return <error> }`
			rejecting := false
			for _, st := range rs.Body.List {
				is, ok := st.(*ast.IfStmt)
				if !ok || is.Else != nil || !elem(is.Cond) || len(is.Body.List) == 0 {
					continue
				}
				ret, ok := is.Body.List[len(is.Body.List)-1].(*ast.ReturnStmt)
				if !ok || len(ret.Results) == 0 {
					continue
				}
				last := ret.Results[len(ret.Results)-1]
				if t := info.TypeOf(last); t != nil && isErrorType(t) {
					if id, ok := ast.Unparen(last).(*ast.Ident); !ok || id.Name != "nil" {
						rejecting = true
					}
				}
			}
			if !rejecting {
				return true
			}
			n++
			// (2) a break that leaves this loop (not inside a nested loop/switch/select) on a path that is not a rejection
			var brk *ast.BranchStmt
			var walk func(list []ast.Stmt)
			walk = func(list []ast.Stmt) {
				for _, st := range list {
					switch y := st.(type) {
					case *ast.BranchStmt:
						if y.Tok == token.BREAK && y.Label == nil && brk == nil {
							brk = y
						}
					case *ast.IfStmt:
						walk(y.Body.List)
						if eb, ok := y.Else.(*ast.BlockStmt); ok {
							walk(eb.List)
						} else if ei, ok := y.Else.(*ast.IfStmt); ok {
							walk([]ast.Stmt{ei})
						}
					case *ast.BlockStmt:
						walk(y.List)
					}
				}
			}
			walk(rs.Body.List)
			if brk == nil {
				return true
			}
			k++
			key := fmt.Sprintf("%s.check-all-loop#%d", FuncKey(fd.Obj), k)
			if why, ok := checkAllLoopOK[FuncKey(fd.Obj)]; ok {
				c.OK(key, c.P.Pos(brk.Pos()), "tabled: "+why)
				return true
			}
			_ = f
			c.Fail(key, c.P.Pos(brk.Pos()), fmt.Sprintf("%s: the loop at %s rejects on a property of each element (error return) and is also left with `break`: the elements after the break are never checked", FuncKey(fd.Obj), c.P.Pos(rs.Pos())))
			return true
		})
	}
	c.OK("scope."+strings.Join(pkgs, "+"), "", fmt.Sprintf("%d loops validate every element with an error return; none is left early with a break", n))
}

// ---------------------------------------------------------------------------
// C09: the BoltDB scan loop treats the range limit as exclusive. util.BytesPrefix gives the *first key after* the
// prefix as Limit; a loop guard that admits k == Limit must also require the prefix.
func ruleLimitExclusive(c *Ctx) {
	n := 0
	for _, fd := range c.P.AllFuncDecls() {
		if fd.Decl.Body == nil || pkgRel(fd.Obj.Pkg()) != "pkg/core/storage" {
			continue
		}
		f := c.P.NewFuncCFG(fd)
		info := f.Info
		k := 0
		var lits []*ast.FuncLit
		ast.Inspect(fd.Decl.Body, func(x ast.Node) bool {
			if l, ok := x.(*ast.FuncLit); ok {
				lits = append(lits, l)
			}
			return true
		})
		check := func(cond ast.Expr, pos token.Pos, mention func(ast.Node) map[string]bool) {
			// comparisons of a key with <range>.Limit
			var cmpLimit *ast.BinaryExpr
			hasPrefix := false
			ast.Inspect(cond, func(y ast.Node) bool {
				switch z := y.(type) {
				case *ast.BinaryExpr:
					switch z.Op {
					case token.LSS, token.LEQ, token.GTR, token.GEQ:
						if call, ok := ast.Unparen(z.X).(*ast.CallExpr); ok && isZeroConst(info, z.Y) {
							if se, ok := ast.Unparen(call.Fun).(*ast.SelectorExpr); ok && se.Sel.Name == "Compare" && len(call.Args) == 2 {
								if mention(call.Args[1])["github.com/syndtr/goleveldb/leveldb/util#Limit"] {
									cmpLimit = z
								}
							}
						}
					}
				case *ast.CallExpr:
					if se, ok := ast.Unparen(z.Fun).(*ast.SelectorExpr); ok && se.Sel.Name == "HasPrefix" && len(z.Args) == 2 {
						if mention(z.Args[1])["pkg/core/storage#Prefix"] {
							hasPrefix = true
						}
					}
				}
				return true
			})
			if cmpLimit == nil {
				return
			}
			n++
			k++
			key := fmt.Sprintf("%s.limit-exclusive#%d", FuncKey(fd.Obj), k)
			strict := cmpLimit.Op == token.LSS
			switch {
			case strict:
				c.OK(key, c.P.Pos(pos), "the scan stops before the range limit (strict comparison)")
			case hasPrefix:
				c.OK(key, c.P.Pos(pos), "the loop guard admits k == Limit only together with HasPrefix(k, prefix), which the limit (first key after the prefix) never satisfies")
			default:
				c.Fail(key, c.P.Pos(pos), fmt.Sprintf("%s: the scan loop continues while Compare(k, Limit) %s 0 without requiring the prefix: Limit is the first key *after* the prefix, so the key equal to it (prefix \"a\" -> key \"b\") is returned by this backend and by no other", FuncKey(fd.Obj), cmpLimit.Op))
			}
		}
		ast.Inspect(fd.Decl.Body, func(x ast.Node) bool {
			if fs, ok := x.(*ast.ForStmt); ok && fs.Cond != nil {
				check(fs.Cond, fs.Pos(), func(e ast.Node) map[string]bool { return f.Mentions(e, nil) })
			}
			return true
		})
		_ = lits
	}
	c.Floor("scan loops compared with a range limit", n, 1)
}

// ---------------------------------------------------------------------------
// C07/C17: the attribute count of a transaction is limited by what the signers left of MaxAttributes.
func ruleAttrBudget(c *Ctx) {
	fd := c.P.Func("pkg/core/transaction", "Transaction", "decodeHashableFields")
	if fd == nil {
		c.Lost("anchor", "Transaction.decodeHashableFields not found")
		return
	}
	f := c.P.NewFuncCFG(fd)
	info := f.Info
	// the two counts read with ReadVarUint that bound loops over Signers / Attributes
	var signersCount types.Object
	n := 0
	ast.Inspect(fd.Decl.Body, func(x ast.Node) bool {
		as, ok := x.(*ast.AssignStmt)
		if !ok || len(as.Lhs) != 1 || len(as.Rhs) != 1 {
			return true
		}
		mk, ok := ast.Unparen(as.Rhs[0]).(*ast.CallExpr)
		if !ok || f.calleeSym(mk) != "builtin.make" || len(mk.Args) < 2 {
			return true
		}
		se, ok := ast.Unparen(as.Lhs[0]).(*ast.SelectorExpr)
		if !ok {
			return true
		}
		cnt := rootObj(info, mk.Args[1])
		switch se.Sel.Name {
		case "Signers":
			signersCount = cnt
		case "Attributes":
			n++
			if signersCount == nil || cnt == nil {
				c.Unclassified("attr-budget", c.P.Pos(as.Pos()), "signers/attributes counts not identified")
				return true
			}
			// a comparison of the attribute count that mentions both MaxAttributes and the signers count
			ok := false
			ast.Inspect(fd.Decl.Body, func(y ast.Node) bool {
				be, isBE := y.(*ast.BinaryExpr)
				if !isBE || (be.Op != token.GTR && be.Op != token.GEQ && be.Op != token.LSS && be.Op != token.LEQ) {
					return true
				}
				hasCnt, hasS, hasMax := false, false, false
				ast.Inspect(be, func(z ast.Node) bool {
					if id, isID := z.(*ast.Ident); isID {
						switch info.ObjectOf(id) {
						case cnt:
							hasCnt = true
						case signersCount:
							hasS = true
						}
						if cst, isC := info.ObjectOf(id).(*types.Const); isC && cst.Name() == "MaxAttributes" {
							hasMax = true
						}
					}
					return true
				})
				if hasCnt && hasS && hasMax {
					ok = true
				}
				return true
			})
			if ok {
				c.OK("attr-budget", c.P.Pos(as.Pos()), "the attribute count is compared with MaxAttributes less the signers count")
			} else {
				c.Fail("attr-budget", c.P.Pos(as.Pos()), "Transaction.decodeHashableFields limits the attribute count without the signers count: MaxAttributes bounds signers and attributes together, and the decoder is the only place that enforces it (a transaction with 2 signers and 15 attributes is admitted)")
			}
		}
		return true
	})
	c.Floor("attribute allocations in the transaction decoder", n, 1)
}

// ---------------------------------------------------------------------------
// C08: the pool comparator orders by the documented keys.
func ruleComparatorKeys(c *Ctx) {
	fd := c.P.Func(mpPkg, "item", "Compare")
	if fd == nil {
		c.Lost("anchor", "mempool item.Compare not found")
		return
	}
	f := c.P.NewFuncCFG(fd)
	const symFPB, symNF = "pkg/core/transaction.(*Transaction).FeePerByte", "pkg/core/transaction#NetworkFee"
	// sequence of comparison statements: each `if ret := <expr>; ret != 0 { return }` or a final return
	type step struct {
		fpb, nf int
		pos     token.Pos
	}
	var steps []step
	count := func(e ast.Node) (int, int) {
		a, b := 0, 0
		ast.Inspect(e, func(x ast.Node) bool {
			switch y := x.(type) {
			case *ast.CallExpr:
				if f.calleeSym(y) == symFPB {
					a++
				}
			case *ast.SelectorExpr:
				if symOf(f.Info.ObjectOf(y.Sel)) == symNF {
					b++
				}
			}
			return true
		})
		return a, b
	}
	for _, st := range fd.Decl.Body.List {
		var e ast.Node
		switch y := st.(type) {
		case *ast.IfStmt:
			if y.Init != nil {
				e = y.Init
			}
		case *ast.ReturnStmt:
			e = y
		}
		if e == nil {
			continue
		}
		a, b := count(e)
		if a+b > 0 {
			steps = append(steps, step{a, b, st.Pos()})
		}
	}
	okShape := len(steps) == 2 && steps[0].fpb == 2 && steps[0].nf == 0 && steps[1].fpb == 0 && steps[1].nf == 2
	if okShape {
		c.OK("comparator-keys", c.P.Pos(fd.Decl.Pos()), "item.Compare compares FeePerByte() of both transactions, then NetworkFee of both")
	} else {
		c.Fail("comparator-keys", c.P.Pos(fd.Decl.Pos()), fmt.Sprintf("item.Compare no longer compares fee per byte (Transaction.FeePerByte of both sides) and then network fee: found %d fee comparisons %v: the pool's order - and with it which entry is evicted - is not the documented (high priority, fee per byte, network fee)", len(steps), steps))
	}
}

// ---------------------------------------------------------------------------
// C05: a change of a voter's balance changes the voters count; an accepted Notary payment is credited.
func ruleVoteAndDepositFlow(c *Ctx) {
	runGates(c, []GateSpec{{
		ID: "NEO.increaseBalance.turnout", Fn: [3]string{"pkg/core/native", "NEO", "increaseBalance"}, Target: "ok-return",
		Assume: &Assume{Conds: []AssumeCond{
			{Mentions: []string{"math/big.(*Int).Sign", "param#3"}, Not: []string{"math/big.(*Int).CmpAbs", "math/big.(*Int).Cmp", "pkg/core/state#Balance"}, Val: false},
			{Mentions: []string{"pkg/core/state#VoteTo"}, Val: true},
		}},
		MustCall: [][]string{{"pkg/core/native.(*NEO).modifyVoterTurnout"}},
	}})
	// Notary.onPayment: on every path to putDepositFor the stored amount depends on the amount received
	fd := c.P.Func("pkg/core/native", "Notary", "onPayment")
	if fd == nil {
		c.Lost("onPayment.anchor", "Notary.onPayment not found")
		return
	}
	f := c.P.NewFuncCFG(fd)
	targets := f.CallSites("pkg/core/native.(*Notary).putDepositFor")
	// the received amount: the local decoded from args[1] (second element of the handler's argument list) with toBigInt
	var amount types.Object
	for o, ds := range f.defs {
		for _, d := range ds {
			for _, r := range d.rhs {
				if call, ok := ast.Unparen(r).(*ast.CallExpr); ok && f.calleeSym(call) == "pkg/core/native.toBigInt" && len(call.Args) == 1 {
					if ix, ok := ast.Unparen(call.Args[0]).(*ast.IndexExpr); ok {
						if tv := f.Info.Types[ix.Index]; tv.Value != nil && tv.Value.String() == "1" {
							amount = o
						}
					}
				}
			}
		}
	}
	if amount == nil || len(targets) == 0 {
		c.Lost("onPayment.credit", "received amount or putDepositFor call not identified")
		return
	}
	mentionsAmount := func(n ast.Node) bool {
		hit := false
		ast.Inspect(n, func(x ast.Node) bool {
			if id, ok := x.(*ast.Ident); ok && f.Info.ObjectOf(id) == amount {
				hit = true
			}
			return !hit
		})
		return hit
	}
	var credits []site
	for _, b := range f.G.Blocks {
		if !b.Live {
			continue
		}
		for i, n := range b.Nodes {
			switch x := n.(type) {
			case *ast.ExprStmt:
				// deposit.Amount.Add(deposit.Amount, amount)
				if call, ok := x.X.(*ast.CallExpr); ok && strings.HasPrefix(f.calleeSym(call), "math/big.(*Int).Add") && f.Mentions(call.Fun, b)["pkg/core/state#Amount"] && mentionsAmount(call) {
					credits = append(credits, site{b, i, n, call})
				}
			case *ast.AssignStmt:
				// deposit = &state.Deposit{Amount: <...amount...>}
				ast.Inspect(x, func(y ast.Node) bool {
					if kv, ok := y.(*ast.KeyValueExpr); ok {
						if k, ok := kv.Key.(*ast.Ident); ok && k.Name == "Amount" && mentionsAmount(kv.Value) {
							credits = append(credits, site{b, i, n, nil})
						}
					}
					return true
				})
			}
		}
	}
	if ok, path := f.mustBefore(f.Entry(), targets, credits, nil); ok && len(credits) > 0 {
		c.OK("onPayment.credit", c.P.Pos(targets[0].call.Pos()), "every path to the stored deposit passes a statement that adds the received amount to it")
	} else {
		c.Fail("onPayment.credit", c.P.Pos(targets[0].call.Pos()), fmt.Sprintf("Notary.onPayment stores the deposit on a path that never adds the GAS it received to it (%s): the Notary contract then owns GAS that belongs to no deposit", strings.Join(path, " -> ")))
	}
}

// ---------------------------------------------------------------------------
// C04: token movements of a transaction reach the transfer log only if the transaction HALTed.
func ruleTransferLogOnHalt(c *Ctx) {
	fd := c.P.Func("pkg/core", "Blockchain", "storeBlock")
	if fd == nil {
		c.Lost("anchor", "storeBlock not found")
		return
	}
	outer := c.P.NewFuncCFG(fd)
	n := 0
	ast.Inspect(fd.Decl.Body, func(x ast.Node) bool {
		lit, ok := x.(*ast.FuncLit)
		if !ok {
			return true
		}
		f := c.P.NewLitCFGIn(outer, "storeBlock$lit", lit)
		sites := f.CallSites("pkg/core.(*Blockchain).handleNotification")
		if len(sites) == 0 {
			return true
		}
		n += len(sites)
		res := f.CheckGate(f.Entry(), blocksOf(sites), Guard{ID: "halted", Doc: "the execution result is HALT", Alts: [][]string{{"pkg/core/state#VMState", "pkg/vm/vmstate.Halt"}}}, nil)
		if res.OK {
			c.OK("storeBlock.transfer-log-on-halt", c.P.Pos(sites[0].call.Pos()), "notifications are turned into transfer-log entries only behind the VMState == Halt test ("+strings.Join(res.GatePos, "; ")+")")
		} else {
			c.Fail("storeBlock.transfer-log-on-halt", c.P.Pos(sites[0].call.Pos()), "storeBlock hands the notifications of every execution result to handleNotification without testing that it HALTed: the Transfer events of a FAULTed transaction (kept in its application log) are written to the transfer log and to the accounts' last-updated heights, although the transfer was rolled back", res.Path...)
		}
		return false
	})
	c.Floor("handleNotification call sites in storeBlock's storing goroutine", n, 1)
}

// ---------------------------------------------------------------------------
// C06: the timestamp test of verifyHeader rejects equality; the state-root module's local root and local height are
// written together.
func ruleHeaderStrictness(c *Ctx) {
	fd := c.P.Func("pkg/core", "Blockchain", "verifyHeader")
	if fd == nil {
		c.Lost("verifyHeader.anchor", "verifyHeader not found")
		return
	}
	f := c.P.NewFuncCFG(fd)
	info := f.Info
	sig := fd.Obj.Type().(*types.Signature)
	if sig.Params().Len() < 2 {
		c.Lost("verifyHeader.anchor", "verifyHeader signature changed")
		return
	}
	curr, prev := sig.Params().At(0), sig.Params().At(1)
	found := false
	for _, b := range f.G.Blocks {
		cnd := f.Cond(b)
		if !b.Live || cnd == nil {
			continue
		}
		be, ok := ast.Unparen(cnd).(*ast.BinaryExpr)
		if !ok {
			continue
		}
		side := func(e ast.Expr) types.Object {
			se, ok := ast.Unparen(e).(*ast.SelectorExpr)
			if !ok || se.Sel.Name != "Timestamp" {
				return nil
			}
			return rootObj(info, se.X)
		}
		l, r := side(be.X), side(be.Y)
		if l == nil || r == nil || l == r {
			continue
		}
		found = true
		// the branch taken when the condition holds must be the rejecting one; evaluate for prev <, ==, > curr
		holds := func(rel int) bool { // rel = sign(prev - curr)
			lv := rel
			if l == types.Object(curr) {
				lv = -rel
			}
			switch be.Op {
			case token.LSS:
				return lv < 0
			case token.LEQ:
				return lv <= 0
			case token.GTR:
				return lv > 0
			case token.GEQ:
				return lv >= 0
			case token.EQL:
				return lv == 0
			case token.NEQ:
				return lv != 0
			}
			return false
		}
		_ = prev
		rejectsOnTrue := false
		if len(b.Succs) == 2 {
			for _, n := range b.Succs[0].Nodes {
				if rs, ok := n.(*ast.ReturnStmt); ok && f.isErrorExit(b.Succs[0], rs) {
					rejectsOnTrue = true
				}
			}
		}
		var bad []string
		for _, rel := range []int{-1, 0, 1} {
			rejected := holds(rel) == rejectsOnTrue
			wantReject := rel >= 0 // previous timestamp equal or later
			if rejected != wantReject {
				bad = append(bad, map[int]string{-1: "earlier", 0: "equal", 1: "later"}[rel])
			}
		}
		if len(bad) == 0 {
			c.OK("verifyHeader.timestamp-strict", c.P.Pos(cnd.Pos()), "a header is rejected when the previous timestamp is equal or later (three orderings folded)")
		} else {
			c.Fail("verifyHeader.timestamp-strict", c.P.Pos(cnd.Pos()), fmt.Sprintf("verifyHeader's timestamp test `%s` decides wrongly when the previous header's timestamp is %s than/to the new one: a block must be strictly later than its predecessor", types.ExprString(cnd), strings.Join(bad, ", ")))
		}
	}
	if !found {
		c.Lost("verifyHeader.timestamp-strict", "no comparison of the two headers' timestamps found in verifyHeader")
	}
	// stateroot.Module: currentLocal and localHeight describe one fact (the local root of a height)
	pk := c.P.Pkg("pkg/core/stateroot")
	if pk == nil {
		c.Lost("stateroot.anchor", "package stateroot not found")
		return
	}
	n := 0
	for _, md := range c.P.AllFuncDecls() {
		if md.Obj.Pkg() != pk.Types || md.Decl.Body == nil {
			continue
		}
		g := c.P.NewFuncCFG(md)
		var roots, heights []site
		for _, b := range g.G.Blocks {
			if !b.Live {
				continue
			}
			for i, nd := range b.Nodes {
				es, ok := nd.(*ast.ExprStmt)
				if !ok {
					continue
				}
				call, ok := es.X.(*ast.CallExpr)
				if !ok {
					continue
				}
				se, ok := ast.Unparen(call.Fun).(*ast.SelectorExpr)
				if !ok || se.Sel.Name != "Store" {
					continue
				}
				m := g.DirectMentions(se.X)
				if m["pkg/core/stateroot#currentLocal"] {
					// storing the zero root ("no state yet", height 0) has no height to go with it
					if cl, ok := ast.Unparen(call.Args[0]).(*ast.CompositeLit); len(call.Args) == 1 && ok && len(cl.Elts) == 0 {
						continue
					}
					roots = append(roots, site{b, i, nd, call})
				}
				if m["pkg/core/stateroot#localHeight"] {
					heights = append(heights, site{b, i, nd, call})
				}
			}
		}
		if len(roots) == 0 {
			continue
		}
		n++
		key := FuncKey(md.Obj) + ".root-with-height"
		okAll := len(heights) > 0
		for _, r := range roots {
			if ok1, _ := g.mustBefore(g.Entry(), []site{r}, heights, nil); ok1 {
				continue
			}
			var rets []site
			rets = append(rets, g.Returns()...)
			var after []site
			for _, h := range heights {
				if !(h.blk == r.blk && h.idx < r.idx) {
					after = append(after, h)
				}
			}
			if ok2, _ := g.mustBefore([]*cfg.Block{r.blk}, rets, after, nil); !ok2 || len(after) == 0 {
				okAll = false
			}
		}
		if okAll {
			c.OK(key, c.P.Pos(roots[0].node.Pos()), "the local root and the local height are stored together")
		} else {
			c.Fail(key, c.P.Pos(roots[0].node.Pos()), fmt.Sprintf("%s stores the module's current local root without storing the height it belongs to: verifyHeader compares a header's PrevStateRoot with the local root only when CurrentLocalHeight() equals the previous index, so with a stale height (0 after a restart) the first header is accepted with any PrevStateRoot", FuncKey(md.Obj)))
		}
	}
	c.Floor("functions storing the local state root", n, 3)
}

// ---------------------------------------------------------------------------
// C01: a node-local option never decides an execution outcome; the on-disk collectors work from the persisted height.
func ruleLocalOptionOutcome(c *Ctx) {
	const fld = "pkg/core/interop#SaveInvocations"
	n := 0
	for _, fd := range c.P.AllFuncDecls() {
		if fd.Decl.Body == nil || !InModule(fd.Obj.Pkg()) || !strings.HasPrefix(pkgRel(fd.Obj.Pkg()), "pkg/core") {
			continue
		}
		f := (*FuncCFG)(nil)
		k := 0
		ast.Inspect(fd.Decl.Body, func(x ast.Node) bool {
			is, ok := x.(*ast.IfStmt)
			if !ok {
				return true
			}
			if f == nil {
				f = c.P.NewFuncCFG(fd)
			}
			if !f.DirectMentions(is.Cond)[fld] {
				return true
			}
			n++
			k++
			key := fmt.Sprintf("%s.local-option#%d", FuncKey(fd.Obj), k)
			var bad ast.Node
			inspectNoLit(is.Body, func(y ast.Node) bool {
				switch z := y.(type) {
				case *ast.ReturnStmt:
					if len(z.Results) > 0 {
						last := z.Results[len(z.Results)-1]
						if t := f.Info.TypeOf(last); t != nil && isErrorType(t) {
							if id, ok := ast.Unparen(last).(*ast.Ident); !ok || id.Name != "nil" {
								bad = z
							}
						}
					}
				case *ast.CallExpr:
					if id, ok := ast.Unparen(z.Fun).(*ast.Ident); ok && id.Name == "panic" {
						bad = z
					}
				}
				return bad == nil
			})
			if bad == nil {
				c.OK(key, c.P.Pos(is.Pos()), "under the node-local SaveInvocations option nothing fails: the option only decides what is recorded")
			} else {
				c.Fail(key, c.P.Pos(bad.Pos()), fmt.Sprintf("%s fails (error return or panic) inside a branch taken only when the node-local option SaveInvocations is on: two nodes that differ in that option alone get different execution results for the same transaction", FuncKey(fd.Obj)))
			}
			return true
		})
	}
	c.Floor("branches on the node-local SaveInvocations option", n, 1)
}

func ruleGCFromPersisted(c *Ctx) {
	fd := c.P.Func("pkg/core", "Blockchain", "tryRunGC")
	if fd == nil {
		c.Lost("anchor", "tryRunGC not found")
		return
	}
	f := c.P.NewFuncCFG(fd)
	const fPersisted = "pkg/core#persistedHeight"
	n := 0
	for _, b := range f.G.Blocks {
		if !b.Live {
			continue
		}
		for _, nd := range b.Nodes {
			inspectNoLit(nd, func(x ast.Node) bool {
				call, ok := x.(*ast.CallExpr)
				if !ok || len(call.Args) == 0 {
					return true
				}
				cs := f.calleeSym(call)
				if !strings.HasPrefix(cs, "pkg/core.(*Blockchain).remove") && cs != "pkg/core.(StateRoot).GC" && cs != "pkg/core/stateroot.(*Module).GC" {
					return true
				}
				n++
				key := "tryRunGC." + shortSym(cs)
				bad := ""
				for _, a := range call.Args {
					m := f.Mentions(a, b)
					if t := f.Info.TypeOf(a); t == nil {
						continue
					} else if bt, ok := t.Underlying().(*types.Basic); !ok || bt.Info()&types.IsInteger == 0 {
						continue
					}
					if !m[fPersisted] {
						bad = types.ExprString(a) + " does not derive from persistedHeight"
					}
					if m[symBlockHeight] || m["pkg/core#blockHeight"] {
						bad = types.ExprString(a) + " derives from the in-memory block height"
					}
				}
				if bad == "" {
					c.OK(key, c.P.Pos(call.Pos()), "the collector's target derives from the persisted height")
				} else {
					c.Fail(key, c.P.Pos(call.Pos()), fmt.Sprintf("tryRunGC calls %s with a target that %s: the collectors delete on disk (SeekGC) what only blocks still in memory make obsolete; a crash before the next flush leaves a database that needs what was deleted (a header-hash page, MPT nodes)", shortSym(cs), bad))
				}
				return true
			})
		}
	}
	c.Floor("collector calls in tryRunGC", n, 4)
}
