package main

import (
	"fmt"
	"go/ast"
	"go/types"
	"sort"
	"strings"

	"golang.org/x/tools/go/ssa"

	"golang.org/x/tools/go/cfg"
)

// execRoots: everything that runs while a block is processed.
func execRoots(c *Ctx, withStoreBlock bool) []*ssa.Function {
	roots := c.P.HandlerRoots()
	for _, r := range [][3]string{{"pkg/core/interop", "Context", "Exec"}, {"pkg/vm", "VM", "execute"}, {"pkg/vm", "VM", "Run"}, {"pkg/core", "Blockchain", "runPersist"}} {
		if fd := c.P.Func(r[0], r[1], r[2]); fd != nil {
			roots = append(roots, c.P.SSAFunc(fd.Obj))
		}
	}
	if withStoreBlock {
		if fd := c.P.Func("pkg/core", "Blockchain", "storeBlock"); fd != nil {
			roots = append(roots, c.P.SSAFunc(fd.Obj))
		}
	}
	return roots
}

var nondetCallees = map[string]string{
	"time.Now": "wall clock", "time.Since": "wall clock", "time.Until": "wall clock",
	"os.Getenv": "environment", "os.Hostname": "environment", "os.Getpid": "environment",
	"runtime.NumGoroutine": "scheduler", "runtime.NumCPU": "host",
}

func isNondet(fn *ssa.Function) (string, bool) {
	if fn == nil || fn.Pkg == nil {
		return "", false
	}
	p := fn.Pkg.Pkg.Path()
	if p == "math/rand" || p == "math/rand/v2" || p == "crypto/rand" {
		return "random source", true
	}
	if w, ok := nondetCallees[p+"."+fn.Name()]; ok && fn.Signature.Recv() == nil {
		return w, true
	}
	return "", false
}

// onlyLogged: every use of v (transitively through conversions, time arithmetic and Duration/Field wrappers) ends in a
// logging or metrics call.
func onlyLogged(v ssa.Value, depth int, seen map[ssa.Value]bool) bool {
	if depth > 8 || seen[v] {
		return true
	}
	seen[v] = true
	refs := v.Referrers()
	if refs == nil {
		return true
	}
	for _, r := range *refs {
		switch x := r.(type) {
		case *ssa.DebugRef:
			continue
		case *ssa.Call:
			cc := x.Common()
			var name string
			if sf := cc.StaticCallee(); sf != nil {
				name = sf.String()
				if sf.Pkg != nil {
					name = sf.Pkg.Pkg.Path() + "." + sf.Name()
				}
			} else if cc.IsInvoke() {
				name = cc.Method.Pkg().Path() + "." + cc.Method.Name()
			}
			switch {
			case strings.HasPrefix(name, "go.uber.org/zap"), strings.Contains(name, "prometheus"), strings.Contains(name, "/metrics"):
				continue
			case strings.HasPrefix(name, "time."): // Sub, Since, Seconds, Milliseconds ... -> derived value
				if !onlyLogged(x, depth+1, seen) {
					return false
				}
				continue
			case strings.HasPrefix(name, "fmt.S"), strings.HasPrefix(name, "fmt.Errorf"):
				if !onlyLogged(x, depth+1, seen) {
					return false
				}
				continue
			}
			return false
		case *ssa.MakeInterface, *ssa.ChangeType, *ssa.Convert, *ssa.BinOp, *ssa.Phi, *ssa.Slice, *ssa.Extract, *ssa.UnOp:
			if !onlyLogged(x.(ssa.Value), depth+1, seen) {
				return false
			}
		case *ssa.Store:
			// stored into a local slot that is itself only logged: follow the address
			if a, ok := x.Addr.(*ssa.Alloc); ok {
				if !onlyLogged(a, depth+1, seen) {
					return false
				}
				continue
			}
			if a, ok := x.Addr.(*ssa.IndexAddr); ok { // zap field arrays
				if !onlyLogged(a.X, depth+1, seen) {
					return false
				}
				continue
			}
			return false
		case *ssa.IndexAddr, *ssa.FieldAddr:
			if !onlyLogged(x.(ssa.Value), depth+1, seen) {
				return false
			}
		case *ssa.MakeClosure:
			continue // captured by a closure: the closure body is analysed as its own function
		default:
			return false
		}
	}
	return true
}

func ruleDetSources(c *Ctx) {
	g := c.P.MRG()
	via := g.Reach(execRoots(c, true), nil)
	var fns []*ssa.Function
	for fn := range via {
		fns = append(fns, fn)
	}
	sort.Slice(fns, func(i, j int) bool { return FnKey(fns[i]) < FnKey(fns[j]) })
	c.Floor("functions in the state-transition closure", len(fns), 1200)
	nsrc := 0
	for _, fn := range fns {
		k := 0
		for _, b := range fn.Blocks {
			for _, ins := range b.Instrs {
				call, ok := ins.(*ssa.Call)
				if !ok {
					continue
				}
				sf := call.Common().StaticCallee()
				what, nd := isNondet(sf)
				if !nd {
					continue
				}
				nsrc++
				k++
				key := fmt.Sprintf("%s.%s#%d", FnKey(fn), sf.Name(), k)
				if onlyLogged(call, 0, map[ssa.Value]bool{}) {
					c.OK(key, c.P.Pos(call.Pos()), fmt.Sprintf("%s (%s.%s) is used for logging/metrics only", what, sf.Pkg.Pkg.Name(), sf.Name()))
				} else {
					c.Fail(key, c.P.Pos(call.Pos()), fmt.Sprintf("%s reads a %s (%s.%s) while a block is processed and the value is used for more than logging/metrics: two nodes processing the same block can reach different states", FnKey(fn), what, sf.Pkg.Pkg.Name(), sf.Name()), g.PathTo(via, fn)...)
				}
			}
		}
	}
	c.OK("closure-scanned", "pkg/core", fmt.Sprintf("%d functions reachable from block processing scanned, %d nondeterminism sources found", len(fns), nsrc))
}

// ---------------------------------------------------------------------------
// det-maprange

func ruleDetMapRange(c *Ctx) {
	g := c.P.MRG()
	via := g.Reach(execRoots(c, true), nil)
	inClosure := map[*types.Func]bool{}
	for fn := range via {
		top := fn
		for top.Parent() != nil {
			top = top.Parent()
		}
		if o, ok := top.Object().(*types.Func); ok {
			inClosure[o.Origin()] = true
		}
	}
	n := 0
	for _, fd := range c.P.AllFuncDecls() {
		if !inClosure[fd.Obj] || fd.Decl.Body == nil {
			continue
		}
		if rel := pkgRel(fd.Obj.Pkg()); !strings.HasPrefix(rel, "pkg/core") && !strings.HasPrefix(rel, "pkg/vm") && !strings.HasPrefix(rel, "pkg/smartcontract") {
			continue
		}
		units := []*FuncCFG{c.P.NewFuncCFG(fd)}
		li := 0
		ast.Inspect(fd.Decl.Body, func(x ast.Node) bool {
			if lit, ok := x.(*ast.FuncLit); ok {
				li++
				units = append(units, c.P.NewLitCFG(fd.Pkg.TypesInfo, fmt.Sprintf("%s$%d", FuncKey(fd.Obj), li), lit))
			}
			return true
		})
		k := 0
		for _, f := range units {
			for _, l := range f.Loops() {
				if l.X == nil {
					continue
				}
				t := f.Info.TypeOf(l.X)
				if t == nil {
					continue
				}
				if _, isMap := t.Underlying().(*types.Map); !isMap {
					// iterator over a map: maps.Keys / maps.All / maps.Values
					m := f.DirectMentions(l.X)
					if !(m["maps.Keys"] || m["maps.All"] || m["maps.Values"]) {
						continue
					}
				}
				n++
				k++
				key := fmt.Sprintf("%s.range#%d", FuncKey(fd.Obj), k)
				body := f.Mentions(l.Stmt, nil)
				var sens []string
				for _, s := range []string{"pkg/core/interop.(*Context).AddNotification", "pkg/vm.(*Stack).PushItem", "pkg/vm.(*Stack).PushVal", "pkg/io.(*BinWriter).WriteB", "pkg/io.(*BinWriter).WriteBytes", "pkg/io.(*BinWriter).WriteVarBytes", "pkg/io.(*BinWriter).WriteU32LE", "pkg/io.(*BinWriter).WriteVarUint", "builtin.append"} {
					if body[s] {
						sens = append(sens, shortSym(s))
					}
				}
				sorted := false
				for s := range f.Mentions(fd.Decl.Body, nil) {
					if strings.HasPrefix(s, "slices.Sort") || strings.HasPrefix(s, "sort.") {
						sorted = true
					}
				}
				switch {
				case len(sens) == 0:
					c.OK(key, c.P.Pos(l.Stmt.Pos()), "map iteration whose body only updates keyed state (order-insensitive)")
				case len(sens) == 1 && sens[0] == "append" && sorted:
					c.OK(key, c.P.Pos(l.Stmt.Pos()), "map iteration collecting into a slice that is sorted in the same function")
				case mapRangeTable[FuncKey(fd.Obj)] != "":
					c.OK(key, c.P.Pos(l.Stmt.Pos()), "tabled: "+mapRangeTable[FuncKey(fd.Obj)])
				default:
					c.Fail(key, c.P.Pos(l.Stmt.Pos()), fmt.Sprintf("%s iterates a map in (random) order and the body reaches order-sensitive sinks %v during block processing: the result differs between nodes", FuncKey(fd.Obj), sens))
				}
			}
		}
	}
	c.Floor("map iterations in the state-transition closure", n, 5)
	// the consumer of the unsorted seek snapshot sorts it first
	if ps := c.P.Func("pkg/core/storage", "", "performSeek"); ps != nil {
		pf := c.P.NewFuncCFG(ps)
		ok := false
		for _, s := range pf.CallSites("slices.SortFunc") {
			if len(s.call.Args) > 0 && pf.DirectMentions(s.call.Args[0])["param#2"] {
				ok = true
			}
		}
		if ok {
			c.OK("performSeek.sorts-snapshot", c.P.Pos(ps.Decl.Pos()), "performSeek sorts the memory snapshot before merging")
		} else {
			c.Fail("performSeek.sorts-snapshot", c.P.Pos(ps.Decl.Pos()), "performSeek no longer sorts the (map-ordered) memory snapshot it receives: seek results would come in random order")
		}
	} else {
		c.Lost("performSeek.anchor", "storage.performSeek not found")
	}
}

// order-sensitive map iterations that are not part of replicated state, one reason each
var mapRangeTable = map[string]string{
	"pkg/core/state.(*TokenTransferInfo).EncodeBinary":          "node-local transfer index (not part of state, gas or stack); decoded back into a map",
	"pkg/core/storage.(*MemCachedStore).GetBatch":               "node-local diagnostic snapshot kept only under SaveStorageBatch; never part of state",
	"pkg/core/storage.(*MemCachedStore).prepareSeekMemSnapshot": "the snapshot is sorted by performSeek (slices.SortFunc on its memRes parameter) before any element is handed out — checked below",
	"pkg/core/storage.(*MemoryStore).seek":                      "collected into memList and sorted with slices.SortFunc in the same function",
}

// ---------------------------------------------------------------------------
// cfg-local: node-local settings do not flow into execution

func ruleCfgLocal(c *Ctx) {
	g := c.P.MRG()
	via := g.Reach(execRoots(c, false), nil)
	local := map[string]bool{"Ledger": true, "NeoFSBlockFetcher": true, "NeoFSStateFetcher": true, "ApplicationConfiguration": true}
	tabled := map[string]string{
		"pkg/core/interop.NewContext.SaveInvocations": "recorded into InvocationCalls only (application-log detail, not part of state, gas or stack)",
	}
	var fns []*ssa.Function
	for fn := range via {
		fns = append(fns, fn)
	}
	sort.Slice(fns, func(i, j int) bool { return FnKey(fns[i]) < FnKey(fns[j]) })
	nread := 0
	for _, fn := range fns {
		for _, b := range fn.Blocks {
			for _, ins := range b.Instrs {
				var st *types.Struct
				var owner string
				var idx int
				switch x := ins.(type) {
				case *ssa.FieldAddr:
					t := x.X.Type()
					if p, ok := t.Underlying().(*types.Pointer); ok {
						t = p.Elem()
					}
					if nt, ok := t.(*types.Named); ok && nt.Obj().Pkg() != nil && pkgRel(nt.Obj().Pkg()) == "pkg/config" {
						owner, idx = nt.Obj().Name(), x.Field
						st, _ = nt.Underlying().(*types.Struct)
					}
				case *ssa.Field:
					if nt, ok := x.X.Type().(*types.Named); ok && nt.Obj().Pkg() != nil && pkgRel(nt.Obj().Pkg()) == "pkg/config" {
						owner, idx = nt.Obj().Name(), x.Field
						st, _ = nt.Underlying().(*types.Struct)
					}
				}
				if st == nil || !local[owner] {
					continue
				}
				fld := st.Field(idx).Name()
				nread++
				key := FnKey(fn) + "." + fld
				if why, ok := tabled[key]; ok {
					c.OK(key, c.P.Pos(ins.Pos()), "tabled: "+why)
					continue
				}
				c.Fail(key, c.P.Pos(ins.Pos()), fmt.Sprintf("%s reads the node-local setting %s.%s while executing a block/transaction: nodes configured differently would compute different results", FnKey(fn), owner, fld), g.PathTo(via, fn)...)
			}
		}
	}
	c.OK("closure-scanned", "pkg/core", fmt.Sprintf("%d functions in the execution closure, %d reads of node-local configuration (all tabled)", len(fns), nread))
	c.Floor("functions in the execution closure", len(fns), 1000)
}

// ---------------------------------------------------------------------------
// exec-confinement: during execution nothing is written outside the layers that roll back with the transaction

func storeRoot(v ssa.Value, depth int) ssa.Value {
	for i := 0; i < 12 && v != nil; i++ {
		switch x := v.(type) {
		case *ssa.FieldAddr:
			v = x.X
		case *ssa.IndexAddr:
			v = x.X
		case *ssa.UnOp:
			v = x.X
		case *ssa.Field:
			v = x.X
		case *ssa.ChangeType:
			v = x.X
		default:
			return v
		}
	}
	return v
}

func ruleExecConfinement(c *Ctx) {
	g := c.P.MRG()
	via := g.Reach(execRoots(c, false), nil)
	nat := c.P.Pkg(natPkg)
	isContractObj := func(t types.Type) (string, bool) {
		if p, ok := t.(*types.Pointer); ok {
			t = p.Elem()
		}
		nt, ok := t.(*types.Named)
		if !ok || nat == nil || nt.Obj().Pkg() != nat.Types {
			return "", false
		}
		ms := types.NewMethodSet(types.NewPointer(nt))
		if ms.Lookup(nat.Types, "Metadata") != nil && ms.Lookup(nat.Types, "OnPersist") != nil {
			return nt.Obj().Name(), true
		}
		return "", false
	}
	tabled := map[string]string{
		"Oracle.newRequests": "feed for the off-chain oracle service, its ids (not its contents) reconciled against storage in PostPersist; not consulted by execution",
	}
	var fns []*ssa.Function
	for fn := range via {
		fns = append(fns, fn)
	}
	sort.Slice(fns, func(i, j int) bool { return FnKey(fns[i]) < FnKey(fns[j]) })
	nstores, nflag := 0, 0
	for _, fn := range fns {
		if fn.Pkg == nil && fn.Parent() == nil {
			continue
		}
		for _, b := range fn.Blocks {
			for _, ins := range b.Instrs {
				var addr ssa.Value
				switch x := ins.(type) {
				case *ssa.Store:
					addr = x.Addr
				case *ssa.MapUpdate:
					addr = x.Map
				default:
					continue
				}
				nstores++
				root := storeRoot(addr, 0)
				switch r := root.(type) {
				case *ssa.Global:
					if !InModule(r.Pkg.Pkg) {
						continue
					}
					nflag++
					key := "global." + pkgRel(r.Pkg.Pkg) + "." + r.Name() + "@" + FnKey(fn)
					c.Fail(key, c.P.Pos(ins.Pos()), fmt.Sprintf("%s writes the package-level variable %s.%s during execution: the change survives a FAULT and a caught exception, and is gone after a restart", FnKey(fn), r.Pkg.Pkg.Name(), r.Name()), g.PathTo(via, fn)...)
				case *ssa.Parameter:
					name, ok := isContractObj(r.Type())
					if !ok {
						continue
					}
					// which field?
					fld := "?"
					for v := addr; v != nil; {
						if fa, ok := v.(*ssa.FieldAddr); ok {
							if storeRoot(fa.X, 0) == root {
								if _, direct := fa.X.(*ssa.Parameter); direct {
									fld = fieldName(fa)
								}
							}
							v = fa.X
							continue
						}
						if u, ok := v.(*ssa.UnOp); ok {
							v = u.X
							continue
						}
						if ia, ok := v.(*ssa.IndexAddr); ok {
							v = ia.X
							continue
						}
						break
					}
					nflag++
					key := "native-object." + name + "." + fld
					if why, ok := tabled[name+"."+fld]; ok {
						c.OK(key+"@"+FnKey(fn), c.P.Pos(ins.Pos()), "tabled: "+why)
						continue
					}
					c.Fail(key+"@"+FnKey(fn), c.P.Pos(ins.Pos()), fmt.Sprintf("%s writes field %s of the native contract object %s during execution: state kept outside the DAO layers survives a FAULT / caught exception and is absent after a restart", FnKey(fn), fld, name), g.PathTo(via, fn)...)
				}
			}
		}
	}
	c.OK("closure-scanned", "pkg/core", fmt.Sprintf("%d stores in %d functions of the execution closure; %d target a package-level variable or a native contract object (all tabled)", nstores, len(fns), nflag))
	c.Floor("stores scanned", nstores, 2000)
}

// ledger-traceable: what the Ledger native tells a contract about a block or transaction must not depend on how much
// history the node keeps: data beyond MaxTraceableBlocks is reported as unknown by every node, archival or pruning.
// Every method of native Ledger that looks a block or a transaction up returns data derived from the lookup only
// behind the isTraceableBlock test.
func ruleLedgerTraceable(c *Ctx) {
	pk := c.P.Pkg(natPkg)
	if pk == nil {
		c.Lost("anchor", "package native not found")
		return
	}
	lookups := []string{"pkg/core/native.getTransactionAndHeight", "pkg/core/dao.(*Simple).GetTxExecResult", "pkg/core/dao.(*Simple).GetBlock", "pkg/core/native.getBlockHashFromItem"}
	n := 0
	for _, fd := range c.P.AllFuncDecls() {
		if fd.Pkg != pk || fd.Decl.Body == nil || fd.Decl.Recv == nil || !namedTypeIs(pk.TypesInfo.TypeOf(fd.Decl.Recv.List[0].Type), natPkg, "Ledger") {
			continue
		}
		f := c.P.NewFuncCFG(fd)
		uses := false
		for _, s := range lookups {
			if len(f.CallSites(s)) > 0 {
				uses = true
			}
		}
		if !uses || fd.Decl.Name.Name == "isTraceableBlock" {
			continue
		}
		// returns whose value derives from the lookup
		targets := map[*cfg.Block]bool{}
		for _, r := range f.Returns() {
			m := f.DirectMentions(r.node)
			for _, s := range lookups {
				if m["local<-"+s] {
					targets[r.blk] = true
				}
			}
		}
		if len(targets) == 0 {
			continue
		}
		n++
		key := FuncKey(fd.Obj) + ".traceable"
		res := f.CheckGate(f.Entry(), targets, Guard{ID: "traceable", Doc: "data about a block/transaction is given out only if the block is within MaxTraceableBlocks", Alts: [][]string{{"pkg/core/native.(*Ledger).isTraceableBlock"}}}, nil)
		if res.OK {
			c.OK(key, c.P.Pos(fd.Decl.Pos()), res.Msg)
		} else {
			c.Fail(key, c.P.Pos(fd.Decl.Pos()), FuncKey(fd.Obj)+" gives out data of a looked-up block/transaction without the traceability test: an archival node answers for an old transaction, a pruning node (whose GC removed it) answers null - the same contract call diverges with the node's retention setting: "+res.Msg, res.Path...)
		}
	}
	c.Floor("Ledger methods returning looked-up data", n, 4)
	// the other natives: whoever reads a transaction or block record directly (not through the Ledger's guarded
	// methods) depends on a record that a pruning node deletes once it is untraceable and an archival node keeps
	recordReaders := map[string]bool{"pkg/core/dao.(*Simple).GetTransaction": true, "pkg/core/dao.(*Simple).GetTxExecResult": true, "pkg/core/dao.(*Simple).GetBlock": true}
	m := 0
	for _, fd := range c.P.AllFuncDecls() {
		if fd.Pkg != pk || fd.Decl.Body == nil {
			continue
		}
		if fd.Decl.Recv != nil && namedTypeIs(pk.TypesInfo.TypeOf(fd.Decl.Recv.List[0].Type), natPkg, "Ledger") {
			continue
		}
		if fd.Obj.Name() == "getTransactionAndHeight" {
			continue // the Ledger's own helper, its callers are checked above
		}
		f := c.P.NewFuncCFG(fd)
		var sites []site
		for k := range recordReaders {
			sites = append(sites, f.CallSites(k)...)
		}
		if len(sites) == 0 {
			continue
		}
		m++
		key := FuncKey(fd.Obj) + ".record-read-traceable"
		gated := len(f.CallSites("pkg/core/native.(*Ledger).isTraceableBlock")) > 0
		if gated {
			c.OK(key, c.P.Pos(sites[0].call.Pos()), "reads a transaction/block record and tests its traceability")
		} else {
			c.Fail(key, c.P.Pos(sites[0].call.Pos()), FuncKey(fd.Obj)+" reads a transaction or block record from the DAO without a traceability test: RemoveUntraceableBlocks - a node-local setting - deletes the record once its block is older than MaxTraceableBlocks, so the same execution finds it on an archival node and misses it on a pruning one")
		}
	}
	c.Note("natives other than Ledger reading ledger records directly: %d", m)
}
