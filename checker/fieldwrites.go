package main

import (
	"go/ast"
	"go/token"
	"go/types"
	"sort"
)

// fieldAccess is a read or write of a struct field found syntactically.
type fieldAccess struct {
	Field string // field symbol "pkg#name"
	Pos   token.Pos
	Write bool
	Node  ast.Node
}

// lhsFields returns the field symbols on the access path of an lvalue expression: mp.fees[p] -> [mempool#fees].
func lhsFields(info *types.Info, e ast.Expr, out *[]string) {
	switch x := ast.Unparen(e).(type) {
	case *ast.SelectorExpr:
		if v, ok := info.ObjectOf(x.Sel).(*types.Var); ok && v.IsField() {
			*out = append(*out, symOf(v))
		}
		lhsFields(info, x.X, out)
	case *ast.IndexExpr:
		lhsFields(info, x.X, out)
	case *ast.SliceExpr:
		lhsFields(info, x.X, out)
	case *ast.StarExpr:
		lhsFields(info, x.X, out)
	}
}

// outerField returns the field nearest to the root of the access path (the struct member that is modified):
// for mp.fees[p] it is mempool#fees; for a.b.c = 1 it returns all of a's path fields, outermost last.
func writtenFields(info *types.Info, e ast.Expr) []string {
	var fs []string
	lhsFields(info, e, &fs)
	return fs
}

// nodeWrites lists field writes performed directly by node n (function literals excluded unless includeLits).
func nodeWrites(info *types.Info, n ast.Node, includeLits bool) []fieldAccess {
	var out []fieldAccess
	add := func(e ast.Expr, node ast.Node) {
		for _, f := range writtenFields(info, e) {
			out = append(out, fieldAccess{Field: f, Pos: e.Pos(), Write: true, Node: node})
		}
	}
	walk := inspectNoLit
	if includeLits {
		walk = func(n ast.Node, fn func(ast.Node) bool) {
			ast.Inspect(n, func(x ast.Node) bool { return x != nil && fn(x) })
		}
	}
	walk(n, func(x ast.Node) bool {
		switch s := x.(type) {
		case *ast.AssignStmt:
			for _, l := range s.Lhs {
				add(l, s)
			}
		case *ast.IncDecStmt:
			add(s.X, s)
		case *ast.RangeStmt:
			if s.Tok == token.ASSIGN {
				if s.Key != nil {
					add(s.Key, s)
				}
				if s.Value != nil {
					add(s.Value, s)
				}
			}
		case *ast.CallExpr:
			if id, ok := ast.Unparen(s.Fun).(*ast.Ident); ok {
				if b, ok := info.ObjectOf(id).(*types.Builtin); ok && len(s.Args) > 0 {
					switch b.Name() {
					case "delete", "clear", "copy":
						add(s.Args[0], s)
					}
				}
			}
			// maps.Copy / slices.* in-place helpers with the field as destination
			if se, ok := ast.Unparen(s.Fun).(*ast.SelectorExpr); ok && len(s.Args) > 0 {
				if fo, ok := info.ObjectOf(se.Sel).(*types.Func); ok && fo.Pkg() != nil {
					k := fo.Pkg().Path() + "." + fo.Name()
					switch k {
					case "maps.Copy", "maps.DeleteFunc", "maps.Insert", "slices.Sort", "slices.SortFunc", "slices.SortStableFunc", "slices.Reverse", "sort.Slice", "sort.SliceStable", "sort.Sort", "sort.Stable":
						add(s.Args[0], s)
					}
				}
			}
		}
		return true
	})
	return out
}

// WriteSummary: fields written by a function directly or through calls to functions of the same package.
type WriteSummary struct {
	Direct map[*types.Func]map[string][]token.Pos
	Trans  map[*types.Func]map[string]bool
	Calls  map[*types.Func][]*types.Func
}

// PkgWriteSummary computes direct and transitive (intra-package, static calls incl. closures) field writes.
func (p *Program) PkgWriteSummary(rel string) *WriteSummary {
	ws := &WriteSummary{Direct: map[*types.Func]map[string][]token.Pos{}, Trans: map[*types.Func]map[string]bool{}, Calls: map[*types.Func][]*types.Func{}}
	pk := p.Pkg(rel)
	if pk == nil {
		return ws
	}
	var fds []*FuncDecl
	for _, fd := range p.declOf {
		if fd.Pkg == pk && fd.Decl.Body != nil {
			fds = append(fds, fd)
		}
	}
	sort.Slice(fds, func(i, j int) bool { return fds[i].Decl.Pos() < fds[j].Decl.Pos() })
	for _, fd := range fds {
		d := map[string][]token.Pos{}
		for _, w := range nodeWrites(pk.TypesInfo, fd.Decl.Body, true) {
			d[w.Field] = append(d[w.Field], w.Pos)
		}
		ws.Direct[fd.Obj] = d
		ast.Inspect(fd.Decl.Body, func(n ast.Node) bool {
			var id *ast.Ident
			switch x := n.(type) {
			case *ast.CallExpr:
				switch f := ast.Unparen(x.Fun).(type) {
				case *ast.Ident:
					id = f
				case *ast.SelectorExpr:
					id = f.Sel
				}
			case *ast.SelectorExpr: // method values
				id = x.Sel
			}
			if id != nil {
				if fo, ok := pk.TypesInfo.ObjectOf(id).(*types.Func); ok && fo.Pkg() == pk.Types {
					ws.Calls[fd.Obj] = append(ws.Calls[fd.Obj], fo.Origin())
				}
			}
			return true
		})
	}
	for _, fd := range fds {
		t := map[string]bool{}
		seen := map[*types.Func]bool{}
		var visit func(f *types.Func)
		visit = func(f *types.Func) {
			if seen[f] {
				return
			}
			seen[f] = true
			for k := range ws.Direct[f] {
				t[k] = true
			}
			for _, c := range ws.Calls[f] {
				visit(c)
			}
		}
		visit(fd.Obj)
		ws.Trans[fd.Obj] = t
	}
	return ws
}
