package main

import (
	"fmt"
	"go/ast"
	"go/constant"
	"go/token"
	"go/types"
	"sort"
	"strings"
)

// switchArm is one clause of a switch over a named constant type.
type switchArm struct {
	Consts    []string // constant names (unqualified)
	Default   bool
	Body      []ast.Stmt
	Clause    *ast.CaseClause
	Switch    *ast.SwitchStmt
	TypeNames []string // for type switches: names of the case types
}

// namedTypeIs reports whether t is the named type pkgRel.name.
func namedTypeIs(t types.Type, rel, name string) bool {
	if t == nil {
		return false
	}
	if p, ok := t.(*types.Pointer); ok {
		t = p.Elem()
	}
	n, ok := t.(*types.Named)
	if !ok {
		if a, ok := t.(*types.Alias); ok {
			return namedTypeIs(types.Unalias(a), rel, name)
		}
		return false
	}
	return n.Obj().Name() == name && n.Obj().Pkg() != nil && pkgRel(n.Obj().Pkg()) == rel
}

// constSwitches returns the arms of every switch in body whose tag has the given named type.
func constSwitches(info *types.Info, body ast.Node, rel, typeName string) [][]switchArm {
	var out [][]switchArm
	ast.Inspect(body, func(n ast.Node) bool {
		sw, ok := n.(*ast.SwitchStmt)
		if !ok || sw.Tag == nil {
			return true
		}
		if !namedTypeIs(info.TypeOf(sw.Tag), rel, typeName) {
			return true
		}
		var arms []switchArm
		for _, cl := range sw.Body.List {
			cc := cl.(*ast.CaseClause)
			arm := switchArm{Body: cc.Body, Clause: cc, Switch: sw, Default: cc.List == nil}
			for _, e := range cc.List {
				arm.Consts = append(arm.Consts, constName(info, e))
			}
			arms = append(arms, arm)
		}
		out = append(out, arms)
		return true
	})
	return out
}

// typeSwitches returns the arms of every type switch in body at least one of whose cases names a type
// implementing / equal to something in pkg rel (filter by the caller).
func typeSwitches(info *types.Info, body ast.Node) [][]switchArm {
	var out [][]switchArm
	ast.Inspect(body, func(n ast.Node) bool {
		sw, ok := n.(*ast.TypeSwitchStmt)
		if !ok {
			return true
		}
		var arms []switchArm
		for _, cl := range sw.Body.List {
			cc := cl.(*ast.CaseClause)
			arm := switchArm{Body: cc.Body, Clause: cc, Default: cc.List == nil}
			for _, e := range cc.List {
				t := info.TypeOf(e)
				name := types.ExprString(e)
				if t != nil {
					if p, ok := t.(*types.Pointer); ok {
						t = p.Elem()
					}
					if nt, ok := t.(*types.Named); ok {
						name = nt.Obj().Name()
					}
				}
				arm.TypeNames = append(arm.TypeNames, name)
			}
			arms = append(arms, arm)
		}
		out = append(out, arms)
		return true
	})
	return out
}

// constsOfType lists the package-level constants of the named type declared in package rel: name -> value.
func (p *Program) constsOfType(rel, typeName string) map[string]constant.Value {
	out := map[string]constant.Value{}
	pk := p.Pkg(rel)
	if pk == nil {
		return out
	}
	sc := pk.Types.Scope()
	for _, n := range sc.Names() {
		if c, ok := sc.Lookup(n).(*types.Const); ok && namedTypeIs(c.Type(), rel, typeName) {
			out[n] = c.Val()
		}
	}
	return out
}

func sortedKeys[V any](m map[string]V) []string {
	var ks []string
	for k := range m {
		ks = append(ks, k)
	}
	sort.Strings(ks)
	return ks
}

func setDiff(a, b map[string]bool) []string {
	var d []string
	for k := range a {
		if !b[k] {
			d = append(d, k)
		}
	}
	sort.Strings(d)
	return d
}

// armDirectMentions: symbols written in the statements of an arm themselves (locals not expanded).
func armDirectMentions(f *FuncCFG, arm switchArm) map[string]bool {
	m := map[string]bool{}
	for _, s := range arm.Body {
		for k := range f.DirectMentions(s) {
			m[k] = true
		}
	}
	return m
}

// armMentions: symbols mentioned by the statements of an arm.
func armMentions(f *FuncCFG, arm switchArm) map[string]bool {
	m := map[string]bool{}
	for _, s := range arm.Body {
		for k := range f.Mentions(s, nil) {
			m[k] = true
		}
	}
	return m
}

// compositeKeys returns the constant names used as keys of the composite literal initialising var name in pkg rel.
func (p *Program) compositeKeys(rel, varName string) (map[string]bool, map[string]constant.Value, token.Pos) {
	pk := p.Pkg(rel)
	keys := map[string]bool{}
	vals := map[string]constant.Value{}
	var pos token.Pos
	if pk == nil {
		return keys, vals, pos
	}
	for _, file := range pk.Syntax {
		for _, d := range file.Decls {
			gd, ok := d.(*ast.GenDecl)
			if !ok {
				continue
			}
			for _, sp := range gd.Specs {
				vs, ok := sp.(*ast.ValueSpec)
				if !ok {
					continue
				}
				for i, n := range vs.Names {
					if n.Name != varName || i >= len(vs.Values) {
						continue
					}
					cl, ok := vs.Values[i].(*ast.CompositeLit)
					if !ok {
						continue
					}
					pos = cl.Pos()
					for _, el := range cl.Elts {
						if kv, ok := el.(*ast.KeyValueExpr); ok {
							name := constName(pk.TypesInfo, kv.Key)
							keys[name] = true
							if tv, ok := pk.TypesInfo.Types[kv.Key]; ok && tv.Value != nil {
								vals[name] = tv.Value
							}
						}
					}
				}
			}
		}
	}
	return keys, vals, pos
}

// ---------------------------------------------------------------------------
// C12/C13 opcode-tables, jump-opcode-agreement, decoder-shared

func ruleOpcodeTables(c *Ctx) {
	ops := c.P.constsOfType("pkg/vm/opcode", "Opcode")
	c.Floor("opcodes", len(ops), 190)
	if len(ops) == 0 {
		return
	}
	all := map[string]bool{}
	byVal := map[string]string{}
	for n, v := range ops {
		all[n] = true
		byVal[v.ExactString()] = n
	}
	pushint := map[string]bool{}
	lim, okLim := ops["PUSHINT256"]
	for n, v := range ops {
		if okLim && constant.Compare(v, token.LEQ, lim) {
			pushint[n] = true
		}
	}
	// (i) validity table (stringer map) covers exactly the constants
	_, mvals, mpos := c.P.compositeKeys("pkg/vm/opcode", "_Opcode_map")
	valid := map[string]bool{}
	for _, v := range mvals {
		if n, ok := byVal[v.ExactString()]; ok {
			valid[n] = true
		} else {
			valid["value "+v.ExactString()] = true
		}
	}
	if len(mvals) == 0 {
		c.Lost("validity-table", "opcode._Opcode_map literal not found")
	} else if d1, d2 := setDiff(all, valid), setDiff(valid, all); len(d1)+len(d2) > 0 {
		c.Fail("validity-table", c.P.Pos(mpos), fmt.Sprintf("opcode validity table (_Opcode_map) and the Opcode constants disagree: constants not valid %v, valid non-constants %v", d1, d2))
	} else {
		c.OK("validity-table", c.P.Pos(mpos), fmt.Sprintf("the %d Opcode constants are exactly the keys of the validity table", len(all)))
	}
	// (ii) dispatcher: every opcode has an arm in execute (or is in the PUSHINT range test)
	ex := c.P.Func("pkg/vm", "VM", "execute")
	if ex == nil {
		c.Lost("execute.anchor", "vm.(*VM).execute not found")
		return
	}
	exf := c.P.NewFuncCFG(ex)
	sws := constSwitches(ex.Pkg.TypesInfo, ex.Decl.Body, "pkg/vm/opcode", "Opcode")
	if len(sws) == 0 {
		c.Lost("execute.switch", "no switch over opcode.Opcode in execute")
		return
	}
	// the dispatch switch is the largest one
	sort.Slice(sws, func(i, j int) bool { return len(sws[i]) > len(sws[j]) })
	disp := sws[0]
	handled := map[string]bool{}
	armOf := map[string]switchArm{}
	var defaultArm *switchArm
	for i, arm := range disp {
		if arm.Default {
			defaultArm = &disp[i]
		}
		for _, n := range arm.Consts {
			if handled[n] {
				c.Fail("execute.duplicate."+n, c.P.Pos(arm.Clause.Pos()), "opcode "+n+" appears in two arms of execute")
			}
			handled[n] = true
			armOf[n] = arm
		}
	}
	rangeTest := false
	for _, b := range exf.G.Blocks {
		if cnd := exf.Cond(b); cnd != nil {
			if be, ok := ast.Unparen(cnd).(*ast.BinaryExpr); ok && be.Op == token.LEQ && exf.Mentions(be.Y, nil)["pkg/vm/opcode.PUSHINT256"] && exf.Mentions(be.X, nil)["param#1"] {
				rangeTest = true
			}
		}
	}
	missing := []string{}
	for n := range all {
		if !handled[n] && !(rangeTest && pushint[n]) {
			missing = append(missing, n)
		}
	}
	sort.Strings(missing)
	if len(missing) > 0 {
		c.Fail("execute.exhaustive", c.P.Pos(ex.Decl.Pos()), fmt.Sprintf("opcodes without an arm in vm.execute: %v", missing))
	} else {
		c.OK("execute.exhaustive", c.P.Pos(ex.Decl.Pos()), fmt.Sprintf("all %d opcodes are dispatched (%d by arms, %d by the <= PUSHINT256 range test)", len(all), len(handled), len(pushint)))
	}
	if defaultArm == nil {
		c.Fail("execute.default", c.P.Pos(ex.Decl.Pos()), "dispatch switch of execute has no default arm: an unknown opcode would be a silent no-op")
	} else if m := armMentions(exf, *defaultArm); !m["builtin.panic"] {
		c.Fail("execute.default", c.P.Pos(defaultArm.Clause.Pos()), "default arm of execute does not panic (fault) on an unknown opcode")
	} else {
		c.OK("execute.default", c.P.Pos(defaultArm.Clause.Pos()), "default arm faults")
	}
	// (iii) price table
	priced, _, ppos := c.P.compositeKeys("pkg/core/fee", "coefficients")
	if len(priced) == 0 {
		c.Lost("price-table", "fee.coefficients literal not found")
	} else if d := setDiff(all, priced); len(d) > 0 {
		c.Fail("price-table", c.P.Pos(ppos), fmt.Sprintf("opcodes without a price in fee.coefficients (they would execute for free): %v", d))
	} else if d := setDiff(priced, all); len(d) > 0 {
		c.Fail("price-table", c.P.Pos(ppos), fmt.Sprintf("fee.coefficients prices non-opcodes: %v", d))
	} else {
		c.OK("price-table", c.P.Pos(ppos), fmt.Sprintf("every one of the %d opcodes has a price entry", len(all)))
	}
	// (iv) operands: opcodes whose arm reads `parameter` are exactly those the decoder gives operand bytes
	nx := c.P.Func("pkg/smartcontract/scparser", "Context", "Next")
	if nx == nil {
		c.Lost("decoder.anchor", "scparser.(*Context).Next not found")
		return
	}
	nsw := constSwitches(nx.Pkg.TypesInfo, nx.Decl.Body, "pkg/vm/opcode", "Opcode")
	if len(nsw) == 0 {
		c.Lost("decoder.switch", "no opcode switch in scparser Next")
		return
	}
	withOperand := map[string]bool{}
	for n := range pushint {
		withOperand[n] = true
	}
	for _, arm := range nsw[0] {
		for _, n := range arm.Consts {
			withOperand[n] = true
		}
	}
	usesParam := map[string]bool{}
	for n := range pushint {
		usesParam[n] = true
	}
	var orphanArms []string
	for _, arm := range disp {
		if !armMentions(exf, arm)["param#2"] {
			continue
		}
		any := false
		for _, n := range arm.Consts {
			usesParam[n] = true // the arm is shared: the operand may be read under an `op ==` test
			if withOperand[n] {
				any = true
			}
		}
		if !any && len(arm.Consts) > 0 {
			orphanArms = append(orphanArms, strings.Join(arm.Consts, "/"))
		}
	}
	if len(orphanArms) > 0 {
		c.Fail("operands.used-but-not-decoded", c.P.Pos(ex.Decl.Pos()), fmt.Sprintf("execute reads operand bytes in arms none of whose opcodes gets operand bytes from the decoder: %v", orphanArms))
	} else {
		c.OK("operands.used-but-not-decoded", c.P.Pos(ex.Decl.Pos()), "every arm of execute that reads operand bytes serves an opcode the decoder supplies operands for")
	}
	if d := setDiff(withOperand, usesParam); len(d) > 0 {
		c.Fail("operands.decoded-but-unused", c.P.Pos(nx.Decl.Pos()), fmt.Sprintf("the decoder skips operand bytes of opcodes whose execute arm ignores them: %v", d))
	} else {
		c.OK("operands.decoded-but-unused", c.P.Pos(nx.Decl.Pos()), "every opcode with decoded operand bytes uses them in execute")
	}
}

func ruleJumpAgreement(c *Ctx) {
	ex := c.P.Func("pkg/vm", "VM", "execute")
	chk := c.P.Func("pkg/smartcontract/scparser", "", "IsScriptCorrect")
	if ex == nil || chk == nil {
		c.Lost("anchor", "vm.execute or scparser.IsScriptCorrect not found")
		return
	}
	exf, chf := c.P.NewFuncCFG(ex), c.P.NewFuncCFG(chk)
	sws := constSwitches(ex.Pkg.TypesInfo, ex.Decl.Body, "pkg/vm/opcode", "Opcode")
	sort.Slice(sws, func(i, j int) bool { return len(sws[i]) > len(sws[j]) })
	csw := constSwitches(chk.Pkg.TypesInfo, chk.Decl.Body, "pkg/vm/opcode", "Opcode")
	if len(sws) == 0 || len(csw) == 0 {
		c.Lost("switch", "opcode switch missing in execute or IsScriptCorrect")
		return
	}
	jexec, jchk := map[string]bool{}, map[string]bool{}
	for _, arm := range sws[0] {
		m := armMentions(exf, arm)
		if m["pkg/vm.getJumpOffset"] || m["pkg/smartcontract/scparser.(*Context).CalcJumpOffset"] {
			for _, n := range arm.Consts {
				jexec[n] = true
			}
		}
	}
	for _, arm := range csw[0] {
		m := armMentions(chf, arm)
		if m["pkg/smartcontract/scparser.(*Context).CalcJumpOffset"] {
			for _, n := range arm.Consts {
				jchk[n] = true
			}
		}
	}
	c.Floor("jumping opcodes in execute", len(jexec), 20)
	if d := setDiff(jexec, jchk); len(d) > 0 {
		c.Fail("execute-not-checked", c.P.Pos(chk.Decl.Pos()), fmt.Sprintf("opcodes whose execute arm computes a jump target from the operand but whose target IsScriptCorrect does not record: %v — a script passing the static check could execute a non-boundary offset", d))
	} else {
		c.OK("execute-not-checked", c.P.Pos(chk.Decl.Pos()), fmt.Sprintf("all %d opcodes that jump in execute have their targets recorded by IsScriptCorrect", len(jexec)))
	}
	if d := setDiff(jchk, jexec); len(d) > 0 {
		c.Fail("checked-not-execute", c.P.Pos(chk.Decl.Pos()), fmt.Sprintf("IsScriptCorrect treats operands of %v as jump targets but execute does not jump on them", d))
	} else {
		c.OK("checked-not-execute", c.P.Pos(chk.Decl.Pos()), "no opcode is treated as jumping by the checker only")
	}
	// targets must be instruction boundaries: the final subset test gates the success exit
	runGates(c, []GateSpec{{
		ID: "IsScriptCorrect.ok", Fn: [3]string{"pkg/smartcontract/scparser", "", "IsScriptCorrect"}, Target: "ok-return",
		Guards: []Guard{{ID: "jumps-subset-of-boundaries", Doc: "recorded jump targets are a subset of instruction boundaries", Alts: [][]string{{"pkg/util/bitfield.(Field).IsSubset"}}}},
	}})
	// decoder-shared: the VM context embeds the scparser context (one decoder)
	vmPk := c.P.Pkg("pkg/vm")
	shared := false
	if vmPk != nil {
		if tn, ok := vmPk.Types.Scope().Lookup("Context").(*types.TypeName); ok {
			if st, ok := tn.Type().Underlying().(*types.Struct); ok {
				for i := 0; i < st.NumFields(); i++ {
					f := st.Field(i)
					if f.Embedded() && strings.HasSuffix(f.Type().String(), "scparser.Context") {
						shared = true
					}
				}
			}
		}
	}
	if shared {
		c.OK("decoder-shared", "pkg/vm/context.go", "vm.Context embeds scparser.Context: interpreter and static check decode with the same Next/CalcJumpOffset")
	} else {
		c.Fail("decoder-shared", "pkg/vm/context.go", "vm.Context no longer embeds scparser.Context: the interpreter and the static script check may decode instructions differently")
	}
}

// ---------------------------------------------------------------------------
// C07 attr-exhaustive

func ruleAttrExhaustive(c *Ctx) {
	kinds := c.P.constsOfType(txPkg, "AttrType")
	real := map[string]bool{}
	for k := range kinds {
		if !strings.HasPrefix(k, "Reserved") {
			real[k] = true
		}
	}
	c.Floor("attribute kinds", len(real), 5)
	pk := c.P.Pkg(txPkg)
	check := func(fd *FuncDecl, name string, needReject bool) {
		if fd == nil {
			c.Lost(name+".anchor", name+" not found")
			return
		}
		f := c.P.NewFuncCFG(fd)
		sws := constSwitches(fd.Pkg.TypesInfo, fd.Decl.Body, txPkg, "AttrType")
		if len(sws) == 0 {
			c.Lost(name+".switch", "no switch over the attribute type in "+name)
			return
		}
		sort.Slice(sws, func(i, j int) bool { return len(sws[i]) > len(sws[j]) })
		seen := map[string]bool{}
		var def *switchArm
		for i, a := range sws[0] {
			if a.Default {
				def = &sws[0][i]
			}
			for _, k := range a.Consts {
				seen[k] = true
			}
		}
		if d := setDiff(real, seen); len(d) > 0 {
			c.Fail(name+".exhaustive", c.P.Pos(fd.Decl.Pos()), fmt.Sprintf("%s has no arm for attribute kinds %v: such an attribute can be decoded and pooled without this step handling it", name, d))
		} else {
			c.OK(name+".exhaustive", c.P.Pos(fd.Decl.Pos()), fmt.Sprintf("%s has an arm for each of the %d attribute kinds", name, len(real)))
		}
		if needReject {
			if def == nil {
				c.Fail(name+".default", c.P.Pos(fd.Decl.Pos()), name+" has no default arm rejecting unknown attribute kinds")
			} else if m := armMentions(f, *def); m["fmt.Errorf"] || m["errors.New"] {
				c.OK(name+".default", c.P.Pos(def.Clause.Pos()), "unknown attribute kinds are rejected (reserved range excepted)")
			} else {
				c.Fail(name+".default", c.P.Pos(def.Clause.Pos()), name+": the default arm no longer rejects unknown attribute kinds")
			}
		}
	}
	if pk != nil {
		check(c.P.Func(txPkg, "Attribute", "DecodeBinary"), "Attribute.DecodeBinary", true)
		check(c.P.Func(txPkg, "Attribute", "EncodeBinary"), "Attribute.EncodeBinary", true)
	}
	check(c.P.Func("pkg/core", "Blockchain", "verifyTxAttributes"), "Blockchain.verifyTxAttributes", false)
}

// ---------------------------------------------------------------------------
// C03 historic-root

func ruleHistoricRoot(c *Ctx) {
	ruleStoragePrefixAgreement(c)
	fd := c.P.Func("pkg/core", "Blockchain", "GetTestHistoricVM")
	if fd == nil {
		c.Lost("anchor", "GetTestHistoricVM not found")
		return
	}
	f := c.P.NewFuncCFG(fd)
	ts := f.CallSites("pkg/core/mpt.NewTrieStore")
	if len(ts) != 1 {
		c.Lost("trie-store", fmt.Sprintf("expected one NewTrieStore call, found %d", len(ts)))
		return
	}
	s := ts[0]
	m0 := f.Mentions(s.call.Args[0], s.blk)
	// root of height Index-1 of the block that becomes the context's block
	var blockObj types.Object
	for _, ic := range f.CallSites(symNewInteropCtx) {
		if len(ic.call.Args) >= 3 {
			blockObj = rootObj(f.Info, ic.call.Args[2])
		}
	}
	rootOK := m0["pkg/core/stateroot.(*Module).GetStateRoot"] && m0["pkg/core/state#Root"]
	minusOne := false
	for _, gs := range f.CallSites("pkg/core/stateroot.(*Module).GetStateRoot") {
		if len(gs.call.Args) == 1 {
			if be, ok := ast.Unparen(gs.call.Args[0]).(*ast.BinaryExpr); ok && be.Op == token.SUB {
				if tv := f.Info.Types[be.Y]; tv.Value != nil && tv.Value.String() == "1" && blockObj != nil && rootObj(f.Info, be.X) == blockObj && f.DirectMentions(be.X)[fldBlockIndex] {
					minusOne = true
				}
			}
		}
	}
	if rootOK && minusOne {
		c.OK("root-of-previous-height", c.P.Pos(s.call.Pos()), "the historic store is rooted at the state root of (block.Index-1) of the very block the context executes in")
	} else {
		c.Fail("root-of-previous-height", c.P.Pos(s.call.Pos()), "the historic trie store is no longer rooted at GetStateRoot(b.Index-1) of the block handed to the interop context: a historic invocation would read another height's storage")
	}
	if len(s.call.Args) >= 3 && f.Mentions(s.call.Args[2], s.blk)["pkg/core/storage.NewPrivateMemCachedStore"] {
		c.OK("private-layer", c.P.Pos(s.call.Pos()), "historic execution runs over a private cache layer: it cannot write through to the node's store")
	} else {
		c.Fail("private-layer", c.P.Pos(s.call.Pos()), "the historic trie store is not wrapped into a private cache layer: historic (read-only) execution could write into the live store")
	}
	// (a clause that required the too-old refusal to gate the constructor was removed: the property speaks about
	// retained heights only, so the refusal is not a necessary condition - and its shape changed with fix 09f38b3)
	ruleHistoricReaderMode(c)
}

// ---------------------------------------------------------------------------
// C10 node-switch

func ruleNodeSwitch(c *Ctx) {
	pk := c.P.Pkg(mptPkg)
	if pk == nil {
		c.Lost("anchor", "package mpt not found")
		return
	}
	impl := map[string]bool{"BranchNode": true, "ExtensionNode": true, "LeafNode": true, "HashNode": true, "EmptyNode": true}
	n := 0
	for _, fd := range c.P.AllFuncDecls() {
		if fd.Pkg != pk || fd.Decl.Body == nil {
			continue
		}
		f := c.P.NewFuncCFG(fd)
		for i, arms := range typeSwitches(pk.TypesInfo, fd.Decl.Body) {
			seen := map[string]bool{}
			var def *switchArm
			isNode := false
			for j, a := range arms {
				if a.Default {
					def = &arms[j]
				}
				for _, t := range a.TypeNames {
					if impl[t] {
						seen[t] = true
						isNode = true
					}
				}
			}
			if !isNode || len(seen) < 2 {
				continue // a single-type probe (if _, ok := n.(*HashNode)) style switch is not a dispatch
			}
			n++
			key := fmt.Sprintf("%s.switch#%d", FuncKey(fd.Obj), i+1)
			missing := setDiff(impl, seen)
			switch {
			case len(missing) == 0:
				c.OK(key, c.P.Pos(fd.Decl.Pos()), "dispatch over all five node kinds")
			case def != nil && (armMentions(f, *def)["builtin.panic"] || armMentions(f, *def)["pkg/core/mpt.ErrNotFound"] || armMentions(f, *def)["fmt.Errorf"] || armMentions(f, *def)["errors.New"]):
				c.OK(key, c.P.Pos(fd.Decl.Pos()), fmt.Sprintf("dispatch over %v with a failing default for the rest", sortedKeys(seen)))
			default:
				// arms that fall out of the switch into a common tail are fine when the function handles the rest after it
				c.Unclassified(key, c.P.Pos(fd.Decl.Pos()), fmt.Sprintf("node kinds %v have no arm and there is no failing default (they fall through to the code after the switch)", missing))
			}
		}
	}
	c.Floor("node-kind dispatch switches", n, 10)
}

// ruleHistoricReaderMode: a trie opened to *read a historic root* (the state-root module's GetState / FindStates /
// SeekStates / GetStateProof and the ledger's GetTestHistoricVM) must see every node of that root that is still in
// the store - also nodes a later block superseded, which state GC marks inactive until it collects them. The mode
// handed to mpt.NewTrie / mpt.NewTrieStore there must therefore not carry mpt.ModeGCFlag: it is either masked with
// `&^ mpt.ModeGCFlag` or a variable into which no constant containing the flag is ever or-ed.
func ruleHistoricReaderMode(c *Ctx) {
	mp := c.P.Pkg(mptPkg)
	if mp == nil {
		c.Lost("reader-mode.anchor", "package mpt not found")
		return
	}
	flagC, ok := mp.Types.Scope().Lookup("ModeGCFlag").(*types.Const)
	if !ok {
		c.Lost("reader-mode.flag", "mpt.ModeGCFlag not found")
		return
	}
	flag, _ := constant.Int64Val(constant.ToInt(flagC.Val()))
	readers := [][3]string{
		{"pkg/core/stateroot", "Module", "GetState"}, {"pkg/core/stateroot", "Module", "FindStates"}, {"pkg/core/stateroot", "Module", "SeekStates"},
		{"pkg/core/stateroot", "Module", "GetStateProof"}, {"pkg/core", "Blockchain", "GetTestHistoricVM"},
	}
	// every opening of a TrieStore reads a root other than the working one (a TrieStore is the read-only storage view
	// of a given state root): whoever calls mpt.NewTrieStore is a reader, whether tabled above or not (the reset of the
	// ledger to an earlier height copies contract storage out of the target root this way)
	tabled := map[string]bool{}
	for _, fn := range readers {
		tabled[fn[0]+"|"+fn[1]+"|"+fn[2]] = true
	}
	for _, fd := range c.P.AllFuncDecls() {
		if fd.Decl.Body == nil || !strings.HasPrefix(pkgRel(fd.Pkg.Types), "pkg/core") || pkgRel(fd.Pkg.Types) == mptPkg {
			continue
		}
		if len(c.P.NewFuncCFG(fd).CallSites("pkg/core/mpt.NewTrieStore")) == 0 {
			continue
		}
		recv := ""
		if sig := fd.Obj.Type().(*types.Signature); sig.Recv() != nil {
			t := sig.Recv().Type()
			if p, ok := t.(*types.Pointer); ok {
				t = p.Elem()
			}
			if nt, ok := t.(*types.Named); ok {
				recv = nt.Obj().Name()
			}
		}
		k := pkgRel(fd.Pkg.Types) + "|" + recv + "|" + fd.Obj.Name()
		if !tabled[k] {
			tabled[k] = true
			readers = append(readers, [3]string{pkgRel(fd.Pkg.Types), recv, fd.Obj.Name()})
		}
	}
	n := 0
	for _, fn := range readers {
		fd := c.P.Func(fn[0], fn[1], fn[2])
		if fd == nil {
			c.Lost("reader-mode."+fn[2], fn[1]+"."+fn[2]+" not found")
			continue
		}
		f := c.P.NewFuncCFG(fd)
		info := f.Info
		hasFlag := func(e ast.Expr) bool { // does a constant expression contain the flag bit?
			if tv, ok := info.Types[e]; ok && tv.Value != nil {
				if v, ok := constant.Int64Val(constant.ToInt(tv.Value)); ok {
					return v&flag != 0
				}
			}
			return false
		}
		for _, s := range f.CallSites("pkg/core/mpt.NewTrie", "pkg/core/mpt.NewTrieStore") {
			if len(s.call.Args) < 2 {
				continue
			}
			n++
			key := "reader-mode." + fn[2]
			arg := ast.Unparen(s.call.Args[1])
			verdict, why := "", ""
			switch x := arg.(type) {
			case *ast.BinaryExpr:
				if x.Op == token.AND_NOT && hasFlag(x.Y) {
					verdict, why = "ok", "mode masked with &^ ModeGCFlag"
					// nothing but the visibility flag may be cleared: the other bits of the mode say how the records
					// of the store are laid out (ModeLatest: every record ends with the active flag and the reference
					// counter), and a reader that drops that bit keeps the five bytes in what it decodes
					if tv, ok := info.Types[x.Y]; ok && tv.Value != nil {
						if v, ok := constant.Int64Val(constant.ToInt(tv.Value)); ok && v != flag {
							c.Fail("reader-mode."+fn[2]+".layout-bit", c.P.Pos(s.call.Pos()), fmt.Sprintf("%s.%s clears %s (%#x) from the module's mode, more than the GC visibility flag (%#x): the bit that says the node records carry a reference-count suffix goes with it, the read-only trie no longer cuts the suffix off, and the node bytes it hands out - the items of a state proof - have five extra bytes, so no proof it produces verifies", fn[1], fn[2], types.ExprString(x.Y), v, flag))
							continue
						}
					}
				}
			case *ast.Ident:
				v := info.ObjectOf(x)
				bad := ""
				ast.Inspect(fd.Decl.Body, func(y ast.Node) bool {
					as, ok := y.(*ast.AssignStmt)
					if !ok {
						return true
					}
					for i, lh := range as.Lhs {
						if id, ok := lh.(*ast.Ident); ok && info.ObjectOf(id) == v && i < len(as.Rhs) {
							ast.Inspect(as.Rhs[i], func(z ast.Node) bool {
								if e, ok := z.(ast.Expr); ok && hasFlag(e) {
									bad = c.P.Pos(as.Pos())
								}
								return true
							})
						}
					}
					return true
				})
				ast.Inspect(fd.Decl.Body, func(y ast.Node) bool {
					if vs, ok := y.(*ast.ValueSpec); ok {
						for i, nm := range vs.Names {
							if info.Defs[nm] == v && i < len(vs.Values) && hasFlag(vs.Values[i]) {
								bad = c.P.Pos(vs.Pos())
							}
						}
					}
					return true
				})
				if bad == "" {
					verdict, why = "ok", "no constant containing ModeGCFlag is ever assigned or or-ed into the mode variable"
				} else {
					verdict, why = "bad", "the mode variable receives a constant containing ModeGCFlag at "+bad
				}
			default:
				if hasFlag(arg) {
					verdict, why = "bad", "the mode is a constant containing ModeGCFlag"
				} else if tv, ok := info.Types[arg]; ok && tv.Value != nil {
					verdict, why = "ok", "constant mode without ModeGCFlag"
				} else if f.DirectMentions(arg)["pkg/core/stateroot#mode"] {
					// the module's own mode as it is: it carries the GC flag whenever RemoveUntraceableBlocks is on
					verdict, why = "bad", "the module's mode is handed on without clearing ModeGCFlag"
				}
			}
			// the state-root module's own readers open the very store the module writes: the mode has to be the
			// module's mode (record layout: reference-count suffix or not) with nothing but the GC flag cleared
			if verdict == "ok" && fn[0] == "pkg/core/stateroot" && !f.Mentions(arg, s.blk)["pkg/core/stateroot#mode"] {
				c.Fail(key+".layout", c.P.Pos(s.call.Pos()), fmt.Sprintf("%s.%s opens a read-only trie over the module's store with a mode that does not derive from the module's own (%s): with KeepOnlyLatestState or RemoveUntraceableBlocks the records carry a reference-count suffix this trie does not cut off, and every proof item it emits has five extra bytes that VerifyProof rejects", fn[1], fn[2], types.ExprString(arg)))
				continue
			}
			switch verdict {
			case "ok":
				c.OK(key, c.P.Pos(s.call.Pos()), why)
			case "bad":
				c.Fail(key, c.P.Pos(s.call.Pos()), fmt.Sprintf("%s.%s opens a historic root in GC mode (%s): nodes superseded by later blocks but not yet collected are reported missing, so reads of any retained height other than the latest fail", fn[1], fn[2], why))
			default:
				c.Unclassified(key, c.P.Pos(s.call.Pos()), "mode expression of a shape the rule does not read")
			}
		}
	}
	c.Floor("historic-root readers", n, 5)
}
