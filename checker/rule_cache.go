package main

import (
	"fmt"
	"go/ast"
	"go/token"
	"go/types"
	"sort"
	"strings"

	"golang.org/x/tools/go/cfg"
	"golang.org/x/tools/go/packages"
	"golang.org/x/tools/go/ssa"
)

const natPkg = "pkg/core/native"

// cacheTypes: struct types of pkg/core/native with a Copy() dao.NativeContractCache method.
func cacheTypes(c *Ctx) map[string]*types.Named {
	out := map[string]*types.Named{}
	pk := c.P.Pkg(natPkg)
	if pk == nil {
		return out
	}
	sc := pk.Types.Scope()
	for _, n := range sc.Names() {
		tn, ok := sc.Lookup(n).(*types.TypeName)
		if !ok {
			continue
		}
		nt, ok := tn.Type().(*types.Named)
		if !ok {
			continue
		}
		if _, isStruct := nt.Underlying().(*types.Struct); !isStruct {
			continue
		}
		ms := types.NewMethodSet(types.NewPointer(nt))
		if sel := ms.Lookup(pk.Types, "Copy"); sel != nil {
			sig := sel.Obj().Type().(*types.Signature)
			if sig.Params().Len() == 0 && sig.Results().Len() == 1 && strings.HasSuffix(sig.Results().At(0).Type().String(), "dao.NativeContractCache") {
				out[n] = nt
			}
		}
	}
	return out
}

func isRefKind(t types.Type) bool {
	switch t.Underlying().(type) {
	case *types.Map, *types.Slice, *types.Pointer, *types.Chan, *types.Signature, *types.Interface:
		return true
	}
	return false
}

// refPaths lists field paths (a, a.b) of reference kind inside struct type st.
func refPaths(st *types.Struct, prefix string, depth int, out *[]string) {
	for i := 0; i < st.NumFields(); i++ {
		f := st.Field(i)
		p := prefix + f.Name()
		if isRefKind(f.Type()) {
			*out = append(*out, p)
		} else if s2, ok := f.Type().Underlying().(*types.Struct); ok && depth < 2 {
			if nt, ok := f.Type().(*types.Named); ok && nt.Obj().Pkg() != nil && !InModule(nt.Obj().Pkg()) {
				continue // foreign value types (big.Int, uint256.Int, sync types) are copied by value semantics here
			}
			refPaths(s2, p+".", depth+1, out)
		}
	}
}

// replaceOnly: cache fields that Copy aliases on purpose; they are only ever replaced whole (checked module-wide).
var replaceOnly = map[string]string{
	"NeoCache.nextValidators":              "a new slice is built every time the validators are recomputed",
	"NeoCache.newEpochNextValidators":      "a new slice is built every time the validators are recomputed",
	"NeoCache.committee":                   "a new slice is built every time the committee is recomputed",
	"NeoCache.newEpochCommittee":           "a new slice is built every time the committee is recomputed",
	"DesignationCache.oracles.nodes":       "role data is replaced whole by updateCachedRoleData",
	"DesignationCache.stateVals.nodes":     "role data is replaced whole by updateCachedRoleData",
	"DesignationCache.neofsAlphabet.nodes": "role data is replaced whole by updateCachedRoleData",
	"DesignationCache.notaries.nodes":      "role data is replaced whole by updateCachedRoleData",
}

func ruleCacheCopy(c *Ctx) {
	pk := c.P.Pkg(natPkg)
	if pk == nil {
		c.Lost("anchor", "package native not found")
		return
	}
	cts := cacheTypes(c)
	c.Floor("native cache types", len(cts), 6)
	nref := 0
	usedRO := map[string]bool{}
	for _, name := range sortedKeys(cts) {
		nt := cts[name]
		st := nt.Underlying().(*types.Struct)
		var paths []string
		refPaths(st, "", 0, &paths)
		cp := c.P.Func(natPkg, name, "Copy")
		if cp == nil {
			c.Lost(name+".Copy", "Copy not found")
			continue
		}
		// bodies to inspect: Copy and the helpers it calls with (src,dst)
		bodies := []*FuncDecl{cp}
		ast.Inspect(cp.Decl.Body, func(n ast.Node) bool {
			if call, ok := n.(*ast.CallExpr); ok {
				if id, ok := call.Fun.(*ast.Ident); ok {
					if fo, ok := pk.TypesInfo.ObjectOf(id).(*types.Func); ok && fo.Pkg() == pk.Types {
						if d := c.P.DeclOf(fo); d != nil {
							bodies = append(bodies, d)
						}
					}
				}
			}
			return true
		})
		fresh := map[string]bool{}
		aliased := map[string]bool{}
		wholeCopy := false
		isFreshExpr := func(e ast.Expr) bool {
			s := types.ExprString(e)
			return strings.Contains(s, "Clone(") || strings.Contains(s, "make(") || strings.Contains(s, ".Copy()") || strings.Contains(s, "append(nil") || strings.Contains(s, "append([]")
		}
		for _, b := range bodies {
			ast.Inspect(b.Decl.Body, func(n ast.Node) bool {
				switch x := n.(type) {
				case *ast.AssignStmt:
					for i, l := range x.Lhs {
						if i >= len(x.Rhs) {
							continue
						}
						if se, ok := ast.Unparen(l).(*ast.StarExpr); ok { // *dst = *src
							if _, ok := ast.Unparen(x.Rhs[i]).(*ast.StarExpr); ok && namedTypeIs(pk.TypesInfo.TypeOf(se.X), natPkg, name) {
								wholeCopy = true
							}
							continue
						}
						p := exprPath(pk.TypesInfo, l)
						j := strings.Index(p, ".")
						if j < 0 || !namedTypeIs(pk.TypesInfo.TypeOf(rootExpr(l)), natPkg, name) {
							continue
						}
						fp := p[j+1:]
						if isFreshExpr(x.Rhs[i]) {
							fresh[fp] = true
						} else {
							aliased[fp] = true
						}
					}
				case *ast.CompositeLit:
					if !namedTypeIs(pk.TypesInfo.TypeOf(x), natPkg, name) {
						return true
					}
					for _, el := range x.Elts {
						if kv, ok := el.(*ast.KeyValueExpr); ok {
							if id, ok := kv.Key.(*ast.Ident); ok {
								if isFreshExpr(kv.Value) {
									fresh[id.Name] = true
								} else {
									aliased[id.Name] = true
								}
							}
						}
					}
				}
				return true
			})
		}
		for _, p := range paths {
			nref++
			key := name + "." + p
			top := strings.SplitN(p, ".", 2)[0]
			switch {
			case fresh[p] || fresh[top]:
				c.OK("copy."+key, c.P.Pos(cp.Decl.Pos()), "Copy gives the new layer its own "+p)
			case replaceOnly[key] != "":
				usedRO[key] = true
				c.OK("copy."+key, c.P.Pos(cp.Decl.Pos()), "aliased on purpose (replace-only): "+replaceOnly[key])
			case aliased[p] || aliased[top] || wholeCopy:
				c.Fail("copy."+key, c.P.Pos(cp.Decl.Pos()), fmt.Sprintf("%s.Copy lets the new layer share the %s of the layer below (no clone): a change made by a transaction that later faults, or by a layer that is dropped, stays visible", name, p))
			default:
				c.Fail("copy."+key, c.P.Pos(cp.Decl.Pos()), fmt.Sprintf("%s.Copy does not copy field %s at all: the new layer starts without it", name, p))
			}
		}
		// non-reference fields must be carried over too
		for i := 0; i < st.NumFields(); i++ {
			f := st.Field(i)
			if isRefKind(f.Type()) {
				continue
			}
			if _, isStruct := f.Type().Underlying().(*types.Struct); isStruct {
				if nt2, ok := f.Type().(*types.Named); ok && nt2.Obj().Pkg() != nil && InModule(nt2.Obj().Pkg()) {
					if wholeCopy || aliased[f.Name()] || fresh[f.Name()] {
						continue
					}
				}
			}
			if wholeCopy || aliased[f.Name()] || fresh[f.Name()] {
				c.OK("copy."+name+"."+f.Name(), c.P.Pos(cp.Decl.Pos()), "value field carried over")
			} else {
				c.Fail("copy."+name+"."+f.Name(), c.P.Pos(cp.Decl.Pos()), fmt.Sprintf("%s.Copy forgets field %s: an upper layer silently resets it", name, f.Name()))
			}
		}
	}
	c.Floor("reference-kind cache fields", nref, 12)
	for k := range replaceOnly {
		if !usedRO[k] {
			c.Note("replace-only table row %s is unused on this tree", k)
		}
	}
	// replace-only fields are never modified in place anywhere in the package
	leaf := map[string][]string{} // leaf field name -> table keys
	for k := range replaceOnly {
		parts := strings.Split(k, ".")
		leaf[parts[len(parts)-1]] = append(leaf[parts[len(parts)-1]], k)
	}
	nw := 0
	for _, fd := range c.P.AllFuncDecls() {
		if fd.Pkg != pk || fd.Decl.Body == nil {
			continue
		}
		k := 0
		ast.Inspect(fd.Decl.Body, func(n ast.Node) bool {
			as, ok := n.(*ast.AssignStmt)
			if !ok {
				return true
			}
			for i, l := range as.Lhs {
				// element write through a replace-only field: x.f[i] = ..., x.f[i].g = ...
				var hit *ast.SelectorExpr
				elem := false
				e := ast.Unparen(l)
				for {
					switch y := e.(type) {
					case *ast.IndexExpr:
						elem = true
						e = ast.Unparen(y.X)
						continue
					case *ast.SelectorExpr:
						if v, ok := pk.TypesInfo.ObjectOf(y.Sel).(*types.Var); ok && v.IsField() && len(leaf[v.Name()]) > 0 && isRefKind(v.Type()) && ownerIsCache(pk.TypesInfo, y, leaf[v.Name()]) {
							hit = y
						} else {
							e = ast.Unparen(y.X)
							if hit == nil {
								elem = elem || false
								continue
							}
						}
					}
					break
				}
				if hit == nil {
					continue
				}
				nw++
				inplace := elem
				if !inplace && i < len(as.Rhs) {
					if call, ok := ast.Unparen(as.Rhs[i]).(*ast.CallExpr); ok {
						if id, ok := call.Fun.(*ast.Ident); ok && id.Name == "append" && len(call.Args) > 0 && sameExpr(pk.TypesInfo, call.Args[0], hit) {
							inplace = true
						}
					}
				}
				if inplace {
					k++
					c.Fail(fmt.Sprintf("replace-only.%s#%d", FuncKey(fd.Obj), k), c.P.Pos(as.Pos()), fmt.Sprintf("%s modifies %s in place; Copy() shares this field between DAO layers on the promise that it is only ever replaced whole", FuncKey(fd.Obj), types.ExprString(hit)))
				}
			}
			return true
		})
	}
	c.OK("replace-only.whole-assignments", natPkg, fmt.Sprintf("%d writes of replace-only cache fields in the package, all whole-field assignments of a fresh value", nw))
	c.Floor("writes of replace-only fields", nw, 6)
}

func rootExpr(e ast.Expr) ast.Expr {
	for {
		switch x := ast.Unparen(e).(type) {
		case *ast.SelectorExpr:
			e = x.X
		case *ast.IndexExpr:
			e = x.X
		case *ast.StarExpr:
			e = x.X
		default:
			return ast.Unparen(e)
		}
	}
}

// ownerIsCache: the selector's base expression has (or is a nested field of) one of the cache types named in keys.
func ownerIsCache(info *types.Info, se *ast.SelectorExpr, keys []string) bool {
	bt := info.TypeOf(se.X)
	if bt == nil {
		return false
	}
	if p, ok := bt.(*types.Pointer); ok {
		bt = p.Elem()
	}
	nt, ok := bt.(*types.Named)
	if !ok {
		return false
	}
	for _, k := range keys {
		parts := strings.Split(k, ".")
		if parts[0] == nt.Obj().Name() {
			return true
		}
		// nested: DesignationCache.oracles.nodes -> base type roleData
		if len(parts) == 3 && nt.Obj().Name() == "roleData" {
			return true
		}
	}
	return false
}

// ---------------------------------------------------------------------------
// cache-ro

type roClient struct {
	info    *types.Info
	cts     map[string]*types.Named
	mutates map[*types.Func]map[int]bool // function -> indices of cache parameters it writes through
	bad     map[token.Pos]string
	nRO     int
	nRW     int
	fname   string
}

func (rc *roClient) isCachePtr(t types.Type) bool {
	p, ok := t.(*types.Pointer)
	if !ok {
		return false
	}
	nt, ok := p.Elem().(*types.Named)
	return ok && rc.cts[nt.Obj().Name()] == nt
}

// modeOf classifies an expression: 1 = obtained read-only, 2 = read-write, 0 = unknown/not a cache.
func (rc *roClient) modeOf(f *FuncCFG, e ast.Expr, st *FState) int {
	e = ast.Unparen(e)
	if ta, ok := e.(*ast.TypeAssertExpr); ok {
		e = ast.Unparen(ta.X)
	}
	switch x := e.(type) {
	case *ast.CallExpr:
		switch f.calleeSym(x) {
		case "pkg/core/dao.(*Simple).GetROCache":
			return 1
		case "pkg/core/dao.(*Simple).GetRWCache":
			return 2
		}
	case *ast.Ident:
		return st.Facts["mode:"+x.Name]
	}
	// anything reached through an RO cache (a map, slice or pointer stored in it) is RO as well
	if root := rootObj(f.Info, e); root != nil {
		if m := st.Facts["mode:"+root.Name()]; m == 1 {
			return 1
		}
	}
	return 0
}

func (rc *roClient) Node(f *FuncCFG, b *cfg.Block, idx int, n ast.Node, st *FState) {
	// writes through RO values
	for _, w := range nodeWrites(f.Info, n, false) {
		_ = w
	}
	inspectNoLit(n, func(x ast.Node) bool {
		switch s := x.(type) {
		case *ast.AssignStmt:
			for _, l := range s.Lhs {
				if _, isIdent := ast.Unparen(l).(*ast.Ident); isIdent {
					continue
				}
				if root := rootObj(f.Info, l); root != nil && st.Facts["mode:"+root.Name()] == 1 {
					rc.bad[s.Pos()] = fmt.Sprintf("%s writes %s through a cache obtained with GetROCache: the shared cache of the lower DAO layer is modified in place (visible to other layers, survives a FAULT, differs after restart)", rc.fname, types.ExprString(l))
				}
			}
		case *ast.IncDecStmt:
			if root := rootObj(f.Info, s.X); root != nil && st.Facts["mode:"+root.Name()] == 1 {
				rc.bad[s.Pos()] = fmt.Sprintf("%s modifies %s through a cache obtained with GetROCache", rc.fname, types.ExprString(s.X))
			}
		case *ast.CallExpr:
			// delete/clear/copy/append-in-place on RO data
			if id, ok := ast.Unparen(s.Fun).(*ast.Ident); ok {
				if bi, ok := f.Info.ObjectOf(id).(*types.Builtin); ok && len(s.Args) > 0 {
					switch bi.Name() {
					case "delete", "clear", "copy":
						if root := rootObj(f.Info, s.Args[0]); root != nil && st.Facts["mode:"+root.Name()] == 1 {
							rc.bad[s.Pos()] = fmt.Sprintf("%s applies %s to %s, which belongs to a cache obtained with GetROCache", rc.fname, bi.Name(), types.ExprString(s.Args[0]))
						}
					}
				}
			}
			// passing an RO cache to a function that writes through that parameter
			var callee *types.Func
			switch fn := ast.Unparen(s.Fun).(type) {
			case *ast.Ident:
				callee, _ = f.Info.ObjectOf(fn).(*types.Func)
			case *ast.SelectorExpr:
				callee, _ = f.Info.ObjectOf(fn.Sel).(*types.Func)
			}
			if callee != nil {
				if mp := rc.mutates[callee.Origin()]; mp != nil {
					for i, a := range s.Args {
						if mp[i] && rc.modeOf(f, a, st) == 1 {
							rc.bad[s.Pos()] = fmt.Sprintf("%s passes a cache obtained with GetROCache to %s, which writes through that parameter", rc.fname, callee.Name())
						}
					}
				}
			}
		}
		return true
	})
	// definitions
	switch s := n.(type) {
	case *ast.AssignStmt:
		if len(s.Lhs) >= 1 && len(s.Rhs) == 1 {
			if id, ok := s.Lhs[0].(*ast.Ident); ok {
				m := rc.modeOf(f, s.Rhs[0], st)
				t := f.Info.TypeOf(s.Lhs[0])
				if m != 0 && t != nil && (rc.isCachePtr(t) || isRefKind(t)) {
					st.Facts["mode:"+id.Name] = m
					if m == 1 {
						rc.nRO++
					} else if _, isCall := ast.Unparen(stripAssert(s.Rhs[0])).(*ast.CallExpr); isCall {
						rc.nRW++
					}
				} else if t != nil && (rc.isCachePtr(t) || isRefKind(t)) {
					delete(st.Facts, "mode:"+id.Name)
				}
			}
		}
	case *ast.ValueSpec:
		if len(s.Names) == 1 && len(s.Values) == 1 {
			if m := rc.modeOf(f, s.Values[0], st); m != 0 {
				st.Facts["mode:"+s.Names[0].Name] = m
				if m == 1 {
					rc.nRO++
				} else {
					rc.nRW++
				}
			}
		}
	}
}

func stripAssert(e ast.Expr) ast.Expr {
	if ta, ok := ast.Unparen(e).(*ast.TypeAssertExpr); ok {
		return ta.X
	}
	return e
}

func (rc *roClient) Deferred(f *FuncCFG, op string, st *FState)                   {}
func (rc *roClient) Exit(f *FuncCFG, b *cfg.Block, r *ast.ReturnStmt, st *FState) {}

func ruleCacheRO(c *Ctx) {
	pk := c.P.Pkg(natPkg)
	if pk == nil {
		c.Lost("anchor", "package native not found")
		return
	}
	cts := cacheTypes(c)
	rc0 := &roClient{cts: cts}
	// summary: which cache-typed parameters does a function write through (directly or by passing them on)?
	mutates := map[*types.Func]map[int]bool{}
	var fds []*FuncDecl
	for _, fd := range c.P.AllFuncDecls() {
		if fd.Pkg == pk && fd.Decl.Body != nil {
			fds = append(fds, fd)
		}
	}
	paramIdx := func(fd *FuncDecl) map[types.Object]int {
		m := map[types.Object]int{}
		i := 0
		for _, fl := range fd.Decl.Type.Params.List {
			if len(fl.Names) == 0 {
				i++
				continue
			}
			for _, nm := range fl.Names {
				if o := pk.TypesInfo.Defs[nm]; o != nil && rc0.isCachePtr(o.Type()) {
					m[o] = i
				}
				i++
			}
		}
		return m
	}
	for changed := true; changed; {
		changed = false
		for _, fd := range fds {
			pi := paramIdx(fd)
			if len(pi) == 0 {
				continue
			}
			mark := func(o types.Object) {
				if i, ok := pi[o]; ok {
					if mutates[fd.Obj] == nil {
						mutates[fd.Obj] = map[int]bool{}
					}
					if !mutates[fd.Obj][i] {
						mutates[fd.Obj][i] = true
						changed = true
					}
				}
			}
			for _, w := range nodeWrites(pk.TypesInfo, fd.Decl.Body, true) {
				var lhs ast.Expr
				switch n := w.Node.(type) {
				case *ast.AssignStmt:
					for _, l := range n.Lhs {
						if l.Pos() <= w.Pos && w.Pos <= l.End() {
							lhs = l
						}
					}
				case *ast.IncDecStmt:
					lhs = n.X
				case *ast.CallExpr:
					if len(n.Args) > 0 {
						lhs = n.Args[0]
					}
				}
				if lhs != nil {
					if _, isIdent := ast.Unparen(lhs).(*ast.Ident); !isIdent {
						mark(rootObj(pk.TypesInfo, lhs))
					}
				}
			}
			ast.Inspect(fd.Decl.Body, func(n ast.Node) bool {
				call, ok := n.(*ast.CallExpr)
				if !ok {
					return true
				}
				var callee *types.Func
				switch fn := ast.Unparen(call.Fun).(type) {
				case *ast.Ident:
					callee, _ = pk.TypesInfo.ObjectOf(fn).(*types.Func)
				case *ast.SelectorExpr:
					callee, _ = pk.TypesInfo.ObjectOf(fn.Sel).(*types.Func)
				}
				if callee == nil {
					return true
				}
				if mp := mutates[callee.Origin()]; mp != nil {
					for i, a := range call.Args {
						if mp[i] {
							if id, ok := ast.Unparen(a).(*ast.Ident); ok {
								mark(pk.TypesInfo.ObjectOf(id))
							}
						}
					}
				}
				return true
			})
		}
	}
	nfn, nro, nrw := 0, 0, 0
	for _, fd := range fds {
		uses := false
		ast.Inspect(fd.Decl.Body, func(n ast.Node) bool {
			if se, ok := n.(*ast.SelectorExpr); ok && (se.Sel.Name == "GetROCache" || se.Sel.Name == "GetRWCache") {
				uses = true
			}
			return !uses
		})
		if !uses {
			continue
		}
		// the function and each of its literals (continuations) are separate units
		units := []*FuncCFG{c.P.NewFuncCFG(fd)}
		li := 0
		ast.Inspect(fd.Decl.Body, func(x ast.Node) bool {
			if lit, ok := x.(*ast.FuncLit); ok {
				li++
				units = append(units, c.P.NewLitCFG(pk.TypesInfo, fmt.Sprintf("%s$%d", FuncKey(fd.Obj), li), lit))
			}
			return true
		})
		nfn++
		for _, f := range units {
			rc := &roClient{info: pk.TypesInfo, cts: cts, mutates: mutates, bad: map[token.Pos]string{}, fname: f.Name}
			res := f.RunFlow(rc, FState{Bools: map[string]bool{}, Facts: map[string]int{}}, nil)
			nro += rc.nRO
			nrw += rc.nRW
			if res.Overflow {
				c.Unclassified(f.Name+".overflow", c.P.Pos(f.Body.Pos()), "more than 64 correlated states")
				continue
			}
			if len(rc.bad) == 0 {
				if rc.nRO+rc.nRW > 0 {
					c.OK(f.Name, c.P.Pos(f.Body.Pos()), fmt.Sprintf("no write through a read-only cache (%d RO, %d RW acquisitions on the analysed paths)", rc.nRO, rc.nRW))
				}
				continue
			}
			var ps []token.Pos
			for p := range rc.bad {
				ps = append(ps, p)
			}
			sort.Slice(ps, func(i, j int) bool { return ps[i] < ps[j] })
			for i, p := range ps {
				c.Fail(fmt.Sprintf("%s.ro-write#%d", f.Name, i+1), c.P.Pos(p), rc.bad[p])
			}
		}
	}
	c.Floor("functions using native caches", nfn, 40)
	c.Floor("read-only acquisitions seen", nro, 30)
	c.Floor("read-write acquisitions seen", nrw, 15)
	var ms []string
	for fo, idx := range mutates {
		for i := range idx {
			ms = append(ms, fmt.Sprintf("%s#%d", fo.Name(), i))
		}
	}
	sort.Strings(ms)
	c.Note("functions writing through a cache parameter: %s", strings.Join(ms, " "))
}

// ---------------------------------------------------------------------------
// cache-key-shape: all accessors of one cache map use keys of the same shape

// prefixedKeyBuilders: functions of the package returning a []byte whose element 0 is set to a prefix.
func prefixedKeyBuilders(c *Ctx, rel string) map[*types.Func]bool {
	out := map[*types.Func]bool{}
	pk := c.P.Pkg(rel)
	for _, fd := range c.P.AllFuncDecls() {
		if fd.Pkg != pk || fd.Decl.Body == nil {
			continue
		}
		sig := fd.Obj.Type().(*types.Signature)
		if sig.Results().Len() != 1 {
			continue
		}
		if sl, ok := sig.Results().At(0).Type().Underlying().(*types.Slice); !ok || sl.Elem().String() != "byte" {
			continue
		}
		sets0 := false
		ast.Inspect(fd.Decl.Body, func(n ast.Node) bool {
			if as, ok := n.(*ast.AssignStmt); ok {
				for _, l := range as.Lhs {
					if ix, ok := ast.Unparen(l).(*ast.IndexExpr); ok {
						if tv := pk.TypesInfo.Types[ix.Index]; tv.Value != nil && tv.Value.String() == "0" {
							sets0 = true
						}
					}
				}
			}
			return true
		})
		// or delegates to another builder
		if !sets0 {
			ast.Inspect(fd.Decl.Body, func(n ast.Node) bool {
				if rs, ok := n.(*ast.ReturnStmt); ok && len(rs.Results) == 1 {
					if call, ok := ast.Unparen(rs.Results[0]).(*ast.CallExpr); ok {
						if id, ok := call.Fun.(*ast.Ident); ok {
							if fo, ok := pk.TypesInfo.ObjectOf(id).(*types.Func); ok && out[fo] {
								sets0 = true
							}
						}
					}
				}
				return true
			})
		}
		if sets0 {
			out[fd.Obj] = true
		}
	}
	return out
}

func ruleCacheKeyShape(c *Ctx) {
	pk := c.P.Pkg(natPkg)
	if pk == nil {
		c.Lost("anchor", "package native not found")
		return
	}
	cts := cacheTypes(c)
	builders := prefixedKeyBuilders(c, natPkg)
	c.Floor("prefixed key builders", len(builders), 5)
	type acc struct {
		pos   token.Pos
		shape string
		expr  string
		fn    string
	}
	accs := map[string][]acc{} // "Type.field" -> accessors
	for _, fd := range c.P.AllFuncDecls() {
		if fd.Pkg != pk || fd.Decl.Body == nil {
			continue
		}
		f := c.P.NewFuncCFG(fd)
		classify := func(key ast.Expr) string {
			k := ast.Unparen(key)
			// string(x) conversion
			if call, ok := k.(*ast.CallExpr); ok && len(call.Args) == 1 {
				if tv, ok := pk.TypesInfo.Types[call.Fun]; ok && tv.IsType() {
					k = ast.Unparen(call.Args[0])
				}
			}
			if se, ok := k.(*ast.SliceExpr); ok && se.Low != nil {
				if tv := pk.TypesInfo.Types[se.Low]; tv.Value != nil && tv.Value.String() != "0" {
					return "stripped"
				}
			}
			// whole result of a prefixed key builder (directly or through a local defined once from it)
			isBuilderCall := func(e ast.Expr) bool {
				call, ok := ast.Unparen(e).(*ast.CallExpr)
				if !ok {
					return false
				}
				var fo *types.Func
				switch fn := ast.Unparen(call.Fun).(type) {
				case *ast.Ident:
					fo, _ = pk.TypesInfo.ObjectOf(fn).(*types.Func)
				case *ast.SelectorExpr:
					fo, _ = pk.TypesInfo.ObjectOf(fn.Sel).(*types.Func)
				}
				return fo != nil && builders[fo.Origin()]
			}
			if isBuilderCall(k) {
				return "prefixed"
			}
			if id, ok := k.(*ast.Ident); ok {
				ds := f.defs[pk.TypesInfo.ObjectOf(id)]
				if len(ds) == 1 && len(ds[0].rhs) == 1 && isBuilderCall(ds[0].rhs[0]) {
					return "prefixed"
				}
			}
			return "other"
		}
		record := func(m ast.Expr, key ast.Expr, pos token.Pos) {
			se, ok := ast.Unparen(m).(*ast.SelectorExpr)
			if !ok {
				return
			}
			v, ok := pk.TypesInfo.ObjectOf(se.Sel).(*types.Var)
			if !ok || !v.IsField() {
				return
			}
			if _, isMap := v.Type().Underlying().(*types.Map); !isMap {
				return
			}
			bt := pk.TypesInfo.TypeOf(se.X)
			if p, ok := bt.(*types.Pointer); ok {
				bt = p.Elem()
			}
			nt, ok := bt.(*types.Named)
			if !ok || cts[nt.Obj().Name()] != nt {
				return
			}
			k := nt.Obj().Name() + "." + v.Name()
			accs[k] = append(accs[k], acc{pos, classify(key), types.ExprString(key), FuncKey(fd.Obj)})
		}
		ast.Inspect(fd.Decl.Body, func(n ast.Node) bool {
			switch x := n.(type) {
			case *ast.IndexExpr:
				record(x.X, x.Index, x.Pos())
			case *ast.CallExpr:
				if id, ok := x.Fun.(*ast.Ident); ok && id.Name == "delete" && len(x.Args) == 2 {
					record(x.Args[0], x.Args[1], x.Pos())
				}
			}
			return true
		})
	}
	n := 0
	for _, k := range sortedKeys(accs) {
		as := accs[k]
		cnt := map[string]int{}
		for _, a := range as {
			cnt[a.shape]++
			n++
		}
		if cnt["stripped"] > 0 && cnt["prefixed"] > 0 {
			minority := "prefixed"
			if cnt["stripped"] < cnt["prefixed"] {
				minority = "stripped"
			}
			i := 0
			for _, a := range as {
				if a.shape == minority {
					i++
					c.Fail(fmt.Sprintf("%s.%s#%d", k, a.fn, i), c.P.Pos(a.pos), fmt.Sprintf("%s is keyed without the storage prefix elsewhere (%d accessors strip it) but %s uses the whole prefixed key %s here: the lookup/delete never matches, so the cache keeps an entry that storage no longer has (running and restarted nodes diverge)", k, cnt["stripped"], a.fn, a.expr))
				}
			}
		} else {
			c.OK(k, natPkg, fmt.Sprintf("%d keyed accesses, key shapes consistent (%v)", len(as), cnt))
		}
	}
	c.Floor("keyed accesses of cache maps", n, 8)
}

// ---------------------------------------------------------------------------
// derived-invalidation: inputs of a lazily recomputed cache value set its dirty flag

func ruleDerivedInvalidation(c *Ctx) {
	pk := c.P.Pkg(natPkg)
	if pk == nil {
		c.Lost("anchor", "package native not found")
		return
	}
	cts := cacheTypes(c)
	root := c.P.Func(natPkg, "NEO", "computeCommitteeMembers")
	pp := c.P.Func(natPkg, "NEO", "PostPersist")
	if root == nil || pp == nil {
		c.Lost("anchor", "NEO.computeCommitteeMembers / PostPersist not found")
		return
	}
	flag := "pkg/core/native#votesChanged"
	// the recomputation is skipped unless the flag is set: the flag test must exist in PostPersist
	ppf := c.P.NewFuncCFG(pp)
	guarded := false
	for _, b := range ppf.G.Blocks {
		if cnd := ppf.Cond(b); cnd != nil && ppf.DirectMentions(cnd)[flag] {
			guarded = true
		}
	}
	if !guarded {
		c.Note("PostPersist no longer tests votesChanged: committee is recomputed unconditionally, nothing to check")
		c.OK("flag-guard", c.P.Pos(pp.Decl.Pos()), "committee recomputation is not conditional on a dirty flag")
		return
	}
	g := c.P.MRG()
	rfn := c.P.SSAFunc(root.Obj)
	via := g.Reach([]*ssa.Function{rfn}, func(e *MEdge) bool {
		// stay inside the native package and follow calls only (function values merely referenced are not executed here)
		cf := e.Callee.Fn
		for cf.Parent() != nil {
			cf = cf.Parent()
		}
		return e.Kind == "ref" || cf.Pkg == nil || pkgRel(cf.Pkg.Pkg) != natPkg
	})
	// cache fields read inside the derivation, other than NeoCache's own derived values
	sources := map[string]string{} // field symbol -> "Type.field"
	for fn := range via {
		for _, b := range fn.Blocks {
			for _, ins := range b.Instrs {
				fa, ok := ins.(*ssa.FieldAddr)
				if !ok {
					continue
				}
				t := fa.X.Type()
				if p, ok := t.Underlying().(*types.Pointer); ok {
					t = p.Elem()
				}
				nt, ok := t.(*types.Named)
				if !ok || cts[nt.Obj().Name()] != nt {
					continue
				}
				st := nt.Underlying().(*types.Struct)
				fld := st.Field(fa.Field)
				sources[symOf(fld)] = nt.Obj().Name() + "." + fld.Name()
			}
		}
	}
	c.Floor("cache fields read by the committee computation", len(sources), 1)
	ws := c.P.PkgWriteSummary(natPkg)
	nw := 0
	// functions that run during block execution (handlers, OnPersist/PostPersist, Initialize hooks): only their
	// writes are state changes; cache (re)builders reachable only from InitializeCache run at start-up, where the
	// NEO cache is created with the flag set
	exec := g.Reach(c.P.HandlerRoots(), nil)
	for _, sym := range sortedKeys(sources) {
		if strings.HasPrefix(sources[sym], "NeoCache.") {
			continue // NEO's own fields: written by the NEO functions that maintain the flag (vote bookkeeping)
		}
		var writers []*types.Func
		for fo, d := range ws.Direct {
			if len(d[sym]) > 0 {
				writers = append(writers, fo)
			}
		}
		sort.Slice(writers, func(i, j int) bool { return FuncKey(writers[i]) < FuncKey(writers[j]) })
		for _, w := range writers {
			fd := c.P.DeclOf(w)
			if fd == nil {
				continue
			}
			// builders of a fresh cache (InitializeCache, Copy helpers) are not state changes
			fresh := true
			for _, wr := range nodeWrites(pk.TypesInfo, fd.Decl.Body, true) {
				if wr.Field != sym {
					continue
				}
				var lhs ast.Expr
				if as, ok := wr.Node.(*ast.AssignStmt); ok {
					for _, l := range as.Lhs {
						if l.Pos() <= wr.Pos && wr.Pos <= l.End() {
							lhs = l
						}
					}
				}
				ro := rootObj(pk.TypesInfo, lhs)
				isFresh := false
				if ro != nil {
					f := c.P.NewFuncCFG(fd)
					for _, d := range f.allDefs(fd.Decl.Body, ro) {
						s := types.ExprString(d)
						if strings.HasPrefix(s, "&") || strings.Contains(s, "new(") {
							isFresh = true
						}
					}
					if f.params[ro] && (fd.Decl.Name.Name == "copy"+strings.Split(sources[sym], ".")[0] || strings.HasPrefix(fd.Decl.Name.Name, "copy")) {
						isFresh = true
					}
				}
				if !isFresh {
					fresh = false
				}
			}
			if fresh {
				continue
			}
			if wf := c.P.SSAFunc(w); wf != nil {
				if _, inExec := exec[wf]; !inExec {
					anon := false
					for _, af := range wf.AnonFuncs {
						if _, ok := exec[af]; ok {
							anon = true
						}
					}
					if !anon {
						continue
					}
				}
			}
			nw++
			sets := ws.Trans[w][flag]
			key := "writer." + sources[sym] + "." + FuncKey(w)
			if sets {
				c.OK(key, c.P.Pos(fd.Decl.Pos()), FuncKey(w)+" changes "+sources[sym]+" (an input of the committee computation) and marks the NEO cache dirty")
			} else {
				c.Fail(key, c.P.Pos(fd.Decl.Pos()), fmt.Sprintf("%s changes %s, which NEO.computeCommitteeMembers reads, without setting NeoCache.votesChanged: a running node skips the recomputation at the epoch boundary while a restarted node (InitializeCache sets the flag) performs it — committee and state roots diverge", FuncKey(w), sources[sym]))
			}
		}
	}
	c.Floor("state-changing writers of foreign inputs", nw, 1)
	// NEO's own inputs: a change of a candidate's registration state (announced by the CandidateStateChanged event)
	// marks the cache dirty on every path that announces it
	nev := 0
	for _, fd := range c.P.AllFuncDecls() {
		if fd.Pkg != pk || fd.Decl.Body == nil {
			continue
		}
		f := c.P.NewFuncCFG(fd)
		var ev []site
		for _, s := range f.CallSites("pkg/core/interop.(*Context).AddNotification") {
			if len(s.call.Args) >= 2 {
				if tv := pk.TypesInfo.Types[s.call.Args[1]]; tv.Value != nil && strings.Contains(tv.Value.String(), "CandidateStateChanged") {
					ev = append(ev, s)
				}
			}
		}
		if len(ev) == 0 {
			continue
		}
		nev += len(ev)
		ok, path, n := f.CheckMustNode(f.Entry(), blocksOf(ev), nil, flag)
		key := "candidate-state." + FuncKey(fd.Obj)
		if ok && n > 0 {
			c.OK(key, c.P.Pos(ev[0].call.Pos()), "every path announcing a candidate state change sets votesChanged first")
		} else {
			c.Fail(key, c.P.Pos(ev[0].call.Pos()), FuncKey(fd.Obj)+" announces CandidateStateChanged on a path that does not set NeoCache.votesChanged: the next-epoch committee is not recomputed by a running node but is by a restarted one", path...)
		}
	}
	c.Floor("CandidateStateChanged emission sites", nev, 2)
}

// ---------------------------------------------------------------------------
// cache-init: InitializeCache rebuilds every field of the native cache from storage

// literalFields: fields set by keyed composite literals of type T in fd (a write of those fields).
func literalFields(fd *FuncDecl, rel, typeName string) map[string]bool {
	out := map[string]bool{}
	ast.Inspect(fd.Decl.Body, func(n ast.Node) bool {
		cl, ok := n.(*ast.CompositeLit)
		if !ok || !namedTypeIs(fd.Pkg.TypesInfo.TypeOf(cl), rel, typeName) {
			return true
		}
		for _, el := range cl.Elts {
			if kv, ok := el.(*ast.KeyValueExpr); ok {
				if id, ok := kv.Key.(*ast.Ident); ok {
					out[id.Name] = true
				}
			}
		}
		return true
	})
	return out
}

// derivedFields: cache fields that are not read back from storage, one reason each.
var derivedFields = map[string]string{
	"PolicyCache.faunInitialized":       "set by fillCacheFromDAO from the hardfork state",
	"PolicyCache.maxVerificationGas":    "constant default, not configurable through storage",
	"DesignationCache.rolesChangedFlag": "per-block notification flag, false at start",
	"PolicyCache.msPerBlock":            "filled only when the Echidna storage record exists",
	"PolicyCache.maxVUBIncrement":       "filled only when the Echidna storage record exists",
	"PolicyCache.maxTraceableBlocks":    "filled only when the Echidna storage record exists",
}

// startsSet: in-memory dirty flags that have no storage record; the rebuilt cache must start with them raised,
// because whatever happened before the restart is unknown (one reason each).
var startsSet = map[string]string{
	"NeoCache.votesChanged": "votes cast earlier in the epoch are not remembered across a restart: the first epoch boundary after it must recompute committee and validators",
}

func ruleCacheInit(c *Ctx) {
	pk := c.P.Pkg(natPkg)
	if pk == nil {
		c.Lost("anchor", "package native not found")
		return
	}
	cts := cacheTypes(c)
	ws := c.P.PkgWriteSummary(natPkg)
	// owner native of each cache type: the type whose InitializeCache calls SetCache with that cache type
	nfields := 0
	for _, name := range sortedKeys(cts) {
		nt := cts[name]
		st := nt.Underlying().(*types.Struct)
		// find the InitializeCache that mentions this cache type
		var init *FuncDecl
		for _, fd := range c.P.AllFuncDecls() {
			if fd.Pkg == pk && fd.Decl.Name.Name == "InitializeCache" && fd.Decl.Body != nil {
				if c.P.NewFuncCFG(fd).Mentions(fd.Decl.Body, nil)["type:"+natPkg+"."+name] {
					init = fd
				}
			}
		}
		if init == nil {
			c.Lost(name+".InitializeCache", "no InitializeCache constructs a "+name)
			continue
		}
		// transitive writes (field assignments + literals) inside package native
		written := map[string]bool{}
		setTrue := map[string]bool{}
		seen := map[*types.Func]bool{}
		var visit func(f *types.Func)
		visit = func(f *types.Func) {
			if seen[f] {
				return
			}
			seen[f] = true
			for k := range ws.Direct[f] {
				written[k] = true
			}
			if d := c.P.DeclOf(f); d != nil && d.Decl.Body != nil {
				for fl := range literalFields(d, natPkg, name) {
					written[natPkg+"#"+fl] = true
				}
				// fields initialised to the constant true (literal element or assignment)
				ast.Inspect(d.Decl.Body, func(n ast.Node) bool {
					switch x := n.(type) {
					case *ast.CompositeLit:
						if namedTypeIs(d.Pkg.TypesInfo.TypeOf(x), natPkg, name) {
							for _, el := range x.Elts {
								if kv, ok := el.(*ast.KeyValueExpr); ok {
									if id, ok := kv.Key.(*ast.Ident); ok {
										if v, isC := boolConst(d.Pkg.TypesInfo, kv.Value); isC && v {
											setTrue[natPkg+"#"+id.Name] = true
										}
									}
								}
							}
						}
					case *ast.AssignStmt:
						if len(x.Lhs) == 1 && len(x.Rhs) == 1 {
							if se, ok := ast.Unparen(x.Lhs[0]).(*ast.SelectorExpr); ok && namedTypeIs(d.Pkg.TypesInfo.TypeOf(se.X), natPkg, name) {
								if v, isC := boolConst(d.Pkg.TypesInfo, x.Rhs[0]); isC && v {
									setTrue[symOf(d.Pkg.TypesInfo.ObjectOf(se.Sel))] = true
								}
							}
						}
					}
					return true
				})
				// address of a field taken (v = &cache.oracles; v.nodes = ...): the field is filled through the pointer
				ast.Inspect(d.Decl.Body, func(n ast.Node) bool {
					if u, ok := n.(*ast.UnaryExpr); ok && u.Op == token.AND {
						if se, ok := ast.Unparen(u.X).(*ast.SelectorExpr); ok {
							if v, ok := pk.TypesInfo.ObjectOf(se.Sel).(*types.Var); ok && v.IsField() && namedTypeIs(pk.TypesInfo.TypeOf(se.X), natPkg, name) {
								written[symOf(v)] = true
							}
						}
					}
					return true
				})
				// nested struct values (roleData)
				for i := 0; i < st.NumFields(); i++ {
					if s2, ok := st.Field(i).Type().Underlying().(*types.Struct); ok {
						if nt2, ok := st.Field(i).Type().(*types.Named); ok && nt2.Obj().Pkg() == pk.Types {
							_ = s2
							for fl := range literalFields(d, natPkg, nt2.Obj().Name()) {
								written[natPkg+"#"+fl] = true
							}
						}
					}
				}
			}
			for _, callee := range ws.Calls[f] {
				visit(callee)
			}
		}
		visit(init.Obj)
		for i := 0; i < st.NumFields(); i++ {
			fld := st.Field(i)
			nfields++
			key := name + "." + fld.Name()
			switch {
			case startsSet[key] != "":
				if setTrue[symOf(fld)] {
					c.OK("init."+key, c.P.Pos(init.Decl.Pos()), "InitializeCache raises the flag "+key+": "+startsSet[key])
				} else {
					c.Fail("init."+key, c.P.Pos(init.Decl.Pos()), fmt.Sprintf("%s does not raise %s in the rebuilt cache: %s", FuncKey(init.Obj), key, startsSet[key]))
				}
			case written[symOf(fld)]:
				c.OK("init."+key, c.P.Pos(init.Decl.Pos()), "InitializeCache (transitively) fills "+key)
			case derivedFields[key] != "":
				c.OK("init."+key, c.P.Pos(init.Decl.Pos()), "derived/constant: "+derivedFields[key])
			default:
				c.Fail("init."+key, c.P.Pos(init.Decl.Pos()), fmt.Sprintf("%s never fills %s: after a restart the cache starts with the zero value while a running node has the value its setters stored — answers and state roots diverge", FuncKey(init.Obj), key))
			}
		}
	}
	c.Floor("native cache fields", nfields, 24)
}

// ---------------------------------------------------------------------------
// cache-pairing: a cached storage record and its cache field change together

type keyField struct {
	key   string // symbol of the storage key (package-level var/const of package native)
	field string // cache field symbol
	owner string // cache type
}

// derivePairs reads "cache.F = get...(…KEY…)" statements out of the cache builders (InitializeCache closure).
func derivePairs(c *Ctx, cts map[string]*types.Named) []keyField {
	pk := c.P.Pkg(natPkg)
	ws := c.P.PkgWriteSummary(natPkg)
	var out []keyField
	seenPair := map[string]bool{}
	var builders []*FuncDecl
	seen := map[*types.Func]bool{}
	var visit func(f *types.Func)
	visit = func(f *types.Func) {
		if seen[f] {
			return
		}
		seen[f] = true
		if d := c.P.DeclOf(f); d != nil && d.Decl.Body != nil {
			builders = append(builders, d)
		}
		for _, callee := range ws.Calls[f] {
			visit(callee)
		}
	}
	for _, fd := range c.P.AllFuncDecls() {
		if fd.Pkg == pk && fd.Decl.Name.Name == "InitializeCache" {
			visit(fd.Obj)
		}
	}
	isKeySym := func(s string) bool {
		if !strings.HasPrefix(s, natPkg+".") {
			return false
		}
		n := strings.TrimPrefix(s, natPkg+".")
		switch pk.Types.Scope().Lookup(n).(type) {
		case *types.Var, *types.Const:
		default:
			return false
		}
		ln := strings.ToLower(n)
		return strings.HasSuffix(n, "Key") || strings.HasPrefix(ln, "prefix") || strings.HasPrefix(n, "key") || strings.HasSuffix(n, "Prefix")
	}
	for _, d := range builders {
		f := c.P.NewFuncCFG(d)
		ast.Inspect(d.Decl.Body, func(n ast.Node) bool {
			as, ok := n.(*ast.AssignStmt)
			if !ok || len(as.Lhs) != 1 || len(as.Rhs) != 1 {
				return true
			}
			se, ok := ast.Unparen(as.Lhs[0]).(*ast.SelectorExpr)
			if !ok {
				return true
			}
			v, ok := pk.TypesInfo.ObjectOf(se.Sel).(*types.Var)
			if !ok || !v.IsField() {
				return true
			}
			bt := pk.TypesInfo.TypeOf(se.X)
			if p, ok := bt.(*types.Pointer); ok {
				bt = p.Elem()
			}
			nt, ok := bt.(*types.Named)
			if !ok || cts[nt.Obj().Name()] != nt {
				return true
			}
			var keys []string
			for s := range f.Mentions(as.Rhs[0], nil) {
				if isKeySym(s) {
					keys = append(keys, s)
				}
			}
			if len(keys) == 0 {
				// the value comes from a loader of package native: look into it (two levels)
				for s := range deepKeyMentions(c, f, as.Rhs[0], isKeySym) {
					keys = append(keys, s)
				}
			}
			if len(keys) == 1 && !seenPair[keys[0]+symOf(v)] {
				seenPair[keys[0]+symOf(v)] = true
				out = append(out, keyField{keys[0], symOf(v), nt.Obj().Name()})
			}
			return true
		})
	}
	// fields initialised in the cache literal itself: &XCache{f: load(key)}
	for _, d := range builders {
		f := c.P.NewFuncCFG(d)
		ast.Inspect(d.Decl.Body, func(n ast.Node) bool {
			cl, ok := n.(*ast.CompositeLit)
			if !ok {
				return true
			}
			nt, ok := pk.TypesInfo.TypeOf(cl).(*types.Named)
			if !ok || cts[nt.Obj().Name()] != nt {
				return true
			}
			st, _ := nt.Underlying().(*types.Struct)
			for _, el := range cl.Elts {
				kv, ok := el.(*ast.KeyValueExpr)
				if !ok {
					continue
				}
				id, ok := kv.Key.(*ast.Ident)
				if !ok || st == nil {
					continue
				}
				var fv *types.Var
				for i := 0; i < st.NumFields(); i++ {
					if st.Field(i).Name() == id.Name {
						fv = st.Field(i)
					}
				}
				if fv == nil {
					continue
				}
				var keys []string
				for s := range deepKeyMentions(c, f, kv.Value, isKeySym) {
					keys = append(keys, s)
				}
				if len(keys) == 1 && !seenPair[keys[0]+symOf(fv)] {
					seenPair[keys[0]+symOf(fv)] = true
					out = append(out, keyField{keys[0], symOf(fv), nt.Obj().Name()})
				}
			}
			return true
		})
	}
	// seek-filled fields: d.Seek(id, SeekRange{Prefix: K...}, func(k, v) { cache.f... = ... }) inside a builder
	for _, d := range builders {
		f := c.P.NewFuncCFG(d)
		ast.Inspect(d.Decl.Body, func(n ast.Node) bool {
			call, ok := n.(*ast.CallExpr)
			if !ok || len(call.Args) < 2 {
				return true
			}
			if cs := f.calleeSym(call); !strings.HasSuffix(cs, ".Seek") && !strings.HasSuffix(cs, ".SeekAsync") {
				return true
			}
			lit, ok := call.Args[len(call.Args)-1].(*ast.FuncLit)
			if !ok {
				return true
			}
			var keys []string
			for _, a := range call.Args[:len(call.Args)-1] {
				for s := range nativeKeyMentions(c, f, a, isKeySym) {
					keys = append(keys, s)
				}
			}
			if len(keys) != 1 {
				return true
			}
			ast.Inspect(lit.Body, func(m ast.Node) bool {
				var ws2 []fieldAccess
				ws2 = append(ws2, nodeWrites(pk.TypesInfo, m, false)...)
				if cl, ok := m.(*ast.CallExpr); ok {
					if cd := staticCalleeDecl(c.P, pk.TypesInfo, cl); cd != nil {
						var fl []string
						for fld := range ws.Trans[cd.Obj] {
							fl = append(fl, fld)
						}
						sort.Strings(fl)
						for _, fld := range fl {
							ws2 = append(ws2, fieldAccess{Field: fld})
						}
					}
				}
				for _, w := range ws2 {
					owner := ""
					for name := range cts {
						if fieldOwner(pk, name, w.Field) {
							owner = name
						}
					}
					if owner != "" && !seenPair[keys[0]+w.Field] {
						seenPair[keys[0]+w.Field] = true
						out = append(out, keyField{keys[0], w.Field, owner})
					}
				}
				return true
			})
			return true
		})
	}
	sort.Slice(out, func(i, j int) bool { return out[i].key+out[i].field < out[j].key+out[j].field })
	return out
}

// fieldOwner: is fieldSym ("pkg#name") a field of the named struct type of package native?
func fieldOwner(pk *packages.Package, typeName, fieldSym string) bool {
	tn, ok := pk.Types.Scope().Lookup(typeName).(*types.TypeName)
	if !ok {
		return false
	}
	st, ok := tn.Type().Underlying().(*types.Struct)
	if !ok {
		return false
	}
	for i := 0; i < st.NumFields(); i++ {
		if symOf(st.Field(i)) == fieldSym {
			return true
		}
	}
	return false
}

// deepKeyMentions: key symbols mentioned by e or by the bodies of the package-native functions/methods it calls
// (two levels): `cache.gasPerBlock = n.getSortedGASRecordFromDAO(d)`.
func deepKeyMentions(c *Ctx, f *FuncCFG, e ast.Node, isKeySym func(string) bool) map[string]bool {
	out := map[string]bool{}
	seen := map[*types.Func]bool{}
	var walk func(f *FuncCFG, e ast.Node, depth int)
	walk = func(f *FuncCFG, e ast.Node, depth int) {
		for s := range f.Mentions(e, nil) {
			if isKeySym(s) {
				out[s] = true
			}
		}
		if depth >= 2 {
			return
		}
		ast.Inspect(e, func(n ast.Node) bool {
			cl, ok := n.(*ast.CallExpr)
			if !ok {
				return true
			}
			cd := staticCalleeDecl(c.P, f.Info, cl)
			if cd == nil || cd.Decl.Body == nil || pkgRel(cd.Pkg.Types) != natPkg || seen[cd.Obj] {
				return true
			}
			seen[cd.Obj] = true
			if hf := c.P.NewFuncCFG(cd); hf != nil {
				walk(hf, cd.Decl.Body, depth+1)
			}
			return true
		})
	}
	walk(f, e, 0)
	return out
}

// nativeKeyMentions: key symbols mentioned by e, looking one level into key-builder functions of package native
// (makeXKey(h) { return append([]byte{prefixX}, ...) }).
func nativeKeyMentions(c *Ctx, f *FuncCFG, e ast.Node, isKeySym func(string) bool) map[string]bool {
	out := map[string]bool{}
	var walk func(f *FuncCFG, e ast.Node, depth int)
	walk = func(f *FuncCFG, e ast.Node, depth int) {
		for s := range f.Mentions(e, nil) {
			if isKeySym(s) {
				out[s] = true
				continue
			}
			if depth >= 2 || !strings.HasPrefix(s, natPkg+".") {
				continue
			}
			name := strings.TrimPrefix(s, natPkg+".")
			if strings.ContainsAny(name, "().") {
				continue // methods are not key builders
			}
			fd := c.P.Func(natPkg, "", name)
			if fd == nil || fd.Decl.Body == nil || fd.Decl.Type.Results == nil || len(fd.Decl.Type.Results.List) != 1 {
				continue
			}
			if !isBytesLike(fd.Pkg.TypesInfo.TypeOf(fd.Decl.Type.Results.List[0].Type)) {
				continue
			}
			if hf := c.P.NewFuncCFG(fd); hf != nil {
				walk(hf, fd.Decl.Body, depth+1)
			}
		}
	}
	walk(f, e, 0)
	return out
}

// pairingExempt: (function, key) pairs whose store leaves the cached projection of the record unchanged, one reason each.
var pairingExempt = map[string]string{
	"pkg/core/native.(*Policy).Initialize#blockedAccountPrefix": "the Faun migration re-stamps the records of the accounts already in the list with the block time; the cache holds the account list only, not the time stamps",
}

func ruleCachePairing(c *Ctx) {
	pk := c.P.Pkg(natPkg)
	if pk == nil {
		c.Lost("anchor", "package native not found")
		return
	}
	cts := cacheTypes(c)
	pairs := derivePairs(c, cts)
	c.Floor("(storage key, cache field) pairs derived from the cache builders", len(pairs), 12)
	ws := c.P.PkgWriteSummary(natPkg)
	g := c.P.MRG()
	exec := g.Reach(c.P.HandlerRoots(), nil)
	var ps []string
	for _, p := range pairs {
		ps = append(ps, shortSym(p.key)+"<->"+p.owner+"."+shortSym(p.field))
	}
	c.Note("pairs: %s", strings.Join(ps, ", "))
	callers := map[*types.Func][]*types.Func{}
	for caller, callees := range ws.Calls {
		for _, cal := range callees {
			callers[cal] = append(callers[cal], caller)
		}
	}
	inExec := func(fn *types.Func) bool {
		sf := c.P.SSAFunc(fn)
		if sf == nil {
			return false
		}
		_, ok := exec[sf]
		return ok
	}
	usedExempt := map[string]bool{}
	for _, p := range pairs {
		pc := &pairCtx{c: c, ws: ws, key: p.key, field: p.field, owner: p.owner, memo: map[string]*pairEffect{}, busy: map[string]bool{}}
		for _, fd := range c.P.AllFuncDecls() {
			if fd.Pkg != pk || fd.Decl.Body == nil || !inExec(fd.Obj) {
				continue // cache builders and helpers outside execution
			}
			// function literals (deferred continuations of natives) are bodies of their own
			li := 0
			var stk []ast.Node
			ast.Inspect(fd.Decl.Body, func(n ast.Node) bool {
				if n == nil {
					stk = stk[:len(stk)-1]
					return true
				}
				stk = append(stk, n)
				lit, ok := n.(*ast.FuncLit)
				if !ok {
					return true
				}
				li++
				// a literal evaluated inside a statement that assigns the field (slices.DeleteFunc(cache.f, func...))
				// runs before that write completes
				for i := len(stk) - 2; i >= 0; i-- {
					if st, isStmt := stk[i].(ast.Stmt); isStmt {
						if as, isAs := st.(*ast.AssignStmt); isAs {
							for _, w := range nodeWrites(fd.Pkg.TypesInfo, as, false) {
								if w.Field == p.field {
									return true
								}
							}
						}
						break
					}
				}
				lf := c.P.NewLitCFG(fd.Pkg.TypesInfo, FuncKey(fd.Obj)+fmt.Sprintf("$%d", li), lit)
				if lf == nil || len(lf.G.Blocks) == 0 {
					return true
				}
				le := &pairEffect{}
				pc.effectCFG(lf, fd.Obj, nil, 0, le)
				if !le.stores {
					return true
				}
				lkey := fmt.Sprintf("%s$%d.%s->%s", FuncKey(fd.Obj), li, shortSym(p.key), shortSym(p.field))
				if le.gap {
					c.Fail(lkey, c.P.Pos(lit.Pos()), fmt.Sprintf("a function literal of %s stores the record %s on a path that returns normally without the cache field %s.%s being written: a running node keeps answering from the old cached value, a restarted node reads the stored one", FuncKey(fd.Obj), shortSym(p.key), p.owner, shortSym(p.field)), le.path...)
				} else {
					c.OK(lkey, c.P.Pos(lit.Pos()), fmt.Sprintf("stores %s and leaves %s.%s updated on every path that returns normally", shortSym(p.key), p.owner, shortSym(p.field)))
				}
				return true
			})
			eff := pc.effect(fd, nil, 0)
			if !eff.stores {
				continue
			}
			key := fmt.Sprintf("%s.%s->%s", FuncKey(fd.Obj), shortSym(p.key), shortSym(p.field))
			pos := c.P.Pos(fd.Decl.Pos())
			if !eff.gap {
				c.OK(key, pos, fmt.Sprintf("stores %s and leaves %s.%s updated on every path that returns normally", shortSym(p.key), p.owner, shortSym(p.field)))
				continue
			}
			if why, ok := pairingExempt[FuncKey(fd.Obj)+"#"+shortSym(p.key)]; ok {
				usedExempt[FuncKey(fd.Obj)+"#"+shortSym(p.key)] = true
				c.OK(key, pos, "tabled: "+why)
				continue
			}
			// a helper whose callers (inside execution) complete the update is judged at the callers
			deferred := false
			for _, cl := range callers[fd.Obj] {
				if cl != fd.Obj && inExec(cl) {
					deferred = true
				}
			}
			if deferred {
				c.OK(key, pos, fmt.Sprintf("helper: stores %s and may return before %s.%s is updated; its callers are checked with this call counted as a store", shortSym(p.key), p.owner, shortSym(p.field)))
				continue
			}
			msg := fmt.Sprintf("%s stores the record %s on a path that returns normally without the cache field %s.%s being written (before or after): a running node keeps answering from the old cached value, a restarted node reads the stored one", FuncKey(fd.Obj), shortSym(p.key), p.owner, shortSym(p.field))
			c.Fail(key, pos, msg, eff.path...)
		}
	}
	for k := range pairingExempt {
		if !usedExempt[k] {
			c.Lost("exempt."+k, "tabled exemption "+k+" no longer matches a storing function with a gap: remove or re-read it")
		}
	}
}

type pairEffect struct {
	stores bool     // some path stores the record (directly or through a callee)
	gap    bool     // some path returns normally with the record stored and the field not written
	path   []string // witness of the gap
}

type pairCtx struct {
	c                 *Ctx
	ws                *WriteSummary
	key, field, owner string
	memo              map[string]*pairEffect
	busy              map[string]bool
}

// effect runs a three-state forward analysis over fd's CFG: none -> (store) dirty, any -> (field write) written,
// written -(store)-> written. Dirty at a non-error return is a gap. Calls of package functions are classified by
// their own effect, evaluated under the constant boolean arguments of the call (putContractState(.., false)).
func (pc *pairCtx) effect(fd *FuncDecl, assume *Assume, depth int) *pairEffect {
	ak := ""
	if assume != nil {
		var ks []string
		for k, v := range assume.Sym {
			ks = append(ks, fmt.Sprintf("%s=%v", k, v))
		}
		sort.Strings(ks)
		ak = strings.Join(ks, ",")
	}
	mk := FuncKey(fd.Obj) + "|" + ak
	if e, ok := pc.memo[mk]; ok {
		return e
	}
	if pc.busy[mk] || depth > 5 {
		return &pairEffect{}
	}
	pc.busy[mk] = true
	defer delete(pc.busy, mk)
	res := &pairEffect{}
	pc.memo[mk] = res
	f := pc.c.P.NewFuncCFG(fd)
	if f == nil || len(f.G.Blocks) == 0 {
		return res
	}
	pc.effectCFG(f, fd.Obj, assume, depth, res)
	return res
}

// effectCFG is the analysis proper (also used for function literals, which run later than their creator).
func (pc *pairCtx) effectCFG(f *FuncCFG, self *types.Func, assume *Assume, depth int, res *pairEffect) {
	short := shortSym(pc.field)
	const (
		evStore = 1
		evWrite = 2
	)
	events := map[*cfg.Block][]int{}
	for _, b := range f.G.Blocks {
		if !b.Live {
			continue
		}
		for _, n := range b.Nodes {
			for _, w := range nodeWrites(f.Info, n, false) {
				if w.Field == pc.field {
					events[b] = append(events[b], evWrite)
				}
			}
			inspectNoLit(n, func(x ast.Node) bool {
				switch y := x.(type) {
				case *ast.CallExpr:
					if ki, ok := daoMutators[f.calleeSym(y)]; ok && ki < len(y.Args) && nativeKeyMentions(pc.c, f, y.Args[ki], func(s string) bool { return s == pc.key })[pc.key] {
						events[b] = append(events[b], evStore)
						return true
					}
					d := staticCalleeDecl(pc.c.P, f.Info, y)
					if d == nil || d.Decl.Body == nil || pkgRel(d.Pkg.Types) != natPkg || d.Obj == self {
						return true
					}
					var ca *Assume
					if d.Decl.Type.Params != nil {
						i := 0
						for _, fl := range d.Decl.Type.Params.List {
							for _, nm := range fl.Names {
								if i < len(y.Args) {
									if v, isConst := boolConst(f.Info, y.Args[i]); isConst {
										if ca == nil {
											ca = &Assume{Sym: map[string]bool{}}
										}
										ca.Sym["param:"+nm.Name] = v
									}
								}
								i++
							}
						}
					}
					ce := pc.effect(d, ca, depth+1)
					switch {
					case ce.stores && ce.gap:
						events[b] = append(events[b], evStore)
					case ce.stores || pc.ws.Trans[d.Obj][pc.field]:
						events[b] = append(events[b], evWrite)
					}
				case *ast.CompositeLit:
					if t := f.Info.TypeOf(y); t != nil && strings.HasSuffix(t.String(), "."+pc.owner) {
						for _, el := range y.Elts {
							if kv, ok := el.(*ast.KeyValueExpr); ok {
								if id, ok := kv.Key.(*ast.Ident); ok && id.Name == short {
									events[b] = append(events[b], evWrite)
								}
							}
						}
					}
				}
				return true
			})
		}
	}
	// forward may-analysis: set of states {none=1, written=2, dirty=4} at block entry
	in := map[*cfg.Block]int{}
	from := map[*cfg.Block]*cfg.Block{} // predecessor through which the dirty state first arrived
	entry := f.G.Blocks[0]
	in[entry] = 1
	work := []*cfg.Block{entry}
	out := func(b *cfg.Block, st int) int {
		for _, ev := range events[b] {
			ns := 0
			for _, s := range []int{1, 2, 4} {
				if st&s == 0 {
					continue
				}
				switch {
				case ev == evWrite:
					ns |= 2
				case ev == evStore && s == 1:
					ns |= 4
					res.stores = true
				case ev == evStore:
					ns |= s
					res.stores = true
				}
			}
			st = ns
		}
		return st
	}
	for len(work) > 0 {
		b := work[0]
		work = work[1:]
		o := out(b, in[b])
		for _, sc := range f.Succs(b, assume) {
			if in[sc]|o != in[sc] {
				if o&4 != 0 && in[sc]&4 == 0 {
					from[sc] = b
				}
				in[sc] |= o
				work = append(work, sc)
			}
		}
	}
	var rets []site
	if f.Type.Results != nil && len(f.Type.Results.List) > 0 && isErrorType(f.Info.TypeOf(f.Type.Results.List[len(f.Type.Results.List)-1].Type)) {
		rets = f.OKReturns()
	} else {
		rets = f.OKReturns() // includes falling off the end; no error result: every return is normal
	}
	for _, r := range rets {
		st, seen := in[r.blk]
		if !seen {
			continue
		}
		if out(r.blk, st)&4 != 0 {
			res.gap = true
			// witness: walk the dirty chain back
			var chain []string
			b := r.blk
			for i := 0; b != nil && i < 40; i++ {
				chain = append([]string{f.blockPos(b)}, chain...)
				b = from[b]
			}
			res.path = append(chain, "returns at "+pc.c.P.Pos(r.node.Pos()))
			break
		}
	}
}
