package main

import (
	"fmt"
	"go/ast"
	"go/types"
	"os"
	"regexp"
	"strings"
)

// twin-maps: a MemoryStore keeps its keys in two maps of identical role, `mem` (everything else) and `stor` (contract
// storage); whatever is done to one of them wholesale - counted, copied, merged, replaced, handed to the lower store -
// is done to the other in the same statement or in a twin statement of the same function (the same statement with the
// other field). A statement that treats one map alone silently loses or resurrects the keys of the other kind. Keyed
// accesses are not subject to this: they go through chooseMap (rule stor-routing).
var twinFieldRe = regexp.MustCompile(`\.(mem|stor)\b`)

func ruleTwinMaps(c *Ctx) {
	pk := c.P.Pkg("pkg/core/storage")
	if pk == nil {
		c.Lost("anchor", "package storage not found")
		return
	}
	info := pk.TypesInfo
	isTwinSel := func(se *ast.SelectorExpr) bool {
		s := symOf(info.ObjectOf(se.Sel))
		return s == "pkg/core/storage#mem" || s == "pkg/core/storage#stor"
	}
	n := 0
	for _, fd := range c.P.AllFuncDecls() {
		if fd.Pkg != pk || fd.Decl.Body == nil {
			continue
		}
		var stmts []ast.Stmt
		ast.Inspect(fd.Decl.Body, func(x ast.Node) bool {
			switch s := x.(type) {
			case *ast.AssignStmt, *ast.ExprStmt, *ast.IncDecStmt, *ast.ReturnStmt, *ast.DeclStmt, *ast.GoStmt, *ast.DeferStmt:
				stmts = append(stmts, s.(ast.Stmt))
			case *ast.RangeStmt:
				stmts = append(stmts, &ast.ExprStmt{X: s.X})
			case *ast.IfStmt:
				stmts = append(stmts, &ast.ExprStmt{X: s.Cond})
			}
			return true
		})
		text := func(s ast.Stmt) string {
			var sb strings.Builder
			switch x := s.(type) {
			case *ast.ExprStmt:
				return types.ExprString(x.X)
			case *ast.AssignStmt:
				for i, l := range x.Lhs {
					if i > 0 {
						sb.WriteString(", ")
					}
					sb.WriteString(types.ExprString(l))
				}
				sb.WriteString(" " + x.Tok.String() + " ")
				for i, r := range x.Rhs {
					if i > 0 {
						sb.WriteString(", ")
					}
					sb.WriteString(types.ExprString(r))
				}
				return sb.String()
			case *ast.ReturnStmt:
				sb.WriteString("return ")
				for i, r := range x.Results {
					if i > 0 {
						sb.WriteString(", ")
					}
					sb.WriteString(types.ExprString(r))
				}
				return sb.String()
			case *ast.IncDecStmt:
				return types.ExprString(x.X) + x.Tok.String()
			}
			return ""
		}
		all := map[string]bool{}
		for _, s := range stmts {
			if t := text(s); t != "" {
				all[t] = true
			}
		}
		idx := 0
		for _, s := range stmts {
			// whole-map uses only: the selector is not the operand of an index expression
			whole := map[string]bool{}
			ast.Inspect(s, func(x ast.Node) bool {
				if ie, ok := x.(*ast.IndexExpr); ok {
					if se, ok := ast.Unparen(ie.X).(*ast.SelectorExpr); ok && isTwinSel(se) {
						return false
					}
				}
				if se, ok := x.(*ast.SelectorExpr); ok && isTwinSel(se) {
					whole[se.Sel.Name] = true
				}
				return true
			})
			if len(whole) == 0 {
				continue
			}
			t := text(s)
			if t == "" {
				continue
			}
			n++
			if whole["mem"] && whole["stor"] {
				continue
			}
			twin := twinFieldRe.ReplaceAllStringFunc(t, func(m string) string {
				if m == ".mem" {
					return ".stor"
				}
				return ".mem"
			})
			if all[twin] {
				continue
			}
			idx++
			key := fmt.Sprintf("%s.untwinned#%d", FuncKey(fd.Obj), idx)
			if why, ok := twinOK[FuncKey(fd.Obj)+"#"+t]; ok {
				c.OK(key, c.P.Pos(s.Pos()), "tabled: "+why)
				continue
			}
			if os.Getenv("NV_TWIN") != "" {
				fmt.Println("TWIN", c.P.Pos(s.Pos()), FuncKey(fd.Obj), "|", t)
			}
			c.Fail(key, c.P.Pos(s.Pos()), fmt.Sprintf("%s handles one of the twin maps alone (`%s`) and has no twin statement for the other (`%s`): keys of the other kind are not counted / copied / flushed here", FuncKey(fd.Obj), trunc(t, 70), trunc(twin, 70)))
		}
	}
	c.OK("scope", "", fmt.Sprintf("%d statements using mem/stor as whole maps examined", n))
	c.Floor("whole-map uses of mem/stor", n, 10)
}

var twinOK = map[string]string{
	"pkg/core/storage.(*MemCachedStore).GetStorageChanges#return s.stor":     "by definition: the storage change set of a block is the stor map alone (it feeds the MPT batch)",
	"pkg/core/storage.(*MemoryStore).putChangeSet#maps.Copy(s.mem, puts)":    "the two halves of a change set arrive as two parameters; this statement and the next one are the twin pair (puts -> mem, stores -> stor)",
	"pkg/core/storage.(*MemoryStore).putChangeSet#maps.Copy(s.stor, stores)": "see the previous row",
}
