// nvcheck — repository-specific static checker for nspcc-dev/neo-go (see /verif/DESIGN.md).
package main

import (
	"encoding/json"
	"flag"
	"fmt"
	"os"
	"path/filepath"
	"runtime/debug"
	"sort"
	"strconv"
	"strings"
	"time"
)

// RuleSpec is one static rule.
type RuleSpec struct {
	Name string
	Doc  string
	Run  func(c *Ctx)
}

// PropertySpec lists the rules that decide the structural clauses of a property.
type PropertySpec struct {
	ID          string
	Rules       []RuleSpec
	NotCovered  string
	Assumptions []string
}

var properties = map[string]*PropertySpec{}

func register(p *PropertySpec) { properties[p.ID] = p }

func main() {
	var (
		repo     = flag.String("repo", "/repo", "repository root")
		propID   = flag.String("property", "", "property id (C01..C20)")
		tier     = flag.String("tier", "quick", "quick|thorough")
		outDir   = flag.String("out", "/verif/out", "directory for replay files")
		evPath   = flag.String("evidence", "", "evidence file to write")
		knownP   = flag.String("known", "", "known_findings.json")
		overlayD = flag.String("overlay-dir", "", "directory mirroring repo paths whose files replace the repo's (negative controls)")
		only     = flag.String("rules", "", "comma-separated subset of rules (controls/replay)")
		replay   = flag.String("replay", "", "replay file: re-evaluate exactly that obligation")
		list     = flag.Bool("list", false, "list properties and rules")
		ctlJSON  = flag.String("controls-json", "", "JSON file with negative-control results to embed in evidence (written by check.sh thorough)")
		goarch   = flag.String("goarch", "", "load with this GOARCH (thorough: 386)")
		dump     = flag.String("dump-conds", "", "pkg,recv,name: print the atomic conditions of a function and exit")
	)
	flag.Parse()
	debug.SetGCPercent(400)
	if *list {
		var ids []string
		for id := range properties {
			ids = append(ids, id)
		}
		sort.Strings(ids)
		for _, id := range ids {
			for _, r := range properties[id].Rules {
				fmt.Printf("%s\t%s\t%s\n", id, r.Name, r.Doc)
			}
		}
		return
	}
	if *dump != "" {
		parts := strings.Split(*dump, ",")
		abs, _ := filepath.Abs(*repo)
		prog, err := LoadProgram(abs, nil)
		if err != nil {
			fmt.Fprintln(os.Stderr, err)
			os.Exit(2)
		}
		fd := prog.Func(parts[0], parts[1], parts[2])
		if fd == nil {
			fmt.Fprintln(os.Stderr, "not found")
			os.Exit(2)
		}
		prog.NewFuncCFG(fd).DumpConds()
		return
	}
	start := time.Now()
	var replayKey string
	if *replay != "" {
		b, err := os.ReadFile(*replay)
		if err != nil {
			fmt.Fprintln(os.Stderr, err)
			os.Exit(2)
		}
		var rep struct {
			Property   string     `json:"property"`
			Obligation Obligation `json:"obligation"`
		}
		if err := json.Unmarshal(b, &rep); err != nil {
			fmt.Fprintln(os.Stderr, err)
			os.Exit(2)
		}
		*propID = rep.Property
		*only = rep.Obligation.Rule
		replayKey = rep.Obligation.Key
		*evPath = ""
	}
	prop := properties[*propID]
	if prop == nil {
		fmt.Fprintf(os.Stderr, "unknown property %q\n", *propID)
		os.Exit(2)
	}
	seed := 0
	if s := os.Getenv("VERIF_SEED"); s != "" {
		seed, _ = strconv.Atoi(s)
	}
	known, err := loadKnown(*knownP)
	if err != nil {
		fmt.Fprintln(os.Stderr, "known findings:", err)
		os.Exit(2)
	}
	abs, _ := filepath.Abs(*repo)
	overlay := map[string][]byte{}
	if *overlayD != "" {
		filepath.Walk(*overlayD, func(path string, info os.FileInfo, err error) error {
			if err != nil || info.IsDir() {
				return nil
			}
			rel, _ := filepath.Rel(*overlayD, path)
			b, _ := os.ReadFile(path)
			overlay[filepath.Join(abs, rel)] = b
			return nil
		})
	}
	var env []string
	if *goarch != "" {
		env = append(env, "GOARCH="+*goarch)
	}
	var obls []Obligation
	var notes []string
	counts := map[string]int{}
	loadInfo := map[string]any{}
	prog, err := LoadProgram(abs, overlay, env...)
	if err != nil {
		obls = append(obls, Obligation{Rule: "load", Key: "load:program", Status: StLost, Msg: err.Error()})
	} else {
		nfiles, nfuncs := 0, len(prog.declOf)
		for _, pk := range prog.Pkgs {
			nfiles += len(pk.Syntax)
		}
		loadInfo["module_packages"] = len(prog.Pkgs)
		loadInfo["files"] = nfiles
		loadInfo["function_declarations"] = nfuncs
		loadInfo["goarch"] = *goarch
		loadInfo["overlay_files"] = len(overlay)
		sel := map[string]bool{}
		for _, r := range strings.Split(*only, ",") {
			if r != "" {
				sel[r] = true
			}
		}
		for _, r := range prop.Rules {
			if len(sel) > 0 && !sel[r.Name] {
				continue
			}
			c := &Ctx{P: prog, Property: prop.ID, Tier: *tier, Rule: r.Name}
			func() {
				defer func() {
					if e := recover(); e != nil {
						c.Lost("panic", fmt.Sprintf("rule %s panicked: %v\n%s", r.Name, e, debug.Stack()))
					}
				}()
				r.Run(c)
			}()
			if len(c.Obls) == 0 {
				c.Lost("vacuous", "rule produced no obligation at all")
			}
			obls = append(obls, c.Obls...)
			notes = append(notes, c.Notes...)
			for k, v := range c.counts {
				counts[k] = v
			}
		}
		if prog.mrg != nil {
			loadInfo["mrg_functions"] = len(prog.mrg.Nodes)
		}
	}
	if replayKey != "" {
		var kept []Obligation
		for _, o := range obls {
			if o.Key == replayKey || o.Status == StLost {
				kept = append(kept, o)
			}
		}
		if len(kept) == 0 {
			fmt.Printf("obligation %s no longer exists on the current tree\n", replayKey)
			os.Exit(0)
		}
		obls = kept
		for _, o := range kept {
			if o.Status == StOK {
				fmt.Printf("obligation %s: no longer violated (%s)\n", o.Key, o.Msg)
			}
		}
	}
	var controls []map[string]any
	if *ctlJSON != "" {
		if b, err := os.ReadFile(*ctlJSON); err == nil {
			json.Unmarshal(b, &controls)
		}
	}
	os.Exit(finish(prop, *tier, seed, obls, notes, counts, known, *outDir, *evPath, start, loadInfo, controls))
}
