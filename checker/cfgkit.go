package main

import (
	"fmt"
	"go/ast"
	"go/constant"
	"go/token"
	"go/types"
	"sort"
	"strings"

	"golang.org/x/tools/go/cfg"
)

// ---------------------------------------------------------------------------
// Symbols: stable, line-free names of program objects used by the tables.
//
//   function / method : "pkg/core.(*Blockchain).BlockHeight", "bytes.Equal", "builtin.len"
//   struct field      : "pkg/core/block#Index"  (package of declaration '#' field name)
//   package-level var : "pkg/core.ErrInvalidBlockIndex"
//   parameter         : "param:verify"

func pkgRel(p *types.Package) string {
	if p == nil {
		return "builtin"
	}
	return strings.TrimPrefix(p.Path(), modPath+"/")
}

func symOf(obj types.Object) string {
	switch o := obj.(type) {
	case *types.Func:
		return FuncKey(o.Origin())
	case *types.Var:
		if o.IsField() {
			return pkgRel(o.Pkg()) + "#" + o.Name()
		}
		if o.Pkg() != nil && o.Parent() == o.Pkg().Scope() {
			return pkgRel(o.Pkg()) + "." + o.Name()
		}
		return ""
	case *types.Const:
		if o.Pkg() != nil && o.Parent() == o.Pkg().Scope() {
			return pkgRel(o.Pkg()) + "." + o.Name()
		}
	case *types.Builtin:
		return "builtin." + o.Name()
	case *types.TypeName:
		return "type:" + pkgRel(o.Pkg()) + "." + o.Name()
	}
	return ""
}

// FuncCFG is the control-flow graph of one function body plus lookup tables.
type FuncCFG struct {
	P      *Program
	Info   *types.Info
	Name   string
	Body   *ast.BlockStmt
	Type   *ast.FuncType
	G      *cfg.CFG
	params map[types.Object]bool
	// position of each parameter in the parameter list (receiver: -1): "param#i" symbols are rename-proof
	paramIdx map[types.Object]int
	// for a function literal: the CFG of the enclosing function (definitions of captured variables live there)
	outer *FuncCFG
	// single-definition locals: object -> defining RHS expressions
	defs map[types.Object][]defSite
	// case expression -> switch tag expression
	caseTag map[ast.Expr]ast.Expr
	preds   map[*cfg.Block][]*cfg.Block
}

type defSite struct {
	rhs  []ast.Expr // all RHS of the assignment (tuple calls: the single call)
	node ast.Node
}

func noReturnCall(info *types.Info, call *ast.CallExpr) bool {
	switch f := ast.Unparen(call.Fun).(type) {
	case *ast.Ident:
		if b, ok := info.ObjectOf(f).(*types.Builtin); ok && b.Name() == "panic" {
			return true
		}
	case *ast.SelectorExpr:
		if fo, ok := info.ObjectOf(f.Sel).(*types.Func); ok {
			k := FuncKey(fo)
			switch k {
			case "os.Exit", "log.Fatal", "log.Fatalf", "log.Fatalln", "log.Panic", "log.Panicf",
				"go.uber.org/zap.(*Logger).Fatal", "go.uber.org/zap.(*Logger).Panic",
				"runtime.Goexit", "testing.(*common).FailNow":
				return true
			}
		}
	}
	return false
}

// NewFuncCFG builds the CFG of a declared function.
func (p *Program) NewFuncCFG(fd *FuncDecl) *FuncCFG {
	if fd == nil || fd.Decl.Body == nil {
		return nil
	}
	return p.newCFG(fd.Pkg.TypesInfo, FuncKey(fd.Obj), fd.Decl.Type, fd.Decl.Body, fd.Decl.Recv)
}

// NewLitCFG builds the CFG of a function literal.
func (p *Program) NewLitCFG(info *types.Info, name string, lit *ast.FuncLit) *FuncCFG {
	return p.newCFG(info, name, lit.Type, lit.Body, nil)
}

// NewLitCFGIn is NewLitCFG for a literal inside outer: captured variables are resolved through outer's definitions.
func (p *Program) NewLitCFGIn(outer *FuncCFG, name string, lit *ast.FuncLit) *FuncCFG {
	f := p.newCFG(outer.Info, name, lit.Type, lit.Body, nil)
	if f != nil {
		f.outer = outer
	}
	return f
}

func (p *Program) newCFG(info *types.Info, name string, ft *ast.FuncType, body *ast.BlockStmt, recv *ast.FieldList) *FuncCFG {
	f := &FuncCFG{P: p, Info: info, Name: name, Body: body, Type: ft,
		params: map[types.Object]bool{}, paramIdx: map[types.Object]int{}, defs: map[types.Object][]defSite{}, caseTag: map[ast.Expr]ast.Expr{}, preds: map[*cfg.Block][]*cfg.Block{}}
	if recv != nil {
		for _, fld := range recv.List {
			for _, n := range fld.Names {
				if o := info.Defs[n]; o != nil {
					f.paramIdx[o] = -1
				}
			}
		}
	}
	if ft.Params != nil {
		pi := 0
		for _, fld := range ft.Params.List {
			if len(fld.Names) == 0 {
				pi++
			}
			for _, n := range fld.Names {
				if o := info.Defs[n]; o != nil {
					f.paramIdx[o] = pi
				}
				pi++
			}
		}
	}
	f.G = cfg.New(body, func(c *ast.CallExpr) bool { return !noReturnCall(info, c) })
	for _, fl := range []*ast.FieldList{recv, ft.Params, ft.Results} {
		if fl == nil {
			continue
		}
		for _, fld := range fl.List {
			for _, n := range fld.Names {
				if o := info.Defs[n]; o != nil {
					f.params[o] = true
				}
			}
		}
	}
	for _, b := range f.G.Blocks {
		if !b.Live {
			continue // go/cfg opens an unreachable block after every return/branch; it is nobody's predecessor
		}
		for _, s := range b.Succs {
			f.preds[s] = append(f.preds[s], b)
		}
	}
	// definitions of locals and switch tags (function literals excluded)
	inspectNoLit(body, func(n ast.Node) bool {
		switch x := n.(type) {
		case *ast.AssignStmt:
			for i, lhs := range x.Lhs {
				id, ok := lhs.(*ast.Ident)
				if !ok {
					continue
				}
				o := info.ObjectOf(id)
				if o == nil {
					continue
				}
				var rhs []ast.Expr
				if len(x.Rhs) == len(x.Lhs) {
					rhs = []ast.Expr{x.Rhs[i]}
				} else {
					rhs = x.Rhs
				}
				f.defs[o] = append(f.defs[o], defSite{rhs, x})
			}
		case *ast.ValueSpec:
			for i, id := range x.Names {
				o := info.ObjectOf(id)
				if o == nil {
					continue
				}
				var rhs []ast.Expr
				if len(x.Values) == len(x.Names) {
					rhs = []ast.Expr{x.Values[i]}
				} else {
					rhs = x.Values
				}
				if len(rhs) > 0 {
					f.defs[o] = append(f.defs[o], defSite{rhs, x})
				}
			}
		case *ast.RangeStmt:
			for _, e := range []ast.Expr{x.Key, x.Value} {
				if id, ok := e.(*ast.Ident); ok && x.Tok == token.DEFINE {
					if o := info.ObjectOf(id); o != nil {
						f.defs[o] = append(f.defs[o], defSite{[]ast.Expr{x.X}, x})
					}
				}
			}
		case *ast.SwitchStmt:
			if x.Tag != nil {
				for _, cc := range x.Body.List {
					for _, e := range cc.(*ast.CaseClause).List {
						f.caseTag[e] = x.Tag
					}
				}
			}
		case *ast.TypeSwitchStmt:
			var tag ast.Expr
			switch a := x.Assign.(type) {
			case *ast.AssignStmt:
				tag = a.Rhs[0]
			case *ast.ExprStmt:
				tag = a.X
			}
			for _, cc := range x.Body.List {
				for _, e := range cc.(*ast.CaseClause).List {
					f.caseTag[e] = tag
				}
			}
		}
		return true
	})
	return f
}

// inspectNoLit walks n without descending into function literals.
func inspectNoLit(n ast.Node, fn func(ast.Node) bool) {
	ast.Inspect(n, func(x ast.Node) bool {
		if x == nil {
			return false
		}
		if _, ok := x.(*ast.FuncLit); ok && x != n {
			return false
		}
		return fn(x)
	})
}

// Cond returns the atomic condition that ends block b (nil if b does not branch on one).
func (f *FuncCFG) Cond(b *cfg.Block) ast.Expr {
	if len(b.Succs) != 2 || len(b.Nodes) == 0 {
		return nil
	}
	e, ok := b.Nodes[len(b.Nodes)-1].(ast.Expr)
	if !ok {
		return nil
	}
	return e
}

// Mentions collects the symbols mentioned by n; locals are expanded through their definitions
// (same CFG block, or the unique definition in the function), depth-limited.
func (f *FuncCFG) Mentions(n ast.Node, blk *cfg.Block) map[string]bool {
	out := map[string]bool{}
	f.mentions(n, blk, out, map[types.Object]bool{}, 0)
	if e, ok := n.(ast.Expr); ok {
		if tag := f.caseTag[e]; tag != nil {
			f.mentions(tag, blk, out, map[types.Object]bool{}, 0)
		}
	}
	return out
}

func (f *FuncCFG) mentions(n ast.Node, blk *cfg.Block, out map[string]bool, seen map[types.Object]bool, depth int) {
	if n == nil || depth > 6 {
		return
	}
	inspectNoLit(n, func(x ast.Node) bool {
		if u, ok := x.(*ast.UnaryExpr); ok && u.Op == token.ARROW {
			if cid, ok := ast.Unparen(u.X).(*ast.Ident); ok {
				out["recv:"+cid.Name] = true
			}
		}
		if be, ok := x.(*ast.BinaryExpr); ok {
			switch be.Op {
			case token.AND, token.AND_NOT, token.OR:
				out["op:"+be.Op.String()] = true
			}
		}
		if as, ok := x.(*ast.AssignStmt); ok {
			switch as.Tok {
			case token.AND_ASSIGN:
				out["op:&"] = true
			case token.AND_NOT_ASSIGN:
				out["op:&^"] = true
			case token.OR_ASSIGN:
				out["op:|"] = true
			case token.ADD_ASSIGN:
				out["op:+="] = true
			}
		}
		id, ok := x.(*ast.Ident)
		if !ok {
			return true
		}
		o := f.Info.ObjectOf(id)
		if o == nil {
			return true
		}
		if s := symOf(o); s != "" {
			out[s] = true
			return true
		}
		v, ok := o.(*types.Var)
		if !ok || seen[v] {
			return true
		}
		seen[v] = true
		if isErrorType(v.Type()) {
			out["var:error"] = true // any variable of type error, whatever its name
		}
		if f.params[v] {
			out["param:"+v.Name()] = true
			if pi, ok := f.paramIdx[v]; ok {
				if pi < 0 {
					out["recv"] = true
				} else {
					out[fmt.Sprintf("param#%d", pi)] = true
				}
			}
			if len(f.defs[v]) == 0 {
				return true
			}
			// a re-assigned parameter is also expanded through its definitions, like a local
		}
		// local: named, and expanded through definitions
		if !f.params[v] {
			out["local:"+v.Name()] = true
			// rename-proof handle: "local<-SYM" for every program symbol (or parameter position) that occurs
			// directly in one of the local's definitions
			df := f
			if len(f.defs[v]) == 0 && f.outer != nil {
				df = f.outer // captured variable
			}
			for _, d := range df.defs[v] {
				for _, r := range d.rhs {
					for ds := range df.shallowSyms(r) {
						out["local<-"+ds] = true
					}
				}
			}
		}
		ds := f.defs[v]
		var use []defSite
		if len(ds) == 1 {
			use = ds
		} else if blk != nil {
			// latest definition in the same block preceding the end of the block
			for _, d := range ds {
				for _, bn := range blk.Nodes {
					if bn == d.node || containsNode(bn, d.node) {
						use = []defSite{d}
					}
				}
			}
		}
		if len(use) == 0 {
			use = ds // several definitions, none in this block: flow-insensitive union
		}
		for _, d := range use {
			for _, r := range d.rhs {
				f.mentions(r, blk, out, seen, depth+1)
			}
		}
		return true
	})
}

// shallowSyms: program symbols and parameter positions occurring directly in n (no expansion of locals).
func (f *FuncCFG) shallowSyms(n ast.Node) map[string]bool {
	out := map[string]bool{}
	inspectNoLit(n, func(x ast.Node) bool {
		id, ok := x.(*ast.Ident)
		if !ok {
			return true
		}
		o := f.Info.ObjectOf(id)
		if o == nil {
			return true
		}
		if s := symOf(o); s != "" {
			out[s] = true
			return true
		}
		if v, ok := o.(*types.Var); ok {
			if pi, isP := f.paramIdx[v]; isP {
				if pi < 0 {
					out["recv"] = true
				} else {
					out[fmt.Sprintf("param#%d", pi)] = true
				}
			}
		}
		return true
	})
	return out
}

func containsNode(outer, inner ast.Node) bool {
	return outer.Pos() <= inner.Pos() && inner.End() <= outer.End()
}

// Assume fixes the outcome of some atomic conditions: by symbol (config flags, parameters "param:x",
// locals "local:x") or, for compound conditions, by the set of symbols the condition mentions.
type Assume struct {
	Sym   map[string]bool
	Conds []AssumeCond
}

// AssumeCond fixes every atomic condition mentioning all of Mentions to Val.
type AssumeCond struct {
	Mentions []string
	Not      []string // the atom must mention none of these (keeps the assumption off the guard itself)
	Val      bool
}

func (a *Assume) empty() bool { return a == nil || (len(a.Sym) == 0 && len(a.Conds) == 0) }

// evalBlock evaluates the (possibly compound) condition ending b under the assumptions, three-valued.
func (f *FuncCFG) evalBlock(b *cfg.Block, a *Assume) (bool, bool) {
	c := f.Cond(b)
	if c == nil || a.empty() {
		return false, false
	}
	return f.eval3(c, b, a)
}

func (f *FuncCFG) eval3(e ast.Expr, b *cfg.Block, a *Assume) (bool, bool) {
	e = ast.Unparen(e)
	switch x := e.(type) {
	case *ast.UnaryExpr:
		if x.Op == token.NOT {
			v, ok := f.eval3(x.X, b, a)
			return !v, ok
		}
	case *ast.BinaryExpr:
		if x.Op == token.LAND || x.Op == token.LOR {
			lv, lk := f.eval3(x.X, b, a)
			rv, rk := f.eval3(x.Y, b, a)
			if x.Op == token.LAND {
				if (lk && !lv) || (rk && !rv) {
					return false, true
				}
				return true, lk && rk
			}
			if (lk && lv) || (rk && rv) {
				return true, true
			}
			return false, lk && rk
		}
	}
	if v, ok := f.evalCond(e, a.Sym); ok {
		return v, true
	}
	if len(a.Conds) > 0 {
		m := f.Mentions(e, b)
	next:
		for _, ac := range a.Conds {
			for _, s := range ac.Mentions {
				if !m[s] {
					continue next
				}
			}
			for _, s := range ac.Not {
				if m[s] {
					continue next
				}
			}
			return ac.Val, true
		}
	}
	return false, false
}

// atom is a leaf of the &&/||/! tree of a branch condition together with the branch outcomes it can force:
// forcesT: some value of the atom makes the whole condition true whatever the other atoms are; forcesF likewise.
type atom struct {
	e                ast.Expr
	forcesT, forcesF bool
}

func condAtoms(e ast.Expr) []atom {
	e = ast.Unparen(e)
	switch x := e.(type) {
	case *ast.UnaryExpr:
		if x.Op == token.NOT {
			as := condAtoms(x.X)
			for i := range as {
				as[i].forcesT, as[i].forcesF = as[i].forcesF, as[i].forcesT
			}
			return as
		}
	case *ast.BinaryExpr:
		if x.Op == token.LAND || x.Op == token.LOR {
			as := append(condAtoms(x.X), condAtoms(x.Y)...)
			for i := range as {
				if x.Op == token.LAND {
					as[i].forcesT = false
				} else {
					as[i].forcesF = false
				}
			}
			return as
		}
	}
	return []atom{{e, true, true}}
}

// DirectMentions is Mentions without expanding locals through their definitions.
func (f *FuncCFG) DirectMentions(n ast.Node) map[string]bool {
	out := map[string]bool{}
	f.mentions(n, nil, out, map[types.Object]bool{}, 6) // depth budget exhausted after the first expansion level
	return out
}

// evalCond partially evaluates an atomic condition under assumptions on symbols: returns (value, known).
func (f *FuncCFG) evalCond(e ast.Expr, assume map[string]bool) (bool, bool) {
	e = ast.Unparen(e)
	switch x := e.(type) {
	case *ast.UnaryExpr:
		if x.Op == token.NOT {
			v, ok := f.evalCond(x.X, assume)
			return !v, ok
		}
	case *ast.BinaryExpr:
		// `flag == false`, `true != flag`
		if x.Op == token.EQL || x.Op == token.NEQ {
			for _, pr := range [][2]ast.Expr{{x.X, x.Y}, {x.Y, x.X}} {
				if tv, ok := f.Info.Types[pr[1]]; ok && tv.Value != nil && tv.Value.Kind() == constant.Bool {
					if v, ok := f.evalCond(pr[0], assume); ok {
						cv := constant.BoolVal(tv.Value)
						if x.Op == token.EQL {
							return v == cv, true
						}
						return v != cv, true
					}
				}
			}
		}
	case *ast.Ident:
		if o := f.Info.ObjectOf(x); o != nil {
			s := symOf(o)
			if s == "" {
				if v, ok := o.(*types.Var); ok && f.params[v] {
					s = "param:" + v.Name()
				} else if ok {
					s = "local:" + v.Name()
				}
			}
			if val, ok := assume[s]; ok {
				return val, true
			}
			if v, ok := o.(*types.Var); ok {
				if pi, isP := f.paramIdx[v]; isP && pi >= 0 {
					if val, ok := assume[fmt.Sprintf("param#%d", pi)]; ok {
						return val, true
					}
				}
				// "local<-SYM": the local one of whose definitions mentions SYM directly (rename-proof way to name a local)
				if !f.params[v] {
					df := f
					if len(f.defs[v]) == 0 && f.outer != nil {
						df = f.outer
					}
					for k, val := range assume {
						if strings.HasPrefix(k, "local<-") {
							for _, d := range df.defs[v] {
								for _, r := range d.rhs {
									if df.shallowSyms(r)[k[7:]] {
										return val, true
									}
								}
							}
						}
					}
				}
			}
			if c, ok := o.(*types.Const); ok && c.Val().String() == "true" {
				return true, true
			} else if ok && c.Val().String() == "false" {
				return false, true
			}
		}
	case *ast.SelectorExpr:
		if o := f.Info.ObjectOf(x.Sel); o != nil {
			if val, ok := assume[symOf(o)]; ok {
				return val, true
			}
		}
	case *ast.CallExpr:
		// a predicate call (`s.stateSync.NeedBlocks()`) whose resolved callee is assumed
		if len(x.Args) == 0 {
			if cs := f.calleeSym(x); cs != "" {
				if val, ok := assume[cs]; ok {
					return val, true
				}
			}
		} else if cs := f.calleeSym(x); cs != "" {
			// a predicate over named constants (`ic.IsHardforkEnabled(config.HFFaun)`): key "callee(const,...)"
			var names []string
			for _, a := range x.Args {
				var o types.Object
				switch y := ast.Unparen(a).(type) {
				case *ast.Ident:
					o = f.Info.ObjectOf(y)
				case *ast.SelectorExpr:
					o = f.Info.ObjectOf(y.Sel)
				}
				if cst, ok := o.(*types.Const); ok {
					names = append(names, symOf(cst))
				} else {
					names = nil
					break
				}
			}
			if names != nil {
				if val, ok := assume[cs+"("+strings.Join(names, ",")+")"]; ok {
					return val, true
				}
			}
		}
	}
	return false, false
}

// Succs returns the feasible successors of b under the assumptions.
func (f *FuncCFG) Succs(b *cfg.Block, assume *Assume) []*cfg.Block {
	if !assume.empty() {
		if v, ok := f.evalBlock(b, assume); ok {
			if v {
				return b.Succs[:1]
			}
			return b.Succs[1:2]
		}
	}
	return b.Succs
}

// reach computes the blocks reachable from 'from' (inclusive) without entering blocks in avoid
// ('from' blocks themselves are entered even if in avoid only when startInside is true).
func (f *FuncCFG) reach(from []*cfg.Block, avoid map[*cfg.Block]bool, assume *Assume) map[*cfg.Block]*cfg.Block {
	prev := map[*cfg.Block]*cfg.Block{}
	var stack []*cfg.Block
	for _, b := range from {
		if b == nil || avoid[b] {
			continue
		}
		if _, ok := prev[b]; !ok {
			prev[b] = nil
			stack = append(stack, b)
		}
	}
	for len(stack) > 0 {
		b := stack[0]
		stack = stack[1:]
		for _, s := range f.Succs(b, assume) {
			if avoid[s] {
				continue
			}
			if _, ok := prev[s]; !ok {
				prev[s] = b
				stack = append(stack, s)
			}
		}
	}
	return prev
}

func (f *FuncCFG) blockPos(b *cfg.Block) string {
	for _, n := range b.Nodes {
		return f.P.Pos(n.Pos())
	}
	if b.Stmt != nil {
		return f.P.Pos(b.Stmt.Pos())
	}
	return "(empty block " + b.String() + ")"
}

func (f *FuncCFG) pathTo(prev map[*cfg.Block]*cfg.Block, b *cfg.Block) []string {
	var rev []string
	for i := 0; b != nil && i < 200; i++ {
		if len(b.Nodes) > 0 {
			rev = append(rev, fmt.Sprintf("%s  %s", f.blockPos(b), trunc(f.nodeStr(b.Nodes[0]), 90)))
		}
		b = prev[b]
	}
	for i, j := 0, len(rev)-1; i < j; i, j = i+1, j-1 {
		rev[i], rev[j] = rev[j], rev[i]
	}
	return rev
}

func (f *FuncCFG) nodeStr(n ast.Node) string {
	switch x := n.(type) {
	case ast.Expr:
		return types.ExprString(x)
	case *ast.ExprStmt:
		return types.ExprString(x.X)
	case *ast.AssignStmt:
		var l, r []string
		for _, e := range x.Lhs {
			l = append(l, types.ExprString(e))
		}
		for _, e := range x.Rhs {
			r = append(r, types.ExprString(e))
		}
		return strings.Join(l, ", ") + " " + x.Tok.String() + " " + strings.Join(r, ", ")
	case *ast.ReturnStmt:
		var r []string
		for _, e := range x.Results {
			r = append(r, types.ExprString(e))
		}
		return "return " + strings.Join(r, ", ")
	}
	return fmt.Sprintf("%T", n)
}

func trunc(s string, n int) string {
	s = strings.Join(strings.Fields(s), " ")
	if len(s) > n {
		return s[:n] + "…"
	}
	return s
}

// ---------------------------------------------------------------------------
// Targets

// CallSites returns (block, node index, call) of every call in the function body resolving to one of syms.
type site struct {
	blk  *cfg.Block
	idx  int
	node ast.Node
	call *ast.CallExpr
}

func (f *FuncCFG) calleeSym(call *ast.CallExpr) string {
	switch fn := ast.Unparen(call.Fun).(type) {
	case *ast.Ident:
		if o := f.Info.ObjectOf(fn); o != nil {
			return symOf(o)
		}
	case *ast.SelectorExpr:
		if o := f.Info.ObjectOf(fn.Sel); o != nil {
			return symOf(o)
		}
	case *ast.IndexExpr: // generic instantiation
		if id, ok := fn.X.(*ast.Ident); ok {
			if o := f.Info.ObjectOf(id); o != nil {
				return symOf(o)
			}
		}
		if se, ok := fn.X.(*ast.SelectorExpr); ok {
			if o := f.Info.ObjectOf(se.Sel); o != nil {
				return symOf(o)
			}
		}
	}
	return ""
}

func (f *FuncCFG) CallSites(syms ...string) []site {
	want := map[string]bool{}
	for _, s := range syms {
		want[s] = true
	}
	var out []site
	for _, b := range f.G.Blocks {
		if !b.Live {
			continue
		}
		for i, n := range b.Nodes {
			inspectNoLit(n, func(x ast.Node) bool {
				if c, ok := x.(*ast.CallExpr); ok && want[f.calleeSym(c)] {
					out = append(out, site{b, i, n, c})
				}
				return true
			})
		}
	}
	return out
}

// isErrorExit: a return statement that certainly returns a non-nil error.
func (f *FuncCFG) isErrorExit(b *cfg.Block, r *ast.ReturnStmt) bool {
	if f.Type.Results == nil || len(r.Results) == 0 {
		return false
	}
	last := ast.Unparen(r.Results[len(r.Results)-1])
	tv := f.Info.Types[last]
	if tv.Type == nil || !isErrorType(tv.Type) {
		// single call returning a tuple: unknown
		if len(r.Results) == 1 {
			return false
		}
		return false
	}
	switch x := last.(type) {
	case *ast.CallExpr:
		s := f.calleeSym(x)
		if s == "fmt.Errorf" || s == "errors.New" || s == "errors.Join" {
			return true
		}
		// constructors of module error values: conservative no
		return false
	case *ast.Ident:
		o := f.Info.ObjectOf(x)
		if o == nil {
			return false
		}
		if _, isNil := o.(*types.Nil); isNil {
			return false
		}
		if v, ok := o.(*types.Var); ok && v.Pkg() != nil && v.Parent() == v.Pkg().Scope() {
			return true // sentinel error
		}
		// `return err` directly on the true edge of `err != nil`
		return f.onNonNilEdge(b, o)
	case *ast.SelectorExpr:
		if o, ok := f.Info.ObjectOf(x.Sel).(*types.Var); ok && !o.IsField() {
			return true // pkg.ErrX
		}
	}
	return false
}

// onNonNilEdge: b (or its chain of single-predecessor ancestors) is entered through the true edge of `o != nil`
// (or the false edge of `o == nil`).
func (f *FuncCFG) onNonNilEdge(b *cfg.Block, o types.Object) bool {
	for i := 0; i < 8; i++ {
		ps := f.preds[b]
		if len(ps) != 1 {
			return false
		}
		p := ps[0]
		if c := f.Cond(p); c != nil {
			if be, ok := ast.Unparen(c).(*ast.BinaryExpr); ok && (be.Op == token.NEQ || be.Op == token.EQL) {
				var other ast.Expr
				if id, ok := ast.Unparen(be.X).(*ast.Ident); ok && f.Info.ObjectOf(id) == o {
					other = be.Y
				} else if id, ok := ast.Unparen(be.Y).(*ast.Ident); ok && f.Info.ObjectOf(id) == o {
					other = be.X
				}
				if other != nil {
					if id, ok := ast.Unparen(other).(*ast.Ident); ok {
						if _, isNil := f.Info.ObjectOf(id).(*types.Nil); isNil {
							if be.Op == token.NEQ && p.Succs[0] == b {
								return true
							}
							if be.Op == token.EQL && p.Succs[1] == b {
								return true
							}
							return false
						}
					}
				}
			}
			// a condition about something else (`errors.Is(err, X)`): what an earlier test established about o
			// still holds below it as long as o is not reassigned in between
			for _, n := range p.Nodes {
				if as, ok := n.(*ast.AssignStmt); ok {
					for _, lh := range as.Lhs {
						if id, ok := lh.(*ast.Ident); ok && f.Info.ObjectOf(id) == o {
							return false
						}
					}
				}
			}
		}
		b = p
	}
	return false
}

func isErrorType(t types.Type) bool {
	n, ok := t.(*types.Named)
	return ok && n.Obj().Pkg() == nil && n.Obj().Name() == "error"
}

// Returns lists every return statement with its block.
func (f *FuncCFG) Returns() []site {
	var out []site
	for _, b := range f.G.Blocks {
		if !b.Live {
			continue
		}
		for i, n := range b.Nodes {
			if r, ok := n.(*ast.ReturnStmt); ok {
				out = append(out, site{b, i, r, nil})
			}
		}
	}
	return out
}

// OKReturns: returns that are not certain error exits, plus the implicit fall-off-the-end exit.
func (f *FuncCFG) OKReturns() []site {
	var out []site
	for _, s := range f.Returns() {
		if !f.isErrorExit(s.blk, s.node.(*ast.ReturnStmt)) {
			out = append(out, s)
		}
	}
	for _, b := range f.G.Blocks {
		if !b.Live || len(b.Succs) != 0 {
			continue
		}
		if len(b.Nodes) > 0 {
			last := b.Nodes[len(b.Nodes)-1]
			if _, isRet := last.(*ast.ReturnStmt); isRet {
				continue
			}
			if es, ok := last.(*ast.ExprStmt); ok {
				if call, ok := es.X.(*ast.CallExpr); ok && noReturnCall(f.Info, call) {
					continue
				}
			}
		}
		out = append(out, site{b, len(b.Nodes), f.Body, nil}) // falls off the end
	}
	return out
}

// WriteSites lists the nodes that write the given field (directly).
func (f *FuncCFG) WriteSites(field string) []site {
	var out []site
	for _, b := range f.G.Blocks {
		if !b.Live {
			continue
		}
		for i, n := range b.Nodes {
			for _, w := range nodeWrites(f.Info, n, false) {
				if w.Field == field {
					out = append(out, site{b, i, n, nil})
					break
				}
			}
		}
	}
	return out
}

// regionEntries: live blocks inside region with a predecessor outside it.
func (f *FuncCFG) regionEntries(region ast.Node) []*cfg.Block {
	in := func(b *cfg.Block) bool {
		if len(b.Nodes) > 0 {
			return containsNode(region, b.Nodes[0])
		}
		return b.Stmt != nil && containsNode(region, b.Stmt) && b.Stmt != region
	}
	var out []*cfg.Block
	for _, b := range f.G.Blocks {
		if !b.Live || !in(b) {
			continue
		}
		outside := len(f.preds[b]) == 0
		for _, p := range f.preds[b] {
			if !in(p) {
				outside = true
			}
		}
		if outside {
			out = append(out, b)
		}
	}
	return out
}

// ---------------------------------------------------------------------------
// Gate checking

// Guard is one required check, described by the symbols its atomic condition must mention.
type Guard struct {
	ID   string
	Doc  string
	Alts [][]string // alternatives (e.g. the two arms of a branch); every alternative must be present and gating
	// Whole also admits a compound condition taken as a whole (needed for `a || b` guards, where no single atom
	// decides); off by default because it would hide a guard weakened by an added conjunct.
	Whole bool
	// Extra lists further symbols a Whole condition may mention besides those of Alts; any other program symbol
	// in the compound condition (an added escape hatch such as `&& op != NOP`) disqualifies it as a guard.
	Extra []string
	// WholeOpen admits any compound condition as a whole (no closed mention set): for rules that check the
	// kind of comparison themselves.
	WholeOpen bool
}

// GateResult describes the verdict for one guard.
type GateResult struct {
	OK      bool
	Msg     string
	Path    []string
	GatePos []string
}

// CheckGate: every path from 'from' to any block in targets crosses a gating condition of the guard.
func (f *FuncCFG) CheckGate(from []*cfg.Block, targets map[*cfg.Block]bool, g Guard, assume *Assume) GateResult {
	return f.CheckGateIn(nil, from, targets, g, assume)
}

// CheckGateIn is CheckGate with the guard conditions restricted to those inside region (nil = whole function).
func (f *FuncCFG) CheckGateIn(region ast.Node, from []*cfg.Block, targets map[*cfg.Block]bool, g Guard, assume *Assume) GateResult {
	type cand struct {
		b                *cfg.Block
		alts             []int
		forcesT, forcesF bool
		e                ast.Expr
	}
	live := f.reach(from, nil, assume)
	var cands []cand
	cset := map[*cfg.Block]bool{}
	for _, b := range f.G.Blocks {
		if _, ok := live[b]; !ok {
			continue
		}
		c := f.Cond(b)
		if c == nil {
			continue
		}
		if region != nil && !containsNode(region, c) {
			continue
		}
		if _, known := f.evalBlock(b, assume); known {
			continue
		}
		atoms := condAtoms(c)
		if g.WholeOpen && len(atoms) > 1 {
			atoms = append(atoms, atom{c, true, true})
		} else if g.Whole && len(atoms) > 1 {
			allowed := map[string]bool{}
			for _, alt := range g.Alts {
				for _, s := range alt {
					allowed[s] = true
				}
			}
			for _, s := range g.Extra {
				allowed[s] = true
			}
			closed := true
			for s := range f.Mentions(c, b) {
				if strings.HasPrefix(s, "param:") || strings.HasPrefix(s, "param#") || s == "recv" || strings.HasPrefix(s, "local:") || strings.HasPrefix(s, "local<-") || s == "var:error" || strings.HasPrefix(s, "type:") || strings.HasPrefix(s, "builtin.") {
					continue
				}
				if !allowed[s] {
					closed = false
				}
			}
			if closed {
				atoms = append(atoms, atom{c, true, true})
			}
		}
		for _, at := range atoms {
			if !assume.empty() {
				if _, known := f.eval3(at.e, b, assume); known {
					continue
				}
			}
			m := f.Mentions(at.e, b)
			var matched []int
			for ai, alt := range g.Alts {
				all := true
				for _, s := range alt {
					if !m[s] {
						all = false
						break
					}
				}
				if all {
					matched = append(matched, ai)
				}
			}
			if len(matched) > 0 {
				cands = append(cands, cand{b, matched, at.forcesT, at.forcesF, at.e})
				cset[b] = true
			}
		}
	}
	// gating candidates: an outcome the atom can force leads to a successor that cannot reach a target
	// while avoiding all candidate blocks
	gating := map[*cfg.Block]bool{}
	gateExpr := map[*cfg.Block]ast.Expr{}
	altHas := make([]bool, len(g.Alts))
	var gatePos []string
	for _, c := range cands {
		var succs []*cfg.Block
		if c.forcesT {
			succs = append(succs, c.b.Succs[0])
		}
		if c.forcesF {
			succs = append(succs, c.b.Succs[1])
		}
		for si, s := range succs {
			_ = si
			// facts implied by the outcome that leads to s
			facts := map[types.Object]bool{}
			f.nilFactsOf(c.e, s == c.b.Succs[0], facts)
			hit := f.reachesNilAware(s, map[*cfg.Block]bool{c.b: true}, targets, assume, facts)
			if !hit {
				gating[c.b] = true
				gateExpr[c.b] = c.e
				for _, ai := range c.alts {
					altHas[ai] = true
				}
				break
			}
		}
	}
	for b := range gating {
		gatePos = append(gatePos, f.blockPos(b)+" "+trunc(types.ExprString(gateExpr[b]), 60))
	}
	sort.Strings(gatePos)
	for ai, has := range altHas {
		if !has {
			why := "no condition mentioning " + strings.Join(g.Alts[ai], " + ") + " exists on the way"
			for _, c := range cands {
				if slicesContains(c.alts, ai) {
					why = "the condition mentioning " + strings.Join(g.Alts[ai], " + ") + " at " + f.blockPos(c.b) + " does not gate: whatever its outcome, the target stays reachable (weakened by a conjunction/disjunction or not leaving)"
				}
			}
			return GateResult{OK: false, Msg: fmt.Sprintf("guard %q (%s): %s", g.ID, g.Doc, why), GatePos: gatePos}
		}
	}
	r := f.reach(from, gating, assume)
	for _, b := range f.G.Blocks { // deterministic order
		if !targets[b] {
			continue
		}
		if gating[b] {
			// the target sits in the block that ends with the check, i.e. it runs before the check
			for _, p := range f.preds[b] {
				if _, ok := r[p]; ok {
					r[b] = p
				}
			}
			for _, fb := range from {
				if fb == b {
					r[b] = nil
				}
			}
		}
		if _, ok := r[b]; ok {
			return GateResult{OK: false, Msg: fmt.Sprintf("guard %q (%s): a path reaches the target without passing the check", g.ID, g.Doc), Path: f.pathTo(r, b), GatePos: gatePos}
		}
	}
	return GateResult{OK: true, Msg: fmt.Sprintf("guard %q gates every path (%s)", g.ID, strings.Join(gatePos, "; ")), GatePos: gatePos}
}

// Entry returns the entry block.
func (f *FuncCFG) Entry() []*cfg.Block {
	if len(f.G.Blocks) == 0 {
		return nil
	}
	return []*cfg.Block{f.G.Blocks[0]}
}

// blocksOf converts sites to a block set.
func blocksOf(ss []site) map[*cfg.Block]bool {
	m := map[*cfg.Block]bool{}
	for _, s := range ss {
		m[s.blk] = true
	}
	return m
}

// Loop describes a range/for loop: head block (decides iteration), first body block.
type Loop struct {
	Head, Body *cfg.Block
	Stmt       ast.Stmt
	X          ast.Expr // ranged expression (nil for plain for)
}

// Loops lists the loops of the function.
func (f *FuncCFG) Loops() []Loop {
	var out []Loop
	for _, b := range f.G.Blocks {
		if !b.Live || len(b.Succs) != 2 {
			continue
		}
		switch b.Kind {
		case cfg.KindRangeLoop:
			if rs, ok := b.Stmt.(*ast.RangeStmt); ok {
				out = append(out, Loop{b, b.Succs[0], rs, rs.X})
			}
		case cfg.KindForLoop:
			if fs, ok := b.Stmt.(*ast.ForStmt); ok {
				out = append(out, Loop{b, b.Succs[0], fs, nil})
			}
		}
	}
	return out
}

// CheckMustCall: every path from 'from' to a target block passes a block containing a call to one of syms
// (a target block containing the call itself counts).
func (f *FuncCFG) CheckMustCall(from []*cfg.Block, targets map[*cfg.Block]bool, assume *Assume, syms ...string) (bool, []string) {
	calls := blocksOf(f.CallSites(syms...))
	r := f.reach(from, calls, assume)
	for _, b := range f.G.Blocks {
		if targets[b] && !calls[b] {
			if _, ok := r[b]; ok {
				return false, f.pathTo(r, b)
			}
		}
	}
	return true, nil
}

func slicesContains(xs []int, x int) bool {
	for _, y := range xs {
		if y == x {
			return true
		}
	}
	return false
}

// DumpConds prints every atomic condition with the symbols it mentions (table-building aid).
func (f *FuncCFG) DumpConds() {
	for _, b := range f.G.Blocks {
		if !b.Live {
			continue
		}
		if c := f.Cond(b); c != nil {
			for _, at := range condAtoms(c) {
				var ms []string
				for s := range f.Mentions(at.e, b) {
					ms = append(ms, s)
				}
				sort.Strings(ms)
				fmt.Printf("%s  %s  [forcesT=%v forcesF=%v]\n      mentions: %s\n", f.blockPos(b), trunc(types.ExprString(at.e), 100), at.forcesT, at.forcesF, strings.Join(ms, " "))
			}
		}
	}
	for _, l := range f.Loops() {
		var ms []string
		if l.X != nil {
			for s := range f.Mentions(l.X, nil) {
				ms = append(ms, s)
			}
		}
		sort.Strings(ms)
		fmt.Printf("loop at %s over: %s\n", f.P.Pos(l.Stmt.Pos()), strings.Join(ms, " "))
	}
}

// NodeSites lists statement nodes (not branch conditions) mentioning all of syms.
func (f *FuncCFG) NodeSites(syms ...string) []site {
	var out []site
	for _, b := range f.G.Blocks {
		if !b.Live {
			continue
		}
		for i, n := range b.Nodes {
			if _, isExpr := n.(ast.Expr); isExpr {
				continue
			}
			if _, isAssign := n.(*ast.AssignStmt); !isAssign {
				if _, isInc := n.(*ast.IncDecStmt); !isInc {
					// a call statement counts when it is a store through sync/atomic (atomic.StoreUint32(&x.f, v))
					es, isExpr := n.(*ast.ExprStmt)
					if !isExpr {
						continue
					}
					call, isCall := es.X.(*ast.CallExpr)
					// ... or takes a lock (bc.addLock.Lock()): "the lock is taken on the way" is a must-pass demand
					if !isCall {
						continue
					}
					if cs := f.calleeSym(call); !strings.HasPrefix(cs, "sync/atomic.") && !(strings.HasPrefix(cs, "sync.(*") && strings.HasSuffix(cs, "ock")) {
						continue
					}
				}
			}
			// the statement's own operator and direct symbols only: definitions of locals do not leak in
			m := f.DirectMentions(n)
			// ... except a local that stands for a constant expression (`mask := A | B; f &^= mask`): it is the
			// constants' name in this function, nothing that was computed
			if as, ok := n.(*ast.AssignStmt); ok {
				for _, r := range as.Rhs {
					if id, ok := ast.Unparen(r).(*ast.Ident); ok {
						if def := resolveLocalOnce(f.Info, f.Body, id); def != ast.Expr(id) {
							if tv, ok := f.Info.Types[def]; ok && tv.Value != nil {
								for k := range f.DirectMentions(def) {
									m[k] = true
								}
							}
						}
					}
				}
			}
			all := true
			for _, s := range syms {
				if !m[s] {
					all = false
					break
				}
			}
			if all {
				out = append(out, site{b, i, n, nil})
			}
		}
	}
	return out
}

// CheckMustNode: every path from 'from' to a target passes a statement mentioning all of syms.
func (f *FuncCFG) CheckMustNode(from []*cfg.Block, targets map[*cfg.Block]bool, assume *Assume, syms ...string) (bool, []string, int) {
	sites := f.NodeSites(syms...)
	nodes := blocksOf(sites)
	r := f.reach(from, nodes, assume)
	for _, b := range f.G.Blocks {
		if targets[b] && !nodes[b] {
			if _, ok := r[b]; ok {
				return false, f.pathTo(r, b), len(sites)
			}
		}
	}
	return true, nil, len(sites)
}

// mustBefore: every path from 'from' to each target *site* passes one of the 'must' sites first; inside one basic
// block the order of the nodes decides (a must-site after the target in the same block does not count).
func (f *FuncCFG) mustBefore(from []*cfg.Block, targets []site, must []site, assume *Assume) (bool, []string) {
	mustBlocks := blocksOf(must)
	first := map[*cfg.Block]int{}
	for _, m := range must {
		if i, ok := first[m.blk]; !ok || m.idx < i {
			first[m.blk] = m.idx
		}
	}
	for _, t := range targets {
		if i, ok := first[t.blk]; ok && i < t.idx {
			continue
		}
		if i, ok := first[t.blk]; ok && i == t.idx {
			continue // the target statement itself is the must-site
		}
		avoid := map[*cfg.Block]bool{}
		for b := range mustBlocks {
			if b != t.blk {
				avoid[b] = true
			}
		}
		r := f.reach(from, avoid, assume)
		if _, ok := r[t.blk]; ok {
			return false, f.pathTo(r, t.blk)
		}
	}
	return true, nil
}
