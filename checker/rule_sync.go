package main

import (
	"fmt"
	"go/ast"
	"go/types"
)

const ssPkg = "pkg/core/statesync"

// C20: restore-hash-guard, sync-dominators, stage-after-persist, slot-clear-guard, restore-fresh-node
func ruleSyncGuards(c *Ctx) {
	fnAB := [3]string{ssPkg, "Module", "AddBlock"}
	runGates(c, []GateSpec{
		// at most once: the ledger reads the height it compares the block index with inside the critical section that
		// stores the block (queue, consensus and fetcher all call AddBlock; a test made before the lock lets each of
		// them store the same block)
		{ID: "Blockchain.AddBlock.height-under-lock", Fn: [3]string{"pkg/core", "Blockchain", "AddBlock"}, Target: "call:" + symBlockHeight,
			MustNode: [][]string{{"sync.(*Mutex).Lock", "pkg/core#addLock"}}},
		{ID: "Blockchain.AddBlock.store", Fn: [3]string{"pkg/core", "Blockchain", "AddBlock"}, Target: "call:" + symStoreBlock,
			Guards: []Guard{{ID: "next-index", Doc: "block index equals current height + 1", Alts: [][]string{{symBlockHeight, fldBlockIndex}}}}},
		{ID: "Billet.putIntoHash.store", Fn: [3]string{"pkg/core/mpt", "Billet", "putIntoHash"}, Target: "call:pkg/core/mpt.(*Billet).incrementRefAndStore",
			Guards: []Guard{{ID: "hash-match", Doc: "a restored node is stored only if its hash equals the hash node it replaces", Alts: [][]string{{"pkg/core/mpt.(BaseNodeIface).Hash", "pkg/core/mpt.(*HashNode).Hash", "param#2", "param#0"}}},
				{ID: "not-collapsed-path", Doc: "a non-empty remaining path means the subtree is already restored: rejected", Alts: [][]string{{"builtin.len", "param#1"}}}}},
		{ID: "Billet.RestoreHashNode.put", Fn: [3]string{"pkg/core/mpt", "Billet", "RestoreHashNode"}, Target: "call:pkg/core/mpt.(*Billet).putIntoNode",
			Guards: []Guard{{ID: "not-hash-node", Doc: "a hash node cannot be restored into a hash node", Alts: [][]string{{"type:pkg/core/mpt.HashNode"}}},
				{ID: "not-empty-node", Doc: "an empty node cannot be restored", Alts: [][]string{{"type:pkg/core/mpt.EmptyNode"}}}}},
		{ID: "statesync.AddBlock.store", Fn: fnAB, Target: "call:pkg/core/dao.(*Simple).StoreAsBlock",
			Guards: []Guard{
				{ID: "next-index", Doc: "blocks are stored strictly in index order", Alts: [][]string{{"pkg/core/statesync#blockHeight", "pkg/core/block#Index"}}},
				{ID: "state-root-setting", Doc: "state root setting matches", Alts: [][]string{{cfgSRInHeader, "pkg/core/block#StateRootEnabled"}}},
				{ID: "known-header", Doc: "block hash equals the header hash already synchronised for that index", Alts: [][]string{{"pkg/core/statesync.(Ledger).GetHeaderHash", symHeaderHash}}},
				{ID: "stage", Doc: "blocks are accepted only in the blocks stage", Whole: true, Alts: [][]string{{"pkg/core/statesync#syncStage", "pkg/core/statesync.blocksSynced"}}, Extra: []string{"pkg/core/statesync.headersSynced", "pkg/core/statesync.mptSynced"}},
			}},
		{ID: "statesync.AddBlock.store.verified", Fn: fnAB, Target: "call:pkg/core/dao.(*Simple).StoreAsBlock", Assume: symAssume(cfgSkipVerify, false),
			Guards: []Guard{{ID: "merkle-root", Doc: "Merkle root matches", Alts: [][]string{{"pkg/core/block#MerkleRoot", "pkg/core/block.(*Block).ComputeMerkleRoot"}}}}},
		{ID: "statesync.AddBlock.stage", Fn: fnAB, Target: "node:pkg/core/statesync#syncStage,op:|,pkg/core/statesync.blocksSynced",
			Guards: []Guard{{ID: "sync-point-reached", Doc: "blocksSynced is set only at the sync point", Alts: [][]string{{"pkg/core/statesync#blockHeight", "pkg/core/statesync#syncPoint"}}},
				{ID: "persisted", Doc: "blocksSynced is set only after a successful synchronous persist", Alts: [][]string{{"pkg/core/storage.(*MemCachedStore).PersistSync"}}}}},
		{ID: "statesync.AddContractStorageItems.stage", Fn: [3]string{ssPkg, "Module", "AddContractStorageItems"}, Target: "node:pkg/core/statesync#syncStage,op:|,pkg/core/statesync.mptSynced",
			Guards: []Guard{{ID: "root-match", Doc: "mptSynced is set only when the computed root equals the expected state root", Alts: [][]string{{"pkg/core/mpt.(*Trie).StateRoot", "pkg/core/state#Root"}}},
				{ID: "persisted", Doc: "mptSynced is set only after a successful synchronous persist", Alts: [][]string{{"pkg/core/storage.(*MemCachedStore).PersistSync"}}}}},
	})

	// a ring slot of the block queue is cleared only after looking at what it currently holds
	if fd := c.P.Func("pkg/network/bqueue", "Queue", "Run"); fd == nil {
		c.Lost("bqueue.Run.anchor", "bqueue.(*Queue).Run not found")
	} else {
		f := c.P.NewFuncCFG(fd)
		n := 0
		for _, w := range f.WriteSites("pkg/network/bqueue#queue") {
			as, ok := w.node.(*ast.AssignStmt)
			if !ok || len(as.Rhs) != 1 || !f.DirectMentions(as.Rhs[0])["pkg/network/bqueue#nilQ"] {
				continue
			}
			n++
			// the test must be made in the critical section that contains the write: start from the lock acquisitions
			// from which the write is reachable without passing another acquisition
			locks := f.CallSites("sync.(*RWMutex).Lock", "sync.(*Mutex).Lock")
			lockBlocks := blocksOf(locks)
			var from []*cfgBlock
			for _, l := range locks {
				avoid := map[*cfgBlock]bool{}
				for b := range lockBlocks {
					if b != l.blk {
						avoid[b] = true
					}
				}
				r := f.reach(l.blk.Succs, avoid, nil)
				if _, ok := r[w.blk]; ok || l.blk == w.blk {
					from = append(from, l.blk)
				}
			}
			if len(from) == 0 {
				c.Fail(fmt.Sprintf("bqueue.Run.slot-clear#%d", n), c.P.Pos(as.Pos()), "a ring slot is cleared outside any critical section of queueLock")
				continue
			}
			res := f.CheckGate(from, map[*cfgBlock]bool{w.blk: true}, Guard{ID: "slot-content", Doc: "the slot's current content is compared, under the same lock acquisition, before it is cleared",
				Alts: [][]string{{"pkg/network/bqueue#queue"}}, Whole: true, Extra: []string{"pkg/network/bqueue#nilQ", "pkg/network/bqueue.(Indexable).GetIndex"}}, nil)
			// the comparison must be in the same critical section as the write: no unlock/lock between them is checked by lock-pairing + below
			key := fmt.Sprintf("bqueue.Run.slot-clear#%d", n)
			if res.OK {
				c.OK(key, c.P.Pos(as.Pos()), "slot is cleared only behind a test of its current content")
			} else {
				c.Fail(key, c.P.Pos(as.Pos()), "Queue.Run clears a ring slot without checking what it holds now: an element queued meanwhile for index+capacity is lost", res.Path...)
			}
		}
		c.Floor("slot clearing sites in Run", n, 2)
	}

	// a node handed to the billet becomes part of its trie: each restore call gets its own clone
	if fd := c.P.Func(ssPkg, "Module", "restoreNode"); fd == nil {
		c.Lost("restoreNode.anchor", "statesync.(*Module).restoreNode not found")
	} else {
		f := c.P.NewFuncCFG(fd)
		sites := f.CallSites("pkg/core/mpt.(*Billet).RestoreHashNode")
		if len(sites) == 0 {
			c.Lost("restoreNode.target", "no RestoreHashNode call in restoreNode")
		}
		for i, s := range sites {
			key := fmt.Sprintf("restoreNode.fresh-node#%d", i+1)
			fresh := false
			var loop ast.Stmt
			for _, l := range f.Loops() {
				if containsNode(l.Stmt, s.call) {
					loop = l.Stmt
				}
			}
			if len(s.call.Args) == 2 {
				arg := ast.Unparen(s.call.Args[1])
				isClone := func(e ast.Expr) bool {
					call, ok := ast.Unparen(e).(*ast.CallExpr)
					return ok && f.calleeSym(call) == "pkg/core/mpt.(Node).Clone"
				}
				if isClone(arg) {
					fresh = true
				} else if id, ok := arg.(*ast.Ident); ok && loop != nil {
					o := f.Info.ObjectOf(id)
					for _, d := range f.defs[o] {
						if containsNode(loop, d.node) && len(d.rhs) == 1 && isClone(d.rhs[0]) {
							fresh = true
						}
					}
				}
				if loop == nil {
					fresh = fresh || isClone(arg)
				}
			}
			if fresh {
				c.OK(key, c.P.Pos(s.call.Pos()), "each RestoreHashNode call receives a clone made for that call")
			} else {
				c.Fail(key, c.P.Pos(s.call.Pos()), "the node passed to Billet.RestoreHashNode is not a per-call clone: a node restored at several paths would be one shared object inside the billet")
			}
		}
	}
	_ = types.Typ
}
