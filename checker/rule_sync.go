package main

import (
	"fmt"
	"go/ast"
	"go/token"
	"go/types"
	"strings"
)

const ssPkg = "pkg/core/statesync"

// C20: restore-hash-guard, sync-dominators, stage-after-persist, slot-clear-guard, restore-fresh-node
func ruleSyncGuards(c *Ctx) {
	canonicalNodeBytes(c)
	cleanBeforeSync(c)
	ringWindowGate(c)
	fnAB := [3]string{ssPkg, "Module", "AddBlock"}
	runGates(c, []GateSpec{
		// at most once: the ledger reads the height it compares the block index with inside the critical section that
		// stores the block (queue, consensus and fetcher all call AddBlock; a test made before the lock lets each of
		// them store the same block)
		{ID: "Blockchain.AddBlock.height-under-lock", Fn: [3]string{"pkg/core", "Blockchain", "AddBlock"}, Target: "call:" + symBlockHeight,
			MustNode: [][]string{{"sync.(*Mutex).Lock", "pkg/core#addLock"}}},
		{ID: "Blockchain.AddBlock.store", Fn: [3]string{"pkg/core", "Blockchain", "AddBlock"}, Target: "call:" + symStoreBlock,
			Guards: []Guard{{ID: "next-index", Doc: "block index equals current height + 1", Alts: [][]string{{symBlockHeight, fldBlockIndex}}}}},
		{ID: "Billet.putIntoHash.store", Fn: [3]string{"pkg/core/mpt", "Billet", "putIntoHash"}, Target: "call:pkg/core/mpt.(*Billet).incrementRefAndStore",
			Guards: []Guard{{ID: "hash-match", Doc: "a restored node is stored only if its hash equals the hash node it replaces", Alts: [][]string{{"pkg/core/mpt.(BaseNodeIface).Hash", "pkg/core/mpt.(*HashNode).Hash", "param#2", "param#0"}}},
				{ID: "not-collapsed-path", Doc: "a non-empty remaining path means the subtree is already restored: rejected", Alts: [][]string{{"builtin.len", "param#1"}}}}},
		{ID: "Billet.RestoreHashNode.put", Fn: [3]string{"pkg/core/mpt", "Billet", "RestoreHashNode"}, Target: "call:pkg/core/mpt.(*Billet).putIntoNode",
			Guards: []Guard{{ID: "not-hash-node", Doc: "a hash node cannot be restored into a hash node", Alts: [][]string{{"type:pkg/core/mpt.HashNode"}}},
				{ID: "not-empty-node", Doc: "an empty node cannot be restored", Alts: [][]string{{"type:pkg/core/mpt.EmptyNode"}}}}},
		{ID: "statesync.AddBlock.store", Fn: fnAB, Target: "call:pkg/core/dao.(*Simple).StoreAsBlock",
			Guards: []Guard{
				{ID: "next-index", Doc: "blocks are stored strictly in index order", Alts: [][]string{{"pkg/core/statesync#blockHeight", "pkg/core/block#Index"}}},
				{ID: "state-root-setting", Doc: "state root setting matches", Alts: [][]string{{cfgSRInHeader, "pkg/core/block#StateRootEnabled"}}},
				{ID: "known-header", Doc: "block hash equals the header hash already synchronised for that index", Alts: [][]string{{"pkg/core/statesync.(Ledger).GetHeaderHash", symHeaderHash}}},
				{ID: "stage", Doc: "blocks are accepted only in the blocks stage", Whole: true, Alts: [][]string{{"pkg/core/statesync#syncStage", "pkg/core/statesync.blocksSynced"}}, Extra: []string{"pkg/core/statesync.headersSynced", "pkg/core/statesync.mptSynced"}},
			}},
		{ID: "statesync.AddBlock.store.verified", Fn: fnAB, Target: "call:pkg/core/dao.(*Simple).StoreAsBlock", Assume: symAssume(cfgSkipVerify, false),
			Guards: []Guard{{ID: "merkle-root", Doc: "Merkle root matches", Alts: [][]string{{"pkg/core/block#MerkleRoot", "pkg/core/block.(*Block).ComputeMerkleRoot"}}}}},
		{ID: "statesync.AddBlock.stage", Fn: fnAB, Target: "node:pkg/core/statesync#syncStage,op:|,pkg/core/statesync.blocksSynced",
			Guards: []Guard{{ID: "sync-point-reached", Doc: "blocksSynced is set only at the sync point", Alts: [][]string{{"pkg/core/statesync#blockHeight", "pkg/core/statesync#syncPoint"}}},
				{ID: "persisted", Doc: "blocksSynced is set only after a successful synchronous persist", Alts: [][]string{{"pkg/core/storage.(*MemCachedStore).PersistSync"}}}}},
		{ID: "statesync.AddContractStorageItems.stage", Fn: [3]string{ssPkg, "Module", "AddContractStorageItems"}, Target: "node:pkg/core/statesync#syncStage,op:|,pkg/core/statesync.mptSynced",
			Guards: []Guard{{ID: "root-match", Doc: "mptSynced is set only when the computed root equals the expected state root", Alts: [][]string{{"pkg/core/mpt.(*Trie).StateRoot", "pkg/core/state#Root"}}},
				{ID: "persisted", Doc: "mptSynced is set only after a successful synchronous persist", Alts: [][]string{{"pkg/core/storage.(*MemCachedStore).PersistSync"}}}}},
	})

	// crash consistency of a restored leaf: after a restart the module takes a node record found in the database as
	// "restored, with everything it implies" (defineSyncStage removes it from the pool of missing nodes). For a leaf
	// that includes the contract storage item the leaf stands for. The store the billet writes to is flushed by the
	// ledger's own periodic persist, which is not synchronised with AddMPTNodes, so the two Put calls of one restore can
	// land in different batches: the implied record (the storage item) has to be written before the implying one
	// (the node record stored by putIntoNode -> incrementRefAndStore).
	if fd := c.P.Func("pkg/core/mpt", "Billet", "RestoreHashNode"); fd == nil {
		c.Lost("restore-order.anchor", "Billet.RestoreHashNode not found")
	} else {
		f := c.P.NewFuncCFG(fd)
		nodeStores := f.CallSites("pkg/core/mpt.(*Billet).putIntoNode")
		var itemPuts []site
		for _, st := range f.CallSites("pkg/core/storage.(*MemCachedStore).Put", "pkg/core/storage.(Store).Put") {
			if len(st.call.Args) > 0 && f.Mentions(st.call.Args[0], st.blk)["pkg/core/mpt#TempStoragePrefix"] {
				itemPuts = append(itemPuts, st)
			}
		}
		switch {
		case len(nodeStores) == 0 || len(itemPuts) == 0:
			c.Lost("restore-order.sites", fmt.Sprintf("RestoreHashNode: %d node-record stores, %d storage-item writes found", len(nodeStores), len(itemPuts)))
		default:
			if ok, path := f.mustBefore(f.Entry(), nodeStores, itemPuts, symAssume("local<-type:pkg/core/mpt.LeafNode", true)); ok {
				c.OK("restore-order.RestoreHashNode", c.P.Pos(fd.Decl.Pos()), "a leaf's contract storage item is written before its node record")
			} else {
				c.Fail("restore-order.RestoreHashNode", c.P.Pos(nodeStores[0].call.Pos()), "Billet.RestoreHashNode stores the node record of a leaf (putIntoNode) before the contract storage item the leaf stands for: a flush between the two writes followed by a crash leaves a leaf that the restarted module takes as restored while its storage item was never written - the state root matches, contract storage lacks a key", path...)
			}
		}
	}

	// a ring slot of the block queue is cleared only after looking at what it currently holds
	if fd := c.P.Func("pkg/network/bqueue", "Queue", "Run"); fd == nil {
		c.Lost("bqueue.Run.anchor", "bqueue.(*Queue).Run not found")
	} else {
		f := c.P.NewFuncCFG(fd)
		n := 0
		for _, w := range f.WriteSites("pkg/network/bqueue#queue") {
			as, ok := w.node.(*ast.AssignStmt)
			if !ok || len(as.Rhs) != 1 || !f.DirectMentions(as.Rhs[0])["pkg/network/bqueue#nilQ"] {
				continue
			}
			n++
			// the test must be made in the critical section that contains the write: start from the lock acquisitions
			// from which the write is reachable without passing another acquisition
			locks := f.CallSites("sync.(*RWMutex).Lock", "sync.(*Mutex).Lock")
			lockBlocks := blocksOf(locks)
			var from []*cfgBlock
			for _, l := range locks {
				avoid := map[*cfgBlock]bool{}
				for b := range lockBlocks {
					if b != l.blk {
						avoid[b] = true
					}
				}
				r := f.reach(l.blk.Succs, avoid, nil)
				if _, ok := r[w.blk]; ok || l.blk == w.blk {
					from = append(from, l.blk)
				}
			}
			if len(from) == 0 {
				c.Fail(fmt.Sprintf("bqueue.Run.slot-clear#%d", n), c.P.Pos(as.Pos()), "a ring slot is cleared outside any critical section of queueLock")
				continue
			}
			res := f.CheckGate(from, map[*cfgBlock]bool{w.blk: true}, Guard{ID: "slot-content", Doc: "the slot's current content is compared, under the same lock acquisition, before it is cleared",
				Alts: [][]string{{"pkg/network/bqueue#queue"}}, Whole: true, Extra: []string{"pkg/network/bqueue#nilQ", "pkg/network/bqueue.(Indexable).GetIndex"}}, nil)
			// the comparison must be in the same critical section as the write: no unlock/lock between them is checked by lock-pairing + below
			key := fmt.Sprintf("bqueue.Run.slot-clear#%d", n)
			if res.OK {
				c.OK(key, c.P.Pos(as.Pos()), "slot is cleared only behind a test of its current content")
			} else {
				c.Fail(key, c.P.Pos(as.Pos()), "Queue.Run clears a ring slot without checking what it holds now: an element queued meanwhile for index+capacity is lost", res.Path...)
			}
		}
		c.Floor("slot clearing sites in Run", n, 2)
	}

	// a node handed to the billet becomes part of its trie: each restore call gets its own clone
	if fd := c.P.Func(ssPkg, "Module", "restoreNode"); fd == nil {
		c.Lost("restoreNode.anchor", "statesync.(*Module).restoreNode not found")
	} else {
		f := c.P.NewFuncCFG(fd)
		sites := f.CallSites("pkg/core/mpt.(*Billet).RestoreHashNode")
		if len(sites) == 0 {
			c.Lost("restoreNode.target", "no RestoreHashNode call in restoreNode")
		}
		for i, s := range sites {
			key := fmt.Sprintf("restoreNode.fresh-node#%d", i+1)
			fresh := false
			var loop ast.Stmt
			for _, l := range f.Loops() {
				if containsNode(l.Stmt, s.call) {
					loop = l.Stmt
				}
			}
			if len(s.call.Args) == 2 {
				arg := ast.Unparen(s.call.Args[1])
				isClone := func(e ast.Expr) bool {
					call, ok := ast.Unparen(e).(*ast.CallExpr)
					return ok && f.calleeSym(call) == "pkg/core/mpt.(Node).Clone"
				}
				if isClone(arg) {
					fresh = true
				} else if id, ok := arg.(*ast.Ident); ok && loop != nil {
					o := f.Info.ObjectOf(id)
					for _, d := range f.defs[o] {
						if containsNode(loop, d.node) && len(d.rhs) == 1 && isClone(d.rhs[0]) {
							fresh = true
						}
					}
				}
				if loop == nil {
					fresh = fresh || isClone(arg)
				}
			}
			if fresh {
				c.OK(key, c.P.Pos(s.call.Pos()), "each RestoreHashNode call receives a clone made for that call")
			} else {
				c.Fail(key, c.P.Pos(s.call.Pos()), "the node passed to Billet.RestoreHashNode is not a per-call clone: a node restored at several paths would be one shared object inside the billet")
			}
		}
	}
	_ = types.Typ
}

// traverse-callback: a callback given to (*Billet).Traverse is called once per *occurrence* of a node, and equal
// subtrees (two leaves with the same value under one branch) have the same hash. A callback that removes an entry
// keyed by the node's hash from a container when it meets the node must therefore tolerate not finding it at a later
// occurrence: a panic whose only condition is "the hash is not in that container" fires on valid data. It is
// accepted only if it is also conditioned on absence from a second container the callback fills with the hashes
// it has processed.
func ruleTraverseCallback(c *Ctx) {
	n := 0
	for _, fd := range c.P.AllFuncDecls() {
		if fd.Decl.Body == nil || !InModule(fd.Obj.Pkg()) {
			continue
		}
		f := c.P.NewFuncCFG(fd)
		info := f.Info
		for _, s := range f.CallSites("pkg/core/mpt.(*Billet).Traverse") {
			if len(s.call.Args) == 0 {
				continue
			}
			lit, ok := ast.Unparen(s.call.Args[0]).(*ast.FuncLit)
			if !ok || len(lit.Type.Params.List) < 2 || len(lit.Type.Params.List[1].Names) == 0 {
				continue
			}
			node := info.ObjectOf(lit.Type.Params.List[1].Names[0])
			keyedByHash := func(e ast.Expr) bool { // e mentions <node>.Hash()
				hit := false
				ast.Inspect(e, func(x ast.Node) bool {
					if call, ok := x.(*ast.CallExpr); ok {
						if se, ok := ast.Unparen(call.Fun).(*ast.SelectorExpr); ok && se.Sel.Name == "Hash" {
							if id, ok := ast.Unparen(se.X).(*ast.Ident); ok && info.ObjectOf(id) == node {
								hit = true
							}
						}
					}
					return !hit
				})
				return hit
			}
			// containers the callback removes the node's hash from / inserts it into
			removed, inserted := map[types.Object]bool{}, map[types.Object]bool{}
			// lookups: variable <- container
			type lookup struct {
				pos  token.Pos
				v    types.Object
				cont types.Object
			}
			var lookups []lookup
			lookupAt := func(v types.Object, at token.Pos) types.Object { // the latest lookup stored in v before position at
				var best types.Object
				var bp token.Pos
				for _, l := range lookups {
					if l.v == v && l.pos < at && l.pos >= bp {
						best, bp = l.cont, l.pos
					}
				}
				return best
			}
			ast.Inspect(lit.Body, func(x ast.Node) bool {
				switch y := x.(type) {
				case *ast.CallExpr:
					if id, ok := ast.Unparen(y.Fun).(*ast.Ident); ok && id.Name == "delete" && len(y.Args) == 2 && keyedByHash(y.Args[1]) {
						if r := rootObj(info, y.Args[0]); r != nil {
							removed[r] = true
						}
					}
					if se, ok := ast.Unparen(y.Fun).(*ast.SelectorExpr); ok && len(y.Args) >= 1 && keyedByHash(y.Args[0]) {
						if r := rootObj(info, se.X); r != nil && (se.Sel.Name == "Remove" || se.Sel.Name == "Delete") {
							removed[r] = true
						}
					}
				case *ast.AssignStmt:
					for _, l := range y.Lhs {
						if ix, ok := ast.Unparen(l).(*ast.IndexExpr); ok && keyedByHash(ix.Index) {
							if r := rootObj(info, ix.X); r != nil {
								inserted[r] = true
							}
						}
					}
					// v, ok := C.TryGet(n.Hash()) / _, ok := m[n.Hash()]
					if len(y.Rhs) == 1 {
						var cont types.Object
						switch r := ast.Unparen(y.Rhs[0]).(type) {
						case *ast.CallExpr:
							if se, ok := ast.Unparen(r.Fun).(*ast.SelectorExpr); ok && len(r.Args) >= 1 && keyedByHash(r.Args[0]) {
								cont = rootObj(info, se.X)
							}
						case *ast.IndexExpr:
							if keyedByHash(r.Index) {
								cont = rootObj(info, r.X)
							}
						}
						if cont != nil {
							for _, l := range y.Lhs {
								if id, ok := l.(*ast.Ident); ok && id.Name != "_" {
									if t := info.TypeOf(id); t != nil && isBoolType(t) {
										lookups = append(lookups, lookup{y.Pos(), info.ObjectOf(id), cont})
									}
								}
							}
						}
					}
				}
				return true
			})
			if len(removed) == 0 {
				continue
			}
			// panics and the lookups their enclosing conditions (and init statements) consult
			var stack []ast.Node
			k := 0
			ast.Inspect(lit.Body, func(x ast.Node) bool {
				if x == nil {
					stack = stack[:len(stack)-1]
					return true
				}
				stack = append(stack, x)
				call, ok := x.(*ast.CallExpr)
				if !ok {
					return true
				}
				if id, ok := ast.Unparen(call.Fun).(*ast.Ident); !ok || id.Name != "panic" {
					return true
				}
				n++
				k++
				key := fmt.Sprintf("%s.callback-panic#%d", FuncKey(fd.Obj), k)
				// an `ok` re-assigned between the enclosing ifs is resolved positionally: the latest lookup before each if
				conts := map[types.Object]bool{}
				consult := func(e ast.Node) {
					ast.Inspect(e, func(z ast.Node) bool {
						switch w := z.(type) {
						case *ast.Ident:
							if co := lookupAt(info.ObjectOf(w), w.Pos()); co != nil {
								conts[co] = true
							}
						case *ast.IndexExpr:
							if keyedByHash(w.Index) {
								if r := rootObj(info, w.X); r != nil {
									conts[r] = true
								}
							}
						case *ast.CallExpr:
							if se, ok := ast.Unparen(w.Fun).(*ast.SelectorExpr); ok && len(w.Args) >= 1 && keyedByHash(w.Args[0]) {
								if r := rootObj(info, se.X); r != nil {
									conts[r] = true
								}
							}
						}
						return true
					})
				}
				for _, a := range stack {
					if is, ok := a.(*ast.IfStmt); ok {
						consult(is.Cond)
						if is.Init != nil {
							consult(is.Init)
						}
					}
				}
				// an earlier statement of an enclosing body that leaves the callback when a lookup succeeds
				// (`if _, ok = seen[h]; ok { return false }`) conditions what follows it as well
				for _, a := range stack {
					var list []ast.Stmt
					switch b := a.(type) {
					case *ast.BlockStmt:
						list = b.List
					}
					for _, st := range list {
						if is, ok := st.(*ast.IfStmt); ok && is.End() <= call.Pos() && dropsBlock(is.Body) {
							consult(is.Cond)
							if is.Init != nil {
								consult(is.Init)
							}
						}
					}
				}
				onlyRemoved := len(conts) > 0
				second := false
				for co := range conts {
					if !removed[co] {
						onlyRemoved = false
					}
					if inserted[co] && !removed[co] {
						second = true
					}
				}
				switch {
				case len(conts) == 0:
					c.OK(key, c.P.Pos(call.Pos()), "panic not conditioned on a hash lookup")
				case onlyRemoved && !second:
					c.Fail(key, c.P.Pos(call.Pos()), fmt.Sprintf("the Traverse callback in %s removes the node's hash from a container when it meets the node and panics when a later node's hash is not found there: two occurrences of one hash (leaves with equal values under one branch, equal subtrees) are valid data, so a node restarted in the middle of a state synchronisation panics on every start", FuncKey(fd.Obj)))
				default:
					c.OK(key, c.P.Pos(call.Pos()), "the not-found panic is also conditioned on the hash being absent from the set of hashes already processed")
				}
				return true
			})
		}
	}
	c.Floor("panics inside Billet.Traverse callbacks that remove by hash", n, 1)
}

// inactive-after-jump: the state-sync module may declare itself finished (stage = inactive) only after the jump to the
// sync point was performed, or where the ledger does not need one at all (the two early exits of Init, tabled).
// A restart that finds headers, trie and blocks complete is not such a place: the ledger is still behind the sync point.
var inactiveWithoutJumpOK = map[string]string{
	"pkg/core/statesync.(*Module).Init": "the chain is too short for state exchange, or the ledger is already past the previous sync point: regular block processing, nothing to jump to",
	"pkg/core/statesync.NewModule":      "state exchange disabled by configuration",
}

func ruleInactiveAfterJump(c *Ctx) {
	pk := c.P.Pkg(ssPkg)
	if pk == nil {
		c.Lost("anchor", "package statesync not found")
		return
	}
	inactive, ok := pk.Types.Scope().Lookup("inactive").(*types.Const)
	if !ok {
		c.Lost("anchor", "constant statesync.inactive not found")
		return
	}
	n := 0
	for _, fd := range c.P.AllFuncDecls() {
		if fd.Obj.Pkg() != pk.Types || fd.Decl.Body == nil {
			continue
		}
		f := c.P.NewFuncCFG(fd)
		var sites []site
		for _, s := range f.WriteSites(ssPkg + "#syncStage") {
			as, ok := s.node.(*ast.AssignStmt)
			if !ok || len(as.Rhs) != 1 || as.Tok != token.ASSIGN {
				continue
			}
			if id, ok := ast.Unparen(as.Rhs[0]).(*ast.Ident); ok && f.Info.ObjectOf(id) == inactive {
				sites = append(sites, s)
			}
		}
		// composite literal in a constructor
		ast.Inspect(fd.Decl.Body, func(x ast.Node) bool {
			if kv, ok := x.(*ast.KeyValueExpr); ok {
				if k, ok := kv.Key.(*ast.Ident); ok && k.Name == "syncStage" {
					if id, ok := ast.Unparen(kv.Value).(*ast.Ident); ok && f.Info.ObjectOf(id) == inactive {
						n++
						key := FuncKey(fd.Obj) + ".inactive-literal"
						if why, ok := inactiveWithoutJumpOK[FuncKey(fd.Obj)]; ok {
							c.OK(key, c.P.Pos(kv.Pos()), "tabled: "+why)
						} else {
							c.Fail(key, c.P.Pos(kv.Pos()), FuncKey(fd.Obj)+" creates a module that is inactive from the start outside the tabled constructor")
						}
					}
				}
			}
			return true
		})
		if len(sites) == 0 {
			continue
		}
		n += len(sites)
		key := FuncKey(fd.Obj) + ".inactive-after-jump"
		if why, ok := inactiveWithoutJumpOK[FuncKey(fd.Obj)]; ok {
			c.OK(key, c.P.Pos(sites[0].node.Pos()), "tabled: "+why)
			continue
		}
		jumps := f.CallSites(ssPkg + "#jumpCallback")
		if ok, path := f.mustBefore(f.Entry(), sites, jumps, nil); ok && len(jumps) > 0 {
			c.OK(key, c.P.Pos(sites[0].node.Pos()), "the module becomes inactive only after the jump callback ran")
		} else {
			c.Fail(key, c.P.Pos(sites[0].node.Pos()), fmt.Sprintf("%s declares the state synchronisation finished (stage = inactive) on a path that never performed the jump to the sync point (%s): a node restarted after the last synchronised block was persisted and before the jump began stays at its old height with the old state already removed", FuncKey(fd.Obj), strings.Join(path, " -> ")))
		}
	}
	c.Floor("places that set the stage to inactive", n, 3)
}
