package main

import (
	"fmt"
	"go/ast"
	"go/constant"
	"go/token"
	"go/types"
	"golang.org/x/tools/go/packages"
	"sort"
	"strings"

	"golang.org/x/tools/go/cfg"
	"golang.org/x/tools/go/ssa"
)

type cfgBlock = cfg.Block

const (
	symGetCallFlags = "pkg/vm.(*Context).GetCallFlags"
	symHas          = "pkg/smartcontract/callflag.(CallFlag).Has"
)

// ---------------------------------------------------------------------------
// native-flag-check + syscall flag check

func ruleFlagChecks(c *Ctx) {
	runGates(c, []GateSpec{
		{
			ID: "native.Call.dispatch", Fn: [3]string{"pkg/core/native", "", "Call"}, Target: "call:pkg/core/interop#Func|pkg/core/interop#DeferrableFunc", MinSites: 2,
			Guards: []Guard{{ID: "required-flags", Doc: "the native method handler is invoked only when the current context has the method's RequiredFlags",
				Alts: [][]string{{symHas, symGetCallFlags, "pkg/core/interop#RequiredFlags"}}}},
		},
		{
			// the historical relaxation of required flags applies only before Aspidochelone, only to Management, only to deploy/update
			ID: "native.Call.relaxation", Fn: [3]string{"pkg/core/native", "", "Call"}, Target: "node:local<-pkg/core/interop#RequiredFlags,op:&,pkg/smartcontract/callflag.States",
			Guards: []Guard{
				{ID: "pre-aspidochelone", Doc: "required flags are relaxed only before the Aspidochelone hardfork", Alts: [][]string{{"pkg/config.HFAspidochelone", "pkg/core/interop.(*Context).IsHardforkEnabled"}}},
				{ID: "management-only", Doc: "required flags are relaxed only for the Management contract", Alts: [][]string{{"pkg/core/interop.(Ledger).NativeManagementID", "pkg/core/state#ID"}}},
			},
		},
		{
			ID: "SyscallHandler.dispatch", Fn: [3]string{"pkg/core/interop", "Context", "SyscallHandler"}, Target: "call:pkg/core/interop#Func",
			Guards: []Guard{{ID: "required-flags", Doc: "a system call handler runs only when the current context has the call's RequiredFlags",
				Alts: [][]string{{symHas, symGetCallFlags, "pkg/core/interop#RequiredFlags"}}}},
		},
	})
}

// ---------------------------------------------------------------------------
// call-guards, flags-shrink

func ruleCallGuards(c *Ctx) {
	fnCI := [3]string{"pkg/core/interop/contract", "", "callInternal"}
	fnCX := [3]string{"pkg/core/interop/contract", "", "callExFromNative"}
	symCX := "pkg/core/interop/contract.callExFromNative"
	runGates(c, []GateSpec{
		{
			ID: "callInternal.safe", Fn: fnCI, Target: "call:" + symCX, Assume: symAssume("pkg/smartcontract/manifest#Safe", true),
			MustNode: [][]string{{"param#3", "op:&^", "pkg/smartcontract/callflag.WriteStates", "pkg/smartcontract/callflag.AllowNotify"}},
		},
		{
			ID: "callInternal.permission", Fn: fnCI, Target: "call:" + symCX,
			Assume: &Assume{Sym: map[string]bool{"pkg/smartcontract/manifest#Safe": false}, Conds: []AssumeCond{{Mentions: []string{"pkg/vm.(*VM).Context"}, Not: []string{"local<-pkg/vm.(*Context).GetManifest"}, Val: true}}},
			Guards: []Guard{{ID: "can-call", Doc: "a deployed caller reaches a non-safe method only if its manifest permits the callee and the method", Whole: true,
				Alts:  [][]string{{"pkg/smartcontract/manifest.(*Manifest).CanCall", "pkg/core/state#Hash", "pkg/smartcontract/manifest#Name"}},
				Extra: []string{"pkg/core/interop#VM", "pkg/core/interop.(*Context).GetContract", "pkg/core/state#Manifest", "pkg/vm.(*Context).GetManifest", "pkg/vm.(*VM).Context", "pkg/vm.(*VM).GetCurrentScriptHash"}}},
		},
		{
			ID: "callExFromNative.load", Fn: fnCX, Target: "call:pkg/vm.(*VM).LoadNEFMethod",
			Assume:   &Assume{Conds: []AssumeCond{{Mentions: []string{"pkg/core/interop#PolicyChecker"}, Not: []string{"pkg/core/interop.(PolicyChecker).IsBlocked", "pkg/core/interop.(PolicyChecker).WhitelistedFee"}, Val: true}}},
			MustNode: [][]string{{"param#5", "op:&", symGetCallFlags}},
			Guards:   []Guard{{ID: "not-blocked", Doc: "a blocked contract is never loaded", Alts: [][]string{{"pkg/core/interop.(PolicyChecker).IsBlocked"}}}},
		},
		{
			ID: "runtime.LoadScript.load", Fn: [3]string{"pkg/core/interop/runtime", "", "LoadScript"}, Target: "call:pkg/vm.(*VM).LoadDynamicScript",
			MustNode: [][]string{{"local<-pkg/vm.(*Stack).Pop", "op:&", symGetCallFlags}}, // that the mask stays within ReadOnly is scopeless-loader's upper bound
			Guards:   []Guard{{ID: "script-correct", Doc: "a dynamic script passes the static script check before being loaded", Alts: [][]string{{"pkg/smartcontract/scparser.IsScriptCorrect"}}}},
		},
	})
	// "calling a method marked safe never modifies state whatever flags the caller passes" holds for *every* way into
	// the loader: either callExFromNative clears WriteStates|AllowNotify for a safe method itself, or each function that
	// calls it does so on every path to the call (under the assumption that the method is safe)
	safeMask := [][]string{{"op:&^", "pkg/smartcontract/callflag.WriteStates", "pkg/smartcontract/callflag.AllowNotify"}}
	stripsBefore := func(fd *FuncDecl, target string) (bool, int) {
		f := c.P.NewFuncCFG(fd)
		if f == nil {
			return false, 0
		}
		sites := f.CallSites(target)
		if len(sites) == 0 {
			return false, 0
		}
		ok, _, _ := f.CheckMustNode(f.Entry(), blocksOf(sites), symAssume("pkg/smartcontract/manifest#Safe", true), safeMask[0]...)
		return ok, len(sites)
	}
	if cx := c.P.Func(fnCX[0], fnCX[1], fnCX[2]); cx == nil {
		c.Lost("safe-strip.anchor", "callExFromNative not found")
	} else if ok, n := stripsBefore(cx, "pkg/vm.(*VM).LoadNEFMethod"); ok && n > 0 {
		c.OK("safe-strip.callExFromNative", c.P.Pos(cx.Decl.Pos()), "the common loading function clears WriteStates|AllowNotify for a safe method")
	} else {
		ncallers := 0
		for _, fd := range c.P.AllFuncDecls() {
			if fd.Decl.Body == nil || fd.Obj == cx.Obj {
				continue
			}
			ok, n := stripsBefore(fd, symCX)
			if n == 0 {
				continue
			}
			ncallers++
			key := "safe-strip." + FuncKey(fd.Obj)
			if ok {
				c.OK(key, c.P.Pos(fd.Decl.Pos()), "a safe method is loaded with WriteStates|AllowNotify cleared on every path through this caller")
			} else {
				c.Fail(key, c.P.Pos(fd.Decl.Pos()), FuncKey(fd.Obj)+" reaches the contract loader without clearing WriteStates|AllowNotify for a method the manifest marks safe: a safe-marked method invoked on this path (a payment or deploy callback issued by a native contract) runs with write and notify permission")
			}
		}
		c.Floor("callers of callExFromNative", ncallers, 2)
	}
	// the flags handed to the loaders are the masked variable itself
	argIs := func(key string, fn [3]string, callee string, idx int, want string) {
		fd := c.P.Func(fn[0], fn[1], fn[2])
		if fd == nil {
			c.Lost(key+".anchor", "function not found")
			return
		}
		f := c.P.NewFuncCFG(fd)
		for _, s := range f.CallSites(callee) {
			if idx < len(s.call.Args) {
				if id, ok := ast.Unparen(s.call.Args[idx]).(*ast.Ident); ok && f.DirectMentions(id)[want] {
					c.OK(key, c.P.Pos(s.call.Pos()), fmt.Sprintf("flags argument of %s is the masked variable %s", shortSym(callee), id.Name))
					continue
				}
			}
			c.Fail(key, c.P.Pos(s.call.Pos()), fmt.Sprintf("flags argument of %s is not the variable that was intersected with the current context's flags", shortSym(callee)))
		}
	}
	argIs("callExFromNative.load.flags-arg", fnCX, "pkg/vm.(*VM).LoadNEFMethod", 4, "param#5")
	argIs("runtime.LoadScript.load.flags-arg", [3]string{"pkg/core/interop/runtime", "", "LoadScript"}, "pkg/vm.(*VM).LoadDynamicScript", 1, "local<-pkg/vm.(*Stack).Pop")
	argIs("callInternal.flags-arg", fnCI, symCX, 5, "param#3")

	// a function of package contract that reaches callInternal without being a table-registered system call (the
	// CALLT handler) must refuse every flag set System.Contract.Call's registration refuses: its flag test is
	// folded for all subsets of that registration's RequiredFlags
	var callMask uint64
	for _, sr := range c.P.Regs().Syscalls {
		if sr.HandlerObj != nil && FuncKey(sr.HandlerObj) == "pkg/core/interop/contract.Call" && sr.FlagsKnown {
			callMask = sr.Flags
		}
	}
	registered := map[string]bool{}
	for _, sr := range c.P.Regs().Syscalls {
		if sr.HandlerObj != nil {
			registered[FuncKey(sr.HandlerObj)] = true
		}
	}
	nsib := 0
	if pk := c.P.Pkg(fnCI[0]); pk != nil && callMask != 0 {
		var bits []uint64
		for b := uint64(1); b <= callMask; b <<= 1 {
			if callMask&b != 0 {
				bits = append(bits, b)
			}
		}
		for _, fd := range c.P.AllFuncDecls() {
			if fd.Obj.Pkg() != pk.Types || fd.Decl.Body == nil || registered[FuncKey(fd.Obj)] || FuncKey(fd.Obj) == symCX || fd.Obj.Name() == fnCI[2] {
				continue
			}
			f := c.P.NewFuncCFG(fd)
			if len(f.CallSites("pkg/core/interop/contract.callInternal")) == 0 || !f.Mentions(fd.Decl.Body, nil)[symGetCallFlags] {
				continue
			}
			nsib++
			key := "token-call-flags." + FuncKey(fd.Obj)
			bad := ""
			undec := ""
			for sub := 0; sub < 1<<len(bits); sub++ {
				var fl uint64
				for i, b := range bits {
					if sub&(1<<i) != 0 {
						fl |= b
					}
				}
				m := &miniEval{info: fd.Pkg.TypesInfo, env: map[types.Object]constant.Value{}, tr: &miniTrace{stores: map[int64]constant.Value{}}, flags: &fl, lax: true}
				m.exec(fd.Decl.Body.List)
				if m.tr.why != "" {
					undec = m.tr.why
					break
				}
				reaches := false
				for _, cn := range append(append([]string{}, m.tr.calls...), m.tr.retCalls...) {
					if cn == fnCI[2] {
						reaches = true
					}
				}
				if reaches && fl&callMask != callMask {
					bad = fmt.Sprintf("with call flags %#x (System.Contract.Call requires %#x) the flag test passes and callInternal is reached", fl, callMask)
					break
				}
				if !reaches && fl&callMask == callMask {
					bad = fmt.Sprintf("with all of the required flags %#x present callInternal is not reached", callMask)
					break
				}
			}
			switch {
			case undec != "":
				c.Unclassified(key, c.P.Pos(fd.Decl.Pos()), "flag test not folded: "+undec)
			case bad != "":
				c.Fail(key, c.P.Pos(fd.Decl.Pos()), fmt.Sprintf("%s calls a contract without going through the system call table: %s", FuncKey(fd.Obj), bad))
			default:
				c.OK(key, c.P.Pos(fd.Decl.Pos()), fmt.Sprintf("folded over the %d subsets of %#x: callInternal is reached exactly when all flags System.Contract.Call requires are present", 1<<len(bits), callMask))
			}
		}
	}
	c.Floor("unregistered contract-calling entry points with their own flag test", nsib, 1)

	// flag-taking loaders are called inside the execution closure only from the two functions above
	g := c.P.MRG()
	loaders := map[string]bool{"LoadNEFMethod": true, "LoadScriptWithFlags": true, "LoadScriptWithHash": true, "LoadDynamicScript": true, "loadScriptWithCallingHash": true, "LoadScriptWithCallingHash": true}
	via := g.Reach(c.P.HandlerRoots(), nil)
	allowed := map[string]bool{"pkg/core/interop/contract.callExFromNative": true, "pkg/core/interop/runtime.LoadScript": true}
	n := 0
	var fns []*ssa.Function
	for fn := range via {
		fns = append(fns, fn)
	}
	sort.Slice(fns, func(i, j int) bool { return FnKey(fns[i]) < FnKey(fns[j]) })
	for _, fn := range fns {
		if fn.Pkg != nil && pkgRel(fn.Pkg.Pkg) == "pkg/vm" {
			continue // the loaders themselves and their internal delegation
		}
		for _, e := range g.Nodes[fn].Out {
			cf := e.Callee.Fn
			if cf.Pkg == nil || pkgRel(cf.Pkg.Pkg) != "pkg/vm" || !loaders[cf.Name()] || cf.Signature.Recv() == nil {
				continue
			}
			n++
			key := "loader-site." + FnKey(fn) + "->" + cf.Name()
			if allowed[FnKey(fn)] {
				c.OK(key, c.P.Pos(e.Site.Pos()), "flag-masking loader site")
			} else {
				c.Fail(key, c.P.Pos(e.Site.Pos()), fmt.Sprintf("%s loads a script with caller-chosen flags from inside the execution closure without going through the flag-intersecting call path", FnKey(fn)), g.PathTo(via, fn)...)
			}
		}
	}
	c.Floor("loader sites in the execution closure", n, 2)
}

// ---------------------------------------------------------------------------
// flags-effects

type effectSet struct{ W, N, C bool }

func ruleFlagsEffects(c *Ctx) {
	regs := c.P.Regs()
	g := c.P.MRG()
	c.Floor("native registrations", len(regs.Natives), 120)
	c.Floor("system calls", len(regs.Syscalls), 40)
	if regs.Bits.WriteStates == 0 || regs.Bits.AllowNotify == 0 || regs.Bits.AllowCall == 0 {
		c.Lost("callflag-bits", "call flag constants not found")
		return
	}
	wSinks := map[string]bool{"pkg/core/dao.(*Simple).PutStorageItem": true, "pkg/core/dao.(*Simple).DeleteStorageItem": true, "pkg/core/dao.(*Simple).PutBigInt": true}
	nSinks := map[string]bool{"pkg/core/interop.(*Context).AddNotification": true}
	cSinks := map[string]bool{"pkg/vm.(*VM).LoadNEFMethod": true, "pkg/vm.(*VM).LoadScriptWithFlags": true, "pkg/vm.(*VM).LoadScriptWithHash": true, "pkg/vm.(*VM).LoadDynamicScript": true, "pkg/vm.(*VM).loadScriptWithCallingHash": true}
	found := 0
	for fn := range g.Nodes {
		k := FnKey(fn)
		if wSinks[k] || nSinks[k] || cSinks[k] {
			found++
		}
	}
	if found < 6 {
		c.Lost("sinks", fmt.Sprintf("only %d of the effect sink functions resolve", found))
		return
	}
	// tabled cut: protocol-mandated NEP-17/NEP-11 payment callback issued by natives; flags are still intersected by callExFromNative
	cut := func(e *MEdge) bool {
		return FnKey(e.Callee.Fn) == "pkg/core/interop/contract.CallFromNative" && strings.HasSuffix(FnKey(e.Caller.Fn), "postTransfer")
	}
	ncut := 0
	for fn, n := range g.Nodes {
		_ = fn
		for _, e := range n.Out {
			if cut(e) {
				ncut++
			}
		}
	}
	if ncut == 0 {
		c.Note("the tabled cut edge postTransfer -> CallFromNative does not exist any more")
	}
	effects := func(h *ssa.Function) (effectSet, map[string][]string) {
		var es effectSet
		wit := map[string][]string{}
		if h == nil {
			return es, wit
		}
		via := g.Reach([]*ssa.Function{h}, cut)
		for fn := range via {
			k := FnKey(fn)
			switch {
			case wSinks[k]:
				if !es.W {
					wit["W"] = g.PathTo(via, fn)
				}
				es.W = true
			case nSinks[k]:
				if !es.N {
					wit["N"] = g.PathTo(via, fn)
				}
				es.N = true
			case cSinks[k]:
				if !es.C {
					wit["C"] = g.PathTo(via, fn)
				}
				es.C = true
			}
		}
		return es, wit
	}
	check := func(key, pos, what string, flags uint64, es effectSet, wit map[string][]string, legacyOK func(string) bool) {
		var missing []string
		if es.W && flags&regs.Bits.WriteStates == 0 {
			missing = append(missing, "W")
		}
		if es.N && flags&regs.Bits.AllowNotify == 0 {
			missing = append(missing, "N")
		}
		if es.C && flags&regs.Bits.AllowCall == 0 {
			missing = append(missing, "C")
		}
		names := map[string]string{"W": "writes contract storage without requiring WriteStates", "N": "emits a notification without requiring AllowNotify", "C": "loads a contract/script without requiring AllowCall"}
		if len(missing) == 0 {
			c.OK(key, pos, fmt.Sprintf("%s: effects {W:%v N:%v C:%v} covered by declared flags %05b", what, es.W, es.N, es.C, flags))
			return
		}
		for _, m := range missing {
			if legacyOK != nil && legacyOK(m) {
				c.OK(key+"."+m, pos, what+": legacy registration superseded by a successor with the flag (kept for chain compatibility)")
				continue
			}
			c.Fail(key+"."+m, pos, what+" "+names[m], wit[m]...)
		}
	}
	for _, s := range regs.Syscalls {
		if s.Handler == nil || !s.FlagsKnown {
			c.Unclassified("syscall."+s.NameConst, c.P.Pos(s.Lit.Pos()), "handler or flags not resolvable")
			continue
		}
		if FnKey(s.Handler) == "pkg/core/native.Call" {
			c.OK("syscall."+s.NameConst, c.P.Pos(s.Lit.Pos()), "dispatcher: checks the native method's own required flags (native-flag-check)")
			continue
		}
		if trig := map[string]string{"pkg/core/native.OnPersist": "OnPersist", "pkg/core/native.PostPersist": "PostPersist"}[FnKey(s.Handler)]; trig != "" {
			// system-trigger handlers: they run only under the OnPersist/PostPersist trigger, whose scripts the ledger itself
			// loads with all flags; the trigger test must gate every native hook they invoke
			before := len(c.Obls)
			runGates(c, []GateSpec{{
				ID: "syscall." + s.NameConst + ".system-trigger", Fn: [3]string{"pkg/core/native", "", trig}, Target: "call:pkg/core/interop.(Contract)." + trig,
				Guards: []Guard{{ID: "trigger", Doc: "native " + trig + " hooks run only under the system " + trig + " trigger", Alts: [][]string{{"pkg/core/interop#Trigger", "pkg/smartcontract/trigger." + trig}}}},
			}})
			gated := true
			for _, o := range c.Obls[before:] {
				if o.Status != StOK {
					gated = false
				}
			}
			if gated {
				continue
			}
		}
		es, wit := effects(s.Handler)
		check("syscall."+s.NameConst, c.P.Pos(s.Lit.Pos()), "system call "+s.NameConst+" ("+FnKey(s.Handler)+")", s.Flags, es, wit, nil)
	}
	// natives: group by (owner, handler)
	type grp struct{ owner, name string }
	byGrp := map[grp][]*NativeReg{}
	for _, r := range regs.Natives {
		o := "?"
		if r.Owner != nil {
			o = FuncKey(r.Owner)
		}
		byGrp[grp{o, r.Name}] = append(byGrp[grp{o, r.Name}], r)
	}
	for _, r := range regs.Natives {
		o := "?"
		if r.Owner != nil {
			o = FuncKey(r.Owner)
		}
		key := fmt.Sprintf("native.%s#%d", r.Name, r.Ordinal)
		if r.Handler == nil || !r.FlagsKnown {
			c.Unclassified(key, c.P.Pos(r.Call.Pos()), "handler or flags not resolvable")
			continue
		}
		es, wit := effects(r.Handler)
		legacy := func(m string) bool {
			if r.Till == "" {
				return false
			}
			bit := map[string]uint64{"W": regs.Bits.WriteStates, "N": regs.Bits.AllowNotify, "C": regs.Bits.AllowCall}[m]
			for _, o2 := range byGrp[grp{o, r.Name}] {
				if o2 != r && o2.From == r.Till && o2.Flags&bit != 0 && o2.Flags&r.Flags == r.Flags {
					return true
				}
			}
			return false
		}
		check(key, c.P.Pos(r.Call.Pos()), "native method "+r.Name, r.Flags, es, wit, legacy)
	}
	if c.Property == "C16" { // the clause is about the allow-call flag; C04 uses this rule for the write/notify flags only
		paymentCallbackClause(c, regs, legacyOf(byGrpKeys(regs), regs))
	}
}

// paymentCallbackClause: the tabled cut above (postTransfer -> CallFromNative) keeps the type-based graph from
// charging every minting native with "calls a contract": most of them pass callOnPayment=false. The cut must not hide
// the paths on which the flag is true. The boolean parameter that gates the callback is found in postTransfer itself
// (the CallFromNative site is unreachable when it is false) and traced back through the callers that pass it along;
// a function that passes the constant true is a *source*. A native method registered without AllowCall whose
// handler reaches a source calls the receiver's onNEP17Payment from a context that has no AllowCall.
// paymentCallbackSources: the functions that pass the constant true for the boolean parameter which gates the
// payment callback in postTransfer (traced back through the callers that pass the parameter along); nil, false if the
// anchor is gone.
func paymentCallbackSources(c *Ctx) (map[*ssa.Function]string, bool) {
	var post *FuncDecl
	for _, fd := range c.P.AllFuncDecls() {
		if fd.Decl.Body != nil && fd.Obj.Name() == "postTransfer" && pkgRel(fd.Pkg.Types) == "pkg/core/native" {
			post = fd
		}
	}
	if post == nil {
		c.Lost("payment-callback.anchor", "postTransfer not found")
		return nil, false
	}
	f := c.P.NewFuncCFG(post)
	sites := f.CallSites("pkg/core/interop/contract.CallFromNative")
	if len(sites) == 0 {
		c.Note("payment-callback: postTransfer no longer calls CallFromNative")
		return nil, false
	}
	sig := post.Obj.Type().(*types.Signature)
	gate := -1
	for i := 0; i < sig.Params().Len(); i++ {
		if b, ok := sig.Params().At(i).Type().Underlying().(*types.Basic); !ok || b.Kind() != types.Bool {
			continue
		}
		live := f.reach(f.Entry(), nil, symAssume(fmt.Sprintf("param#%d", i), false))
		dead := true
		for _, s := range sites {
			if _, ok := live[s.blk]; ok {
				dead = false
			}
		}
		if dead {
			gate = i
		}
	}
	if gate < 0 {
		c.Unclassified("payment-callback.gate", c.P.Pos(post.Decl.Pos()), "no boolean parameter of postTransfer switches the payment callback off")
		return nil, false
	}
	type pslot struct {
		name string // method/function name
		n    int    // number of parameters
		idx  int
	}
	work := []pslot{{post.Obj.Name(), sig.Params().Len(), gate}}
	done := map[pslot]bool{}
	sources := map[*ssa.Function]string{}
	for len(work) > 0 {
		w := work[0]
		work = work[1:]
		if done[w] {
			continue
		}
		done[w] = true
		for _, fd := range c.P.AllFuncDecls() {
			if fd.Decl.Body == nil || pkgRel(fd.Pkg.Types) != "pkg/core/native" {
				continue
			}
			info := fd.Pkg.TypesInfo
			fsig := fd.Obj.Type().(*types.Signature)
			ast.Inspect(fd.Decl.Body, func(x ast.Node) bool {
				call, ok := x.(*ast.CallExpr)
				if !ok || len(call.Args) <= w.idx {
					return true
				}
				cf := calleeFunc(info, call)
				if cf == nil || cf.Name() != w.name {
					return true
				}
				if cs, ok := cf.Type().(*types.Signature); !ok || cs.Params().Len() != w.n {
					return true
				}
				arg := ast.Unparen(call.Args[w.idx])
				if v, ok := boolConst(info, arg); ok {
					if v {
						if fn := c.P.SSAFunc(fd.Obj); fn != nil {
							sources[fn] = c.P.Pos(call.Pos())
						}
					}
					return true
				}
				if id, ok := arg.(*ast.Ident); ok {
					for j := 0; j < fsig.Params().Len(); j++ {
						if info.ObjectOf(id) == fsig.Params().At(j) {
							work = append(work, pslot{fd.Obj.Name(), fsig.Params().Len(), j})
							return true
						}
					}
				}
				c.Unclassified("payment-callback.arg."+FuncKey(fd.Obj), c.P.Pos(call.Pos()), "the payment-callback switch is neither a constant nor a parameter passed along")
				return true
			})
		}
	}
	return sources, true
}

func paymentCallbackClause(c *Ctx, regs *Regs, legacy func(r *NativeReg, m string) bool) {
	g := c.P.MRG()
	sources, ok := paymentCallbackSources(c)
	if !ok {
		return
	}
	c.Floor("functions that switch the payment callback on", len(sources), 2)
	// hardfork order
	hfVal := map[string]int64{}
	if cp := c.P.Pkg("pkg/config"); cp != nil {
		for _, nm := range cp.Types.Scope().Names() {
			if k, ok := cp.Types.Scope().Lookup(nm).(*types.Const); ok && namedTypeIs(k.Type(), "pkg/config", "Hardfork") {
				if v, ok := constant.Int64Val(constant.ToInt(k.Val())); ok {
					hfVal[nm] = v
				}
			}
		}
	}
	for _, r := range regs.Natives {
		if r.Handler == nil || !r.FlagsKnown || r.Flags&regs.Bits.AllowCall != 0 {
			continue
		}
		// the registration is active in [From, Till): what every hardfork test answers while it runs
		base := map[string]bool{}
		for nm, v := range hfVal {
			for _, callee := range []string{"pkg/core/interop.(*Context).IsHardforkEnabled"} {
				k := callee + "(pkg/config." + nm + ")"
				if fv, ok := hfVal[r.From]; ok && r.From != "" && v <= fv {
					base[k] = true
				}
				if tv, ok := hfVal[r.Till]; ok && r.Till != "" && v >= tv {
					base[k] = false
				}
			}
		}
		hit, path := feasibleReach(c, g, r.Handler, sources, base)
		if hit == nil {
			continue
		}
		key := fmt.Sprintf("native.%s#%d.payment-callback", r.Name, r.Ordinal)
		if legacy != nil && legacy(r, "C") {
			c.OK(key, c.P.Pos(r.Call.Pos()), "legacy registration superseded by a successor with AllowCall")
			continue
		}
		c.Fail(key, c.P.Pos(r.Call.Pos()), fmt.Sprintf("native method %s is registered without AllowCall, but its handler reaches %s, which mints GAS with the payment callback switched on (%s): the receiver's onNEP17Payment is called from a context that has no AllowCall", r.Name, FnKey(hit), sources[hit]), path...)
	}
}

// feasibleReach searches the call graph from `from` for a function of `targets`, following only call sites that are
// reachable in their caller's CFG under (a) the assumptions of `base` and (b) the boolean parameters the previous call
// fixed to constants. Function literals have no CFG of their own here: their edges are all followed.
func feasibleReach(c *Ctx, g *MRG, from *ssa.Function, targets map[*ssa.Function]string, base map[string]bool) (*ssa.Function, []string) {
	type state struct {
		fn  *ssa.Function
		key string
	}
	seen := map[state]bool{}
	var hit *ssa.Function
	var hitPath []string
	var walk func(fn *ssa.Function, params map[int]bool, path []string, depth int)
	walk = func(fn *ssa.Function, params map[int]bool, path []string, depth int) {
		if hit != nil || depth > 12 {
			return
		}
		var ks []string
		for i, v := range params {
			ks = append(ks, fmt.Sprintf("%d=%v", i, v))
		}
		sort.Strings(ks)
		st := state{fn, strings.Join(ks, ",")}
		if seen[st] {
			return
		}
		seen[st] = true
		var f *FuncCFG
		if obj, _ := fn.Object().(*types.Func); obj != nil {
			if fd := c.P.DeclOf(obj); fd != nil && fd.Decl.Body != nil {
				f = c.P.NewFuncCFG(fd)
			}
		}
		var live map[*cfg.Block]*cfg.Block
		if f != nil {
			as := &Assume{Sym: map[string]bool{}}
			for k, v := range base {
				as.Sym[k] = v
			}
			for i, v := range params {
				as.Sym[fmt.Sprintf("param#%d", i)] = v
			}
			live = f.reach(f.Entry(), nil, as)
		}
		siteLive := func(pos token.Pos) (bool, *ast.CallExpr) {
			if f == nil || !pos.IsValid() {
				return true, nil
			}
			found := false
			var call *ast.CallExpr
			for _, b := range f.G.Blocks {
				if !b.Live {
					continue
				}
				for _, nd := range b.Nodes {
					if nd.Pos() <= pos && pos < nd.End() {
						found = true
						if _, ok := live[b]; ok {
							inspectNoLit(nd, func(x ast.Node) bool {
								if ce, ok := x.(*ast.CallExpr); ok && ce.Lparen == pos {
									call = ce
								}
								return true
							})
							return true, call
						}
					}
				}
			}
			return !found, nil // not located in the function's own blocks (inside a literal): follow
		}
		if pos, ok := targets[fn]; ok {
			_ = pos
			// the call that passes `true` must itself be live
			okSite := f == nil
			if f != nil {
				ast.Inspect(f.Body, func(x ast.Node) bool {
					if ce, ok := x.(*ast.CallExpr); ok && c.P.Pos(ce.Pos()) == targets[fn] {
						if l, _ := siteLive(ce.Lparen); l {
							okSite = true
						}
					}
					return true
				})
			}
			if okSite {
				hit, hitPath = fn, append(append([]string{}, path...), FnKey(fn))
				return
			}
		}
		nd := g.Nodes[fn]
		if nd == nil {
			return
		}
		for _, e := range nd.Out {
			if hit != nil {
				return
			}
			pos := token.NoPos
			if e.Site != nil {
				pos = e.Site.Pos()
			}
			l, call := siteLive(pos)
			if !l {
				continue
			}
			next := map[int]bool{}
			if call != nil && f != nil {
				for j, a := range call.Args {
					a = ast.Unparen(a)
					if v, ok := boolConst(f.Info, a); ok {
						next[j] = v
					} else if id, ok := a.(*ast.Ident); ok {
						if pv, ok := f.Info.ObjectOf(id).(*types.Var); ok {
							if pi, isP := f.paramIdx[pv]; isP {
								if v, ok := params[pi]; ok {
									next[j] = v
								}
							}
						}
					}
				}
			}
			walk(e.Callee.Fn, next, append(path, fmt.Sprintf("%s  (call at %s)", FnKey(fn), c.P.Pos(pos))), depth+1)
		}
	}
	walk(from, map[int]bool{}, nil, 0)
	return hit, hitPath
}

func byGrpKeys(regs *Regs) map[[2]string][]*NativeReg {
	m := map[[2]string][]*NativeReg{}
	for _, r := range regs.Natives {
		o := "?"
		if r.Owner != nil {
			o = FuncKey(r.Owner)
		}
		m[[2]string{o, r.Name}] = append(m[[2]string{o, r.Name}], r)
	}
	return m
}

func legacyOf(byGrp map[[2]string][]*NativeReg, regs *Regs) func(r *NativeReg, m string) bool {
	return func(r *NativeReg, m string) bool {
		if r.Till == "" {
			return false
		}
		o := "?"
		if r.Owner != nil {
			o = FuncKey(r.Owner)
		}
		bit := map[string]uint64{"W": regs.Bits.WriteStates, "N": regs.Bits.AllowNotify, "C": regs.Bits.AllowCall}[m]
		for _, o2 := range byGrp[[2]string{o, r.Name}] {
			if o2 != r && o2.From == r.Till && o2.Flags&bit != 0 && o2.Flags&r.Flags == r.Flags {
				return true
			}
		}
		return false
	}
}

// ---------------------------------------------------------------------------
// perm-method-check, perm-switch

func rulePermissions(c *Ctx) {
	// a permission is matched against the manifest of the contract being called, not the caller's own
	permArgIsCallee(c)
	fd := c.P.Func("pkg/smartcontract/manifest", "Permission", "IsAllowed")
	if fd == nil {
		c.Lost("IsAllowed.anchor", "manifest.(*Permission).IsAllowed not found")
		return
	}
	f := c.P.NewFuncCFG(fd)
	// every exit that can allow the call passes the method-list check
	var allowing []site
	for _, r := range f.Returns() {
		rs := r.node.(*ast.ReturnStmt)
		if len(rs.Results) == 1 {
			if v, ok := boolConst(f.Info, rs.Results[0]); ok && !v {
				continue // return false
			}
		}
		allowing = append(allowing, r)
	}
	c.Floor("allowing exits of IsAllowed", len(allowing), 2)
	for i, a := range allowing {
		key := fmt.Sprintf("IsAllowed.allow-exit#%d.method-check", i+1)
		ok, path := f.CheckMustCall(f.Entry(), map[*cfgBlock]bool{a.blk: true}, nil, "pkg/smartcontract/manifest.(*WildStrings).IsWildcard", "pkg/smartcontract/manifest.(*WildStrings).Contains")
		if ok {
			c.OK(key, c.P.Pos(a.node.Pos()), "this allowing exit is reached only through the permission's method list (wildcard or Contains)")
		} else {
			c.Fail(key, c.P.Pos(a.node.Pos()), "Permission.IsAllowed can allow a call without consulting the permission's method list on this path", path...)
		}
	}
	// hash permissions compare the callee hash, group permissions look the key up in the callee's groups
	runGates(c, []GateSpec{{
		ID: "IsAllowed.allow", Fn: [3]string{"pkg/smartcontract/manifest", "Permission", "IsAllowed"}, Target: "call:pkg/smartcontract/manifest.(*WildStrings).IsWildcard",
		Assume: &Assume{Conds: []AssumeCond{{Mentions: []string{"pkg/smartcontract/manifest.PermissionHash"}, Val: true}, {Mentions: []string{"pkg/smartcontract/manifest.PermissionWildcard"}, Val: false}}},
		Guards: []Guard{{ID: "hash-equal", Doc: "a hash permission allows only the contract with that hash", Alts: [][]string{{"pkg/smartcontract/manifest.(*PermissionDesc).Hash", "param#0", "pkg/util.(Uint160).Equals"}}}},
	}, {
		ID: "IsAllowed.allow.group", Fn: [3]string{"pkg/smartcontract/manifest", "Permission", "IsAllowed"}, Target: "call:pkg/smartcontract/manifest.(*WildStrings).IsWildcard",
		Assume: &Assume{Conds: []AssumeCond{{Mentions: []string{"pkg/smartcontract/manifest.PermissionGroup"}, Val: true}, {Mentions: []string{"pkg/smartcontract/manifest.PermissionWildcard"}, Val: false}, {Mentions: []string{"pkg/smartcontract/manifest.PermissionHash"}, Val: false}}},
		Guards: []Guard{{ID: "group-member", Doc: "a group permission allows only contracts carrying that group key", Alts: [][]string{{"slices.ContainsFunc", "pkg/smartcontract/manifest#Groups"}}}},
	}})
	// exhaustive handling of permission kinds
	kinds := c.P.constsOfType("pkg/smartcontract/manifest", "PermissionType")
	c.Floor("permission kinds", len(kinds), 3)
	pk := c.P.Pkg("pkg/smartcontract/manifest")
	nsw := 0
	for _, d := range c.P.AllFuncDecls() {
		if d.Pkg != pk || d.Decl.Body == nil {
			continue
		}
		for i, arms := range constSwitches(pk.TypesInfo, d.Decl.Body, "pkg/smartcontract/manifest", "PermissionType") {
			nsw++
			seen := map[string]bool{}
			hasDefault := false
			for _, a := range arms {
				if a.Default {
					hasDefault = true
				}
				for _, n := range a.Consts {
					seen[n] = true
				}
			}
			all := map[string]bool{}
			for k := range kinds {
				all[k] = true
			}
			key := fmt.Sprintf("perm-switch.%s#%d", FuncKey(d.Obj), i+1)
			if miss := setDiff(all, seen); len(miss) > 0 && !hasDefault {
				c.Fail(key, c.P.Pos(d.Decl.Pos()), fmt.Sprintf("switch over the permission kind has no arm for %v and no default", miss))
			} else {
				c.OK(key, c.P.Pos(d.Decl.Pos()), fmt.Sprintf("permission kinds handled: %v, default: %v", sortedKeys(seen), hasDefault))
			}
		}
	}
	c.Floor("switches over the permission kind", nsw, 4)
}

// ---------------------------------------------------------------------------
// wild-nonnil: for WildStrings/WildPermissionDescs "Value == nil" MEANS wildcard, so an explicit (possibly empty)
// list must never be stored as a possibly-nil slice

// wildPresenceChecked: the other way into the nil that means wildcard is not to be given anything. encoding/json leaves
// a struct field alone when its key is missing or null, so a JSON decoder that copies a WildStrings out of an
// auxiliary struct yields "all methods" for a permission that names no method at all - the reference refuses such a
// manifest (finding 102). A JSON decoder of package manifest that assigns a field of type WildStrings contains a
// rejecting test of the raw presence of the value (a json.RawMessage, or a pointer compared with nil).
func wildPresenceChecked(c *Ctx, pk *packages.Package) {
	info := pk.TypesInfo
	n := 0
	for _, fd := range c.P.AllFuncDecls() {
		if fd.Pkg != pk || fd.Decl.Body == nil || fd.Decl.Name.Name != "UnmarshalJSON" || fd.Decl.Recv == nil {
			continue
		}
		assigns := false
		ast.Inspect(fd.Decl.Body, func(x ast.Node) bool {
			as, ok := x.(*ast.AssignStmt)
			if !ok {
				return true
			}
			for _, l := range as.Lhs {
				if se, ok := ast.Unparen(l).(*ast.SelectorExpr); ok && namedTypeIs(info.TypeOf(se), "pkg/smartcontract/manifest", "WildStrings") {
					assigns = true
				}
			}
			return true
		})
		if !assigns {
			continue
		}
		n++
		checked := false
		ast.Inspect(fd.Decl.Body, func(x ast.Node) bool {
			is, ok := x.(*ast.IfStmt)
			if !ok || len(is.Body.List) == 0 {
				return true
			}
			if _, ret := is.Body.List[len(is.Body.List)-1].(*ast.ReturnStmt); !ret {
				return true
			}
			ast.Inspect(is.Cond, func(y ast.Node) bool {
				e, ok := y.(ast.Expr)
				if !ok {
					return true
				}
				t := info.TypeOf(e)
				if t == nil {
					return true
				}
				if types.TypeString(t, nil) == "encoding/json.RawMessage" {
					checked = true
				}
				if pt, ok := t.(*types.Pointer); ok && namedTypeIs(pt.Elem(), "pkg/smartcontract/manifest", "WildStrings") {
					checked = true
				}
				return true
			})
			return true
		})
		key := "presence." + shortSym(FuncKey(fd.Obj))
		if checked {
			c.OK(key, c.P.Pos(fd.Decl.Pos()), "a missing or null list is refused, only \"*\" is the wildcard")
		} else {
			c.Fail(key, c.P.Pos(fd.Decl.Pos()), fmt.Sprintf("%s copies a WildStrings out of what encoding/json filled in and never looks whether the key was there: a missing or null `methods` leaves the nil that means wildcard, so a permission that names a contract and no method allows every method of it (the manifest deploys, and the contract calls GAS.transfer) - the reference refuses such a manifest", FuncKey(fd.Obj)))
		}
	}
	c.Floor("JSON decoders that fill a WildStrings", n, 1)
}

func ruleWildNonNil(c *Ctx) {
	pk := c.P.Pkg("pkg/smartcontract/manifest")
	if pk == nil {
		c.Lost("anchor", "package manifest not found")
		return
	}
	if c.Property == "C16" {
		wildPresenceChecked(c, pk)
	}
	isWild := func(t types.Type) bool {
		return namedTypeIs(t, "pkg/smartcontract/manifest", "WildStrings") || namedTypeIs(t, "pkg/smartcontract/manifest", "WildPermissionDescs")
	}
	n := 0
	for _, fd := range c.P.AllFuncDecls() {
		if fd.Pkg != pk || fd.Decl.Body == nil {
			continue
		}
		f := c.P.NewFuncCFG(fd)
		k := 0
		classify := func(e ast.Expr) (string, string) {
			e = ast.Unparen(e)
			if isNilIdent(pk.TypesInfo, e) {
				return "ok", "explicit nil = wildcard"
			}
			switch x := e.(type) {
			case *ast.CompositeLit:
				return "ok", "non-nil literal"
			case *ast.CallExpr:
				switch f.calleeSym(x) {
				case "builtin.make":
					return "ok", "make() is non-nil even for length 0"
				case "builtin.append":
					if len(x.Args) >= 2 && !x.Ellipsis.IsValid() {
						return "ok", "append of at least one element"
					}
				}
			case *ast.Ident:
				o := pk.TypesInfo.ObjectOf(x)
				ds := f.defs[o]
				// declared without a value => nil until something is appended
				declaredNil := false
				ast.Inspect(fd.Decl.Body, func(n ast.Node) bool {
					if vs, ok := n.(*ast.ValueSpec); ok && len(vs.Values) == 0 {
						for _, nm := range vs.Names {
							if pk.TypesInfo.Defs[nm] == o {
								declaredNil = true
							}
						}
					}
					return true
				})
				if declaredNil {
					return "bad", "declared with `var` and no value: stays nil when nothing is appended"
				}
				allGood := len(ds) > 0
				for _, d := range ds {
					for _, r := range d.rhs {
						r = ast.Unparen(r)
						_, isLit := r.(*ast.CompositeLit)
						isMake := false
						if call, ok := r.(*ast.CallExpr); ok {
							cs := f.calleeSym(call)
							isMake = cs == "builtin.make" || (cs == "builtin.append" && len(call.Args) > 0 && sameExpr(pk.TypesInfo, call.Args[0], x))
						}
						if isNilIdent(pk.TypesInfo, r) {
							return "bad", "assigned nil"
						}
						if !isLit && !isMake {
							allGood = false
						}
					}
				}
				if allGood {
					return "ok", "local initialised with a non-nil empty slice"
				}
			}
			return "unknown", ""
		}
		report := func(pos ast.Node, val ast.Expr, owner string) {
			n++
			k++
			key := fmt.Sprintf("%s.%s#%d", FuncKey(fd.Obj), owner, k)
			st, why := classify(val)
			switch st {
			case "ok":
				c.OK(key, c.P.Pos(pos.Pos()), owner+".Value <- "+types.ExprString(val)+": "+why)
			case "bad":
				c.Fail(key, c.P.Pos(pos.Pos()), fmt.Sprintf("%s stores %s into %s.Value; the slice is %s, and a nil Value means WILDCARD: an explicit empty list (allow nothing) would silently become allow-everything", FuncKey(fd.Obj), types.ExprString(val), owner, why))
			default:
				c.Unclassified(key, c.P.Pos(pos.Pos()), "cannot tell whether "+types.ExprString(val)+" can be nil")
			}
		}
		ast.Inspect(fd.Decl.Body, func(x ast.Node) bool {
			switch s := x.(type) {
			case *ast.CompositeLit:
				if t := pk.TypesInfo.TypeOf(s); t != nil && isWild(t) {
					hasValue := false
					for _, el := range s.Elts {
						if kv, ok := el.(*ast.KeyValueExpr); ok {
							if id, ok := kv.Key.(*ast.Ident); ok && id.Name == "Value" {
								hasValue = true
								report(kv, kv.Value, t.(*types.Named).Obj().Name())
							}
						}
					}
					if !hasValue {
						// Value left to its zero value (nil = wildcard) and filled by Add calls later: with nothing
						// to add, the explicit empty list stays a wildcard
						n++
						k++
						key := fmt.Sprintf("%s.%s#%d", FuncKey(fd.Obj), t.(*types.Named).Obj().Name(), k)
						c.Fail(key, c.P.Pos(s.Pos()), fmt.Sprintf("%s builds a %s without stating its Value: it starts as nil, which means WILDCARD, and becomes a list only if something is added - an explicit empty list (allow nothing) would silently become allow-everything", FuncKey(fd.Obj), t.(*types.Named).Obj().Name()))
					}
				}
			case *ast.AssignStmt:
				for i, l := range s.Lhs {
					se, ok := ast.Unparen(l).(*ast.SelectorExpr)
					if !ok || se.Sel.Name != "Value" || i >= len(s.Rhs) {
						continue
					}
					if t := pk.TypesInfo.TypeOf(se.X); t != nil && isWild(t) {
						name := "WildStrings"
						if namedTypeIs(t, "pkg/smartcontract/manifest", "WildPermissionDescs") {
							name = "WildPermissionDescs"
						}
						report(s, s.Rhs[i], name)
					}
				}
			}
			return true
		})
	}
	c.Floor("stores into a wildcard container's Value", n, 6)
}

// permArgIsCallee: Manifest.CanCall hands the callee's manifest (its parameter) to Permission.IsAllowed.
func permArgIsCallee(c *Ctx) {
	fd := c.P.Func("pkg/smartcontract/manifest", "Manifest", "CanCall")
	key := "CanCall.matches-callee"
	if fd == nil {
		c.Lost(key+".anchor", "Manifest.CanCall not found")
		return
	}
	f := c.P.NewFuncCFG(fd)
	// the parameter of type *Manifest
	var callee types.Object
	for _, fl := range fd.Decl.Type.Params.List {
		if namedTypeIs(f.Info.TypeOf(fl.Type), "pkg/smartcontract/manifest", "Manifest") {
			for _, nm := range fl.Names {
				callee = f.Info.Defs[nm]
			}
		}
	}
	if callee == nil {
		c.Lost(key+".param", "Manifest.CanCall has no *Manifest parameter")
		return
	}
	n := 0
	ast.Inspect(fd.Decl.Body, func(x ast.Node) bool {
		call, ok := x.(*ast.CallExpr)
		if !ok || f.calleeSym(call) != "pkg/smartcontract/manifest.(*Permission).IsAllowed" {
			return true
		}
		n++
		okArg := false
		for _, a := range call.Args {
			if id, ok := ast.Unparen(a).(*ast.Ident); ok && f.Info.ObjectOf(id) == callee {
				okArg = true
			}
		}
		if okArg {
			c.OK(key, c.P.Pos(call.Pos()), "IsAllowed receives the manifest of the contract being called")
		} else {
			c.Fail(key, c.P.Pos(call.Pos()), "Manifest.CanCall does not pass the callee's manifest to Permission.IsAllowed: group permissions are then matched against some other contract's groups")
		}
		return true
	})
	if n == 0 {
		c.Lost(key+".site", "Manifest.CanCall no longer calls Permission.IsAllowed")
	}
}
