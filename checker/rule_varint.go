package main

import (
	"fmt"
	"go/ast"
	"go/constant"
	"go/token"
	"go/types"
	"sort"
	"strings"
)

// ---------------------------------------------------------------------------
// varint-agreement: the three functions that know the variable-length integer format - the writer
// (io.PutVarUint), the size estimator (the func(int) int that io.GetVarSize calls) and the reader
// (io.(*BinReader).ReadVarUint) - are straight decision chains over one integer. The rule folds each chain for
// the eight values around the format's borders (go/constant arithmetic over the source, no execution) and
// requires: the writer's width is the minimal one of the format; the estimator agrees with the writer wherever
// its argument type reaches; the reader, given the writer's prefix byte, reads exactly the payload the writer
// put. A border off by one (`<` for `<=`) makes Size() disagree with the encoding and the hash of a value
// depend on who encoded it.

type miniTrace struct {
	ret      constant.Value
	retCalls []string
	calls    []string
	stores   map[int64]constant.Value
	why      string // non-empty: could not be folded
}

type miniEval struct {
	info  *types.Info
	env   map[types.Object]constant.Value
	input constant.Value // value given to a call the chain reads its subject from (ReadB)
	inSym string
	flags *uint64 // when set: every non-constant callflag value is this set, X.Has(C) folds to flags&C == C
	lax   bool    // statements without a return inside (loops, switches) are skipped instead of giving up
	tr    *miniTrace
}

func (m *miniEval) calleeName(call *ast.CallExpr) string {
	switch fn := ast.Unparen(call.Fun).(type) {
	case *ast.Ident:
		return fn.Name
	case *ast.SelectorExpr:
		return fn.Sel.Name
	}
	return "?"
}

func (m *miniEval) collectCalls(e ast.Node, out *[]string) {
	ast.Inspect(e, func(x ast.Node) bool {
		if call, ok := x.(*ast.CallExpr); ok {
			if tv, ok := m.info.Types[call.Fun]; ok && tv.IsType() {
				return true
			}
			*out = append(*out, m.calleeName(call))
		}
		return true
	})
}

func (m *miniEval) eval(e ast.Expr) constant.Value {
	e = ast.Unparen(e)
	if tv, ok := m.info.Types[e]; ok && tv.Value != nil {
		return tv.Value
	}
	switch x := e.(type) {
	case *ast.Ident:
		return m.env[m.info.ObjectOf(x)]
	case *ast.CallExpr:
		if tv, ok := m.info.Types[x.Fun]; ok && tv.IsType() && len(x.Args) == 1 {
			return m.eval(x.Args[0]) // conversions keep the (in-range) value
		}
		if m.input != nil && m.calleeName(x) == m.inSym {
			return m.input
		}
		if m.flags != nil && m.calleeName(x) == "Has" && len(x.Args) == 1 {
			if se, ok := ast.Unparen(x.Fun).(*ast.SelectorExpr); ok {
				if t := m.info.TypeOf(se.X); t != nil && strings.HasSuffix(t.String(), "callflag.CallFlag") {
					if av := m.eval(x.Args[0]); av != nil {
						if mask, ok := constant.Uint64Val(constant.ToInt(av)); ok {
							return constant.MakeBool(*m.flags&mask == mask)
						}
					}
				}
			}
		}
	case *ast.UnaryExpr:
		if v := m.eval(x.X); v != nil {
			switch x.Op {
			case token.NOT:
				if v.Kind() == constant.Bool {
					return constant.MakeBool(!constant.BoolVal(v))
				}
			case token.SUB:
				return constant.UnaryOp(token.SUB, v, 0)
			}
		}
	case *ast.BinaryExpr:
		l, r := m.eval(x.X), m.eval(x.Y)
		if l == nil || r == nil {
			return nil
		}
		switch x.Op {
		case token.LSS, token.LEQ, token.GTR, token.GEQ, token.EQL, token.NEQ:
			if l.Kind() == constant.Bool || r.Kind() == constant.Bool {
				return nil
			}
			return constant.MakeBool(constant.Compare(l, x.Op, r))
		case token.LAND, token.LOR:
			if l.Kind() == constant.Bool && r.Kind() == constant.Bool {
				if x.Op == token.LAND {
					return constant.MakeBool(constant.BoolVal(l) && constant.BoolVal(r))
				}
				return constant.MakeBool(constant.BoolVal(l) || constant.BoolVal(r))
			}
		case token.ADD, token.SUB, token.MUL:
			if l.Kind() == constant.Int && r.Kind() == constant.Int {
				return constant.BinaryOp(l, x.Op, r)
			}
		case token.QUO, token.REM:
			if l.Kind() == constant.Int && r.Kind() == constant.Int && constant.Sign(r) != 0 {
				op := token.QUO_ASSIGN // go/constant: integer division
				if x.Op == token.REM {
					op = token.REM
				}
				return constant.BinaryOp(l, op, r)
			}
		}
	}
	return nil
}

// exec folds a statement list; it reports whether a return was reached.
func (m *miniEval) exec(list []ast.Stmt) bool {
	for _, st := range list {
		if m.tr.why != "" {
			return true
		}
		switch s := st.(type) {
		case *ast.ReturnStmt:
			if len(s.Results) == 1 {
				m.tr.ret = m.eval(s.Results[0])
				m.collectCalls(s.Results[0], &m.tr.retCalls)
			}
			return true
		case *ast.IfStmt:
			if s.Init != nil && m.exec([]ast.Stmt{s.Init}) {
				return true
			}
			cv := m.eval(s.Cond)
			if cv == nil || cv.Kind() != constant.Bool {
				// a condition over something else than the subject (an error latch): both arms must not matter;
				// take the fall-through when the body only returns a zero value
				if onlyBails(s.Body) && s.Else == nil {
					continue
				}
				if m.lax && !hasReturn(s) {
					m.collectCalls(s, &m.tr.calls)
					continue
				}
				m.tr.why = "condition not decided by the subject: " + types.ExprString(s.Cond)
				return true
			}
			if constant.BoolVal(cv) {
				if m.exec(s.Body.List) {
					return true
				}
			} else if s.Else != nil {
				switch e := s.Else.(type) {
				case *ast.BlockStmt:
					if m.exec(e.List) {
						return true
					}
				case *ast.IfStmt:
					if m.exec([]ast.Stmt{e}) {
						return true
					}
				}
			}
		case *ast.AssignStmt:
			for i, lhs := range s.Lhs {
				if i >= len(s.Rhs) {
					break
				}
				m.collectCalls(s.Rhs[i], &m.tr.calls)
				switch l := ast.Unparen(lhs).(type) {
				case *ast.Ident:
					if l.Name == "_" {
						continue
					}
					if v := m.eval(s.Rhs[i]); v != nil && (s.Tok == token.ASSIGN || s.Tok == token.DEFINE) {
						m.env[m.info.ObjectOf(l)] = v
					} else {
						delete(m.env, m.info.ObjectOf(l))
					}
				case *ast.IndexExpr:
					if iv := m.eval(l.Index); iv != nil && iv.Kind() == constant.Int {
						if k, ok := constant.Int64Val(iv); ok {
							if v := m.eval(s.Rhs[i]); v != nil {
								m.tr.stores[k] = v
							}
						}
					}
				}
			}
		case *ast.DeclStmt:
			gd, ok := s.Decl.(*ast.GenDecl)
			if !ok {
				continue
			}
			for _, sp := range gd.Specs {
				vs, ok := sp.(*ast.ValueSpec)
				if !ok {
					continue
				}
				for i, nm := range vs.Names {
					if i < len(vs.Values) {
						m.collectCalls(vs.Values[i], &m.tr.calls)
						if v := m.eval(vs.Values[i]); v != nil {
							m.env[m.info.ObjectOf(nm)] = v
						}
					}
				}
			}
		case *ast.ExprStmt:
			m.collectCalls(s.X, &m.tr.calls)
		case *ast.BlockStmt:
			if m.exec(s.List) {
				return true
			}
		case *ast.SwitchStmt:
			// tagless switch = if/else-if chain
			if s.Tag != nil || s.Init != nil {
				if m.lax && !hasReturn(st) {
					m.collectCalls(st, &m.tr.calls)
					continue
				}
				m.tr.why = "switch with a tag not folded"
				return true
			}
			var chosen *ast.CaseClause
			var deflt *ast.CaseClause
			undecided := false
			for _, cs := range s.Body.List {
				cc := cs.(*ast.CaseClause)
				if cc.List == nil {
					deflt = cc
					continue
				}
				for _, e := range cc.List {
					cv := m.eval(e)
					if cv == nil || cv.Kind() != constant.Bool {
						undecided = true
						break
					}
					if constant.BoolVal(cv) {
						chosen = cc
						break
					}
				}
				if chosen != nil || undecided {
					break
				}
			}
			if undecided {
				if m.lax && !hasReturn(st) {
					m.collectCalls(st, &m.tr.calls)
					continue
				}
				m.tr.why = "switch condition not decided by the subject"
				return true
			}
			if chosen == nil {
				chosen = deflt
			}
			if chosen != nil && m.exec(chosen.Body) {
				return true
			}
		default:
			if m.lax && !hasReturn(st) {
				m.collectCalls(st, &m.tr.calls)
				continue
			}
			m.tr.why = fmt.Sprintf("statement %T not folded", st)
			return true
		}
	}
	return false
}

func hasReturn(n ast.Node) bool {
	found := false
	inspectNoLit(n, func(x ast.Node) bool {
		if _, ok := x.(*ast.ReturnStmt); ok {
			found = true
		}
		return !found
	})
	return found
}

// onlyBails: the block is a single return (the `if r.Err != nil { return 0 }` latch).
func onlyBails(b *ast.BlockStmt) bool {
	if len(b.List) != 1 {
		return false
	}
	_, ok := b.List[0].(*ast.ReturnStmt)
	return ok
}

func foldChain(fd *FuncDecl, subject types.Object, v constant.Value, inSym string) *miniTrace {
	m := &miniEval{info: fd.Pkg.TypesInfo, env: map[types.Object]constant.Value{}, tr: &miniTrace{stores: map[int64]constant.Value{}}}
	if subject != nil {
		m.env[subject] = v
	} else {
		m.input, m.inSym = v, inSym
	}
	if !m.exec(fd.Decl.Body.List) && m.tr.why == "" {
		m.tr.why = "no return reached"
	}
	return m.tr
}

func canonicalWidth(v uint64) int64 {
	switch {
	case v < 0xfd:
		return 1
	case v <= 0xffff:
		return 3
	case v <= 0xffffffff:
		return 5
	}
	return 9
}

func ruleVarintAgreement(c *Ctx) {
	put := c.P.Func("pkg/io", "", "PutVarUint")
	rd := c.P.Func("pkg/io", "BinReader", "ReadVarUint")
	gvs := c.P.Func("pkg/io", "", "GetVarSize")
	if put == nil || rd == nil || gvs == nil {
		c.Lost("anchor", "io.PutVarUint, io.(*BinReader).ReadVarUint or io.GetVarSize not found")
		return
	}
	// the estimator: the func(int) int of package io that GetVarSize calls
	var est *FuncDecl
	ast.Inspect(gvs.Decl.Body, func(x ast.Node) bool {
		call, ok := x.(*ast.CallExpr)
		if !ok {
			return true
		}
		if id, ok := ast.Unparen(call.Fun).(*ast.Ident); ok {
			if fo, ok := gvs.Pkg.TypesInfo.ObjectOf(id).(*types.Func); ok && fo.Pkg() == gvs.Obj.Pkg() {
				sig := fo.Type().(*types.Signature)
				if sig.Params().Len() == 1 && sig.Results().Len() == 1 && types.Identical(sig.Params().At(0).Type(), types.Typ[types.Int]) && types.Identical(sig.Results().At(0).Type(), types.Typ[types.Int]) {
					est = c.P.DeclOf(fo)
				}
			}
		}
		return true
	})
	if est == nil {
		c.Lost("anchor", "the func(int) int length-prefix estimator called by io.GetVarSize not found")
		return
	}
	// the writer's subject is its only integer parameter
	subjOf := func(fd *FuncDecl) types.Object {
		sig := fd.Obj.Type().(*types.Signature)
		for i := 0; i < sig.Params().Len(); i++ {
			if b, ok := sig.Params().At(i).Type().Underlying().(*types.Basic); ok && b.Info()&types.IsInteger != 0 {
				return sig.Params().At(i)
			}
		}
		return nil
	}
	putSubj, estSubj := subjOf(put), subjOf(est)
	if putSubj == nil || estSubj == nil {
		c.Lost("anchor", "integer parameter of the varint writer/estimator not found")
		return
	}
	borders := []uint64{0, 0xfc, 0xfd, 0xfe, 0xff, 0x100, 0xfffe, 0xffff, 0x10000, 0x10001, 0xfffffffe, 0xffffffff, 0x100000000, 0x100000001, 0x7fffffffffffffff, 0xffffffffffffffff}
	payloadBytes := map[string]int64{"PutUint16": 2, "PutUint32": 4, "PutUint64": 8, "ReadU16LE": 2, "ReadU32LE": 4, "ReadU64LE": 8}
	type form struct {
		prefix int64
		bytes  int64
	}
	forms := map[int64]form{} // width -> writer's prefix and payload
	n := 0
	for _, v := range borders {
		cv := constant.MakeUint64(v)
		key := fmt.Sprintf("width(%#x)", v)
		w := foldChain(put, putSubj, cv, "")
		if w.why != "" || w.ret == nil {
			c.Unclassified(key, c.P.Pos(put.Decl.Pos()), "writer chain not folded: "+w.why)
			continue
		}
		n++
		ww, _ := constant.Int64Val(w.ret)
		want := canonicalWidth(v)
		if ww != want {
			c.Fail(key, c.P.Pos(put.Decl.Pos()), fmt.Sprintf("%s writes %#x in %d bytes; the format's (minimal) width is %d: the border comparison is off, so the size and hash of a value holding that count differ from every other implementation's and from io.GetVarSize", FuncKey(put.Obj), v, ww, want))
			continue
		}
		// payload put by the writer on that path
		var pb int64
		for _, cn := range w.calls {
			pb += payloadBytes[cn]
		}
		if ww > 1 {
			pv, ok := w.stores[0]
			if !ok {
				c.Unclassified(key, c.P.Pos(put.Decl.Pos()), "prefix byte store not found on the writer's path")
				continue
			}
			p, _ := constant.Int64Val(constant.ToInt(pv))
			forms[ww] = form{p, pb}
			if pb != ww-1 {
				c.Fail(key, c.P.Pos(put.Decl.Pos()), fmt.Sprintf("%s returns width %d for %#x but puts a %d-byte payload after the prefix", FuncKey(put.Obj), ww, v, pb))
				continue
			}
		}
		msg := fmt.Sprintf("writer: %#x -> %d bytes (minimal)", v, ww)
		if v <= 0xffffffff { // the estimator takes an int: 32 bits are always representable
			e := foldChain(est, estSubj, cv, "")
			if e.why != "" || e.ret == nil {
				c.Unclassified(key, c.P.Pos(est.Decl.Pos()), "estimator chain not folded: "+e.why)
				continue
			}
			ew, _ := constant.Int64Val(e.ret)
			if ew != ww {
				c.Fail(key, c.P.Pos(est.Decl.Pos()), fmt.Sprintf("%s estimates %d bytes for the count %#x while %s writes %d: Size() of a value with that many elements differs from the length of its encoding", FuncKey(est.Obj), ew, v, FuncKey(put.Obj), ww))
				continue
			}
			msg += fmt.Sprintf("; estimator agrees (%d)", ew)
		}
		c.OK(key, c.P.Pos(put.Decl.Pos()), msg)
	}
	// the reader: for each multi-byte form, given the writer's prefix, it reads the writer's payload
	widths := []int64{}
	for w := range forms {
		widths = append(widths, w)
	}
	sort.Slice(widths, func(i, j int) bool { return widths[i] < widths[j] })
	for _, w := range widths {
		fm := forms[w]
		key := fmt.Sprintf("reader(prefix %#x)", fm.prefix)
		r := foldChain(rd, nil, constant.MakeInt64(fm.prefix), "ReadB")
		if r.why != "" {
			c.Unclassified(key, c.P.Pos(rd.Decl.Pos()), "reader chain not folded: "+r.why)
			continue
		}
		var rb int64
		for _, cn := range append(append([]string{}, r.calls...), r.retCalls...) {
			rb += payloadBytes[cn]
		}
		n++
		if rb != fm.bytes {
			c.Fail(key, c.P.Pos(rd.Decl.Pos()), fmt.Sprintf("%s reads %d payload bytes after prefix %#x; the writer puts %d", FuncKey(rd.Obj), rb, fm.prefix, fm.bytes))
		} else {
			c.OK(key, c.P.Pos(rd.Decl.Pos()), fmt.Sprintf("reader takes %d payload bytes after prefix %#x, as the writer puts", rb, fm.prefix))
		}
	}
	// a single-byte value is returned as is
	r := foldChain(rd, nil, constant.MakeInt64(0xfc), "ReadB")
	if r.why == "" && r.ret != nil {
		if got, _ := constant.Int64Val(constant.ToInt(r.ret)); got == 0xfc {
			n++
			c.OK("reader(single byte)", c.P.Pos(rd.Decl.Pos()), "a byte below the first prefix is the value itself")
		} else {
			c.Fail("reader(single byte)", c.P.Pos(rd.Decl.Pos()), fmt.Sprintf("%s turns the single byte 0xfc into %d", FuncKey(rd.Obj), got))
		}
	} else {
		c.Unclassified("reader(single byte)", c.P.Pos(rd.Decl.Pos()), "reader chain not folded for a single-byte value: "+r.why)
	}
	c.Floor("varint border evaluations", n, len(borders)+4)
}

// ---------------------------------------------------------------------------
// signed-count: a count decoded as an unsigned 64-bit integer and converted to a signed type BEFORE it is
// compared with its limit can be negative (2^64-1 becomes -1): it passes every `n > limit` test, then sizes a
// make (panic), bounds a loop (silently empty) or is handed to a reader as its maximum (where it turns back
// into 2^64-1 and switches the limit off). Such a conversion must either happen after an ordering comparison
// of the unsigned value, or be followed by a test of the signed value against zero.

func ruleSignedCount(c *Ctx) {
	var fds []*FuncDecl
	for _, fd := range c.P.AllFuncDecls() {
		if fd.Decl.Body == nil || !InModule(fd.Obj.Pkg()) {
			continue
		}
		takes := false
		sig := fd.Obj.Type().(*types.Signature)
		chk := func(t types.Type) {
			if strings.HasSuffix(t.String(), "pkg/io.BinReader") {
				takes = true
			}
		}
		for i := 0; i < sig.Params().Len(); i++ {
			chk(sig.Params().At(i).Type())
		}
		if sig.Recv() != nil {
			chk(sig.Recv().Type())
			// decoders that keep the reader in a field (stackitem's deserialisation context)
			if pt, ok := sig.Recv().Type().(*types.Pointer); ok {
				if st, ok := pt.Elem().Underlying().(*types.Struct); ok {
					for i := 0; i < st.NumFields(); i++ {
						if st.Field(i).Embedded() {
							chk(st.Field(i).Type())
						}
					}
				}
			}
		}
		if takes {
			fds = append(fds, fd)
		}
	}
	wide := map[string]bool{"pkg/io.(*BinReader).ReadVarUint": true, "pkg/io.(*BinReader).ReadU64LE": true}
	nconv, ncount := 0, 0
	for _, fd := range fds {
		f := c.P.NewFuncCFG(fd)
		info := fd.Pkg.TypesInfo
		k := 0
		for _, b := range f.G.Blocks {
			if !b.Live {
				continue
			}
			for _, nd := range b.Nodes {
				inspectNoLit(nd, func(x ast.Node) bool {
					call, ok := x.(*ast.CallExpr)
					if !ok || len(call.Args) != 1 {
						return true
					}
					tv, ok := info.Types[call.Fun]
					if !ok || !tv.IsType() {
						return true
					}
					to, ok := tv.Type.Underlying().(*types.Basic)
					if !ok || to.Info()&types.IsInteger == 0 || to.Info()&types.IsUnsigned != 0 {
						return true
					}
					from, ok := info.TypeOf(call.Args[0]).Underlying().(*types.Basic)
					if !ok || (from.Kind() != types.Uint64 && from.Kind() != types.Uint && from.Kind() != types.Uintptr) {
						return true
					}
					m := f.Mentions(call.Args[0], b)
					dec := false
					for r := range wide {
						if m[r] {
							dec = true
						}
					}
					if !dec {
						return true
					}
					nconv++
					// the signed result
					var sv types.Object
					if as, ok := nd.(*ast.AssignStmt); ok && len(as.Lhs) == 1 && len(as.Rhs) == 1 && ast.Unparen(as.Rhs[0]) == ast.Expr(call) {
						if id, ok := as.Lhs[0].(*ast.Ident); ok {
							sv = info.ObjectOf(id)
						}
					}
					// (a) the unsigned operand was compared before the conversion
					if id, ok := ast.Unparen(call.Args[0]).(*ast.Ident); ok {
						if uv, ok := info.ObjectOf(id).(*types.Var); ok && !uv.IsField() {
							sym := "local:" + uv.Name()
							if f.params[uv] {
								sym = "param:" + uv.Name()
							}
							res := f.CheckGate(f.Entry(), map[*cfgBlock]bool{b: true}, Guard{ID: "ubound", Doc: "unsigned count compared with its limit", Alts: [][]string{{sym}}, WholeOpen: true}, nil)
							if res.OK {
								for _, gp := range res.GatePos {
									if strings.ContainsAny(gp, "<>") {
										k++
										ncount++
										c.OK(fmt.Sprintf("%s.conv#%d", FuncKey(fd.Obj), k), c.P.Pos(call.Pos()), "the unsigned count is compared with its limit before it is converted: "+gp)
										return true
									}
								}
							}
						}
					}
					if sv == nil {
						return true // not kept: a position, an argument; nothing is bounded by it here
					}
					// is the signed value used as a count? (make size, range/loop bound, upper-bound test, reader maximum)
					asCount, zeroTest := "", ""
					ast.Inspect(fd.Decl.Body, func(y ast.Node) bool {
						mentions := func(e ast.Expr) bool {
							hit := false
							ast.Inspect(e, func(z ast.Node) bool {
								if id, ok := z.(*ast.Ident); ok && info.ObjectOf(id) == sv {
									hit = true
								}
								return true
							})
							return hit
						}
						switch y := y.(type) {
						case *ast.CallExpr:
							if id, ok := ast.Unparen(y.Fun).(*ast.Ident); ok && id.Name == "make" && len(y.Args) >= 2 {
								for _, a := range y.Args[1:] {
									if mentions(a) {
										asCount = "sizes make at " + c.P.Pos(y.Pos())
									}
								}
							} else if cs := f.calleeSym(y); strings.HasPrefix(cs, "pkg/io.(*BinReader).Read") {
								for _, a := range y.Args {
									if mentions(a) && asCount == "" {
										asCount = "is the maximum given to " + shortSym(cs) + " at " + c.P.Pos(y.Pos())
									}
								}
							}
						case *ast.RangeStmt:
							if mentions(y.X) && asCount == "" {
								asCount = "bounds the loop at " + c.P.Pos(y.Pos())
							}
						case *ast.ForStmt:
							if y.Cond != nil && mentions(y.Cond) && asCount == "" {
								asCount = "bounds the loop at " + c.P.Pos(y.Pos())
							}
						case *ast.BinaryExpr:
							switch y.Op {
							case token.LSS, token.LEQ, token.GTR, token.GEQ:
								xv, yv := info.Types[y.X].Value, info.Types[y.Y].Value
								isZero := func(v constant.Value) bool { return v != nil && v.Kind() == constant.Int && constant.Sign(v) == 0 }
								if id, ok := ast.Unparen(y.X).(*ast.Ident); ok && info.ObjectOf(id) == sv && isZero(yv) && (y.Op == token.LSS || y.Op == token.GEQ) {
									zeroTest = c.P.Pos(y.Pos())
								} else if id, ok := ast.Unparen(y.Y).(*ast.Ident); ok && info.ObjectOf(id) == sv && isZero(xv) && (y.Op == token.GTR || y.Op == token.LEQ) {
									zeroTest = c.P.Pos(y.Pos())
								} else if (mentions(y.X) || mentions(y.Y)) && asCount == "" {
									asCount = "is compared with a limit at " + c.P.Pos(y.Pos())
								}
							}
						}
						return true
					})
					if asCount == "" {
						return true
					}
					k++
					ncount++
					key := fmt.Sprintf("%s.conv#%d", FuncKey(fd.Obj), k)
					if zeroTest != "" {
						c.OK(key, c.P.Pos(call.Pos()), fmt.Sprintf("%s %s; negative values are rejected by the test at %s", sv.Name(), asCount, zeroTest))
					} else {
						c.Fail(key, c.P.Pos(call.Pos()), fmt.Sprintf("%s converts a decoded 64-bit unsigned count to %s before any comparison and %s %s, with no test of %s against zero: a count of 2^64-1 becomes -1, passes every upper-bound test, and then panics in make, empties the loop, or - as a reader maximum - turns the limit off", FuncKey(fd.Obj), to.Name(), sv.Name(), asCount, sv.Name()))
					}
					return true
				})
			}
		}
	}
	c.Note("%d decoders, %d signed conversions of decoded 64-bit values, %d used as counts", len(fds), nconv, ncount)
	c.Floor("decoders reaching a BinReader", len(fds), 60)
	c.Floor("signed conversions of decoded 64-bit counts", ncount, 3)
}
