package main

import (
	"fmt"
	"go/ast"
	"go/token"
	"go/types"
	"os"
	"strings"
)

// loop-memo: a value built once inside a loop (`if v == nil { v = make(..); copy(v, w) }`) and reused by later
// iterations must not be derived from data the loop changes between iterations: the second iteration would work with
// what the first one saw. Decided for lazily initialised locals of the scanned packages: the initialising block must
// not read a variable that the same loop body writes (assignment, element store, copy/append target) outside that block.
func ruleLoopMemo(c *Ctx, pkgs ...string) {
	want := map[string]bool{}
	for _, p := range pkgs {
		want[p] = true
	}
	n := 0
	for _, fd := range c.P.AllFuncDecls() {
		if !want[pkgRel(fd.Pkg.Types)] || fd.Decl.Body == nil {
			continue
		}
		info := fd.Pkg.TypesInfo
		idx := 0
		ast.Inspect(fd.Decl.Body, func(x ast.Node) bool {
			var body *ast.BlockStmt
			switch l := x.(type) {
			case *ast.ForStmt:
				body = l.Body
			case *ast.RangeStmt:
				body = l.Body
			default:
				return true
			}
			// variables written in the loop body: assigned, element-stored, copy destination
			written := map[types.Object][]ast.Node{}
			mark := func(e ast.Expr, at ast.Node) {
				for {
					switch y := ast.Unparen(e).(type) {
					case *ast.IndexExpr:
						e = y.X
						continue
					case *ast.SliceExpr:
						e = y.X
						continue
					case *ast.Ident:
						if o, ok := info.ObjectOf(y).(*types.Var); ok && !o.IsField() {
							written[o] = append(written[o], at)
						}
					}
					return
				}
			}
			ast.Inspect(body, func(y ast.Node) bool {
				if _, ok := y.(*ast.FuncLit); ok {
					return false
				}
				switch s := y.(type) {
				case *ast.AssignStmt:
					if s.Tok != token.DEFINE {
						for _, l := range s.Lhs {
							mark(l, s)
						}
					}
				case *ast.CallExpr:
					if id, ok := ast.Unparen(s.Fun).(*ast.Ident); ok && id.Name == "copy" && len(s.Args) == 2 {
						if _, isBuiltin := info.ObjectOf(id).(*types.Builtin); isBuiltin {
							mark(s.Args[0], s)
						}
					}
				}
				return true
			})
			// lazy initialisations: if v == nil { ... v = ... }
			ast.Inspect(body, func(y ast.Node) bool {
				is, ok := y.(*ast.IfStmt)
				if !ok {
					return true
				}
				be, ok := ast.Unparen(is.Cond).(*ast.BinaryExpr)
				if !ok || be.Op != token.EQL {
					return true
				}
				var vid *ast.Ident
				if isNilIdent(info, be.Y) {
					vid, _ = ast.Unparen(be.X).(*ast.Ident)
				} else if isNilIdent(info, be.X) {
					vid, _ = ast.Unparen(be.Y).(*ast.Ident)
				}
				if vid == nil {
					return true
				}
				v, ok := info.ObjectOf(vid).(*types.Var)
				if !ok || v.IsField() {
					return true
				}
				// declared outside the loop and assigned inside the if
				if v.Pos() >= body.Pos() && v.Pos() <= body.End() {
					return true
				}
				assigns := false
				ast.Inspect(is.Body, func(z ast.Node) bool {
					if as, ok := z.(*ast.AssignStmt); ok {
						for _, l := range as.Lhs {
							if id, ok := l.(*ast.Ident); ok && info.ObjectOf(id) == v {
								assigns = true
							}
						}
					}
					return true
				})
				if !assigns {
					return true
				}
				n++
				idx++
				key := fmt.Sprintf("%s.memo#%d", FuncKey(fd.Obj), idx)
				var stale []string
				lhs := map[*ast.Ident]bool{}
				ast.Inspect(is.Body, func(z ast.Node) bool {
					if as, ok := z.(*ast.AssignStmt); ok {
						for _, l := range as.Lhs {
							if id, ok := l.(*ast.Ident); ok {
								lhs[id] = true
							}
						}
					}
					return true
				})
				ast.Inspect(is.Body, func(z ast.Node) bool {
					id, ok := z.(*ast.Ident)
					if !ok || lhs[id] {
						return true
					}
					o, ok := info.ObjectOf(id).(*types.Var)
					if !ok || o == v || isErrorType(o.Type()) {
						return true
					}
					for _, w := range written[o] {
						if !containsNode(is.Body, w) {
							stale = append(stale, o.Name())
							break
						}
					}
					return true
				})
				if len(stale) > 0 {
					if os.Getenv("NV_MEMO") != "" {
						fmt.Println("MEMO", c.P.Pos(is.Pos()), FuncKey(fd.Obj), v.Name(), stale)
					}
					c.Fail(key, c.P.Pos(is.Pos()), fmt.Sprintf("%s initialises %s once inside a loop from %s, which the loop body changes between iterations: later iterations reuse what the first one saw", FuncKey(fd.Obj), v.Name(), strings.Join(dedup(stale), ", ")))
				} else {
					c.OK(key, c.P.Pos(is.Pos()), v.Name()+" is initialised once from data the loop does not change")
				}
				return true
			})
			return true
		})
	}
	c.OK("scope."+strings.Join(pkgs, "+"), "", fmt.Sprintf("%d lazy initialisations inside loops examined", n))
}

func dedup(xs []string) []string {
	seen := map[string]bool{}
	var out []string
	for _, x := range xs {
		if !seen[x] {
			seen[x] = true
			out = append(out, x)
		}
	}
	return out
}
