package main

import (
	"fmt"
	"go/ast"
	"go/importer"
	"go/parser"
	"go/token"
	"go/types"
)

// sameExpr: both expressions are the same side-effect-free expression after resolution.
func sameExpr(info *types.Info, a, b ast.Expr) bool {
	a, b = ast.Unparen(a), ast.Unparen(b)
	switch x := a.(type) {
	case *ast.Ident:
		y, ok := b.(*ast.Ident)
		if !ok {
			return false
		}
		ox, oy := info.ObjectOf(x), info.ObjectOf(y)
		if ox == nil || oy == nil {
			return false
		}
		if _, isNil := ox.(*types.Nil); isNil {
			return false
		}
		if _, isConst := ox.(*types.Const); isConst {
			return false // comparing two constants is not the defect we look for
		}
		return ox == oy
	case *ast.SelectorExpr:
		y, ok := b.(*ast.SelectorExpr)
		if !ok {
			return false
		}
		if info.ObjectOf(x.Sel) == nil || info.ObjectOf(x.Sel) != info.ObjectOf(y.Sel) {
			return false
		}
		// package-qualified identifier
		if id, ok := x.X.(*ast.Ident); ok {
			if _, isPkg := info.ObjectOf(id).(*types.PkgName); isPkg {
				if _, isConst := info.ObjectOf(x.Sel).(*types.Const); isConst {
					return false
				}
				id2, ok := y.X.(*ast.Ident)
				return ok && info.ObjectOf(id) == info.ObjectOf(id2)
			}
		}
		return sameExpr(info, x.X, y.X)
	case *ast.StarExpr:
		y, ok := b.(*ast.StarExpr)
		return ok && sameExpr(info, x.X, y.X)
	case *ast.UnaryExpr:
		y, ok := b.(*ast.UnaryExpr)
		return ok && x.Op == y.Op && x.Op != token.ARROW && sameExpr(info, x.X, y.X)
	case *ast.IndexExpr:
		y, ok := b.(*ast.IndexExpr)
		return ok && sameExpr(info, x.X, y.X) && sameIndex(info, x.Index, y.Index)
	case *ast.CallExpr:
		// zero-argument method calls on identical receivers (accessors such as tx.Hash())
		y, ok := b.(*ast.CallExpr)
		if !ok || len(x.Args) != 0 || len(y.Args) != 0 {
			return false
		}
		sx, ok1 := x.Fun.(*ast.SelectorExpr)
		sy, ok2 := y.Fun.(*ast.SelectorExpr)
		if !ok1 || !ok2 {
			return false
		}
		if _, isFunc := info.ObjectOf(sx.Sel).(*types.Func); !isFunc {
			return false
		}
		return sameExpr(info, sx, sy)
	}
	return false
}

func sameIndex(info *types.Info, a, b ast.Expr) bool {
	if sameExpr(info, a, b) {
		return true
	}
	ta, tb := info.Types[a], info.Types[b]
	if ta.Value != nil && tb.Value != nil {
		return ta.Value.ExactString() == tb.Value.ExactString()
	}
	return false
}

var cmpMethodNames = map[string]bool{"Equals": true, "Equal": true, "Cmp": true, "Compare": true, "CompareTo": true, "CmpAbs": true, "Less": true, "Eq": true, "Lt": true, "Gt": true}
var cmpFuncs = map[string]bool{"bytes.Equal": true, "bytes.Compare": true, "slices.Equal": true, "slices.Compare": true, "strings.Compare": true, "strings.EqualFold": true, "reflect.DeepEqual": true, "cmp.Compare": true, "subtle.ConstantTimeCompare": true}

type tautHit struct {
	pos  token.Pos
	what string
	fn   string
	n    int
}

// findTautologies scans files; returns hits and the number of comparisons examined.
func findTautologies(info *types.Info, files []*ast.File) (hits []tautHit, examined int) {
	for _, f := range files {
		var fnStack []string
		perFn := map[string]int{}
		ast.Inspect(f, func(n ast.Node) bool {
			switch x := n.(type) {
			case *ast.FuncDecl:
				name := x.Name.Name
				if obj, ok := info.Defs[x.Name].(*types.Func); ok {
					name = FuncKey(obj)
				}
				fnStack = []string{name}
			case *ast.BinaryExpr:
				switch x.Op {
				case token.EQL, token.NEQ, token.LSS, token.LEQ, token.GTR, token.GEQ:
					examined++
					if sameExpr(info, x.X, x.Y) {
						fn := "?"
						if len(fnStack) > 0 {
							fn = fnStack[0]
						}
						perFn[fn]++
						hits = append(hits, tautHit{x.Pos(), types.ExprString(x), fn, perFn[fn]})
					}
				}
			case *ast.CallExpr:
				sel, ok := x.Fun.(*ast.SelectorExpr)
				if !ok {
					return true
				}
				fo, ok := info.ObjectOf(sel.Sel).(*types.Func)
				if !ok {
					return true
				}
				var l, r ast.Expr
				sig := fo.Type().(*types.Signature)
				if sig.Recv() != nil && len(x.Args) == 1 && cmpMethodNames[fo.Name()] {
					l, r = sel.X, x.Args[0]
				} else if sig.Recv() == nil && len(x.Args) == 2 && fo.Pkg() != nil && cmpFuncs[fo.Pkg().Name()+"."+fo.Name()] {
					l, r = x.Args[0], x.Args[1]
				} else {
					return true
				}
				examined++
				same := sameExpr(info, l, r)
				if !same {
					// a.Equals(*a) / (&a).Equals(a)
					if u, ok := ast.Unparen(r).(*ast.StarExpr); ok {
						same = sameExpr(info, l, u.X)
					} else if u, ok := ast.Unparen(r).(*ast.UnaryExpr); ok && u.Op == token.AND {
						same = sameExpr(info, l, u.X)
					}
				}
				if same {
					fn := "?"
					if len(fnStack) > 0 {
						fn = fnStack[0]
					}
					perFn[fn]++
					hits = append(hits, tautHit{x.Pos(), types.ExprString(x), fn, perFn[fn]})
				}
			}
			return true
		})
	}
	return
}

const tautologyControl = `package ctl
type H [4]byte
func (h H) Equals(o H) bool { return h == o }
type P struct{ primary, secondary H }
func f(p, q P) bool {
	if q.secondary.Equals(q.secondary) { return true } // must be reported
	if p.secondary.Equals(q.secondary) { return true } // must not
	return p.primary == p.primary                       // must be reported
}
`

func ruleTautology(c *Ctx) {
	// positive control: the detector must fire on a tiny package on every run
	{
		fset := token.NewFileSet()
		f, err := parser.ParseFile(fset, "ctl.go", tautologyControl, 0)
		info := &types.Info{Types: map[ast.Expr]types.TypeAndValue{}, Defs: map[*ast.Ident]types.Object{}, Uses: map[*ast.Ident]types.Object{}, Selections: map[*ast.SelectorExpr]*types.Selection{}}
		if err == nil {
			_, err = (&types.Config{Importer: importer.Default()}).Check("ctl", fset, []*ast.File{f}, info)
		}
		hits, _ := findTautologies(info, []*ast.File{f})
		if err != nil || len(hits) != 2 {
			c.Lost("positive-control", fmt.Sprintf("detector reported %d of 2 seeded self-comparisons in the control package (err=%v)", len(hits), err))
		} else {
			c.OK("positive-control", "checker/rule_tautology.go", "detector fires on the 2 seeded self-comparisons of the control package and not on the correct one")
		}
	}
	total := 0
	for _, pk := range c.P.Pkgs {
		hits, ex := findTautologies(pk.TypesInfo, pk.Syntax)
		total += ex
		for _, h := range hits {
			c.Fail(fmt.Sprintf("%s#%d", h.fn, h.n), c.P.Pos(h.pos),
				fmt.Sprintf("comparison of an expression with itself: %s (always the same answer; one operand was meant to be something else)", h.what))
		}
		if len(hits) == 0 && ex > 0 {
			c.OK("pkg:"+pk.PkgPath[len(modPath):], pk.PkgPath, fmt.Sprintf("%d comparisons, none compares an expression with itself", ex))
		}
	}
	c.Floor("comparisons", total, 3000)
}
