package main

import (
	"fmt"
	"go/ast"
	"go/types"
	"sort"
	"strings"

	"golang.org/x/tools/go/ssa"
)

var fnExecute = [3]string{"pkg/vm", "VM", "execute"}

// ---------------------------------------------------------------------------
// C12 limit-guards

func ruleLimitGuards(c *Ctx) {
	allocAfterBound(c)
	bufferByteRange(c)
	runGates(c, []GateSpec{
		{ID: "NEWBUFFER.make", Fn: fnExecute, Arm: "NEWBUFFER", Target: "call:builtin.make",
			Guards: []Guard{{ID: "max-size", Doc: "buffer size is compared with stackitem.MaxSize before allocation", Alts: [][]string{{"pkg/vm/stackitem.MaxSize"}}}}},
		{ID: "CAT.make", Fn: fnExecute, Arm: "CAT", Target: "call:builtin.make",
			Guards: []Guard{{ID: "max-size", Doc: "concatenated length is compared with stackitem.MaxSize before allocation", Alts: [][]string{{"pkg/vm/stackitem.MaxSize", "builtin.len"}}}}},
		{ID: "SHL.shift", Fn: fnExecute, Arm: "SHL", Target: "call:math/big.(*Int).Lsh|math/big.(*Int).Rsh", MinSites: 2,
			Guards: []Guard{{ID: "max-shift", Doc: "shift amount is compared with maxSHLArg", Alts: [][]string{{"pkg/vm.maxSHLArg"}}}}},
		{ID: "POW.exp", Fn: fnExecute, Arm: "POW", Target: "call:math/big.(*Int).Exp",
			Guards: []Guard{{ID: "max-exponent", Doc: "exponent is compared with maxSHLArg", Alts: [][]string{{"pkg/vm.maxSHLArg"}}}}},
		{ID: "TRY.push", Fn: fnExecute, Arm: "TRY", Target: "call:pkg/vm.(*Stack).PushItem@pkg/vm#tryStack",
			Guards: []Guard{{ID: "max-try-depth", Doc: "try nesting depth is compared with MaxTryNestingDepth before a handler is pushed", Alts: [][]string{{"pkg/vm.MaxTryNestingDepth", "pkg/vm#tryStack"}}}}},
		{ID: "NEWARRAY.alloc", Fn: fnExecute, Arm: "NEWARRAY", Target: "call:pkg/vm.makeArrayOfType",
			Guards: []Guard{{ID: "max-elements", Doc: "element count is compared with MaxStackSize before allocation", Alts: [][]string{{"pkg/vm.MaxStackSize"}}}}},
		{ID: "checkInvocationStackSize", Fn: [3]string{"pkg/vm", "VM", "checkInvocationStackSize"}, Target: "ok-return",
			Guards: []Guard{{ID: "max-invocations", Doc: "invocation depth is compared with MaxInvocationStackSize and exceeding it panics", Alts: [][]string{{"pkg/vm.MaxInvocationStackSize", "pkg/vm#istack"}}}}},
	})
	// every growth of the invocation stack is preceded by the depth check
	pk := c.P.Pkg("pkg/vm")
	if pk == nil {
		c.Lost("anchor", "pkg/vm not found")
		return
	}
	ngrow := 0
	for _, fd := range c.P.AllFuncDecls() {
		if fd.Pkg != pk || fd.Decl.Body == nil {
			continue
		}
		f := c.P.NewFuncCFG(fd)
		var grow []site
		for _, s := range f.WriteSites("pkg/vm#istack") {
			if as, ok := s.node.(*ast.AssignStmt); ok && len(as.Rhs) == 1 && f.Mentions(as.Rhs[0], nil)["builtin.append"] {
				grow = append(grow, s)
			}
		}
		if len(grow) == 0 {
			continue
		}
		ngrow += len(grow)
		ok, path := f.CheckMustCall(f.Entry(), blocksOf(grow), nil, "pkg/vm.(*VM).checkInvocationStackSize")
		key := FuncKey(fd.Obj) + ".istack-growth"
		if ok {
			c.OK(key, c.P.Pos(grow[0].node.Pos()), "append to the invocation stack is preceded by checkInvocationStackSize on every path")
		} else {
			c.Fail(key, c.P.Pos(grow[0].node.Pos()), FuncKey(fd.Obj)+" grows the invocation stack on a path that did not pass checkInvocationStackSize (1024-invocation limit)", path...)
		}
	}
	c.Floor("invocation-stack growth sites", ngrow, 2)
}

// ---------------------------------------------------------------------------
// C12 gas-before-dispatch

func ruleGasBeforeDispatch(c *Ctx) {
	charged := &Assume{Conds: []AssumeCond{
		{Mentions: []string{"pkg/vm#getPrice"}, Val: true},
		{Mentions: []string{"pkg/vm#prog", "pkg/smartcontract/scparser.(*Context).IP"}, Val: true},
		{Mentions: []string{"pkg/vm#whitelisted"}, Val: false},
	}}
	runGates(c, []GateSpec{{
		ID: "execute.dispatch", Fn: fnExecute, Target: "call:pkg/vm.(*Stack).PushItem|pkg/vm.(*Stack).Pop|pkg/vm.(*Stack).pushItemCounted", MinSites: 100,
		Assume: charged,
		Guards: []Guard{{ID: "gas-limit", Doc: "consumed gas is compared with the limit (and exceeding it faults) before any instruction touches the stack", Whole: true,
			Alts: [][]string{{"pkg/vm#gasLimit", "pkg/vm#gasConsumed"}}, Extra: []string{"github.com/holiman/uint256.(*Int).GtUint64", "github.com/holiman/uint256.(*Int).Gt", "github.com/holiman/uint256.(*Int).Cmp"}}},
		MustCall: [][]string{{"pkg/vm#getPrice"}, {"github.com/holiman/uint256.(*Int).AddUint64"}},
	}})
}

// ---------------------------------------------------------------------------
// C12 panic-scope

func rulePanicScope(c *Ctx) {
	ex := c.P.Func(fnExecute[0], fnExecute[1], fnExecute[2])
	if ex == nil {
		c.Lost("anchor", "vm.execute not found")
		return
	}
	f := c.P.NewFuncCFG(ex)
	// (a) first statement: deferred closure with recover + stack size check, both branches fault
	okFirst := false
	if len(ex.Decl.Body.List) > 0 {
		if ds, ok := ex.Decl.Body.List[0].(*ast.DeferStmt); ok {
			if lit, ok := ds.Call.Fun.(*ast.FuncLit); ok {
				m := map[string]bool{}
				ast.Inspect(lit, func(n ast.Node) bool {
					if id, ok := n.(*ast.Ident); ok {
						if o := f.Info.ObjectOf(id); o != nil {
							if s := symOf(o); s != "" {
								m[s] = true
							}
						}
					}
					return true
				})
				if m["builtin.recover"] && m["pkg/vm#refs"] && m["pkg/vm.MaxStackSize"] && m["pkg/vm/vmstate.Fault"] {
					okFirst = true
				}
			}
		}
	}
	if okFirst {
		c.OK("execute.recover-first", c.P.Pos(ex.Decl.Body.Pos()), "the first statement of execute defers the closure that recovers any panic into FAULT and checks refs against MaxStackSize")
	} else {
		c.Fail("execute.recover-first", c.P.Pos(ex.Decl.Body.Pos()), "execute no longer starts by deferring the recover + MaxStackSize closure: a panic in an instruction (or in pricing) would escape, or the item limit would not be enforced after every instruction")
	}
	// (b) execute is entered only from step/StepInto
	g := c.P.MRG()
	exFn := c.P.SSAFunc(ex.Obj)
	callers := map[string]bool{}
	for _, e := range g.Nodes[exFn].In {
		if e.Caller.Fn.Synthetic != "" && len(e.Caller.In) == 0 {
			continue // unused compiler-generated wrapper
		}
		callers[FnKey(e.Caller.Fn)] = true
	}
	want := map[string]bool{"pkg/vm.(*VM).step": true, "pkg/vm.(*VM).StepInto": true}
	if d := setDiff(callers, want); len(d) > 0 {
		c.Fail("execute.callers", c.P.Pos(ex.Decl.Pos()), fmt.Sprintf("execute is called from %v besides step/StepInto", d))
	} else {
		c.OK("execute.callers", c.P.Pos(ex.Decl.Pos()), "execute is entered only from step and StepInto")
	}
	// (c) outside execute, nothing reachable from Run/Step/StepInto/StepOut/StepOver in pkg/vm + scparser panics explicitly
	var roots []*ssa.Function
	for _, n := range []string{"Run", "Step", "StepInto", "StepOut", "StepOver"} {
		if fd := c.P.Func("pkg/vm", "VM", n); fd != nil {
			roots = append(roots, c.P.SSAFunc(fd.Obj))
		}
	}
	via := g.Reach(roots, func(e *MEdge) bool { return e.Callee.Fn == exFn })
	var fns []*ssa.Function
	for fn := range via {
		fns = append(fns, fn)
	}
	sort.Slice(fns, func(i, j int) bool { return FnKey(fns[i]) < FnKey(fns[j]) })
	npan := 0
	for _, fn := range fns {
		for _, b := range fn.Blocks {
			for _, ins := range b.Instrs {
				if p, ok := ins.(*ssa.Panic); ok {
					npan++
					c.Fail("panic-outside-execute."+FnKey(fn), c.P.Pos(p.Pos()), FnKey(fn)+" can panic explicitly and is reachable from Run/Step outside the recover scope of execute: the panic would escape the VM", g.PathTo(via, fn)...)
				}
			}
		}
	}
	if npan == 0 {
		c.OK("panic-outside-execute", c.P.Pos(ex.Decl.Pos()), fmt.Sprintf("%d module functions are reachable from Run/Step/StepInto/StepOut/StepOver without passing execute; none contains an explicit panic", len(fns)))
	}
	c.Floor("functions reachable outside execute", len(fns), 8)
}

// ---------------------------------------------------------------------------
// C12 bigint-ctor

func ruleBigintCtor(c *Ctx) {
	// byte strings become integers only if they are at most 32 bytes long, whatever their value (padding included)
	runGates(c, []GateSpec{{
		ID: "Buffer.Convert.integer-length", Fn: [3]string{"pkg/vm/stackitem", "Buffer", "Convert"}, Target: "call:pkg/encoding/bigint.FromBytes",
		Guards: []Guard{{ID: "length", Doc: "the buffer is at most MaxBigIntegerSizeBits/8 bytes long", Alts: [][]string{{"builtin.len", "pkg/vm/stackitem.MaxBigIntegerSizeBits"}}}},
	}, {
		ID: "ByteArray.TryInteger.length", Fn: [3]string{"pkg/vm/stackitem", "ByteArray", "TryInteger"}, Target: "call:pkg/encoding/bigint.FromBytes",
		Guards: []Guard{{ID: "length", Doc: "the byte string is at most MaxBigIntegerSizeBits/8 bytes long", Alts: [][]string{{"builtin.len", "pkg/vm/stackitem.MaxBigIntegerSizeBits"}}}},
	}})
	n := 0
	for _, pk := range c.P.Pkgs {
		for _, file := range pk.Syntax {
			var stack []ast.Node
			ast.Inspect(file, func(x ast.Node) bool {
				if x == nil {
					stack = stack[:len(stack)-1]
					return false
				}
				stack = append(stack, x)
				call, ok := x.(*ast.CallExpr)
				if !ok || len(call.Args) != 1 {
					return true
				}
				tv, ok := pk.TypesInfo.Types[call.Fun]
				if !ok || !tv.IsType() || !namedTypeIs(tv.Type, "pkg/vm/stackitem", "BigInteger") {
					return true
				}
				if _, isPtr := tv.Type.(*types.Pointer); !isPtr {
					return true
				}
				n++
				var fd *ast.FuncDecl
				for i := len(stack) - 1; i >= 0; i-- {
					if d, ok := stack[i].(*ast.FuncDecl); ok {
						fd = d
						break
					}
				}
				fname := "?"
				if fd != nil {
					if o, ok := pk.TypesInfo.Defs[fd.Name].(*types.Func); ok {
						fname = FuncKey(o)
					}
				}
				key := fmt.Sprintf("%s#%d", fname, ordinalIn(fd, call))
				if pkgRel(pk.Types) != "pkg/vm/stackitem" {
					c.Fail(key, c.P.Pos(call.Pos()), "conversion to *stackitem.BigInteger outside package stackitem bypasses the 256-bit width check of NewBigInteger")
					return true
				}
				// accepted: (1) CheckIntegerSize on the same value earlier in the function with a panicking/erroring branch,
				// (2) a source that is at most 64 bits wide (big.NewInt / SetUint64 / SetInt64), (3) a copy of an existing item (Set(it.Big()))
				arg := ast.Unparen(call.Args[0])
				src := types.ExprString(arg)
				narrow := strings.Contains(src, "big.NewInt(") || strings.Contains(src, ".SetUint64(") || strings.Contains(src, ".SetInt64(")
				checked := false
				copied := false
				if fd != nil {
					ast.Inspect(fd.Body, func(y ast.Node) bool {
						if cc, ok := y.(*ast.CallExpr); ok && cc.Pos() < call.Pos() {
							if id, ok := cc.Fun.(*ast.Ident); ok && id.Name == "CheckIntegerSize" && len(cc.Args) == 1 && sameExpr(pk.TypesInfo, cc.Args[0], arg) {
								checked = true
							}
						}
						if as, ok := y.(*ast.AssignStmt); ok && len(as.Lhs) == 1 && len(as.Rhs) == 1 && sameExpr(pk.TypesInfo, as.Lhs[0], arg) {
							r := types.ExprString(as.Rhs[0])
							if strings.Contains(r, ".Set(") && strings.Contains(r, ".Big()") {
								copied = true
							}
						}
						return true
					})
				}
				switch {
				case checked:
					c.OK(key, c.P.Pos(call.Pos()), "value passed CheckIntegerSize before the conversion")
				case narrow:
					c.OK(key, c.P.Pos(call.Pos()), "source is at most 64 bits wide: "+trunc(src, 50))
				case copied:
					c.OK(key, c.P.Pos(call.Pos()), "copy of an existing (already checked) BigInteger")
				default:
					c.Fail(key, c.P.Pos(call.Pos()), "a *big.Int becomes a stack item without the 256-bit width check: "+trunc(src, 60))
				}
				return true
			})
		}
	}
	c.Floor("conversions to *BigInteger", n, 6)
	// NewBigInteger itself must fault on an oversized value
	runGates(c, []GateSpec{{
		ID: "NewBigInteger", Fn: [3]string{"pkg/vm/stackitem", "", "NewBigInteger"}, Target: "ok-return",
		Guards: []Guard{{ID: "width-check", Doc: "CheckIntegerSize error panics", Alts: [][]string{{"pkg/vm/stackitem.CheckIntegerSize"}}}},
	}})
}

func ordinalIn(fd *ast.FuncDecl, target ast.Node) int {
	if fd == nil {
		return 0
	}
	n, res := 0, 0
	ast.Inspect(fd, func(x ast.Node) bool {
		if c, ok := x.(*ast.CallExpr); ok && len(c.Args) == 1 {
			if _, isStar := ast.Unparen(c.Fun).(*ast.StarExpr); isStar {
				n++
				if x == target {
					res = n
				}
			}
		}
		return true
	})
	return res
}

// ---------------------------------------------------------------------------
// C12 slot-scope: the static slot belongs to the script, not to one frame

func ruleSlotScope(c *Ctx) {
	slotReleaseUnconditional(c)
	runGates(c, []GateSpec{{
		ID: "unloadContext.static", Fn: [3]string{"pkg/vm", "VM", "unloadContext"}, Target: "call:pkg/vm.(Slot).clearRefs@pkg/vm#static",
		Guards: []Guard{{ID: "last-frame-of-script", Doc: "references held by the static slot are released only when the last frame of the script is unloaded (next context belongs to another script)", Whole: true,
			Alts: [][]string{{"pkg/vm#sc", "pkg/vm.(*VM).Context"}}}},
	}})
}

// ---------------------------------------------------------------------------
// C13 map-index-comaintenance: stackitem.Map keeps `value` (ordered pairs) and `dict` (key -> position) in step

func ruleMapIndex(c *Ctx) {
	pk := c.P.Pkg("pkg/vm/stackitem")
	if pk == nil {
		c.Lost("anchor", "package stackitem not found")
		return
	}
	val, dict := "pkg/vm/stackitem#value", "pkg/vm/stackitem#dict"
	n := 0
	for _, fd := range c.P.AllFuncDecls() {
		if fd.Pkg != pk || fd.Decl.Body == nil {
			continue
		}
		reshapes := false
		var pos ast.Node
		writesDict := false
		ast.Inspect(fd.Decl.Body, func(x ast.Node) bool {
			if as, ok := x.(*ast.AssignStmt); ok {
				for _, l := range as.Lhs {
					if se, ok := ast.Unparen(l).(*ast.SelectorExpr); ok {
						if v, ok := pk.TypesInfo.ObjectOf(se.Sel).(*types.Var); ok && v.IsField() && symOf(v) == val && namedTypeIs(pk.TypesInfo.TypeOf(se.X), "pkg/vm/stackitem", "Map") {
							reshapes = true
							pos = as
						}
					}
				}
			}
			return true
		})
		if !reshapes {
			continue
		}
		for _, w := range nodeWrites(pk.TypesInfo, fd.Decl.Body, true) {
			if w.Field == dict {
				writesDict = true
			}
		}
		n++
		if writesDict {
			c.OK(FuncKey(fd.Obj), c.P.Pos(pos.Pos()), "re-shapes Map.value and updates the key index in the same function")
		} else {
			c.Fail(FuncKey(fd.Obj), c.P.Pos(pos.Pos()), FuncKey(fd.Obj)+" changes the element slice of a Map without updating its key index (dict): HASKEY/PICKITEM/SETITEM answer from a stale index afterwards")
		}
	}
	c.Floor("functions re-shaping Map.value", n, 3)
}

// C13 operand-immutable: big integers obtained from stack items are never mutated in place
func ruleOperandImmutable(c *Ctx) {
	pk := c.P.Pkg("pkg/vm")
	if pk == nil {
		c.Lost("anchor", "pkg/vm not found")
		return
	}
	sources := map[string]bool{"pkg/vm.(Element).BigInt": true, "pkg/vm/stackitem.(*BigInteger).Big": true, "pkg/vm/stackitem.(Item).TryInteger": true, "pkg/vm.toInt": false}
	mutators := map[string]bool{}
	for _, m := range []string{"Add", "Sub", "Mul", "Div", "Quo", "Rem", "Mod", "Neg", "Abs", "Lsh", "Rsh", "And", "Or", "Xor", "Not", "Exp", "Sqrt", "Set", "SetInt64", "SetUint64", "SetBit", "SetBytes", "ModInverse", "QuoRem", "DivMod", "AndNot", "ModSqrt", "GCD"} {
		mutators["math/big.(*Int)."+m] = true
	}
	nsrc, nmut := 0, 0
	for _, fd := range c.P.AllFuncDecls() {
		if fd.Pkg != pk || fd.Decl.Body == nil {
			continue
		}
		f := c.P.NewFuncCFG(fd)
		// locals holding an operand's big.Int
		operand := map[types.Object]bool{}
		for o, ds := range f.defs {
			for _, d := range ds {
				for _, r := range d.rhs {
					if call, ok := ast.Unparen(r).(*ast.CallExpr); ok && sources[f.calleeSym(call)] {
						operand[o] = true
						nsrc++
					}
				}
			}
		}
		k := 0
		ast.Inspect(fd.Decl.Body, func(x ast.Node) bool {
			call, ok := x.(*ast.CallExpr)
			if !ok || !mutators[f.calleeSym(call)] {
				return true
			}
			nmut++
			recv := ast.Unparen(call.Fun.(*ast.SelectorExpr).X)
			bad := false
			if id, ok := recv.(*ast.Ident); ok && operand[f.Info.ObjectOf(id)] {
				bad = true
			}
			if rc, ok := recv.(*ast.CallExpr); ok && sources[f.calleeSym(rc)] {
				bad = true
			}
			if bad {
				k++
				c.Fail(fmt.Sprintf("%s.mutates-operand#%d", FuncKey(fd.Obj), k), c.P.Pos(call.Pos()), fmt.Sprintf("%s uses a big.Int obtained from a stack item as the receiver of %s: the item (possibly shared through DUP or a slot) changes value in place", FuncKey(fd.Obj), shortSym(f.calleeSym(call))))
			}
			return true
		})
	}
	if nmut > 0 {
		c.OK("no-operand-mutation", "pkg/vm", fmt.Sprintf("%d big.Int mutator calls in pkg/vm, %d operand-holding locals: no mutator has an operand as its receiver (results go to fresh integers)", nmut, nsrc))
	}
	c.Floor("big.Int mutator calls in pkg/vm", nmut, 15)
	c.Floor("operand-holding locals", nsrc, 30)
}

// clone-supersedes: an item that is about to be stored into a compound is replaced by its clone if it is a Struct
// (`c, isStruct := cloneIfStruct(x)`), and the reference counter is told about the swap once (`if isStruct {
// refs.Remove(x); refs.Add(c) }`). From then on the counter knows c, not x: any later refs.Add/Remove of x in the
// same function counts the original a second time (it may still be held elsewhere) and never the clone.
func ruleCloneSupersedes(c *Ctx) {
	pk := c.P.Pkg("pkg/vm")
	if pk == nil {
		c.Lost("anchor", "package vm not found")
		return
	}
	info := pk.TypesInfo
	n := 0
	for _, fd := range c.P.AllFuncDecls() {
		if fd.Pkg != pk || fd.Decl.Body == nil {
			continue
		}
		f := c.P.NewFuncCFG(fd)
		idx := 0
		ast.Inspect(fd.Decl.Body, func(x ast.Node) bool {
			as, ok := x.(*ast.AssignStmt)
			if !ok || len(as.Rhs) != 1 || len(as.Lhs) != 2 {
				return true
			}
			call, ok := as.Rhs[0].(*ast.CallExpr)
			if !ok || f.calleeSym(call) != "pkg/vm.cloneIfStruct" || len(call.Args) != 1 {
				return true
			}
			origExpr := ast.Unparen(call.Args[0])
			origText := types.ExprString(origExpr)
			orig, _ := origExpr.(*ast.Ident)
			flagID, _ := as.Lhs[1].(*ast.Ident)
			var oo, fo types.Object
			if orig != nil {
				oo = info.ObjectOf(orig)
			}
			if flagID != nil && flagID.Name != "_" {
				fo = info.ObjectOf(flagID)
			}
			origName := origText
			n++
			idx++
			key := fmt.Sprintf("%s.clone#%d", FuncKey(fd.Obj), idx)
			var bad []string
			// the innermost statement list the clone belongs to bounds the scope (an arm of the dispatch switch, a loop body)
			var scope ast.Node = fd.Decl.Body
			ast.Inspect(fd.Decl.Body, func(y ast.Node) bool {
				switch b := y.(type) {
				case *ast.CaseClause:
					if containsNode(b, as) {
						scope = b
					}
				case *ast.BlockStmt:
					if containsNode(b, as) && b != fd.Decl.Body {
						if _, isLoop := enclosingLoop(fd.Decl.Body, b); isLoop {
							scope = b
						}
					}
				}
				return true
			})
			ast.Inspect(scope, func(y ast.Node) bool {
				rc, ok := y.(*ast.CallExpr)
				if !ok || rc.Pos() <= as.End() {
					return true
				}
				cs := f.calleeSym(rc)
				if !strings.HasPrefix(cs, "pkg/vm.(*refCounter).") || len(rc.Args) != 1 {
					return true
				}
				argE := ast.Unparen(rc.Args[0])
				same := types.ExprString(argE) == origText
				if a, ok := argE.(*ast.Ident); ok && oo != nil {
					same = info.ObjectOf(a) == oo
				}
				if !same {
					return true
				}
				// allowed: Remove(x) directly under `if isStruct` (the swap itself)
				allowed := false
				if strings.HasSuffix(cs, ".Remove") && fo != nil {
					ast.Inspect(scope, func(z ast.Node) bool {
						is, ok := z.(*ast.IfStmt)
						if !ok || !containsNode(is.Body, rc) {
							return true
						}
						if id, ok := ast.Unparen(is.Cond).(*ast.Ident); ok && info.ObjectOf(id) == fo {
							allowed = true
						}
						return true
					})
				}
				if !allowed {
					bad = append(bad, c.P.Pos(rc.Pos()))
				}
				return true
			})
			if len(bad) > 0 {
				c.Fail(key, c.P.Pos(as.Pos()), fmt.Sprintf("%s: after `%s` was superseded by its clone the reference counter is still given the original at %s: the clone that is actually stored is never counted (or the original, possibly held elsewhere, is released twice)", FuncKey(fd.Obj), origName, strings.Join(bad, ", ")))
			} else {
				c.OK(key, c.P.Pos(as.Pos()), "after the swap only the clone is reported to the reference counter")
			}
			return true
		})
	}
	c.Floor("struct-clone swaps", n, 2)
}

// enclosingLoop: is blk the body of a for/range statement inside root?
func enclosingLoop(root ast.Node, blk *ast.BlockStmt) (ast.Stmt, bool) {
	var found ast.Stmt
	ast.Inspect(root, func(y ast.Node) bool {
		switch l := y.(type) {
		case *ast.ForStmt:
			if l.Body == blk {
				found = l
			}
		case *ast.RangeStmt:
			if l.Body == blk {
				found = l
			}
		}
		return found == nil
	})
	return found, found != nil
}

// byte-moves: the splice instructions move bytes between buffers that may be one and the same stack item (MEMCPY
// of a buffer onto itself). The builtin copy is defined for overlapping operands; an element-by-element loop is
// not (a forward loop re-reads bytes it has just written). So in pkg/vm no loop stores into an element of a byte
// slice that was not allocated in the same function a byte taken from another byte slice.
func ruleByteMoves(c *Ctx) {
	pk := c.P.Pkg("pkg/vm")
	if pk == nil {
		c.Lost("anchor", "pkg/vm not found")
		return
	}
	isBytes := func(t types.Type) bool {
		if t == nil {
			return false
		}
		sl, ok := t.Underlying().(*types.Slice)
		if !ok {
			return false
		}
		b, ok := sl.Elem().Underlying().(*types.Basic)
		return ok && b.Kind() == types.Uint8
	}
	ncopy, nloop := 0, 0
	for _, fd := range c.P.AllFuncDecls() {
		if fd.Pkg != pk || fd.Decl.Body == nil {
			continue
		}
		f := c.P.NewFuncCFG(fd)
		info := f.Info
		for _, s := range f.CallSites("builtin.copy") {
			if len(s.call.Args) == 2 && isBytes(info.TypeOf(s.call.Args[0])) {
				ncopy++
			}
		}
		fresh := func(e ast.Expr) bool { // the slice was made in this function: nothing else can alias it
			root := rootObj(info, e)
			v, ok := root.(*types.Var)
			if !ok || f.params[v] || v.IsField() {
				return false
			}
			ds := f.defs[v]
			if len(ds) == 0 {
				return false
			}
			for _, d := range ds {
				for _, r := range d.rhs {
					call, ok := ast.Unparen(r).(*ast.CallExpr)
					if !ok || f.calleeSym(call) != "builtin.make" {
						return false
					}
				}
			}
			return true
		}
		k := 0
		ast.Inspect(fd.Decl.Body, func(x ast.Node) bool {
			var body *ast.BlockStmt
			var ranged ast.Expr
			switch y := x.(type) {
			case *ast.RangeStmt:
				body, ranged = y.Body, y.X
			case *ast.ForStmt:
				body = y.Body
			default:
				return true
			}
			ast.Inspect(body, func(z ast.Node) bool {
				as, ok := z.(*ast.AssignStmt)
				if !ok || len(as.Lhs) != 1 || len(as.Rhs) != 1 {
					return true
				}
				ix, ok := ast.Unparen(as.Lhs[0]).(*ast.IndexExpr)
				if !ok || !isBytes(info.TypeOf(ix.X)) || fresh(ix.X) {
					return true
				}
				// the stored byte comes from another byte slice: an index expression of one, or the value of a range over one
				fromBytes := false
				ast.Inspect(as.Rhs[0], func(w ast.Node) bool {
					switch e := w.(type) {
					case *ast.IndexExpr:
						if isBytes(info.TypeOf(e.X)) {
							fromBytes = true
						}
					case *ast.Ident:
						if rs, ok := x.(*ast.RangeStmt); ok && rs.Value != nil && ranged != nil && isBytes(info.TypeOf(ranged)) {
							if vid, ok := rs.Value.(*ast.Ident); ok && info.ObjectOf(vid) == info.ObjectOf(e) {
								fromBytes = true
							}
						}
					}
					return true
				})
				if fromBytes {
					nloop++
					k++
					c.Fail(fmt.Sprintf("%s.element-copy#%d", FuncKey(fd.Obj), k), c.P.Pos(as.Pos()), fmt.Sprintf("%s moves bytes between two slices one element at a time (%s): when both are the same buffer and the ranges overlap the loop re-reads bytes it has already overwritten, and the result differs from the specified (memmove) semantics of the instruction", FuncKey(fd.Obj), f.nodeStr(as)))
				}
				return true
			})
			return true
		})
	}
	if nloop == 0 {
		c.OK("no-element-copy", "pkg/vm", fmt.Sprintf("%d byte moves in pkg/vm use the builtin copy (defined for overlapping operands); no loop stores bytes of one possibly shared slice into another", ncopy))
	}
	c.Floor("builtin copy calls on byte slices in pkg/vm", ncopy, 4)
}
