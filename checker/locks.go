package main

import (
	"fmt"
	"go/ast"
	"go/token"
	"go/types"
	"sort"
	"strings"

	"golang.org/x/tools/go/cfg"
)

// lockOp describes the effect of a call on a mutex.
type lockOp struct {
	delta int    // +1 acquire, -1 release
	mode  string // "W" or "R"
	field string // for wrappers: field path appended to the receiver ("" for direct sync calls)
}

var syncOps = map[string]lockOp{
	"sync.(*Mutex).Lock":      {+1, "W", ""},
	"sync.(*Mutex).Unlock":    {-1, "W", ""},
	"sync.(*RWMutex).Lock":    {+1, "W", ""},
	"sync.(*RWMutex).Unlock":  {-1, "W", ""},
	"sync.(*RWMutex).RLock":   {+1, "R", ""},
	"sync.(*RWMutex).RUnlock": {-1, "R", ""},
}

// lockWrappers finds methods whose whole body is one lock operation on a field of the receiver,
// optionally under `if !recv.<flag>` (MemCachedStore.lock/unlock/rlock/runlock).
func (p *Program) lockWrappers() map[string]lockOp {
	out := map[string]lockOp{}
	for _, fd := range p.declOf {
		d := fd.Decl
		if d.Recv == nil || d.Body == nil || len(d.Body.List) != 1 || d.Type.Params.NumFields() != 0 {
			continue
		}
		st := d.Body.List[0]
		if is, ok := st.(*ast.IfStmt); ok && is.Else == nil && is.Init == nil && len(is.Body.List) == 1 {
			st = is.Body.List[0]
		}
		es, ok := st.(*ast.ExprStmt)
		if !ok {
			continue
		}
		call, ok := es.X.(*ast.CallExpr)
		if !ok {
			continue
		}
		se, ok := call.Fun.(*ast.SelectorExpr)
		if !ok {
			continue
		}
		fo, ok := fd.Pkg.TypesInfo.ObjectOf(se.Sel).(*types.Func)
		if !ok {
			continue
		}
		op, ok := syncOps[FuncKey(fo)]
		if !ok {
			continue
		}
		path := exprPath(fd.Pkg.TypesInfo, se.X) // e.g. "s.mut"
		i := strings.Index(path, ".")
		if i < 0 {
			continue
		}
		op.field = path[i:] // ".mut"
		out[FuncKey(fd.Obj)] = op
	}
	return out
}

// LockEvent is a recorded lock state at a node of interest.
type LockIssue struct {
	Pos  token.Pos
	Kind string // "exit-held", "negative", "double"
	Msg  string
	Exit int
}

type lockClient struct {
	p        *Program
	wrappers map[string]lockOp
	issues   []LockIssue
	seen     map[string]bool
	nexits   int
	exitIdx  map[token.Pos]int
	// states observed before each node: node -> list of fact maps (for lockset / typestate clients)
	watch func(f *FuncCFG, b *cfg.Block, idx int, n ast.Node, st *FState)
}

func (lc *lockClient) opOf(f *FuncCFG, call *ast.CallExpr) (lockOp, string, bool) {
	cs := f.calleeSym(call)
	if op, ok := syncOps[cs]; ok {
		return op, recvPath(f.Info, call), true
	}
	if op, ok := lc.wrappers[cs]; ok {
		return op, recvPath(f.Info, call) + op.field, true
	}
	return lockOp{}, "", false
}

func (lc *lockClient) apply(f *FuncCFG, op lockOp, path string, st *FState, pos token.Pos) {
	k := op.mode + ":" + path
	st.Facts[k] += op.delta
	if st.Facts[k] < 0 {
		lc.issue(pos, "negative", fmt.Sprintf("%s released while not held on this path", path), 0)
		st.Facts[k] = 0
	}
	if op.mode == "W" && op.delta > 0 && (st.Facts[k] > 1 || st.Facts["R:"+path] > 0) {
		lc.issue(pos, "double", fmt.Sprintf("%s acquired while already held on this path (self-deadlock)", path), 0)
	}
	if op.mode == "R" && op.delta > 0 && st.Facts["W:"+path] > 0 {
		lc.issue(pos, "double", fmt.Sprintf("%s read-locked while write-locked on this path (self-deadlock)", path), 0)
	}
}

func (lc *lockClient) issue(pos token.Pos, kind, msg string, exit int) {
	k := fmt.Sprintf("%d/%s/%s", pos, kind, msg)
	if lc.seen[k] {
		return
	}
	lc.seen[k] = true
	lc.issues = append(lc.issues, LockIssue{pos, kind, msg, exit})
}

func (lc *lockClient) Node(f *FuncCFG, b *cfg.Block, idx int, n ast.Node, st *FState) {
	if lc.watch != nil {
		lc.watch(f, b, idx, n, st)
	}
	if _, isDefer := n.(*ast.DeferStmt); isDefer {
		return
	}
	if _, isGo := n.(*ast.GoStmt); isGo {
		return
	}
	inspectNoLit(n, func(x ast.Node) bool {
		if call, ok := x.(*ast.CallExpr); ok {
			if op, path, ok := lc.opOf(f, call); ok {
				lc.apply(f, op, path, st, call.Pos())
			}
		}
		return true
	})
}

func (lc *lockClient) Deferred(f *FuncCFG, op string, st *FState) {
	var ops []string
	if strings.HasPrefix(op, "multi:") {
		ops = strings.Split(strings.TrimPrefix(op, "multi:"), "\x00")
	} else {
		ops = []string{op}
	}
	for _, o := range ops {
		parts := strings.SplitN(o, ":", 3)
		if len(parts) != 3 || parts[0] != "call" {
			continue
		}
		if lo, ok := syncOps[parts[1]]; ok {
			lc.apply(f, lo, parts[2], st, token.NoPos)
		} else if lo, ok := lc.wrappers[parts[1]]; ok {
			lc.apply(f, lo, parts[2]+lo.field, st, token.NoPos)
		}
	}
}

func (lc *lockClient) Exit(f *FuncCFG, b *cfg.Block, r *ast.ReturnStmt, st *FState) {
	pos := f.Body.Rbrace
	if r != nil {
		pos = r.Pos()
	}
	if _, ok := lc.exitIdx[pos]; !ok {
		lc.nexits++
		lc.exitIdx[pos] = lc.nexits
	}
	var held []string
	for k, v := range st.Facts {
		if v > 0 && (strings.HasPrefix(k, "W:") || strings.HasPrefix(k, "R:")) {
			held = append(held, k[2:])
		}
	}
	sort.Strings(held)
	for _, h := range held {
		lc.issue(pos, "exit-held", fmt.Sprintf("%s is still held at this exit", h), lc.exitIdx[pos])
	}
}

// AnalyzeLocks runs the lock typestate over one function.
func (p *Program) AnalyzeLocks(f *FuncCFG, wrappers map[string]lockOp, assume *Assume, watch func(f *FuncCFG, b *cfg.Block, idx int, n ast.Node, st *FState)) (*lockClient, *FlowResult) {
	lc := &lockClient{p: p, wrappers: wrappers, seen: map[string]bool{}, exitIdx: map[token.Pos]int{}, watch: watch}
	res := f.RunFlow(lc, FState{Bools: map[string]bool{}, Facts: map[string]int{}}, assume)
	sort.Slice(lc.issues, func(i, j int) bool { return lc.issues[i].Pos < lc.issues[j].Pos })
	return lc, res
}

// usesLocks reports whether the function body contains any lock operation (direct or wrapper).
func usesLocks(f *FuncCFG, wrappers map[string]lockOp) bool {
	found := false
	ast.Inspect(f.Body, func(n ast.Node) bool {
		if call, ok := n.(*ast.CallExpr); ok {
			cs := f.calleeSym(call)
			if _, ok := syncOps[cs]; ok {
				found = true
			}
			if _, ok := wrappers[cs]; ok {
				found = true
			}
		}
		return !found
	})
	return found
}

// lockPairingPkgs checks lock balance for every function of the given packages.
// privateAssume: field symbols assumed false (MemCachedStore.private) so that conditional wrappers pair up.
func lockPairingPkgs(c *Ctx, rels []string, assume *Assume, minFuncs int) {
	if c.Tier == "thorough" {
		// widen to the whole module; the one deliberate lock hand-off between goroutines is tabled
		rels = nil
		for _, pk := range c.P.Pkgs {
			if r := pkgRel(pk.Types); r != "pkg/services/oracle" {
				rels = append(rels, r)
			}
		}
		if assume == nil {
			assume = symAssume("pkg/core/storage#private", false)
		}
	}
	wr := c.P.lockWrappers()
	n := 0
	for _, fd := range c.P.AllFuncDecls() {
		rel := pkgRel(fd.Obj.Pkg())
		in := false
		for _, r := range rels {
			if rel == r {
				in = true
			}
		}
		if !in || fd.Decl.Body == nil {
			continue
		}
		if _, isWrapper := wr[FuncKey(fd.Obj)]; isWrapper {
			continue
		}
		// the function itself and each of its function literals (goroutines, callbacks) are separate units
		units := []*FuncCFG{c.P.NewFuncCFG(fd)}
		li := 0
		deferred := map[*ast.FuncLit]bool{}
		ast.Inspect(fd.Decl.Body, func(x ast.Node) bool {
			if ds, ok := x.(*ast.DeferStmt); ok {
				if lit, ok := ds.Call.Fun.(*ast.FuncLit); ok {
					deferred[lit] = true // replayed at the exits of the enclosing function
				}
			}
			if lit, ok := x.(*ast.FuncLit); ok && !deferred[lit] {
				li++
				units = append(units, c.P.NewLitCFG(fd.Pkg.TypesInfo, fmt.Sprintf("%s$%d", FuncKey(fd.Obj), li), lit))
			}
			return true
		})
		for _, f := range units {
			if !usesLocks(f, wr) {
				continue
			}
			n++
			lc, res := c.P.AnalyzeLocks(f, wr, assume, nil)
			if res.Overflow {
				c.Unclassified(f.Name+".overflow", c.P.Pos(f.Body.Pos()), "more than 64 correlated states; lock pairing undecided for this function")
				continue
			}
			if len(lc.issues) == 0 {
				c.OK(f.Name, c.P.Pos(f.Body.Pos()), fmt.Sprintf("every lock acquired is released on each of the %d exits, none released unheld or re-acquired", lc.nexits))
				continue
			}
			for _, is := range lc.issues {
				pos := is.Pos
				key := fmt.Sprintf("%s.%s", f.Name, is.Kind)
				if is.Exit > 0 {
					key += fmt.Sprintf(".exit#%d", is.Exit)
				}
				p := "deferred unlock"
				if pos.IsValid() {
					p = c.P.Pos(pos)
				}
				c.Fail(key+"."+shortMsg(is.Msg), p, f.Name+": "+is.Msg)
			}
		}
	}
	c.Floor("functions using locks", n, minFuncs)
}

func shortMsg(m string) string {
	if i := strings.Index(m, " "); i > 0 {
		return m[:i]
	}
	return m
}
