package main

import (
	"go/types"
	"sort"

	"golang.org/x/tools/go/ssa"
)

// MRG is the module-restricted call graph of DESIGN.md §2.2.
type MRG struct {
	P     *Program
	Prog  *ssa.Program
	Nodes map[*ssa.Function]*MNode
	// implementers cache: interface method -> concrete functions
	implCache map[implKey][]*ssa.Function
	// all named module types (T and *T) for interface resolution
	modTypes []types.Type
	// CutEdges: caller key -> callee key edges that are not followed (tabled, with reason)
	Cut map[[2]string]string
}

type implKey struct {
	m *types.Func
	t types.Type
}

// MNode is a function with its outgoing edges.
type MNode struct {
	Fn      *ssa.Function
	Out     []*MEdge
	In      []*MEdge
	Dynamic []ssa.Instruction // calls of plain function values (dispatch points, not followed)
}

// MEdge is one resolved call (or closure creation / function reference).
type MEdge struct {
	Caller *MNode
	Callee *MNode
	Site   ssa.Instruction // call, MakeClosure or referencing instruction
	Kind   string          // static | closure | iface | ref
}

// fnInModule decides whether a function body is analysed.
func fnInModule(fn *ssa.Function) bool {
	if fn == nil {
		return false
	}
	if fn.Pkg != nil {
		return InModule(fn.Pkg.Pkg)
	}
	if o := fn.Origin(); o != nil {
		return fnInModule(o)
	}
	if p := fn.Parent(); p != nil {
		return fnInModule(p)
	}
	if obj := fn.Object(); obj != nil {
		return InModule(obj.Pkg())
	}
	// synthetic wrappers without object (bound/thunk of module methods are handled via Object above)
	return false
}

// BuildMRG builds the graph for every module function (and the synthetic wrappers they use).
func (p *Program) MRG() *MRG {
	if p.mrg != nil {
		return p.mrg
	}
	prog := p.SSA()
	g := &MRG{P: p, Prog: prog, Nodes: map[*ssa.Function]*MNode{}, implCache: map[implKey][]*ssa.Function{}, Cut: map[[2]string]string{}}
	for _, pk := range p.Pkgs {
		sc := pk.Types.Scope()
		for _, n := range sc.Names() {
			tn, ok := sc.Lookup(n).(*types.TypeName)
			if !ok || tn.IsAlias() {
				continue
			}
			nt, ok := tn.Type().(*types.Named)
			if !ok || nt.TypeParams().Len() > 0 {
				continue
			}
			if _, isIface := nt.Underlying().(*types.Interface); isIface {
				continue
			}
			g.modTypes = append(g.modTypes, nt, types.NewPointer(nt))
		}
	}
	p.mrg = g
	var work []*ssa.Function
	seen := map[*ssa.Function]bool{}
	push := func(f *ssa.Function) {
		if f != nil && !seen[f] && fnInModule(f) {
			seen[f] = true
			work = append(work, f)
		}
	}
	for _, pk := range p.Pkgs {
		sp := p.ssaPkgs[pk.Types]
		if sp == nil {
			continue
		}
		for _, m := range sp.Members {
			switch m := m.(type) {
			case *ssa.Function:
				push(m)
			case *ssa.Type:
				for _, t := range []types.Type{m.Type(), types.NewPointer(m.Type())} {
					ms := prog.MethodSets.MethodSet(t)
					for i := 0; i < ms.Len(); i++ {
						push(prog.MethodValue(ms.At(i)))
					}
				}
			}
		}
	}
	for len(work) > 0 {
		f := work[len(work)-1]
		work = work[:len(work)-1]
		n := g.node(f)
		for _, af := range f.AnonFuncs {
			push(af)
		}
		for _, b := range f.Blocks {
			for _, ins := range b.Instrs {
				if mc, ok := ins.(*ssa.MakeClosure); ok {
					if cf, ok := mc.Fn.(*ssa.Function); ok && fnInModule(cf) {
						push(cf)
						g.edge(n, cf, ins, "closure")
					}
					continue
				}
				if ci, ok := ins.(ssa.CallInstruction); ok {
					cc := ci.Common()
					if cc.IsInvoke() {
						if InModule(cc.Method.Pkg()) {
							for _, impl := range g.implementers(cc.Method, cc.Value.Type()) {
								push(impl)
								g.edge(n, impl, ins, "iface")
							}
						}
					} else if sf := cc.StaticCallee(); sf != nil {
						if fnInModule(sf) {
							push(sf)
							g.edge(n, sf, ins, "static")
						}
					} else if _, isBuiltin := cc.Value.(*ssa.Builtin); !isBuiltin {
						n.Dynamic = append(n.Dynamic, ins)
					}
					// function values passed as arguments are charged to this function
					for _, a := range cc.Args {
						if af, ok := a.(*ssa.Function); ok && fnInModule(af) {
							push(af)
							g.edge(n, af, ins, "ref")
						}
					}
					continue
				}
				// other references to functions as values (stored in fields, returned, ...)
				for _, op := range ins.Operands(nil) {
					if op == nil || *op == nil {
						continue
					}
					if af, ok := (*op).(*ssa.Function); ok && fnInModule(af) {
						push(af)
						g.edge(n, af, ins, "ref")
					}
				}
			}
		}
	}
	return g
}

func (g *MRG) node(f *ssa.Function) *MNode {
	n := g.Nodes[f]
	if n == nil {
		n = &MNode{Fn: f}
		g.Nodes[f] = n
	}
	return n
}

func (g *MRG) edge(from *MNode, to *ssa.Function, site ssa.Instruction, kind string) {
	tn := g.node(to)
	e := &MEdge{Caller: from, Callee: tn, Site: site, Kind: kind}
	from.Out = append(from.Out, e)
	tn.In = append(tn.In, e)
}

// implementers resolves an interface method of a module interface over all module types.
func (g *MRG) implementers(m *types.Func, recvT types.Type) []*ssa.Function {
	key := implKey{m, recvT}
	if r, ok := g.implCache[key]; ok {
		return r
	}
	var out []*ssa.Function
	iface, _ := recvT.Underlying().(*types.Interface)
	if iface == nil {
		// type parameter constrained by interface etc.: resolve by method name over all module types
		g.implCache[key] = nil
		return nil
	}
	seen := map[*ssa.Function]bool{}
	for _, t := range g.modTypes {
		if !types.Implements(t, iface) {
			continue
		}
		ms := g.Prog.MethodSets.MethodSet(t)
		sel := ms.Lookup(m.Pkg(), m.Name())
		if sel == nil {
			continue
		}
		fn := g.Prog.MethodValue(sel)
		if fn != nil && !seen[fn] {
			seen[fn] = true
			out = append(out, fn)
		}
	}
	sort.Slice(out, func(i, j int) bool { return out[i].String() < out[j].String() })
	// cache per (method, iface) would be more precise; methods of distinct interfaces are distinct objects
	g.implCache[key] = out
	return out
}

// SSAFunc returns the ssa function of a declared function object.
func (p *Program) SSAFunc(f *types.Func) *ssa.Function {
	p.SSA()
	return p.ssaProg.FuncValue(f)
}

// FnKey is the stable name of an SSA function (closures: parent key + $n).
func FnKey(fn *ssa.Function) string {
	if fn == nil {
		return "<nil>"
	}
	if fn.Parent() != nil {
		return FnKey(fn.Parent()) + "$" + fn.Name()[len(fn.Parent().Name()):]
	}
	if o, ok := fn.Object().(*types.Func); ok && fn.Synthetic == "" {
		return FuncKey(o)
	}
	if o, ok := fn.Object().(*types.Func); ok {
		return FuncKey(o) + "#" + fn.Synthetic
	}
	return fn.String()
}

// Reach returns every node reachable from roots (roots included), honouring cut edges.
func (g *MRG) Reach(roots []*ssa.Function, cut func(e *MEdge) bool) map[*ssa.Function]*MEdge {
	via := map[*ssa.Function]*MEdge{}
	var stack []*ssa.Function
	for _, r := range roots {
		if r == nil {
			continue
		}
		if _, ok := via[r]; !ok {
			via[r] = nil
			stack = append(stack, r)
		}
	}
	for len(stack) > 0 {
		f := stack[len(stack)-1]
		stack = stack[:len(stack)-1]
		n := g.Nodes[f]
		if n == nil {
			continue
		}
		for _, e := range n.Out {
			if cut != nil && cut(e) {
				continue
			}
			if _, ok := via[e.Callee.Fn]; !ok {
				via[e.Callee.Fn] = e
				stack = append(stack, e.Callee.Fn)
			}
		}
	}
	return via
}

// PathTo renders the call chain root → fn recorded by Reach.
func (g *MRG) PathTo(via map[*ssa.Function]*MEdge, fn *ssa.Function) []string {
	var rev []string
	for i := 0; fn != nil && i < 64; i++ {
		e := via[fn]
		if e == nil {
			rev = append(rev, FnKey(fn))
			break
		}
		rev = append(rev, FnKey(fn)+"  (called at "+g.P.Pos(e.Site.Pos())+", "+e.Kind+")")
		fn = e.Caller.Fn
	}
	for i, j := 0, len(rev)-1; i < j; i, j = i+1, j-1 {
		rev[i], rev[j] = rev[j], rev[i]
	}
	return rev
}
