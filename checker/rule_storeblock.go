package main

import (
	"fmt"
	"go/ast"
	"go/constant"
	"go/token"
	"go/types"
	"sort"
	"strings"

	"golang.org/x/tools/go/cfg"
	"golang.org/x/tools/go/ssa"
)

const (
	symDAOPersist     = "pkg/core/dao.(*Simple).Persist"
	symPersistPrivate = "pkg/core/dao.(*Simple).PersistPrivate"
	symGetPrivate     = "pkg/core/dao.(*Simple).GetPrivate"
	symNewInteropCtx  = symBC + "newInteropContext"
	symRunPersist     = symBC + "runPersist"
	symMapToBatch     = "pkg/core/mpt.MapToMPTBatch"
	symAddMPTBatch    = "pkg/core/stateroot.(*Module).AddMPTBatch"
	symGetStorChanges = "pkg/core/storage.(*MemCachedStore).GetStorageChanges"
)

var fnStoreBlock = [3]string{"pkg/core", "Blockchain", "storeBlock"}

// rootObj returns the object of the leftmost identifier of a selector/index/deref chain.
func rootObj(info *types.Info, e ast.Expr) types.Object {
	for {
		switch x := ast.Unparen(e).(type) {
		case *ast.Ident:
			return info.ObjectOf(x)
		case *ast.SelectorExpr:
			e = x.X
		case *ast.IndexExpr:
			e = x.X
		case *ast.SliceExpr:
			e = x.X
		case *ast.StarExpr:
			e = x.X
		case *ast.UnaryExpr:
			e = x.X
		case *ast.CallExpr:
			// method call chain a.b().c: root is the receiver chain of the call
			if se, ok := x.Fun.(*ast.SelectorExpr); ok {
				e = se.X
				continue
			}
			return nil
		default:
			return nil
		}
	}
}

// ---------------------------------------------------------------------------
// C04 tx-commit-guard

func ruleTxCommitGuard(c *Ctx) {
	runGates(c, []GateSpec{
		{
			ID: "storeBlock.tx-persist", Fn: fnStoreBlock, LoopOver: fldBlockTxs, Target: "call:" + symDAOPersist,
			Guards:   []Guard{{ID: "not-faulted", Doc: "the per-transaction layer is persisted only when the VM did not fault", Alts: [][]string{{"pkg/vm.(*VM).HasFailed"}}}},
			MustCall: [][]string{{symNewInteropCtx}},
		},
		{
			ID: "runPersist.persist", Fn: [3]string{"pkg/core", "Blockchain", "runPersist"}, Target: "call:" + symDAOPersist,
			Guards: []Guard{{ID: "exec-ok", Doc: "OnPersist/PostPersist changes are persisted only when execution succeeded", Alts: [][]string{{"pkg/core/interop.(*Context).Exec"}}}},
		},
	})
	// the layer that is persisted is the transaction's own private layer
	fd := c.P.Func(fnStoreBlock[0], fnStoreBlock[1], fnStoreBlock[2])
	if fd == nil {
		c.Lost("storeBlock.anchor", "storeBlock not found")
		return
	}
	f := c.P.NewFuncCFG(fd)
	var loop *Loop
	for _, l := range f.Loops() {
		if l.X != nil && f.Mentions(l.X, nil)[fldBlockTxs] {
			l := l
			loop = &l
		}
	}
	if loop == nil {
		c.Lost("storeBlock.loop", "transaction loop of storeBlock not found")
		return
	}
	for _, s := range f.CallSites(symDAOPersist) {
		if !containsNode(loop.Stmt, s.call) {
			continue
		}
		se := s.call.Fun.(*ast.SelectorExpr)
		m := f.Mentions(se.X, s.blk)
		root := rootObj(f.Info, se.X)
		okRecv := m["pkg/core/interop#DAO"] && m[symNewInteropCtx] && root != nil && containsNode(loop.Stmt, declNode(f, root))
		if okRecv {
			c.OK("storeBlock.tx-persist.receiver", c.P.Pos(s.call.Pos()), "the persisted layer is the DAO of the interop context created for this transaction inside the loop")
		} else {
			c.Fail("storeBlock.tx-persist.receiver", c.P.Pos(s.call.Pos()), "Persist in the transaction loop is not applied to the DAO of the context created for this very transaction: "+types.ExprString(se.X))
		}
	}
	// interop.NewContext wraps the given DAO into a fresh private layer
	nc := c.P.Func("pkg/core/interop", "", "NewContext")
	if nc == nil {
		c.Lost("NewContext.anchor", "interop.NewContext not found")
		return
	}
	nf := c.P.NewFuncCFG(nc)
	found := false
	ast.Inspect(nc.Decl.Body, func(n ast.Node) bool {
		cl, ok := n.(*ast.CompositeLit)
		if !ok {
			return true
		}
		tv := nc.Pkg.TypesInfo.Types[cl]
		if tv.Type == nil || !strings.HasSuffix(tv.Type.String(), "interop.Context") {
			return true
		}
		for _, el := range cl.Elts {
			kv, ok := el.(*ast.KeyValueExpr)
			if !ok {
				continue
			}
			if id, ok := kv.Key.(*ast.Ident); ok && id.Name == "DAO" {
				found = true
				m := nf.Mentions(kv.Value, nil)
				if m[symGetPrivate] && m["param#2"] {
					c.OK("NewContext.private-layer", c.P.Pos(kv.Pos()), "Context.DAO is a fresh private layer over the DAO passed in (d.GetPrivate())")
				} else {
					c.Fail("NewContext.private-layer", c.P.Pos(kv.Pos()), "interop.NewContext no longer wraps the DAO it is given into a private layer: a faulting execution would write through")
				}
			}
		}
		return true
	})
	if !found {
		c.Lost("NewContext.DAO", "no Context{DAO: ...} literal in interop.NewContext")
	}
}

func declNode(f *FuncCFG, o types.Object) ast.Node {
	var res ast.Node = &ast.BadExpr{}
	ast.Inspect(f.Body, func(n ast.Node) bool {
		if id, ok := n.(*ast.Ident); ok && f.Info.Defs[id] == o {
			res = id
			return false
		}
		return true
	})
	return res
}

// ---------------------------------------------------------------------------
// C06 commit-point: no error exit after the publish

func ruleCommitPoint(c *Ctx) {
	fd := c.P.Func(fnStoreBlock[0], fnStoreBlock[1], fnStoreBlock[2])
	if fd == nil {
		c.Lost("storeBlock.anchor", "storeBlock not found")
		return
	}
	f := c.P.NewFuncCFG(fd)
	pubs := f.CallSites(symPersistPrivate)
	if len(pubs) != 1 {
		c.Lost("storeBlock.publish", fmt.Sprintf("expected exactly one PersistPrivate call in storeBlock, found %d", len(pubs)))
		return
	}
	pub := pubs[0]
	// the main mempool is refreshed against the *new* ledger: after the block was published and after the height was
	// advanced (the refresh callback, IsTxStillRelevant, reads both) - a pooled transaction that expires with this
	// block must not survive it, since AddBlock trusts pooled transactions when the next block carries them
	runGates(c, []GateSpec{{
		ID: "storeBlock.pool-refresh-after-publish", Fn: fnStoreBlock, Target: "call:pkg/core/mempool.(*Pool).RemoveStale",
		MustCall: [][]string{{symPersistPrivate}},
		MustNode: [][]string{{"pkg/core#blockHeight", "sync/atomic.StoreUint32"}},
	}})
	after := f.reach(pub.blk.Succs, nil, nil)
	n := 0
	for _, r := range f.Returns() {
		_, reach := after[r.blk]
		if !reach && !(r.blk == pub.blk && r.idx > pub.idx) {
			continue
		}
		n++
		rs := r.node.(*ast.ReturnStmt)
		key := fmt.Sprintf("storeBlock.after-publish.return#%d", n)
		if len(rs.Results) == 1 {
			if id, ok := ast.Unparen(rs.Results[0]).(*ast.Ident); ok {
				if _, isNil := f.Info.ObjectOf(id).(*types.Nil); isNil {
					c.OK(key, c.P.Pos(rs.Pos()), "exit after the publish reports success")
					continue
				}
			}
			m := f.Mentions(rs.Results[0], r.blk)
			if m[symBC+"updateExtensibleWhitelist"] && len(rs.Results) == 1 {
				// tabled: refresh of a derived service list after the block is accepted; the block IS stored at that point
				c.OK(key, c.P.Pos(rs.Pos()), "tabled exception: error of updateExtensibleWhitelist (post-commit refresh of a derived list)")
				continue
			}
		}
		c.Fail(key, c.P.Pos(rs.Pos()), "storeBlock can return an error after PersistPrivate published the block: the caller sees a rejected block whose effects are in the ledger", "publish at "+c.P.Pos(pub.call.Pos()))
	}
	// and no error exit is skipped over: every error return precedes the publish (by construction of the above)
	c.Floor("returns after publish", n, 2)
	// the publish is gated by the outcome of the storing goroutine and of the MPT update
	runGates(c, []GateSpec{{
		ID: "storeBlock.publish", Fn: fnStoreBlock, Target: "call:" + symPersistPrivate,
		Guards: []Guard{
			{ID: "mpt-batch-ok", Doc: "state root was computed without error", Alts: [][]string{{symAddMPTBatch}}},
			{ID: "aer-stored-ok", Doc: "block/transaction records were written to their layer without error", Alts: [][]string{{"recv:aerdone"}}},
		},
	}})
}

// ---------------------------------------------------------------------------
// C01/C02 block-single-publish

// storeMutators: functions of pkg/core/storage that update or delete entries of the mem/stor maps,
// closed upward (callers) inside pkg/core/storage and pkg/core/dao.
func (p *Program) storeMutators() map[*ssa.Function]bool {
	g := p.MRG()
	base := map[*ssa.Function]bool{}
	for fn := range g.Nodes {
		if fn.Pkg == nil || fn.Pkg.Pkg.Path() != modPath+"/pkg/core/storage" {
			continue
		}
		for _, b := range fn.Blocks {
			for _, ins := range b.Instrs {
				switch x := ins.(type) {
				case *ssa.MapUpdate:
					if isStoreMap(x.Map) {
						base[fn] = true
					}
				case *ssa.Call:
					if bi, ok := x.Call.Value.(*ssa.Builtin); ok && (bi.Name() == "delete" || bi.Name() == "clear") && len(x.Call.Args) > 0 && isStoreMap(x.Call.Args[0]) {
						base[fn] = true
					}
					if sf := x.Call.StaticCallee(); sf != nil && sf.Pkg == nil && sf.Origin() != nil && sf.Origin().Pkg != nil && sf.Origin().Pkg.Pkg.Path() == "maps" &&
						(sf.Origin().Name() == "Copy" || sf.Origin().Name() == "Insert" || sf.Origin().Name() == "DeleteFunc") && len(x.Call.Args) > 0 && isStoreMap(x.Call.Args[0]) {
						base[fn] = true
					}
				case *ssa.Store:
					// replacing the maps wholesale
					if fa, ok := x.Addr.(*ssa.FieldAddr); ok {
						if n := fieldName(fa); n == "mem" || n == "stor" {
							if _, isParam := fa.X.(*ssa.Parameter); isParam { // not a constructor filling a fresh object
								base[fn] = true
							}
						}
					}
				}
			}
		}
	}
	// upward closure within storage + dao packages
	work := []*ssa.Function{}
	for f := range base {
		work = append(work, f)
	}
	for len(work) > 0 {
		f := work[len(work)-1]
		work = work[:len(work)-1]
		for _, e := range g.Nodes[f].In {
			cf := e.Caller.Fn
			if base[cf] {
				continue
			}
			pk := cf.Pkg
			if pk == nil && cf.Parent() != nil {
				pk = cf.Parent().Pkg
			}
			if pk == nil {
				continue
			}
			pp := pk.Pkg.Path()
			if pp == modPath+"/pkg/core/storage" || pp == modPath+"/pkg/core/dao" {
				base[cf] = true
				work = append(work, cf)
			}
		}
	}
	return base
}

func fieldName(fa *ssa.FieldAddr) string {
	t := fa.X.Type()
	if pt, ok := t.Underlying().(*types.Pointer); ok {
		t = pt.Elem()
	}
	if st, ok := t.Underlying().(*types.Struct); ok && fa.Field < st.NumFields() {
		return st.Field(fa.Field).Name()
	}
	return ""
}

func isStoreMap(v ssa.Value) bool {
	// map value loaded from a field named mem/stor, or the result of chooseMap
	switch x := v.(type) {
	case *ssa.UnOp:
		if fa, ok := x.X.(*ssa.FieldAddr); ok {
			n := fieldName(fa)
			return n == "mem" || n == "stor"
		}
	case *ssa.Call:
		if sf := x.Call.StaticCallee(); sf != nil && sf.Name() == "chooseMap" {
			return true
		}
	case *ssa.Phi:
		for _, e := range x.Edges {
			if isStoreMap(e) {
				return true
			}
		}
	case *ssa.Parameter:
		if mt, ok := x.Type().Underlying().(*types.Map); ok {
			_ = mt
			return x.Parent() != nil && x.Parent().Pkg != nil && strings.HasSuffix(x.Parent().Pkg.Pkg.Path(), "/pkg/core/storage")
		}
	}
	return false
}

// rootedAtField: v is (derived by field selection from) a load of field `field` of a value of named type typ.
func rootedAtField(v ssa.Value, typ, field string, depth int) bool {
	if depth > 8 || v == nil {
		return false
	}
	switch x := v.(type) {
	case *ssa.UnOp:
		return rootedAtField(x.X, typ, field, depth+1)
	case *ssa.FieldAddr:
		if fieldName(x) == field && strings.HasSuffix(strings.TrimPrefix(x.X.Type().String(), "*"), typ) {
			return true
		}
		return rootedAtField(x.X, typ, field, depth+1)
	case *ssa.Field:
		return rootedAtField(x.X, typ, field, depth+1)
	case *ssa.Phi:
		for _, e := range x.Edges {
			if rootedAtField(e, typ, field, depth+1) {
				return true
			}
		}
	case *ssa.ChangeType:
		return rootedAtField(x.X, typ, field, depth+1)
	case *ssa.MakeInterface:
		return rootedAtField(x.X, typ, field, depth+1)
	}
	return false
}

func ruleSinglePublish(c *Ctx) {
	fd := c.P.Func(fnStoreBlock[0], fnStoreBlock[1], fnStoreBlock[2])
	if fd == nil {
		c.Lost("storeBlock.anchor", "storeBlock not found")
		return
	}
	f := c.P.NewFuncCFG(fd)
	pubs := f.CallSites(symPersistPrivate)
	if len(pubs) != 1 {
		c.Fail("storeBlock.publish.once", c.P.Pos(fd.Decl.Pos()), fmt.Sprintf("storeBlock must publish through exactly one PersistPrivate call, found %d", len(pubs)))
		return
	}
	pub := pubs[0]
	inLoop := false
	for _, l := range f.Loops() {
		if containsNode(l.Stmt, pub.call) {
			inLoop = true
		}
	}
	se, _ := pub.call.Fun.(*ast.SelectorExpr)
	if inLoop || se == nil || !f.Mentions(se.X, pub.blk)["pkg/core#dao"] {
		c.Fail("storeBlock.publish.once", c.P.Pos(pub.call.Pos()), "the publish is inside a loop or not applied to the blockchain's shared DAO")
	} else {
		c.OK("storeBlock.publish.once", c.P.Pos(pub.call.Pos()), "one PersistPrivate on bc.dao, not in a loop")
	}
	// its arguments are the private layers created from bc.dao at the top of the function
	layers := map[types.Object]bool{}
	for i, a := range pub.call.Args {
		o := rootObj(f.Info, a)
		ds := f.defs[o]
		good := o != nil && len(ds) == 1
		if good {
			m := map[string]bool{}
			for _, r := range ds[0].rhs {
				for k := range f.Mentions(r, nil) {
					m[k] = true
				}
			}
			good = m[symGetPrivate] && m["pkg/core#dao"]
		}
		key := fmt.Sprintf("storeBlock.publish.arg%d", i)
		if good {
			layers[o] = true
			c.OK(key, c.P.Pos(a.Pos()), "argument is a private layer created once from bc.dao.GetPrivate()")
		} else {
			c.Fail(key, c.P.Pos(a.Pos()), "argument of PersistPrivate is not a layer created by bc.dao.GetPrivate() in this function")
		}
	}
	// the tip pointer travels with the block: StoreAsCurrentBlock is issued on one of the published layers
	// (in the function or one of its closures)
	tip := 0
	ast.Inspect(fd.Decl.Body, func(n ast.Node) bool {
		call, ok := n.(*ast.CallExpr)
		if !ok || f.calleeSym(call) != "pkg/core/dao.(*Simple).StoreAsCurrentBlock" {
			return true
		}
		tip++
		recv := call.Fun.(*ast.SelectorExpr).X
		o := rootObj(f.Info, recv)
		ok2 := layers[o]
		if !ok2 && o != nil { // alias local: kvcache = aerCache
			for _, d := range f.allDefs(fd.Decl.Body, o) {
				if layers[rootObj(f.Info, d)] {
					ok2 = true
				}
			}
		}
		if ok2 {
			c.OK("storeBlock.tip-with-block", c.P.Pos(call.Pos()), "current-block pointer is written to a layer that is published together with the block")
		} else {
			c.Fail("storeBlock.tip-with-block", c.P.Pos(call.Pos()), "StoreAsCurrentBlock is not issued on a layer passed to PersistPrivate: tip pointer and block could reach the database in different batches")
		}
		return true
	})
	if tip == 0 {
		c.Fail("storeBlock.tip-with-block", c.P.Pos(fd.Decl.Pos()), "storeBlock no longer stores the current-block pointer into a published layer")
	}

	// no other mutation of the shared DAO/store in the closure of storeBlock
	g := c.P.MRG()
	mut := c.P.storeMutators()
	root := c.P.SSAFunc(fd.Obj)
	via := g.Reach(append([]*ssa.Function{root}, c.P.HandlerRoots()...), nil)
	var fns []*ssa.Function
	for fn := range via {
		fns = append(fns, fn)
	}
	sort.Slice(fns, func(i, j int) bool { return FnKey(fns[i]) < FnKey(fns[j]) })
	nmut, nshared := 0, 0
	for _, fn := range fns {
		for _, b := range fn.Blocks {
			for _, ins := range b.Instrs {
				ci, ok := ins.(ssa.CallInstruction)
				if !ok {
					continue
				}
				cc := ci.Common()
				sf := cc.StaticCallee()
				if sf == nil || !mut[sf] || len(cc.Args) == 0 {
					continue
				}
				nmut++
				if !rootedAtField(cc.Args[0], "core.Blockchain", "dao", 0) {
					continue
				}
				nshared++
				key := "shared-dao-write:" + FnKey(fn) + "->" + sf.Name()
				if fn == root && sf.Name() == "PersistPrivate" {
					c.OK(key, c.P.Pos(ins.Pos()), "the one publish")
					continue
				}
				c.Fail(key, c.P.Pos(ins.Pos()), fmt.Sprintf("%s mutates the blockchain's shared DAO (bc.dao) with %s during block processing, outside the single PersistPrivate publish", FnKey(fn), sf.Name()), g.PathTo(via, fn)...)
			}
		}
	}
	c.Floor("mutating dao/store calls in closure", nmut, 60)
	c.Floor("closure functions", len(fns), 1200)
	if nshared == 0 {
		c.Lost("shared-dao-write.publish", "the PersistPrivate call on bc.dao was not recognised at SSA level")
	}
}

// allDefs returns every RHS assigned to o anywhere under n (including closures).
func (f *FuncCFG) allDefs(n ast.Node, o types.Object) []ast.Expr {
	var out []ast.Expr
	ast.Inspect(n, func(x ast.Node) bool {
		switch a := x.(type) {
		case *ast.AssignStmt:
			for i, l := range a.Lhs {
				if id, ok := l.(*ast.Ident); ok && f.Info.ObjectOf(id) == o && len(a.Rhs) == len(a.Lhs) {
					out = append(out, a.Rhs[i])
				}
			}
		case *ast.ValueSpec:
			for i, id := range a.Names {
				if f.Info.ObjectOf(id) == o && len(a.Values) == len(a.Names) {
					out = append(out, a.Values[i])
				}
			}
		}
		return true
	})
	return out
}

// ---------------------------------------------------------------------------
// C03 mpt-batch-source

func ruleMPTBatchSource(c *Ctx) {
	// after a state reset the module's working trie is the trie of the reset height - unconditionally, whatever the
	// module held before: blocks applied afterwards must extend exactly that state
	runGates(c, []GateSpec{{
		ID: "ResetState.reroots-working-trie", Fn: [3]string{"pkg/core/stateroot", "Module", "ResetState"}, Target: "ok-return",
		MustNode: [][]string{{"pkg/core/stateroot#mpt", "pkg/core/mpt.NewTrie", "pkg/core/mpt.NewHashNode"}},
	}})
	fd := c.P.Func(fnStoreBlock[0], fnStoreBlock[1], fnStoreBlock[2])
	if fd == nil {
		c.Lost("storeBlock.anchor", "storeBlock not found")
		return
	}
	f := c.P.NewFuncCFG(fd)
	bs := f.CallSites(symMapToBatch)
	if len(bs) != 1 {
		c.Lost("storeBlock.batch", fmt.Sprintf("expected one MapToMPTBatch call, found %d", len(bs)))
		return
	}
	batch := bs[0]
	if len(batch.call.Args) != 1 || !f.Mentions(batch.call.Args[0], batch.blk)[symGetStorChanges] {
		c.Fail("batch.from-change-set", c.P.Pos(batch.call.Pos()), "the MPT batch is not built from GetStorageChanges() of a layer")
		return
	}
	L := rootObj(f.Info, batch.call.Args[0])
	if L == nil {
		c.Fail("batch.from-change-set", c.P.Pos(batch.call.Pos()), "cannot identify the layer whose changes form the MPT batch")
		return
	}
	c.OK("batch.from-change-set", c.P.Pos(batch.call.Pos()), "MPT batch = GetStorageChanges() of layer "+L.Name())
	// L is the layer all execution of the block writes to
	nexec := 0
	for _, s := range f.CallSites(symRunPersist, symNewInteropCtx) {
		nexec++
		idx := 2
		if f.calleeSym(s.call) == symNewInteropCtx {
			idx = 1
		}
		key := fmt.Sprintf("batch.same-layer.exec#%d", nexec)
		if idx < len(s.call.Args) && rootObj(f.Info, s.call.Args[idx]) == L {
			c.OK(key, c.P.Pos(s.call.Pos()), "execution writes to the layer the batch is taken from")
		} else {
			c.Fail(key, c.P.Pos(s.call.Pos()), "an execution of this block writes to a different layer than the one the MPT batch is computed from: its storage changes would not be committed to by the state root")
		}
	}
	c.Floor("execution sites", nexec, 3)
	// L is published
	pubOK := false
	for _, p := range f.CallSites(symPersistPrivate) {
		for _, a := range p.call.Args {
			if rootObj(f.Info, a) == L {
				pubOK = true
			}
		}
	}
	if pubOK {
		c.OK("batch.layer-published", c.P.Pos(batch.call.Pos()), "the layer the batch is taken from is an argument of the publish")
	} else {
		c.Fail("batch.layer-published", c.P.Pos(batch.call.Pos()), "the layer whose changes were hashed into the state root is not the one that is published")
	}
	// the batch is computed after the last execution: no execution site reachable from the batch
	after := f.reach([]*cfg.Block{batch.blk}, nil, nil)
	late := false
	for _, s := range f.CallSites(symRunPersist, symNewInteropCtx, "pkg/core/interop.(*Context).Exec") {
		if _, ok := after[s.blk]; ok && !(s.blk == batch.blk && s.idx < batch.idx) {
			late = true
			c.Fail("batch.after-execution", c.P.Pos(s.call.Pos()), "an execution can run after the MPT batch was computed: its storage changes are stored but not covered by the state root", "batch at "+c.P.Pos(batch.call.Pos()))
		}
	}
	if !late {
		c.OK("batch.after-execution", c.P.Pos(batch.call.Pos()), "no execution site is reachable from the batch computation")
	}
	// after the batch, L is only used by the tabled non-writing consumers
	allowed := map[string]string{
		symAddMPTBatch:                    "writes trie nodes (DataMPT) only",
		symPersistPrivate:                 "the publish",
		"pkg/core/dao.(*Simple).GetBatch": "read-only snapshot for SaveStorageBatch",
		symGetStorChanges:                 "the batch itself",
		symMapToBatch:                     "the batch itself",
	}
	nuse := 0
	for _, b := range f.G.Blocks {
		if _, ok := after[b]; !ok {
			continue
		}
		for i, n := range b.Nodes {
			if b == batch.blk && i < batch.idx {
				continue
			}
			inspectNoLit(n, func(x ast.Node) bool {
				call, ok := x.(*ast.CallExpr)
				if !ok {
					return true
				}
				uses := false
				if se, ok := call.Fun.(*ast.SelectorExpr); ok && rootObj(f.Info, se.X) == L {
					uses = true
				}
				for _, a := range call.Args {
					if rootObj(f.Info, a) == L {
						uses = true
					}
				}
				if !uses {
					return true
				}
				nuse++
				cs := f.calleeSym(call)
				key := "batch.no-late-write." + shortSym(cs)
				if why, ok := allowed[cs]; ok {
					c.OK(key, c.P.Pos(call.Pos()), "use of the layer after the batch: "+why)
				} else {
					c.Fail(key, c.P.Pos(call.Pos()), fmt.Sprintf("layer %s is used by %s after its storage changes were hashed into the state root; a storage write here would not be covered by the root", L.Name(), cs))
				}
				return true
			})
		}
	}
	c.Floor("uses of the layer after the batch", nuse, 3)
}

// ---------------------------------------------------------------------------
// C04 unload-rollback, reset-complete, try-scan

func ruleUnloadRollback(c *Ctx) {
	fd := c.P.Func("pkg/core/interop/contract", "", "callExFromNative")
	if fd == nil {
		c.Lost("anchor", "callExFromNative not found")
		return
	}
	_ = fd.Pkg.TypesInfo
	// the unload callback: the function literal with a `commit bool` parameter
	var lit *ast.FuncLit
	ast.Inspect(fd.Decl.Body, func(n ast.Node) bool {
		if l, ok := n.(*ast.FuncLit); ok && lit == nil {
			// signature func(*vm.VM, *vm.Context, bool) error: the bool says whether the context unloads normally
			np := 0
			lastBool := false
			for _, fl := range l.Type.Params.List {
				k := len(fl.Names)
				if k == 0 {
					k = 1
				}
				np += k
				lastBool = isBoolType(fd.Pkg.TypesInfo.TypeOf(fl.Type))
			}
			if np == 3 && lastBool {
				lit = l
			}
		}
		return true
	})
	if lit == nil {
		c.Lost("unload-callback", "no unload callback (func literal of type func(*VM, *Context, bool) error) in callExFromNative")
		return
	}
	ofOuter := c.P.NewFuncCFG(fd)
	f := c.P.NewLitCFGIn(ofOuter, "pkg/core/interop/contract.callExFromNative$onUnload", lit)
	pos := c.P.Pos(lit.Pos())
	ruleWrapMask(c, fd)
	wrappedT := symAssume("local<-pkg/vm.(*VM).ContractHasTryBlock", true)
	// (a) persist only on commit
	persist := f.CallSites(symDAOPersist)
	if len(persist) == 0 {
		// persisting the raw store of the layer instead of the layer itself merges the key/value pairs but drops the
		// layer's copies of the native caches: the callee's native-setting changes land in storage, not in the cache
		if raw := f.CallSites("pkg/core/storage.(*MemCachedStore).Persist", "pkg/core/storage.(*MemCachedStore).PersistSync"); len(raw) > 0 {
			c.Fail("unload.persist", c.P.Pos(raw[0].call.Pos()), "the unload callback commits the callee's layer through the store's Persist instead of dao.Simple.Persist: storage is merged into the caller's layer but the native caches of the callee's layer are dropped, so a successful try-wrapped call loses its native-setting changes from the node's caches")
		} else {
			c.Lost("unload.persist", "unload callback does not persist the wrapped layer")
		}
	} else {
		for _, g := range []Guard{
			{ID: "commit", Doc: "the callee's layer is persisted only when the context unloads without an uncaught exception", Alts: [][]string{{"param#2"}}},
			{ID: "wrapped", Doc: "a layer is persisted only if this call created one", Alts: [][]string{{"local<-pkg/vm.(*VM).ContractHasTryBlock"}}},
		} {
			res := f.CheckGate(f.Entry(), blocksOf(persist), g, nil)
			if res.OK {
				c.OK("unload.persist."+g.ID, pos, res.Msg)
			} else {
				c.Fail("unload.persist."+g.ID, pos, "unload callback of a wrapped call: "+res.Msg, res.Path...)
			}
		}
	}
	// (b) on the failing branch notifications are cut back, and nothing is persisted
	exits := blocksOf(f.Returns())
	failA := &Assume{Sym: map[string]bool{"local<-pkg/vm.(*VM).ContractHasTryBlock": true, "param#2": false}}
	if ok, path, n := f.CheckMustNode(f.Entry(), exits, failA, "pkg/core/interop#Notifications", "local<-pkg/core/interop#Notifications"); ok && n > 0 {
		c.OK("unload.rollback.notifications", pos, "on an uncaught exception every path cuts ic.Notifications back to the length recorded before the call")
	} else {
		c.Fail("unload.rollback.notifications", pos, "an exit of the unload callback on the exception branch keeps the callee's notifications (no truncation to baseNtfCount)", path...)
	}
	r := f.reach(f.Entry(), nil, failA)
	leak := false
	for _, p := range persist {
		if _, ok := r[p.blk]; ok {
			leak = true
		}
	}
	if leak {
		c.Fail("unload.rollback.no-persist", pos, "the callee's layer can be persisted although the context unloads with an uncaught exception")
	} else {
		c.OK("unload.rollback.no-persist", pos, "no Persist is reachable on the exception branch")
	}
	// (c) the base layer is restored on both branches
	okExits := blocksOf(f.OKReturns()) // an error from the callback faults the whole execution: nothing continues on that layer
	if ok, path, n := f.CheckMustNode(f.Entry(), okExits, wrappedT, "pkg/core/interop#DAO", "local<-pkg/core/interop#DAO"); ok && n > 0 {
		c.OK("unload.restore-dao", pos, "every non-failing exit of a wrapped call's unload restores ic.DAO to the base layer")
	} else {
		c.Fail("unload.restore-dao", pos, "an exit of the unload callback leaves ic.DAO pointing at the callee's private layer", path...)
	}
	// (d) in the enclosing function: baseline values are captured before the layer is replaced and the callee loaded
	of := ofOuter
	load := of.CallSites("pkg/vm.(*VM).LoadNEFMethod")
	if len(load) == 0 {
		c.Lost("call.load", "no LoadNEFMethod in callExFromNative")
	} else {
		for _, mn := range [][]string{{"local<-pkg/core/interop#Notifications", "pkg/core/interop#Notifications", "builtin.len"}, {"local<-pkg/core/interop#DAO", "pkg/core/interop#DAO"}} {
			ok, path, n := of.CheckMustNode(of.Entry(), blocksOf(load), nil, mn...)
			key := "call.baseline." + shortSym(mn[1])
			if ok && n > 0 {
				c.OK(key, c.P.Pos(fd.Decl.Pos()), mn[0]+" is captured before the callee is loaded")
			} else {
				c.Fail(key, c.P.Pos(fd.Decl.Pos()), "the callee can be loaded without "+mn[0]+" having been captured", path...)
			}
		}
		// a private layer is created iff the unload callback will handle it
		res := of.CheckGate(of.Entry(), blocksOf(of.NodeSites("pkg/core/interop#DAO", symGetPrivate)), Guard{ID: "wrapped", Doc: "the private layer is created under the same flag the unload callback tests", Alts: [][]string{{"local<-pkg/vm.(*VM).ContractHasTryBlock"}}}, nil)
		if res.OK {
			c.OK("call.layer-iff-wrapped", c.P.Pos(fd.Decl.Pos()), res.Msg)
		} else {
			c.Fail("call.layer-iff-wrapped", c.P.Pos(fd.Decl.Pos()), "a private DAO layer is created on a path where the unload callback will not commit or drop it: "+res.Msg, res.Path...)
		}
	}
	// (e) the VM tells the callback the truth: commit == no uncaught exception
	if uc := c.P.Func("pkg/vm", "VM", "unloadContext"); uc == nil {
		c.Lost("vm.unloadContext", "unloadContext not found")
	} else {
		uf := c.P.NewFuncCFG(uc)
		found := false
		for _, s := range uf.CallSites("pkg/vm#onUnload") {
			if len(s.call.Args) == 3 {
				if be, ok := ast.Unparen(s.call.Args[2]).(*ast.BinaryExpr); ok && be.Op == token.EQL && uf.DirectMentions(be)["pkg/vm#uncaughtException"] && isNilIdent(uf.Info, be.Y) {
					found = true
				}
			}
		}
		if found {
			c.OK("vm.unload-commit-flag", c.P.Pos(uc.Decl.Pos()), "unload callbacks receive commit = (uncaughtException == nil)")
		} else {
			c.Fail("vm.unload-commit-flag", c.P.Pos(uc.Decl.Pos()), "unloadContext no longer passes `v.uncaughtException == nil` as the commit flag of the unload callback")
		}
	}
	// (f) every try context of every frame of the current contract decides whether a call needs a layer of its own
	if hb := c.P.Func("pkg/vm", "VM", "ContractHasTryBlock"); hb == nil {
		c.Lost("vm.ContractHasTryBlock", "ContractHasTryBlock not found")
	} else {
		hf := c.P.NewFuncCFG(hb)
		okScan := false
		for _, s := range hf.CallSites("pkg/vm.(*Stack).Peek") {
			if len(s.call.Args) != 1 {
				continue
			}
			id, ok := ast.Unparen(s.call.Args[0]).(*ast.Ident)
			if !ok {
				continue
			}
			for _, d := range hf.defs[hf.Info.ObjectOf(id)] {
				if rs, ok := d.node.(*ast.RangeStmt); ok && hf.DirectMentions(rs.X)["pkg/vm.(*Stack).Len"] && hf.DirectMentions(rs.X)["pkg/vm#tryStack"] {
					okScan = true
				}
			}
		}
		nloops := 0
		for _, l := range hf.Loops() {
			if l.X != nil && (hf.DirectMentions(l.X)["pkg/vm#istack"] || hf.DirectMentions(l.X)["pkg/vm#tryStack"]) {
				nloops++
			}
		}
		if okScan && nloops >= 2 {
			c.OK("vm.try-scan", c.P.Pos(hb.Decl.Pos()), "ContractHasTryBlock walks every frame of the contract and every handler on each frame's try stack")
		} else {
			c.Fail("vm.try-scan", c.P.Pos(hb.Decl.Pos()), "ContractHasTryBlock no longer examines every exception handler of every frame of the current contract: a call made while an outer TRY is active gets no layer of its own, so a caught exception leaves the callee's changes behind")
		}
	}
}

// ruleResetComplete: every VM field that execution writes is re-initialised by Reset (one VM is reused for all
// transactions of a block).
func ruleResetComplete(c *Ctx) {
	pk := c.P.Pkg("pkg/vm")
	reset := c.P.Func("pkg/vm", "VM", "Reset")
	ex := c.P.Func("pkg/vm", "VM", "execute")
	if pk == nil || reset == nil || ex == nil {
		c.Lost("anchor", "vm.Reset / vm.execute not found")
		return
	}
	vmT, _ := pk.Types.Scope().Lookup("VM").(*types.TypeName)
	st, _ := vmT.Type().Underlying().(*types.Struct)
	isVMField := map[string]bool{}
	for i := 0; st != nil && i < st.NumFields(); i++ {
		isVMField[symOf(st.Field(i))] = true
	}
	ws := c.P.PkgWriteSummary("pkg/vm")
	// fields written while executing: closure of execute + the exception machinery inside package vm
	written := map[string]string{}
	g := c.P.MRG()
	via := g.Reach([]*ssa.Function{c.P.SSAFunc(ex.Obj)}, func(e *MEdge) bool {
		cf := e.Callee.Fn
		for cf.Parent() != nil {
			cf = cf.Parent()
		}
		return cf.Pkg == nil || pkgRel(cf.Pkg.Pkg) != "pkg/vm"
	})
	for fn := range via {
		o, ok := fn.Object().(*types.Func)
		if !ok {
			continue
		}
		for fld := range ws.Direct[o] {
			if isVMField[fld] {
				// only writes whose base is a *VM value
				written[fld] = FuncKey(o)
			}
		}
	}
	resetW := ws.Direct[reset.Obj]
	// fields that are configuration of the embedding (set once per use by the owner), not execution state
	config := map[string]string{
		"pkg/vm#hooks": "debugger/inspection hooks", "pkg/vm#isHardforkEnabled": "protocol configuration callback",
		"pkg/vm#keys": "public key cache (content-addressed, harmless to keep)", "pkg/vm#estack": "re-sliced through estack.elems in Reset; replaced per context on load",
	}
	n := 0
	for _, fld := range sortedKeys(written) {
		n++
		key := "field." + shortSym(fld)
		switch {
		case len(resetW[fld]) > 0:
			c.OK(key, c.P.Pos(reset.Decl.Pos()), fmt.Sprintf("VM.%s is written during execution (%s) and re-initialised by Reset", shortSym(fld), shortSym(written[fld])))
		case config[fld] != "":
			c.OK(key, c.P.Pos(reset.Decl.Pos()), "tabled: "+config[fld])
		default:
			c.Fail(key, c.P.Pos(reset.Decl.Pos()), fmt.Sprintf("VM.%s is written during execution (%s) but VM.Reset does not re-initialise it: the block's next transaction, which reuses this VM, starts with the previous transaction's %s", shortSym(fld), written[fld], shortSym(fld)))
		}
	}
	c.Floor("VM fields written during execution", n, 5)
}

// ruleWrapMask: a call gets its own rollback scope (private DAO layer + notification baseline) whenever its flags let
// the callee leave something to roll back: contract storage (WriteStates) or notifications (AllowNotify). The flag test
// in the definition of `wrapped` is a constant mask; it must contain both bits.
func ruleWrapMask(c *Ctx, fd *FuncDecl) {
	info := fd.Pkg.TypesInfo
	key := "callExFromNative.scope-mask"
	cf := c.P.Pkg("pkg/smartcontract/callflag")
	if cf == nil {
		c.Lost(key+".anchor", "package callflag not found")
		return
	}
	bit := func(name string) (int64, bool) {
		k, ok := cf.Types.Scope().Lookup(name).(*types.Const)
		if !ok {
			return 0, false
		}
		v, ok := constant.Int64Val(k.Val())
		return v, ok
	}
	ws, ok1 := bit("WriteStates")
	an, ok2 := bit("AllowNotify")
	if !ok1 || !ok2 {
		c.Lost(key+".anchor", "callflag.WriteStates / AllowNotify not found")
		return
	}
	need := ws | an
	var def ast.Expr
	ast.Inspect(fd.Decl.Body, func(n ast.Node) bool {
		as, ok := n.(*ast.AssignStmt)
		if !ok || len(as.Lhs) != 1 || len(as.Rhs) != 1 {
			return true
		}
		if _, ok := as.Lhs[0].(*ast.Ident); ok && def == nil && isBoolType(info.TypeOf(as.Rhs[0])) {
			// the decision: the boolean that asks whether the caller has a try block
			mentionsTry := false
			ast.Inspect(as.Rhs[0], func(m ast.Node) bool {
				if se, ok := m.(*ast.SelectorExpr); ok && se.Sel.Name == "ContractHasTryBlock" {
					mentionsTry = true
				}
				return true
			})
			if mentionsTry {
				def = as.Rhs[0]
			}
		}
		return true
	})
	if def == nil {
		c.Lost(key+".def", "no definition of the rollback-scope decision (`wrapped`) in callExFromNative")
		return
	}
	// find `<flags> & MASK != 0` with MASK constant
	found := false
	ast.Inspect(def, func(n ast.Node) bool {
		be, ok := n.(*ast.BinaryExpr)
		if !ok || be.Op != token.AND {
			return true
		}
		for _, side := range []ast.Expr{be.X, be.Y} {
			tv, ok := info.Types[side]
			if !ok || tv.Value == nil {
				continue
			}
			mask, ok := constant.Int64Val(constant.ToInt(tv.Value))
			if !ok {
				continue
			}
			found = true
			if mask&need == need {
				c.OK(key, c.P.Pos(be.Pos()), fmt.Sprintf("the rollback-scope test masks the call flags with %#x, which contains WriteStates|AllowNotify (%#x)", mask, need))
			} else {
				c.Fail(key, c.P.Pos(be.Pos()), fmt.Sprintf("the rollback-scope test masks the call flags with %#x, which lacks part of WriteStates|AllowNotify (%#x): a callee allowed to do the missing kind of change runs without a scope of its own, so what it did before throwing stays after the caller catches the exception", mask, need))
			}
		}
		return true
	})
	if !found {
		c.Unclassified(key, c.P.Pos(def.Pos()), "the rollback-scope decision does not test the call flags against a constant mask")
	}
}
