package main

import (
	"fmt"
	"go/ast"
	"go/token"
	"go/types"
	"sort"
	"strings"

	"golang.org/x/tools/go/cfg"
)

// ---------------------------------------------------------------------------
// Path-sensitive forward analysis with boolean correlation (DESIGN.md §2.3).
//
// A state is a valuation of "stable" boolean locals/params (assigned constants only, or never
// assigned after their definition) plus a small map of named integer/string facts maintained by
// the client's transfer function. Per block a *set* of states is kept (cap 64).

type FState struct {
	Bools map[string]bool // "name" -> value (only when known)
	Facts map[string]int  // client facts (lock depth per mutex, typestate, ...)
	Defer []string        // deferred client ops, applied at return in reverse order
}

func (s FState) clone() FState {
	n := FState{Bools: map[string]bool{}, Facts: map[string]int{}, Defer: append([]string(nil), s.Defer...)}
	for k, v := range s.Bools {
		n.Bools[k] = v
	}
	for k, v := range s.Facts {
		n.Facts[k] = v
	}
	return n
}

func (s FState) key() string {
	var parts []string
	for k, v := range s.Bools {
		parts = append(parts, fmt.Sprintf("b:%s=%v", k, v))
	}
	for k, v := range s.Facts {
		if v != 0 {
			parts = append(parts, fmt.Sprintf("f:%s=%d", k, v))
		}
	}
	sort.Strings(parts)
	return strings.Join(parts, ",") + "|" + strings.Join(s.Defer, ";")
}

// FlowClient supplies the transfer function.
type FlowClient interface {
	// Node is called for every CFG node in order; it may mutate st and report through its own channels.
	Node(f *FuncCFG, b *cfg.Block, idx int, n ast.Node, st *FState)
	// Exit is called at every return (after deferred ops were re-played through Deferred) and at fall-off.
	Exit(f *FuncCFG, b *cfg.Block, ret *ast.ReturnStmt, st *FState)
	// Deferred replays one deferred op.
	Deferred(f *FuncCFG, op string, st *FState)
}

// EdgeClient is optionally implemented by clients that learn facts from branch outcomes.
type EdgeClient interface {
	// Edge is called for every atomic condition whose value is implied by the branch taken;
	// returning false declares the edge infeasible in this state.
	Edge(f *FuncCFG, b *cfg.Block, cond ast.Expr, value bool, st *FState) bool
}

// impliedAtoms lists the atoms of c whose value is determined by c == want.
func impliedAtoms(c ast.Expr, want bool, out *[]struct {
	e ast.Expr
	v bool
}) {
	c = ast.Unparen(c)
	switch x := c.(type) {
	case *ast.UnaryExpr:
		if x.Op == token.NOT {
			impliedAtoms(x.X, !want, out)
			return
		}
	case *ast.BinaryExpr:
		if (x.Op == token.LAND && want) || (x.Op == token.LOR && !want) {
			impliedAtoms(x.X, want, out)
			impliedAtoms(x.Y, want, out)
			return
		}
		if x.Op == token.LAND || x.Op == token.LOR {
			return // nothing is implied about the individual atoms
		}
	}
	*out = append(*out, struct {
		e ast.Expr
		v bool
	}{c, want})
}

// FlowResult keeps the states at block entry.
type FlowResult struct {
	In       map[*cfg.Block]map[string]FState
	Overflow bool
}

const flowCap = 64

// stableBools finds boolean variables whose value can be tracked: params never assigned, and locals
// assigned only constants true/false or defined once from a non-constant expression.
func (f *FuncCFG) stableBools() map[types.Object]bool {
	cand := map[types.Object]bool{}
	bad := map[types.Object]bool{}
	isBool := func(o types.Object) bool {
		if o == nil {
			return false
		}
		b, ok := o.Type().Underlying().(*types.Basic)
		return ok && b.Kind() == types.Bool
	}
	for o := range f.params {
		if isBool(o) {
			cand[o] = true
		}
	}
	nondet := map[types.Object]int{}
	ast.Inspect(f.Body, func(n ast.Node) bool {
		switch x := n.(type) {
		case *ast.AssignStmt:
			for i, l := range x.Lhs {
				id, ok := l.(*ast.Ident)
				if !ok {
					continue
				}
				o := f.Info.ObjectOf(id)
				if !isBool(o) {
					continue
				}
				cand[o] = true
				if len(x.Rhs) == len(x.Lhs) {
					if _, ok := boolConst(f.Info, x.Rhs[i]); ok {
						continue
					}
				}
				nondet[o]++
			}
		case *ast.ValueSpec:
			for _, id := range x.Names {
				if o := f.Info.ObjectOf(id); isBool(o) {
					cand[o] = true
					if len(x.Values) > 0 {
						nondet[o]++
					}
				}
			}
		case *ast.UnaryExpr:
			if x.Op == token.AND {
				if id, ok := ast.Unparen(x.X).(*ast.Ident); ok {
					bad[f.Info.ObjectOf(id)] = true
				}
			}
		case *ast.FuncLit:
			// variables captured and assigned inside closures are not stable
			ast.Inspect(x.Body, func(m ast.Node) bool {
				if a, ok := m.(*ast.AssignStmt); ok {
					for _, l := range a.Lhs {
						if id, ok := l.(*ast.Ident); ok {
							bad[f.Info.ObjectOf(id)] = true
						}
					}
				}
				return true
			})
		}
		return true
	})
	out := map[types.Object]bool{}
	for o := range cand {
		if !bad[o] && nondet[o] <= 1 {
			out[o] = true
		}
	}
	return out
}

func boolConst(info *types.Info, e ast.Expr) (bool, bool) {
	if id, ok := ast.Unparen(e).(*ast.Ident); ok {
		if c, ok := info.ObjectOf(id).(*types.Const); ok && c.Parent() == types.Universe {
			return c.Name() == "true", c.Name() == "true" || c.Name() == "false"
		}
	}
	return false, false
}

// RunFlow runs the analysis from the entry block with the given initial state.
func (f *FuncCFG) RunFlow(client FlowClient, init FState, assume *Assume) *FlowResult {
	stable := f.stableBools()
	res := &FlowResult{In: map[*cfg.Block]map[string]FState{}}
	if len(f.G.Blocks) == 0 {
		return res
	}
	entry := f.G.Blocks[0]
	res.In[entry] = map[string]FState{init.key(): init}
	work := []*cfg.Block{entry}
	inWork := map[*cfg.Block]bool{entry: true}
	processed := map[*cfg.Block]map[string]bool{}
	for len(work) > 0 {
		b := work[0]
		work = work[1:]
		inWork[b] = false
		if processed[b] == nil {
			processed[b] = map[string]bool{}
		}
		keys := make([]string, 0, len(res.In[b]))
		for k := range res.In[b] {
			keys = append(keys, k)
		}
		sort.Strings(keys)
		for _, k := range keys {
			if processed[b][k] {
				continue
			}
			processed[b][k] = true
			st := res.In[b][k].clone()
			returned := false
			for i, n := range b.Nodes {
				// constant assignments to stable bools
				f.trackBoolAssign(n, stable, &st)
				if ds, ok := n.(*ast.DeferStmt); ok {
					if op := deferOp(f, ds); op != "" {
						st.Defer = append(st.Defer, op)
					}
				}
				client.Node(f, b, i, n, &st)
				if r, ok := n.(*ast.ReturnStmt); ok {
					f.exit(client, b, r, &st)
					returned = true
					break
				}
			}
			if returned {
				continue
			}
			if len(b.Succs) == 0 {
				// fall off the end, or no-return call
				if len(b.Nodes) > 0 {
					if es, ok := b.Nodes[len(b.Nodes)-1].(*ast.ExprStmt); ok {
						if call, ok := es.X.(*ast.CallExpr); ok && noReturnCall(f.Info, call) {
							continue
						}
					}
				}
				f.exit(client, b, nil, &st)
				continue
			}
			for si, s := range b.Succs {
				if si == 1 && b.Kind == cfg.KindRangeLoop {
					// ranging over a ticker/timer channel never terminates: the channel is never closed
					if rs, ok := b.Stmt.(*ast.RangeStmt); ok && f.Mentions(rs.X, nil)["time#C"] {
						continue
					}
				}
				ns := st.clone()
				if len(b.Succs) == 2 {
					if c := f.Cond(b); c != nil {
						want := si == 0
						if !f.refine(c, want, stable, &ns, assume, b) {
							continue // infeasible edge
						}
						if ec, ok := client.(EdgeClient); ok {
							var atoms []struct {
								e ast.Expr
								v bool
							}
							impliedAtoms(c, want, &atoms)
							feasible := true
							for _, a := range atoms {
								if !ec.Edge(f, b, a.e, a.v, &ns) {
									feasible = false
								}
							}
							if !feasible {
								continue
							}
						}
					}
				}
				if res.In[s] == nil {
					res.In[s] = map[string]FState{}
				}
				nk := ns.key()
				if _, ok := res.In[s][nk]; !ok {
					if len(res.In[s]) >= flowCap {
						res.Overflow = true
						continue
					}
					res.In[s][nk] = ns
					if !inWork[s] {
						inWork[s] = true
						work = append(work, s)
					}
				}
			}
		}
	}
	return res
}

func (f *FuncCFG) exit(client FlowClient, b *cfg.Block, r *ast.ReturnStmt, st *FState) {
	for i := len(st.Defer) - 1; i >= 0; i-- {
		client.Deferred(f, st.Defer[i], st)
	}
	client.Exit(f, b, r, st)
}

func (f *FuncCFG) trackBoolAssign(n ast.Node, stable map[types.Object]bool, st *FState) {
	if vs, ok := n.(*ast.ValueSpec); ok {
		// go/cfg adds each var ValueSpec as its own node: `var x bool` starts false, `var x = true` is constant
		for i, id := range vs.Names {
			o := f.Info.ObjectOf(id)
			if !stable[o] {
				continue
			}
			if len(vs.Values) == 0 {
				st.Bools[o.Name()] = false
			} else if i < len(vs.Values) {
				if v, ok := boolConst(f.Info, vs.Values[i]); ok {
					st.Bools[o.Name()] = v
				}
			}
		}
		return
	}
	a, ok := n.(*ast.AssignStmt)
	if !ok {
		return
	}
	for i, l := range a.Lhs {
		id, ok := l.(*ast.Ident)
		if !ok {
			continue
		}
		o := f.Info.ObjectOf(id)
		if !stable[o] {
			continue
		}
		if len(a.Rhs) == len(a.Lhs) {
			if v, ok := boolConst(f.Info, a.Rhs[i]); ok {
				st.Bools[o.Name()] = v
				continue
			}
		}
		delete(st.Bools, o.Name())
	}
}

// refine updates st with what is learnt from cond == want; returns false if the edge is infeasible.
func (f *FuncCFG) refine(c ast.Expr, want bool, stable map[types.Object]bool, st *FState, assume *Assume, b *cfg.Block) bool {
	c = ast.Unparen(c)
	if !assume.empty() {
		if v, ok := f.eval3(c, b, assume); ok {
			return v == want
		}
	}
	switch x := c.(type) {
	case *ast.Ident:
		o := f.Info.ObjectOf(x)
		if stable[o] {
			if v, ok := st.Bools[o.Name()]; ok {
				return v == want
			}
			st.Bools[o.Name()] = want
		}
		return true
	case *ast.UnaryExpr:
		if x.Op == token.NOT {
			return f.refine(x.X, !want, stable, st, assume, b)
		}
	case *ast.BinaryExpr:
		switch x.Op {
		case token.LAND:
			if want {
				return f.refine(x.X, true, stable, st, assume, b) && f.refine(x.Y, true, stable, st, assume, b)
			}
			// !(a && b): infeasible only if both are known true
			l, r := st.clone(), st.clone()
			lf := f.refine(x.X, false, stable, &l, assume, b)
			rf := f.refine(x.Y, false, stable, &r, assume, b)
			if !lf && !rf {
				return false
			}
			if lf && !rf {
				*st = l
			} else if rf && !lf {
				*st = r
			}
			return true
		case token.LOR:
			if !want {
				return f.refine(x.X, false, stable, st, assume, b) && f.refine(x.Y, false, stable, st, assume, b)
			}
			l, r := st.clone(), st.clone()
			lf := f.refine(x.X, true, stable, &l, assume, b)
			rf := f.refine(x.Y, true, stable, &r, assume, b)
			if !lf && !rf {
				return false
			}
			if lf && !rf {
				*st = l
			} else if rf && !lf {
				*st = r
			}
			return true
		}
	}
	return true
}

// deferOp renders a deferred call as a client op string: "call:<callee sym>:<receiver path>".
func deferOp(f *FuncCFG, ds *ast.DeferStmt) string {
	cs := f.calleeSym(ds.Call)
	if cs == "" {
		if lit, ok := ds.Call.Fun.(*ast.FuncLit); ok {
			// deferred closure: collect lock ops inside, in order
			var ops []string
			ast.Inspect(lit.Body, func(n ast.Node) bool {
				if c, ok := n.(*ast.CallExpr); ok {
					if s := f.calleeSym(c); s != "" {
						ops = append(ops, "call:"+s+":"+recvPath(f.Info, c))
					}
				}
				return true
			})
			return "multi:" + strings.Join(ops, "\x00")
		}
		return ""
	}
	return "call:" + cs + ":" + recvPath(f.Info, ds.Call)
}

// recvPath renders the receiver of a method call as a stable path: "mp.lock", "bq.queueLock".
func recvPath(info *types.Info, call *ast.CallExpr) string {
	se, ok := ast.Unparen(call.Fun).(*ast.SelectorExpr)
	if !ok {
		return ""
	}
	return exprPath(info, se.X)
}

func exprPath(info *types.Info, e ast.Expr) string {
	switch x := ast.Unparen(e).(type) {
	case *ast.Ident:
		return x.Name
	case *ast.SelectorExpr:
		return exprPath(info, x.X) + "." + x.Sel.Name
	case *ast.StarExpr:
		return exprPath(info, x.X)
	case *ast.UnaryExpr:
		if x.Op == token.AND {
			return exprPath(info, x.X)
		}
	case *ast.IndexExpr:
		return exprPath(info, x.X) + "[]"
	case *ast.CallExpr:
		return types.ExprString(x)
	}
	return types.ExprString(e)
}
