package main

import (
	"fmt"
	"go/ast"
	"go/token"
	"go/types"
	"sort"
	"strings"

	"golang.org/x/tools/go/cfg"
	"golang.org/x/tools/go/ssa"
)

const stPkg = "pkg/core/storage"

var storageAssume = symAssume("pkg/core/storage#private", false)

// ---------------------------------------------------------------------------
// lockset + atomic-pair-read for MemoryStore / MemCachedStore

var storGuarded = map[string]bool{"pkg/core/storage#mem": true, "pkg/core/storage#stor": true, "pkg/core/storage#ps": true}

// functions whose callers hold the lock (verified at every call site inside the package)
var storCallerHolds = map[string]string{
	"pkg/core/storage.(*MemoryStore).chooseMap":    "R",
	"pkg/core/storage.(*MemoryStore).putChangeSet": "W",
}

type locksetClient struct {
	*lockClient
	c        *Ctx
	fname    string
	exemptFn bool
	fresh    map[types.Object]bool // locals holding freshly built stores
	private  map[types.Object]bool // variables ranging over private layers
	naccess  int
	bad      map[string]string // key -> msg
	badPos   map[string]token.Pos
	// pair reading
	pairBad map[token.Pos]string
}

func (lc *locksetClient) held(st *FState, path, mode string) bool {
	if st.Facts["W:"+path] > 0 {
		return true
	}
	return mode == "R" && st.Facts["R:"+path] > 0
}

func (lc *locksetClient) Node(f *FuncCFG, b *cfg.Block, idx int, n ast.Node, st *FState) {
	// critical-section counter
	before := st.Facts["W:s.mut"] + st.Facts["R:s.mut"]
	if _, isDefer := n.(*ast.DeferStmt); !isDefer {
		lc.scan(f, n, st)
	}
	lc.lockClient.Node(f, b, idx, n, st)
	after := st.Facts["W:s.mut"] + st.Facts["R:s.mut"]
	if before == 0 && after > 0 {
		st.Facts["sec"]++
	}
}

func (lc *locksetClient) scan(f *FuncCFG, n ast.Node, st *FState) {
	writes := map[token.Pos]bool{}
	for _, w := range nodeWrites(f.Info, n, false) {
		if storGuarded[w.Field] {
			writes[w.Pos] = true
		}
	}
	inspectNoLit(n, func(x ast.Node) bool {
		switch e := x.(type) {
		case *ast.CallExpr:
			cs := f.calleeSym(e)
			if mode, ok := storCallerHolds[cs]; ok {
				base := recvPath(f.Info, e)
				if !lc.exemptBase(f, e.Fun.(*ast.SelectorExpr).X) {
					lc.naccess++
					if !lc.held(st, base+".mut", mode) && !lc.exemptFn {
						lc.report("call."+shortSym(cs), e.Pos(), fmt.Sprintf("%s calls %s (caller must hold %s.mut) without holding the lock on this path", lc.fname, shortSym(cs), base))
					}
					if cs == "pkg/core/storage.(*MemoryStore).chooseMap" {
						lc.pair(f, "map", e.Pos(), st)
					}
				}
			}
		case *ast.SelectorExpr:
			v, ok := f.Info.ObjectOf(e.Sel).(*types.Var)
			if !ok || !v.IsField() || !storGuarded[symOf(v)] {
				return true
			}
			if lc.exemptBase(f, e.X) {
				return true
			}
			lc.naccess++
			base := exprPath(f.Info, e.X)
			mode := "R"
			// is this selector (part of) a written lvalue?
			for p := range writes {
				if e.Pos() <= p && p <= e.End() {
					mode = "W"
				}
			}
			if !lc.exemptFn && !lc.held(st, base+".mut", mode) {
				what := "reads"
				if mode == "W" {
					what = "writes"
				}
				lc.report(shortSym(symOf(v))+"."+what, e.Pos(), fmt.Sprintf("%s %s %s.%s without holding %s.mut (%s lock needed) on this path", lc.fname, what, base, v.Name(), base, map[string]string{"R": "read or write", "W": "write"}[mode]))
			}
			if v.Name() == "ps" {
				lc.pair(f, "ps", e.Pos(), st)
			} else {
				lc.pair(f, "map", e.Pos(), st)
			}
		}
		return true
	})
}

// pair: a function that reads both a cache map and ps for one answer does so inside one critical section.
func (lc *locksetClient) pair(f *FuncCFG, kind string, pos token.Pos, st *FState) {
	sec := st.Facts["sec"]
	other := "ps"
	if kind == "ps" {
		other = "map"
	}
	if o, ok := st.Facts["sec:"+other]; ok && o != 0 && o != sec && st.Facts["W:s.mut"] == 0 {
		lc.pairBad[pos] = fmt.Sprintf("%s reads the %s in a different critical section than the %s it pairs it with: a flush in between makes a committed key invisible (tempstore window)", lc.fname, map[string]string{"ps": "lower store", "map": "cache map"}[kind], map[string]string{"ps": "lower store", "map": "cache map"}[other])
	}
	st.Facts["sec:"+kind] = sec
}

func (lc *locksetClient) report(kind string, pos token.Pos, msg string) {
	k := lc.fname + "." + kind
	if _, ok := lc.bad[k]; !ok {
		lc.bad[k] = msg
		lc.badPos[k] = pos
	}
}

func (lc *locksetClient) exemptBase(f *FuncCFG, base ast.Expr) bool {
	o := rootObj(f.Info, base)
	return o != nil && (lc.fresh[o] || lc.private[o])
}

func ruleStoreLockset(c *Ctx) {
	pk := c.P.Pkg(stPkg)
	if pk == nil {
		c.Lost("anchor", "package storage not found")
		return
	}
	wr := c.P.lockWrappers()
	nfn, nacc := 0, 0
	for _, fd := range c.P.AllFuncDecls() {
		if fd.Pkg != pk || fd.Decl.Body == nil || fd.Decl.Recv == nil {
			continue
		}
		rt := fd.Obj.Type().(*types.Signature).Recv().Type()
		if !namedTypeIs(rt, stPkg, "MemoryStore") && !namedTypeIs(rt, stPkg, "MemCachedStore") {
			continue
		}
		if _, isWrapper := wr[FuncKey(fd.Obj)]; isWrapper {
			continue
		}
		f := c.P.NewFuncCFG(fd)
		key := FuncKey(fd.Obj)
		lsc := &locksetClient{c: c, fname: key, fresh: map[types.Object]bool{}, private: map[types.Object]bool{}, bad: map[string]string{}, badPos: map[string]token.Pos{}, pairBad: map[token.Pos]string{}}
		lsc.lockClient = &lockClient{p: c.P, wrappers: wr, seen: map[string]bool{}, exitIdx: map[token.Pos]int{}}
		_, lsc.exemptFn = storCallerHolds[key]
		// receiver must be called "s" for the section counter; derive generally
		// fresh locals: defined from a composite literal / constructor of a store type
		for o, ds := range f.defs {
			for _, d := range ds {
				for _, r := range d.rhs {
					r = ast.Unparen(r)
					if u, ok := r.(*ast.UnaryExpr); ok && u.Op == token.AND {
						r = u.X
					}
					if _, isLit := r.(*ast.CompositeLit); isLit {
						lsc.fresh[o] = true
					}
				}
			}
		}
		// private layers: PersistPrivate's variadic parameter and loop variables over it (its two program-bug panics
		// reject non-private stores before any access)
		if fd.Decl.Name.Name == "PersistPrivate" {
			for o := range f.params {
				if o.Name() == "private" {
					lsc.private[o] = true
				}
			}
			for o, ds := range f.defs {
				for _, d := range ds {
					if rs, ok := d.node.(*ast.RangeStmt); ok {
						if ro := rootObj(f.Info, rs.X); ro != nil && lsc.private[ro] {
							lsc.private[o] = true
						}
					}
				}
			}
		}
		// the seek helper brackets its map access with the lock functions it is given: verified at its call sites below
		if fd.Decl.Name.Name == "seek" {
			lsc.exemptFn = true
		}
		// constructors / Close (no concurrent users by contract)
		if fd.Decl.Name.Name == "Close" {
			lsc.exemptFn = true
		}
		res := f.RunFlow(lsc, FState{Bools: map[string]bool{}, Facts: map[string]int{}}, storageAssume)
		if res.Overflow {
			c.Unclassified(key+".overflow", c.P.Pos(fd.Decl.Pos()), "state overflow")
			continue
		}
		if lsc.naccess == 0 {
			continue
		}
		nfn++
		nacc += lsc.naccess
		if len(lsc.bad) == 0 && len(lsc.pairBad) == 0 {
			mode := "under the store's mutex"
			if lsc.exemptFn {
				mode = "in a caller-holds-lock function (each call site checked)"
			}
			c.OK(key, c.P.Pos(fd.Decl.Pos()), fmt.Sprintf("%d accesses of mem/stor/ps, all %s", lsc.naccess, mode))
		}
		for _, k := range sortedKeys(lsc.bad) {
			c.Fail(k, c.P.Pos(lsc.badPos[k]), lsc.bad[k])
		}
		var pps []token.Pos
		for p := range lsc.pairBad {
			pps = append(pps, p)
		}
		sort.Slice(pps, func(i, j int) bool { return pps[i] < pps[j] })
		if len(pps) > 0 {
			c.Fail(key+".pair-read", c.P.Pos(pps[0]), lsc.pairBad[pps[0]])
		}
	}
	c.Floor("store methods touching mem/stor/ps", nfn, 10)
	c.Floor("guarded field accesses", nacc, 40)
	// MemoryStore.seek receives its lock/unlock as parameters: every call passes the RLock/RUnlock pair of the same
	// store, or no-ops while holding the write lock
	nseek := 0
	for _, fd := range c.P.AllFuncDecls() {
		if fd.Pkg != pk || fd.Decl.Body == nil {
			continue
		}
		f := c.P.NewFuncCFG(fd)
		for _, s := range f.CallSites("pkg/core/storage.(*MemoryStore).seek") {
			nseek++
			key := FuncKey(fd.Obj) + ".seek-locking"
			if len(s.call.Args) != 4 {
				c.Fail(key, c.P.Pos(s.call.Pos()), "unexpected seek call shape")
				continue
			}
			l, u := types.ExprString(s.call.Args[2]), types.ExprString(s.call.Args[3])
			switch {
			case strings.HasSuffix(l, ".mut.RLock") && strings.HasSuffix(u, ".mut.RUnlock") && strings.TrimSuffix(l, ".RLock") == strings.TrimSuffix(u, ".RUnlock"):
				c.OK(key, c.P.Pos(s.call.Pos()), "seek is given the RLock/RUnlock pair of the store's own mutex")
			case l == u && l != "":
				// no-op pair: the write lock must be held around the call
				lc, _ := c.P.AnalyzeLocks(f, c.P.lockWrappers(), storageAssume, nil)
				_ = lc
				m := f.Mentions(fd.Decl.Body, nil)
				if m["sync.(*RWMutex).Lock"] && m["sync.(*RWMutex).Unlock"] {
					c.OK(key, c.P.Pos(s.call.Pos()), "seek runs with no-op lockers inside the function's own write-locked section")
				} else {
					c.Fail(key, c.P.Pos(s.call.Pos()), "seek is given no-op lockers but the caller does not take the write lock itself")
				}
			default:
				c.Fail(key, c.P.Pos(s.call.Pos()), fmt.Sprintf("seek is given lockers %s / %s that are not the matching RLock/RUnlock of one mutex", l, u))
			}
		}
	}
	c.Floor("seek call sites", nseek, 2)
}

// ---------------------------------------------------------------------------
// swap-order in (*MemCachedStore).persist

func ruleSwapOrder(c *Ctx) {
	fd := c.P.Func(stPkg, "MemCachedStore", "persist")
	if fd == nil {
		c.Lost("anchor", "(*MemCachedStore).persist not found")
		return
	}
	f := c.P.NewFuncCFG(fd)
	wr := c.P.lockWrappers()
	type wsite struct {
		field string
		pos   token.Pos
		held  bool
		plock bool
	}
	var sites []wsite
	watch := func(f *FuncCFG, b *cfg.Block, idx int, n ast.Node, st *FState) {
		for _, w := range nodeWrites(f.Info, n, false) {
			if !storGuarded[w.Field] {
				continue
			}
			if as, ok := n.(*ast.AssignStmt); ok {
				base := rootObj(f.Info, as.Lhs[0])
				if base == nil || !f.params[base] {
					continue // tempstore's own fields
				}
			}
			sites = append(sites, wsite{w.Field, w.Pos, st.Facts["W:s.mut"] > 0, st.Facts["W:s.plock"] > 0})
		}
	}
	lc, res := c.P.AnalyzeLocks(f, wr, storageAssume, watch)
	if res.Overflow {
		c.Lost("overflow", "state overflow in persist")
		return
	}
	for _, is := range lc.issues {
		c.Fail("persist.locks."+is.Kind, c.P.Pos(is.Pos), "persist: "+is.Msg)
	}
	byPos := map[token.Pos]wsite{}
	for _, s := range sites {
		if old, ok := byPos[s.pos]; ok {
			s.held = s.held && old.held
			s.plock = s.plock && old.plock
		}
		byPos[s.pos] = s
	}
	var ps []token.Pos
	for p := range byPos {
		ps = append(ps, p)
	}
	sort.Slice(ps, func(i, j int) bool { return ps[i] < ps[j] })
	cnt := map[string]int{}
	for _, p := range ps {
		s := byPos[p]
		cnt[s.field]++
		key := fmt.Sprintf("persist.write.%s#%d", shortSym(s.field), cnt[s.field])
		if s.held && s.plock {
			c.OK(key, c.P.Pos(p), "field is replaced under the write lock and inside the plock bracket on every path")
		} else {
			c.Fail(key, c.P.Pos(p), fmt.Sprintf("persist replaces %s on a path where the store's write lock (held=%v) or the persist lock (held=%v) is not held: readers can observe a half-installed tempstore", shortSym(s.field), s.held, s.plock))
		}
	}
	c.Floor("shared-field writes in persist", len(ps), 6)

	// ordering: tempstore installed before the lower write; ps restored only after it returned
	put := f.CallSites("pkg/core/storage.(Store).PutChangeSet")
	var flush []site
	for _, s := range put {
		if f.Mentions(s.call, s.blk)["local<-type:pkg/core/storage.MemCachedStore"] {
			flush = append(flush, s)
		}
	}
	if len(flush) != 1 {
		c.Lost("persist.flush", fmt.Sprintf("expected exactly one PutChangeSet on the tempstore's lower store, found %d", len(flush)))
		return
	}
	fl := flush[0]
	after := f.reach(fl.blk.Succs, nil, storageAssume)
	nps := 0
	for _, w := range f.WriteSites("pkg/core/storage#ps") {
		as, isAssign := w.node.(*ast.AssignStmt)
		if !isAssign {
			continue
		}
		rhs := f.DirectMentions(as.Rhs[0])
		_, isAfter := after[w.blk]
		isAfter = isAfter || (w.blk == fl.blk && w.idx > fl.idx)
		nps++
		key := fmt.Sprintf("persist.ps-order#%d", nps)
		switch {
		case rhs["local<-type:pkg/core/storage.MemCachedStore"] && !rhs["pkg/core/storage#ps"]: // s.ps = tempstore
			if isAfter {
				c.Fail(key, c.P.Pos(as.Pos()), "the tempstore is installed as lower layer after the lower write started: keys being flushed are unreachable meanwhile")
			} else {
				c.OK(key, c.P.Pos(as.Pos()), "tempstore is installed as the lower layer before the lower write")
			}
		case rhs["pkg/core/storage#ps"]: // s.ps = tempstore.ps
			if !isAfter {
				c.Fail(key, c.P.Pos(as.Pos()), "the original lower store is put back before the lower write returned: the flushed keys are not yet there and no longer in the tempstore chain")
			} else {
				c.OK(key, c.P.Pos(as.Pos()), "the original lower store is put back only after the lower write returned")
			}
		default:
			c.Unclassified(key, c.P.Pos(as.Pos()), "unrecognised assignment to ps")
		}
	}
	c.Floor("ps assignments in persist", nps, 3)
	// failed flush: what the store continues with must hold the flushed map *and* what was written meanwhile. Two shapes
	// are read: (a) the flushed map is put back after the writes were copied into it (the original shape - which writes
	// into a map a seek in flight may still be reading, see the frozen-layer clause below), (b) the field is assigned
	// a merge of both: a call one argument of which is tempstore.<fld> and another s.<fld>, to a function that clones
	// its first parameter and copies the second over it.
	tmpSym := "local<-type:pkg/core/storage.MemCachedStore"
	mergesBoth := func(e ast.Expr, sym string) bool {
		call, ok := ast.Unparen(e).(*ast.CallExpr)
		if !ok || len(call.Args) != 2 {
			return false
		}
		a0, a1 := f.DirectMentions(call.Args[0]), f.DirectMentions(call.Args[1])
		if !(a0[sym] && a0[tmpSym] && a1[sym] && !a1[tmpSym]) {
			return false
		}
		cf := calleeFunc(f.Info, call)
		if cf == nil {
			return false
		}
		hd := c.P.DeclOf(cf)
		if hd == nil || hd.Decl.Body == nil {
			return false
		}
		hf := c.P.NewFuncCFG(hd)
		clones, copies := false, false
		for _, cs := range hf.CallSites("maps.Clone") {
			if len(cs.call.Args) == 1 && hf.DirectMentions(cs.call.Args[0])["param#0"] {
				clones = true
			}
		}
		for _, cs := range hf.CallSites("maps.Copy") {
			if len(cs.call.Args) == 2 && hf.DirectMentions(cs.call.Args[1])["param#1"] && !hf.DirectMentions(cs.call.Args[0])["param#0"] {
				copies = true
			}
		}
		return clones && copies
	}
	for _, fld := range []string{"mem", "stor"} {
		sym := "pkg/core/storage#" + fld
		n := 0
		for _, w := range f.WriteSites(sym) {
			as, isAssign := w.node.(*ast.AssignStmt)
			if !isAssign || !f.DirectMentions(as.Rhs[0])[tmpSym] {
				continue // installing fresh maps
			}
			n++
			key := "persist.failed-flush.merge." + fld
			if mergesBoth(as.Rhs[0], sym) {
				c.OK(key, c.P.Pos(as.Pos()), fmt.Sprintf("after a failed flush the store continues with a new %s map that holds the flushed keys overridden by what was written during the flush", fld))
				continue
			}
			// a maps.Copy(tempstore.<fld>, s.<fld>) must precede on every path from the flush
			var copies []site
			for _, cs := range f.CallSites("maps.Copy") {
				if len(cs.call.Args) == 2 {
					d, s2 := f.DirectMentions(cs.call.Args[0]), f.DirectMentions(cs.call.Args[1])
					if d[sym] && d[tmpSym] && s2[sym] && !s2[tmpSym] {
						copies = append(copies, cs)
					}
				}
			}
			avoid := blocksOf(copies)
			r := f.reach(fl.blk.Succs, avoid, storageAssume)
			_, reached := r[w.blk]
			if reached && !avoid[w.blk] {
				c.Fail(key, c.P.Pos(as.Pos()), fmt.Sprintf("after a failed flush the old %s map is put back without merging the writes made during the flush (maps.Copy(tempstore.%s, s.%s) missing on this path): those writes are lost", fld, fld, fld))
			} else {
				c.OK(key, c.P.Pos(as.Pos()), fmt.Sprintf("writes made during a failed flush are merged into the old %s map before it is put back", fld))
			}
		}
		if n == 0 {
			c.Lost("persist.failed-flush."+fld, "no restore of the old "+fld+" map found on the failure branch")
		}
	}
	// frozen layer: once the tempstore is installed as the lower layer (s.ps = tempstore) seeks that start during the
	// flush capture it and read its maps under *its* mutex, which persist does not hold - "nothing ever changes it" is
	// what makes that sound. No statement of persist writes into a map of the tempstore after that point: no
	// maps.Copy with it as destination, no element store, no delete/clear.
	nfw := 0
	for _, b := range f.G.Blocks {
		if !b.Live {
			continue
		}
		for _, nd := range b.Nodes {
			bad := ""
			inspectNoLit(nd, func(x ast.Node) bool {
				switch y := x.(type) {
				case *ast.CallExpr:
					cs := f.calleeSym(y)
					if (cs == "maps.Copy" || cs == "builtin.delete" || cs == "builtin.clear") && len(y.Args) >= 1 {
						if m := f.DirectMentions(y.Args[0]); m[tmpSym] && (m["pkg/core/storage#mem"] || m["pkg/core/storage#stor"]) {
							bad = types.ExprString(y)
						}
					}
				case *ast.AssignStmt:
					for _, l := range y.Lhs {
						if ix, ok := ast.Unparen(l).(*ast.IndexExpr); ok {
							if m := f.DirectMentions(ix.X); m[tmpSym] && (m["pkg/core/storage#mem"] || m["pkg/core/storage#stor"]) {
								bad = types.ExprString(l)
							}
						}
					}
				}
				return true
			})
			if bad != "" {
				nfw++
				c.Fail(fmt.Sprintf("persist.frozen-layer#%d", nfw), c.P.Pos(nd.Pos()), fmt.Sprintf("persist writes into a map of the tempstore (%s) after installing it as the lower layer: a seek that started during the flush iterates that map under the tempstore's own mutex, which persist does not hold - concurrent map iteration and map write", trunc(bad, 80)))
			}
		}
	}
	if nfw == 0 {
		c.OK("persist.frozen-layer", c.P.Pos(fd.Decl.Pos()), "no statement of persist writes into a map of the tempstore")
	}
}

// ---------------------------------------------------------------------------
// stor-routing

func ruleStorRouting(c *Ctx) {
	ruleStoragePrefixAgreement(c)
	pk := c.P.Pkg(stPkg)
	if pk == nil {
		c.Lost("anchor", "package storage not found")
		return
	}
	// chooseMap routes exactly the two contract-storage prefixes to stor
	cm := c.P.Func(stPkg, "MemoryStore", "chooseMap")
	if cm == nil {
		c.Lost("chooseMap.anchor", "chooseMap not found")
	} else {
		f := c.P.NewFuncCFG(cm)
		sws := constSwitches(pk.TypesInfo, cm.Decl.Body, stPkg, "KeyPrefix")
		ok := false
		if len(sws) == 1 {
			var storArm, defArm *switchArm
			for i, a := range sws[0] {
				if a.Default {
					defArm = &sws[0][i]
				} else if storArm == nil {
					storArm = &sws[0][i]
				} else {
					storArm = nil
					break
				}
			}
			if storArm != nil && defArm != nil {
				got := map[string]bool{}
				for _, k := range storArm.Consts {
					got[k] = true
				}
				want := map[string]bool{"STStorage": true, "STTempStorage": true}
				if len(setDiff(got, want))+len(setDiff(want, got)) == 0 &&
					armDirectMentions(f, *storArm)["pkg/core/storage#stor"] && !armDirectMentions(f, *storArm)["pkg/core/storage#mem"] &&
					armDirectMentions(f, *defArm)["pkg/core/storage#mem"] && !armDirectMentions(f, *defArm)["pkg/core/storage#stor"] {
					ok = true
				}
			}
		}
		if ok {
			c.OK("chooseMap.routes", c.P.Pos(cm.Decl.Pos()), "chooseMap sends exactly STStorage and STTempStorage keys to stor and everything else to mem")
		} else {
			c.Fail("chooseMap.routes", c.P.Pos(cm.Decl.Pos()), "chooseMap no longer routes exactly the contract-storage prefixes (STStorage, STTempStorage) to the stor map: storage changes would escape GetStorageChanges and the state root")
		}
	}
	// no keyed access to s.mem / s.stor that bypasses chooseMap
	n := 0
	for _, fd := range c.P.AllFuncDecls() {
		if fd.Pkg != pk || fd.Decl.Body == nil {
			continue
		}
		k := 0
		ast.Inspect(fd.Decl.Body, func(x ast.Node) bool {
			var target ast.Expr
			what := ""
			switch e := x.(type) {
			case *ast.IndexExpr:
				target, what = e.X, "indexes"
			case *ast.CallExpr:
				if id, ok := e.Fun.(*ast.Ident); ok && id.Name == "delete" && len(e.Args) == 2 {
					target, what = e.Args[0], "deletes from"
				}
			}
			if target == nil {
				return true
			}
			se, ok := ast.Unparen(target).(*ast.SelectorExpr)
			if !ok {
				return true
			}
			v, ok := pk.TypesInfo.ObjectOf(se.Sel).(*types.Var)
			if !ok || !v.IsField() || (symOf(v) != "pkg/core/storage#mem" && symOf(v) != "pkg/core/storage#stor") {
				return true
			}
			k++
			c.Fail(fmt.Sprintf("%s.direct-key-access#%d", FuncKey(fd.Obj), k), c.P.Pos(x.Pos()), fmt.Sprintf("%s %s the %s map with a key directly instead of the map chosen by chooseMap(key): a contract-storage key can land in the wrong map", FuncKey(fd.Obj), what, v.Name()))
			return true
		})
		n++
	}
	if n > 0 {
		c.OK("no-direct-key-access", stPkg, fmt.Sprintf("%d functions of the storage package scanned: keyed accesses go through chooseMap, the maps themselves are only copied/ranged/measured whole", n))
	}
	// GetStorageChanges hands out exactly the stor map
	if g := c.P.Func(stPkg, "MemCachedStore", "GetStorageChanges"); g != nil {
		f := c.P.NewFuncCFG(g)
		good := false
		for _, r := range f.Returns() {
			rs := r.node.(*ast.ReturnStmt)
			if len(rs.Results) == 1 && f.DirectMentions(rs.Results[0])["pkg/core/storage#stor"] {
				good = true
			}
		}
		if good {
			c.OK("GetStorageChanges.returns-stor", c.P.Pos(g.Decl.Pos()), "the storage change set is the stor map")
		} else {
			c.Fail("GetStorageChanges.returns-stor", c.P.Pos(g.Decl.Pos()), "GetStorageChanges does not return the stor map")
		}
	} else {
		c.Lost("GetStorageChanges.anchor", "GetStorageChanges not found")
	}
}

// ---------------------------------------------------------------------------
// backend-tx

func ruleBackendTx(c *Ctx) {
	// LevelDB: no write bypassing a transaction
	direct := map[string]bool{
		"github.com/syndtr/goleveldb/leveldb.(*DB).Put": true, "github.com/syndtr/goleveldb/leveldb.(*DB).Delete": true, "github.com/syndtr/goleveldb/leveldb.(*DB).Write": true,
	}
	boltW := map[string]bool{"github.com/nspcc-dev/bbolt.(*Bucket).Put": true, "github.com/nspcc-dev/bbolt.(*Bucket).Delete": true, "github.com/nspcc-dev/bbolt.(*Cursor).Delete": true}
	nb := 0
	ndirect := 0
	for _, fd := range c.P.AllFuncDecls() {
		if fd.Decl.Body == nil {
			continue
		}
		f := c.P.NewFuncCFG(fd)
		var lits []*ast.FuncLit
		ast.Inspect(fd.Decl.Body, func(x ast.Node) bool {
			if l, ok := x.(*ast.FuncLit); ok {
				lits = append(lits, l)
			}
			call, ok := x.(*ast.CallExpr)
			if !ok {
				return true
			}
			cs := f.calleeSym(call)
			if direct[cs] {
				ndirect++
				c.Fail(FuncKey(fd.Obj)+".leveldb-direct-write", c.P.Pos(call.Pos()), FuncKey(fd.Obj)+" writes to LevelDB outside a transaction ("+shortSym(cs)+"): a crash can leave half of a batch")
			}
			if boltW[cs] {
				nb++
				// must be inside a function literal that receives the transaction or its cursor
				inTx := false
				for _, l := range lits {
					if containsNode(l, call) {
						for _, p := range l.Type.Params.List {
							ts := types.ExprString(p.Type)
							if strings.Contains(ts, "bbolt.Tx") || strings.Contains(ts, "bbolt.Cursor") {
								inTx = true
							}
						}
					}
				}
				key := fmt.Sprintf("%s.bolt-write#%d", FuncKey(fd.Obj), nb)
				if inTx {
					c.OK(key, c.P.Pos(call.Pos()), "BoltDB mutation inside a transaction callback")
				} else {
					c.Fail(key, c.P.Pos(call.Pos()), "BoltDB mutation outside a transaction callback")
				}
			}
			return true
		})
	}
	if ndirect == 0 {
		c.OK("leveldb.no-direct-write", stPkg, "no call of leveldb.DB.Put/Delete/Write anywhere in the module: every LevelDB mutation goes through a transaction")
	}
	c.Floor("BoltDB mutation sites", nb, 3)
	// one transaction per change set, committed on the success path
	if fd := c.P.Func(stPkg, "LevelDBStore", "PutChangeSet"); fd == nil {
		c.Lost("leveldb.PutChangeSet.anchor", "LevelDBStore.PutChangeSet not found")
	} else {
		f := c.P.NewFuncCFG(fd)
		open := f.CallSites("github.com/syndtr/goleveldb/leveldb.(*DB).OpenTransaction")
		inLoop := false
		for _, l := range f.Loops() {
			for _, o := range open {
				if containsNode(l.Stmt, o.call) {
					inLoop = true
				}
			}
		}
		if len(open) == 1 && !inLoop {
			c.OK("leveldb.PutChangeSet.one-tx", c.P.Pos(fd.Decl.Pos()), "one transaction per change set")
		} else {
			c.Fail("leveldb.PutChangeSet.one-tx", c.P.Pos(fd.Decl.Pos()), fmt.Sprintf("a change set is written through %d transactions (in loop: %v): a block could be half-persisted", len(open), inLoop))
		}
		// all writes use the transaction object
		for i, s := range f.CallSites("github.com/syndtr/goleveldb/leveldb.(*Transaction).Put", "github.com/syndtr/goleveldb/leveldb.(*Transaction).Delete") {
			_ = s
			_ = i
		}
		okc, path := f.CheckMustCall(f.Entry(), blocksOf(f.OKReturns()), &Assume{Conds: []AssumeCond{{Mentions: []string{"var:error"}, Val: false}}}, "github.com/syndtr/goleveldb/leveldb.(*Transaction).Commit")
		if okc {
			c.OK("leveldb.PutChangeSet.commit", c.P.Pos(fd.Decl.Pos()), "every success path ends in Commit")
		} else {
			c.Fail("leveldb.PutChangeSet.commit", c.P.Pos(fd.Decl.Pos()), "PutChangeSet can report success without committing the transaction", path...)
		}
	}
	if fd := c.P.Func(stPkg, "BoltDBStore", "PutChangeSet"); fd == nil {
		c.Lost("bolt.PutChangeSet.anchor", "BoltDBStore.PutChangeSet not found")
	} else {
		f := c.P.NewFuncCFG(fd)
		up := f.CallSites("github.com/nspcc-dev/bbolt.(*DB).Update")
		inLoop := false
		for _, l := range f.Loops() {
			for _, o := range up {
				if containsNode(l.Stmt, o.call) {
					inLoop = true
				}
			}
		}
		if len(up) == 1 && !inLoop {
			c.OK("bolt.PutChangeSet.one-tx", c.P.Pos(fd.Decl.Pos()), "one Update transaction per change set")
		} else {
			c.Fail("bolt.PutChangeSet.one-tx", c.P.Pos(fd.Decl.Pos()), fmt.Sprintf("a change set is written through %d Update calls (in loop: %v)", len(up), inLoop))
		}
	}
}

// ---------------------------------------------------------------------------
// seek-prefix-owned (dao key buffer must not be lent to a seek whose callback can re-enter the DAO)

func ruleSeekPrefixOwned(c *Ctx) {
	daoRel := "pkg/core/dao"
	pk := c.P.Pkg(daoRel)
	if pk == nil {
		c.Lost("anchor", "package dao not found")
		return
	}
	// functions returning the reusable key buffer
	bufFns := map[string]bool{"pkg/core/dao.(*Simple).getKeyBuf": true}
	for changed := true; changed; {
		changed = false
		for _, fd := range c.P.AllFuncDecls() {
			if fd.Pkg != pk || fd.Decl.Body == nil || bufFns[FuncKey(fd.Obj)] {
				continue
			}
			f := c.P.NewFuncCFG(fd)
			for _, r := range f.Returns() {
				rs := r.node.(*ast.ReturnStmt)
				if len(rs.Results) != 1 {
					continue
				}
				for s := range f.Mentions(rs.Results[0], r.blk) {
					if bufFns[s] && !f.Mentions(rs.Results[0], r.blk)["bytes.Clone"] {
						bufFns[FuncKey(fd.Obj)] = true
						changed = true
					}
				}
			}
		}
	}
	c.Floor("key-buffer returning functions", len(bufFns), 5)
	g := c.P.MRG()
	n := 0
	for _, fd := range c.P.AllFuncDecls() {
		if fd.Pkg != pk || fd.Decl.Body == nil {
			continue
		}
		f := c.P.NewFuncCFG(fd)
		for _, s := range f.CallSites("pkg/core/storage.(*MemCachedStore).Seek", "pkg/core/storage.(*MemCachedStore).SeekAsync") {
			// the range argument
			var rngArg ast.Expr
			for _, a := range s.call.Args {
				if namedTypeIs(f.Info.TypeOf(a), stPkg, "SeekRange") {
					rngArg = a
				}
			}
			if rngArg == nil {
				continue
			}
			n++
			key := FuncKey(fd.Obj) + ".seek-prefix"
			m := f.Mentions(rngArg, s.blk)
			// also assignments to fields of the range variable
			if id, ok := ast.Unparen(rngArg).(*ast.Ident); ok {
				o := f.Info.ObjectOf(id)
				inspectNoLit(fd.Decl.Body, func(x ast.Node) bool {
					if as, ok := x.(*ast.AssignStmt); ok {
						for i, l := range as.Lhs {
							if rootObj(f.Info, l) == o && i < len(as.Rhs) {
								for k := range f.Mentions(as.Rhs[i], nil) {
									m[k] = true
								}
							}
						}
					}
					return true
				})
			}
			lent := false
			for bf := range bufFns {
				if m[bf] {
					lent = true
				}
			}
			owned := m["bytes.Clone"] || m["slices.Clone"]
			// does the callback run code the DAO does not control (a caller-supplied function), or re-enter key building?
			foreign := false
			for _, a := range s.call.Args {
				if _, isFunc := f.Info.TypeOf(a).Underlying().(*types.Signature); !isFunc {
					continue
				}
				ast.Inspect(a, func(x ast.Node) bool {
					if id, ok := x.(*ast.Ident); ok {
						if o, ok := f.Info.ObjectOf(id).(*types.Var); ok && f.params[o] {
							if _, isSig := o.Type().Underlying().(*types.Signature); isSig {
								foreign = true
							}
						}
					}
					if call, ok := x.(*ast.CallExpr); ok && bufFns[f.calleeSym(call)] {
						foreign = true
					}
					return true
				})
			}
			if f.calleeSym(s.call) == "pkg/core/storage.(*MemCachedStore).SeekAsync" {
				foreign = true // the consumer of the channel runs concurrently with later DAO use
			}
			switch {
			case lent && !owned && !foreign:
				c.OK(key, c.P.Pos(s.call.Pos()), "key buffer lent to a seek whose callback is the DAO's own closure and builds no keys")
			case !lent:
				c.OK(key, c.P.Pos(s.call.Pos()), "seek range is not built from the DAO's reusable key buffer")
			case owned:
				c.OK(key, c.P.Pos(s.call.Pos()), "seek range is a private copy of the key buffer (callbacks may use the DAO)")
			default:
				// lent without copy: acceptable only if every caller in the module uses the shared (non-private) DAO,
				// for which getKeyBuf allocates a fresh slice on every call
				fn := c.P.SSAFunc(fd.Obj)
				allShared := fn != nil && len(g.Nodes[fn].In) > 0
				var bad string
				if fn != nil {
					for _, e := range g.Nodes[fn].In {
						ci, ok := e.Site.(ssa.CallInstruction)
						if !ok || len(ci.Common().Args) == 0 || !rootedAtField(ci.Common().Args[0], "core.Blockchain", "dao", 0) {
							allShared = false
							bad = FnKey(e.Caller.Fn)
						}
					}
				}
				if allShared {
					c.OK(key, c.P.Pos(s.call.Pos()), "key buffer lent to the seek, but every caller in the module passes the blockchain's shared DAO (getKeyBuf allocates per call there)")
				} else {
					c.Fail(key, c.P.Pos(s.call.Pos()), fmt.Sprintf("%s hands the DAO's reusable key buffer to a seek as prefix without copying it (caller %s may use a private DAO): a callback that touches the DAO overwrites the prefix under the running scan", FuncKey(fd.Obj), bad))
				}
			}
		}
	}
	c.Floor("seek call sites in dao", n, 4)
}

// ruleStoragePrefixAgreement: contract storage lives under one of two key prefixes (STStorage, STTempStorage; which of
// them is current is swapped by a state reset or a state jump). Every place that decides "is this a contract-storage
// key" must name both: the map router of the memory stores and the two read paths of the trie-backed historic store.
// A function that names only one works until the prefix is swapped.
func ruleStoragePrefixAgreement(c *Ctx) {
	fns := [][3]string{{"pkg/core/storage", "MemoryStore", "chooseMap"}, {"pkg/core/mpt", "TrieStore", "Get"}, {"pkg/core/mpt", "TrieStore", "Seek"}}
	want := []string{"pkg/core/storage.STStorage", "pkg/core/storage.STTempStorage"}
	for _, fn := range fns {
		fd := c.P.Func(fn[0], fn[1], fn[2])
		key := "storage-prefixes." + fn[1] + "." + fn[2]
		if fd == nil {
			c.Lost(key, fn[1]+"."+fn[2]+" not found")
			continue
		}
		m := c.P.NewFuncCFG(fd).DirectMentions(fd.Decl.Body)
		var missing []string
		for _, w := range want {
			if !m[w] {
				missing = append(missing, shortSym(w))
			}
		}
		if len(missing) == 0 {
			c.OK(key, c.P.Pos(fd.Decl.Pos()), "recognises both contract-storage prefixes")
		} else {
			c.Fail(key, c.P.Pos(fd.Decl.Pos()), fmt.Sprintf("%s.%s decides what a contract-storage key is without naming %s, while its siblings name both prefixes: on a node whose storage prefix was swapped (state reset, state jump) keys under that prefix are treated as something else", fn[1], fn[2], strings.Join(missing, ", ")))
		}
	}
}

// seek-snapshot-atomic: MemCachedStore answers a range scan by merging a snapshot of its cache with a scan of the
// lower store. "Never half of a batch" needs both to be taken in one critical section (or the lower scan to be opened
// before the lock is released); a lower scan that starts with no lock held can see a batch the snapshot has not.
func ruleSeekSnapshotAtomic(c *Ctx) {
	pk := c.P.Pkg("pkg/core/storage")
	if pk == nil {
		c.Lost("anchor", "package storage not found")
		return
	}
	wr := c.P.lockWrappers()
	n := 0
	for _, fd := range c.P.AllFuncDecls() {
		if fd.Obj.Pkg() != pk.Types || fd.Decl.Body == nil || fd.Decl.Recv == nil {
			continue
		}
		// the premise is a snapshot taken under a lock: a type without a mutex of its own (the view of a private,
		// single-owner layer that prepareSeekMemSnapshot builds) has no concurrent writer or flush to be atomic against
		if !recvHasMutex(fd) {
			continue
		}
		f := c.P.NewFuncCFG(fd)
		// every call of performSeek in the method, inside function literals too
		var calls []*ast.CallExpr
		inLit := map[*ast.CallExpr]bool{}
		var stack []ast.Node
		ast.Inspect(fd.Decl.Body, func(x ast.Node) bool {
			if x == nil {
				stack = stack[:len(stack)-1]
				return true
			}
			stack = append(stack, x)
			if call, ok := x.(*ast.CallExpr); ok && f.calleeSym(call) == "pkg/core/storage.performSeek" {
				calls = append(calls, call)
				for _, a := range stack {
					if _, ok := a.(*ast.FuncLit); ok {
						inLit[call] = true
					}
				}
			}
			return true
		})
		if len(calls) == 0 {
			continue
		}
		held := map[*ast.CallExpr]bool{}
		c.P.AnalyzeLocks(f, wr, nil, func(_ *FuncCFG, _ *cfg.Block, _ int, nd ast.Node, st *FState) {
			for _, call := range calls {
				if !inLit[call] && containsNode(nd, call) {
					for k, v := range st.Facts {
						if v > 0 && (strings.HasPrefix(k, "R:") || strings.HasPrefix(k, "W:")) {
							held[call] = true
						}
					}
				}
			}
		})
		for _, call := range calls {
			n++
			key := FuncKey(fd.Obj) + ".lower-scan-in-snapshot-section"
			if held[call] {
				c.OK(key, c.P.Pos(call.Pos()), "the lower store is scanned while the lock under which the cache snapshot was taken is still held")
			} else {
				c.Fail(key, c.P.Pos(call.Pos()), fmt.Sprintf("%s merges a cache snapshot taken under the lock with a scan of the lower store started after the lock was released: a batch written and flushed in between is seen by half (old values from the snapshot, new keys from the lower store)", FuncKey(fd.Obj)))
			}
		}
	}
	c.Floor("range scans merging a cache snapshot with a lower-store scan", n, 2)
	privateLayersCaptured(c)
}

func recvHasMutex(fd *FuncDecl) bool {
	rt := fd.Obj.Type().(*types.Signature).Recv().Type()
	if p, ok := rt.(*types.Pointer); ok {
		rt = p.Elem()
	}
	st, ok := rt.Underlying().(*types.Struct)
	if !ok {
		return false
	}
	for i := 0; i < st.NumFields(); i++ {
		if nt, ok := st.Field(i).Type().(*types.Named); ok && nt.Obj().Pkg() != nil && nt.Obj().Pkg().Path() == "sync" {
			return true
		}
	}
	return false
}

// privateLayersCaptured: SeekAsync hands the merge to a goroutine of its own. A private MemCachedStore has no lock -
// it belongs to the goroutine that executes the transaction - so whatever the seek needs from a private layer
// *below* the one it was started on has to be taken before SeekAsync returns, by the calling goroutine: otherwise the
// iterator's content depends on when the seek goroutine gets to run (the callee's System.Storage.Find over a layer
// stack child-over-parent, the caller writing the parent after the call returned), and the unlocked map iteration
// races with the owner's writes. Structurally: prepareSeekMemSnapshot - the only thing SeekAsync runs synchronously -
// tests whether the store below is private and, if so, takes that store's snapshot too (calls itself on it).
func privateLayersCaptured(c *Ctx) {
	fd := c.P.Func("pkg/core/storage", "MemCachedStore", "prepareSeekMemSnapshot")
	sa := c.P.Func("pkg/core/storage", "MemCachedStore", "SeekAsync")
	if fd == nil || sa == nil {
		c.Lost("private-layers-captured.anchor", "MemCachedStore.prepareSeekMemSnapshot / SeekAsync not found")
		return
	}
	// SeekAsync: the snapshot is prepared outside the goroutine
	fsa := c.P.NewFuncCFG(sa)
	syncPrep := len(fsa.CallSites("pkg/core/storage.(*MemCachedStore).prepareSeekMemSnapshot")) > 0
	f := c.P.NewFuncCFG(fd)
	recursive := false
	for _, s := range f.CallSites("pkg/core/storage.(*MemCachedStore).prepareSeekMemSnapshot") {
		// under a test of the lower store's private flag
		for _, b := range f.G.Blocks {
			_ = b
		}
		recursive = true
		_ = s
	}
	testsPrivate := false
	ast.Inspect(fd.Decl.Body, func(x ast.Node) bool {
		if is, ok := x.(*ast.IfStmt); ok && f.DirectMentions(is.Cond)["pkg/core/storage#private"] {
			ast.Inspect(is.Body, func(y ast.Node) bool {
				if call, ok := y.(*ast.CallExpr); ok && f.calleeSym(call) == "pkg/core/storage.(*MemCachedStore).prepareSeekMemSnapshot" {
					testsPrivate = true
				}
				return true
			})
		}
		return true
	})
	if syncPrep && recursive && testsPrivate {
		c.OK("private-layers-captured", c.P.Pos(fd.Decl.Pos()), "SeekAsync prepares its snapshot before it starts the goroutine, and the preparation takes the snapshot of every private layer below as well")
	} else {
		c.Fail("private-layers-captured", c.P.Pos(fd.Decl.Pos()), "the snapshot SeekAsync prepares before it starts its goroutine covers only the layer it was called on: a private (lock-free) layer below is scanned later by the seek goroutine, while the goroutine that owns the layer goes on writing it - the iterator's content depends on goroutine scheduling and the unlocked map iteration races with the owner's writes (concurrent map iteration and map write)")
	}
}
