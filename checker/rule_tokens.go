package main

import (
	"fmt"
	"go/ast"
	"go/token"
	"go/types"
	"sort"
	"strings"

	"golang.org/x/tools/go/cfg"
)

var bigMutators = func() map[string]bool {
	m := map[string]bool{}
	for _, n := range []string{"Add", "Sub", "Mul", "Div", "Quo", "Rem", "Mod", "Neg", "Abs", "Lsh", "Rsh", "And", "Or", "Xor", "Not", "Exp", "Sqrt", "Set", "SetInt64", "SetUint64", "SetBit", "SetBytes", "SetString", "ModInverse", "QuoRem", "DivMod", "AndNot", "ModSqrt", "GCD"} {
		m["math/big.(*Int)."+n] = true
	}
	return m
}()

// ---------------------------------------------------------------------------
// C05 amount-immutable: a *big.Int passed into a native token function is the caller's value (often the very
// integer inside a stack item or an already emitted event): it is never left modified.

type negClient struct {
	info   *types.Info
	params map[types.Object]bool
	bad    map[token.Pos]string
	fname  string
	nmut   int
}

func (nc *negClient) Node(f *FuncCFG, b *cfgBlock, idx int, n ast.Node, st *FState) {
	inspectNoLit(n, func(x ast.Node) bool {
		call, ok := x.(*ast.CallExpr)
		if !ok {
			return true
		}
		cs := f.calleeSym(call)
		if !bigMutators[cs] {
			return true
		}
		recv, ok := ast.Unparen(call.Fun.(*ast.SelectorExpr).X).(*ast.Ident)
		if !ok {
			return true
		}
		o := f.Info.ObjectOf(recv)
		if !nc.params[o] {
			return true
		}
		nc.nmut++
		if cs == "math/big.(*Int).Neg" && len(call.Args) == 1 {
			if a, ok := ast.Unparen(call.Args[0]).(*ast.Ident); ok && f.Info.ObjectOf(a) == o {
				st.Facts["neg:"+o.Name()] = 1 - st.Facts["neg:"+o.Name()]
				return true
			}
		}
		nc.bad[call.Pos()] = fmt.Sprintf("%s overwrites its *big.Int parameter %s with %s: the caller's value (a stack item's integer or an emitted event's amount) changes", nc.fname, o.Name(), shortSym(cs))
		return true
	})
}
func (nc *negClient) Deferred(f *FuncCFG, op string, st *FState) {}
func (nc *negClient) Exit(f *FuncCFG, b *cfgBlock, r *ast.ReturnStmt, st *FState) {
	for k, v := range st.Facts {
		if strings.HasPrefix(k, "neg:") && v == 1 {
			pos := f.Body.Rbrace
			if r != nil {
				pos = r.Pos()
			}
			nc.bad[pos] = fmt.Sprintf("%s returns with its *big.Int parameter %s still negated: the amount was flipped in place for the internal call and not flipped back, so the caller (and any event already carrying this integer) sees the negative amount", nc.fname, strings.TrimPrefix(k, "neg:"))
		}
	}
}

func ruleAmountImmutable(c *Ctx) {
	pk := c.P.Pkg(natPkg)
	if pk == nil {
		c.Lost("anchor", "package native not found")
		return
	}
	nfn, nmut := 0, 0
	for _, fd := range c.P.AllFuncDecls() {
		if fd.Pkg != pk || fd.Decl.Body == nil {
			continue
		}
		params := map[types.Object]bool{}
		for _, fl := range fd.Decl.Type.Params.List {
			for _, nm := range fl.Names {
				o := pk.TypesInfo.Defs[nm]
				if o != nil && o.Type().String() == "*math/big.Int" {
					params[o] = true
				}
			}
		}
		if len(params) == 0 {
			continue
		}
		nfn++
		f := c.P.NewFuncCFG(fd)
		nc := &negClient{info: pk.TypesInfo, params: params, bad: map[token.Pos]string{}, fname: FuncKey(fd.Obj)}
		res := f.RunFlow(nc, FState{Bools: map[string]bool{}, Facts: map[string]int{}}, nil)
		nmut += nc.nmut
		if res.Overflow {
			c.Unclassified(FuncKey(fd.Obj)+".overflow", c.P.Pos(fd.Decl.Pos()), "state overflow")
			continue
		}
		if len(nc.bad) == 0 {
			if nc.nmut > 0 {
				c.OK(FuncKey(fd.Obj), c.P.Pos(fd.Decl.Pos()), "its *big.Int parameter is negated in place only temporarily: flipped back on every path before returning")
			}
			continue
		}
		var ps []token.Pos
		for p := range nc.bad {
			ps = append(ps, p)
		}
		sort.Slice(ps, func(i, j int) bool { return ps[i] < ps[j] })
		for i, p := range ps {
			c.Fail(fmt.Sprintf("%s#%d", FuncKey(fd.Obj), i+1), c.P.Pos(p), nc.bad[p])
		}
	}
	c.Floor("native functions with *big.Int parameters", nfn, 10)
	c.OK("scan", natPkg, fmt.Sprintf("%d native functions take *big.Int parameters; %d in-place operations on them, none left standing at an exit", nfn, nmut))
}

// ---------------------------------------------------------------------------
// token-writers: who may write which storage record of the token natives

var daoMutators = map[string]int{ // callee -> index of the key argument
	"pkg/core/dao.(*Simple).PutStorageItem":        1,
	"pkg/core/dao.(*Simple).DeleteStorageItem":     1,
	"pkg/core/dao.(*Simple).PutBigInt":             1,
	"pkg/core/dao.(*Simple).PutStorageConvertible": 1,
	"pkg/core/native.setIntWithKey":                2,
	"pkg/core/native.putConvertibleToDAO":          2,
}

// governed key classes: symbol identifying the key -> allowed writer functions (with the reason they may write)
var tokenWriters = map[string]map[string]string{
	"pkg/core/native.makeAccountKey": {
		"pkg/core/native.(*nep17TokenNative).updateAccBalance":   "transfer: debits/credits through the token's incBalance callback",
		"pkg/core/native.(*nep17TokenNative).addTokens":          "mint/burn: changes a balance together with the total supply",
		"pkg/core/native.(*NEO).voteInternalUncheckedDeferrable": "vote: re-stores the same NEO balance with a new VoteTo/LastGasPerVote",
		"pkg/core/native.(*NEO).VoteInternalDeferrable":          "vote: re-stores the same NEO balance with a new VoteTo/LastGasPerVote",
		"pkg/core/native.(*NEO).voteInternalUnchecked":           "vote: re-stores the same NEO balance with a new VoteTo/LastGasPerVote",
		"pkg/core/native.(*NEO).VoteInternal":                    "vote: re-stores the same NEO balance with a new VoteTo/LastGasPerVote",
		"pkg/core/native.(*NEO).RevokeVotesDeferrable":           "vote revocation of a blocked account",
		"pkg/core/native.(*NEO).revokeVotes":                     "vote revocation of a blocked account",
	},
	"pkg/core/native.totalSupplyKey": {
		"pkg/core/native.(*nep17TokenNative).saveTotalSupply": "the only writer of the total supply; called only from addTokens",
	},
	"pkg/core/native.prefixVotersCount": {
		"pkg/core/native.(*NEO).modifyVoterTurnout": "voters count changes only with a voting account's balance or vote",
		"pkg/core/native.(*NEO).Initialize":         "genesis: empty counter",
	},
	"pkg/core/native.makeValidatorKey": {
		"pkg/core/native.(*NEO).RegisterCandidateInternal":       "registration",
		"pkg/core/native.(*NEO).UnregisterCandidateInternal":     "unregistration",
		"pkg/core/native.(*NEO).ModifyAccountVotes":              "votes follow the voter's NEO balance",
		"pkg/core/native.(*NEO).dropCandidateIfZero":             "drop of an unregistered candidate without votes",
		"pkg/core/native.(*NEO).voteInternalUncheckedDeferrable": "vote bookkeeping",
		"pkg/core/native.(*NEO).voteInternalUnchecked":           "vote bookkeeping",
		"pkg/core/native.(*NEO).VoteInternalDeferrable":          "vote bookkeeping",
		"pkg/core/native.(*NEO).revokeVotes":                     "vote revocation of a blocked account",
		"pkg/core/native.(*NEO).RevokeVotesDeferrable":           "vote revocation of a blocked account",
	},
	"pkg/core/native.prefixDeposit": {
		"pkg/core/native.(*Notary).putDepositFor":    "the only writer of a deposit",
		"pkg/core/native.(*Notary).removeDepositFor": "the only remover of a deposit",
	},
}

func ruleTokenWriters(c *Ctx) {
	pk := c.P.Pkg(natPkg)
	if pk == nil {
		c.Lost("anchor", "package native not found")
		return
	}
	seenClass := map[string]int{}
	usedRow := map[string]bool{}
	nsites := 0
	dump := map[string][]string{}
	for _, fd := range c.P.AllFuncDecls() {
		if fd.Pkg != pk || fd.Decl.Body == nil {
			continue
		}
		f := c.P.NewFuncCFG(fd)
		fk := FuncKey(fd.Obj)
		ast.Inspect(fd.Decl.Body, func(n ast.Node) bool {
			call, ok := n.(*ast.CallExpr)
			if !ok {
				return true
			}
			ki, ok := daoMutators[f.calleeSym(call)]
			if !ok || ki >= len(call.Args) {
				return true
			}
			nsites++
			m := f.Mentions(call.Args[ki], nil)
			for class, allowed := range tokenWriters {
				if !m[class] {
					continue
				}
				seenClass[class]++
				key := fmt.Sprintf("%s.writes.%s", fk, shortSym(class))
				dump[class] = append(dump[class], fk)
				if why, ok := allowed[fk]; ok {
					usedRow[class+"|"+fk] = true
					c.OK(key, c.P.Pos(call.Pos()), "tabled writer of "+shortSym(class)+" records: "+why)
				} else {
					c.Fail(key, c.P.Pos(call.Pos()), fmt.Sprintf("%s writes a %s record but is not one of the functions that keep it consistent with the rest of the accounting (%d tabled writers): balances, total supply, vote tallies and deposits must change together", fk, shortSym(class), len(allowed)))
				}
			}
			return true
		})
	}
	for class := range tokenWriters {
		if seenClass[class] == 0 {
			c.Lost("class."+shortSym(class), "no writer of "+class+" records found: the key symbol no longer resolves")
		}
	}
	c.Floor("storage mutation sites in package native", nsites, 60)
	// the writers of the total supply and of deposits are reached only from the functions that change the matching balance
	ws := c.P.PkgWriteSummary(natPkg)
	callersOf := func(name string) map[string]bool {
		out := map[string]bool{}
		for fn, callees := range ws.Calls {
			for _, ce := range callees {
				if FuncKey(ce) == name {
					out[FuncKey(fn)] = true
				}
			}
		}
		return out
	}
	expectCallers := func(callee string, allowed ...string) {
		got := callersOf(callee)
		want := map[string]bool{}
		for _, a := range allowed {
			want[a] = true
		}
		key := "callers." + shortSym(callee)
		if d := setDiff(got, want); len(d) > 0 {
			c.Fail(key, natPkg, fmt.Sprintf("%s is now also called from %v; it must only run as part of %v", shortSym(callee), d, allowed))
		} else if len(got) == 0 {
			c.Lost(key, callee+" has no callers")
		} else {
			c.OK(key, natPkg, fmt.Sprintf("%s is called only from %v", shortSym(callee), sortedKeys(got)))
		}
	}
	expectCallers("pkg/core/native.(*nep17TokenNative).saveTotalSupply", "pkg/core/native.(*nep17TokenNative).addTokens")
	expectCallers("pkg/core/native.(*nep17TokenNative).addTokens", "pkg/core/native.(*nep17TokenNative).Mint", "pkg/core/native.(*nep17TokenNative).MintDeferrable", "pkg/core/native.(*nep17TokenNative).Burn")
	var ds []string
	for k, v := range dump {
		sort.Strings(v)
		ds = append(ds, shortSym(k)+": "+strings.Join(v, ","))
	}
	sort.Strings(ds)
	c.Note("writers found: %s", strings.Join(ds, " | "))
	// the sufficiency check comes before every effect of a balance change: a failed transfer returns false and the
	// transaction HALTs, so anything written before the check would be kept
	fundsExtra := []string{"math/big.(*Int).Sign", "math/big.(*Int).Cmp", "math/big.(*Int).CmpAbs", "pkg/core/state.NEP17BalanceFromBytes", "pkg/core/state.NEOBalanceFromBytes"}
	runGates(c, []GateSpec{{
		ID: "NEO.increaseBalance.funds-first", Fn: [3]string{natPkg, "NEO", "increaseBalance"},
		Target: "call:pkg/core/native.(*NEO).ModifyAccountVotes|pkg/core/native.(*NEO).modifyVoterTurnout|math/big.(*Int).Add", MinSites: 3,
		Guards: []Guard{{ID: "funds", Doc: "the balance covers the amount taken", Alts: [][]string{{"pkg/core/state#Balance", "param#3", "math/big.(*Int).CmpAbs"}}, Whole: true, Extra: fundsExtra}},
	}, {
		ID: "GAS.increaseBalance.funds-first", Fn: [3]string{natPkg, "GAS", "increaseBalance"},
		Target: "call:math/big.(*Int).Add",
		Guards: []Guard{{ID: "funds", Doc: "the balance covers the amount taken", Alts: [][]string{{"pkg/core/state#Balance", "param#3", "math/big.(*Int).CmpAbs"}}, Whole: true, Extra: fundsExtra}},
	}})
	ruleTurnoutFlip(c)
	ruleTallyWriteBack(c)
	ruleDepositSameAccount(c)
	// a stored candidate record is never replaced by a blank one: the fresh record is created only when none is stored
	runGates(c, []GateSpec{{
		ID: "RegisterCandidateInternal.fresh-record", Fn: [3]string{natPkg, "NEO", "RegisterCandidateInternal"}, Target: "node:type:pkg/core/native.candidate,pkg/core/native#Registered",
		Guards: []Guard{{ID: "none-stored", Doc: "a blank candidate record (zero votes) is created only when storage has none", Alts: [][]string{{"pkg/core/dao.(*Simple).GetStorageItem"}}}},
	}})
}

// ruleTurnoutFlip: the voters count changes exactly when an account's voting status flips. The condition guarding
// modifyVoterTurnout in voteInternalUncheckedDeferrable is evaluated over its two inputs (old vote is nil, new vote
// is nil): it must be their exclusive or.
func ruleTurnoutFlip(c *Ctx) {
	fd := c.P.Func(natPkg, "NEO", "voteInternalUncheckedDeferrable")
	key := "vote.turnout-on-status-flip"
	if fd == nil {
		c.Lost(key+".anchor", "NEO.voteInternalUncheckedDeferrable not found")
		return
	}
	f := c.P.NewFuncCFG(fd)
	var conds []*ast.IfStmt
	ast.Inspect(fd.Decl.Body, func(n ast.Node) bool {
		is, ok := n.(*ast.IfStmt)
		if !ok {
			return true
		}
		has := false
		ast.Inspect(is.Body, func(m ast.Node) bool {
			if call, ok := m.(*ast.CallExpr); ok && f.calleeSym(call) == "pkg/core/native.(*NEO).modifyVoterTurnout" {
				has = true
			}
			return true
		})
		if has {
			conds = append(conds, is)
			return false // the outermost if containing the call
		}
		return true
	})
	if len(conds) != 1 {
		c.Lost(key+".site", fmt.Sprintf("expected one conditional call of modifyVoterTurnout in voteInternalUncheckedDeferrable, found %d", len(conds)))
		return
	}
	cond := conds[0].Cond
	// atoms: X == nil / X != nil with X the account's current vote or the new vote (a *keys.PublicKey parameter)
	classify := func(e ast.Expr) (string, bool, bool) { // variable, value-when-nil, ok
		be, ok := ast.Unparen(e).(*ast.BinaryExpr)
		if !ok || (be.Op != token.EQL && be.Op != token.NEQ) {
			return "", false, false
		}
		x, y := be.X, be.Y
		isNil := func(e ast.Expr) bool {
			id, ok := ast.Unparen(e).(*ast.Ident)
			if !ok {
				return false
			}
			_, n := f.Info.ObjectOf(id).(*types.Nil)
			return n
		}
		if isNil(x) {
			x, y = y, x
		}
		if !isNil(y) {
			return "", false, false
		}
		m := f.DirectMentions(x)
		switch {
		case m["pkg/core/state#VoteTo"]:
			return "old", be.Op == token.EQL, true
		default:
			if id, ok := ast.Unparen(x).(*ast.Ident); ok {
				if v, ok := f.Info.ObjectOf(id).(*types.Var); ok && f.params[v] && strings.HasSuffix(v.Type().String(), "keys.PublicKey") {
					return "new", be.Op == token.EQL, true
				}
			}
		}
		return "", false, false
	}
	var eval func(e ast.Expr, oldNil, newNil bool) (bool, bool)
	eval = func(e ast.Expr, oldNil, newNil bool) (bool, bool) {
		e = ast.Unparen(e)
		if v, whenNil, ok := classify(e); ok {
			isNil := oldNil
			if v == "new" {
				isNil = newNil
			}
			return isNil == whenNil, true
		}
		switch x := e.(type) {
		case *ast.UnaryExpr:
			if x.Op == token.NOT {
				v, ok := eval(x.X, oldNil, newNil)
				return !v, ok
			}
		case *ast.BinaryExpr:
			l, lok := eval(x.X, oldNil, newNil)
			r, rok := eval(x.Y, oldNil, newNil)
			if !lok || !rok {
				return false, false
			}
			switch x.Op {
			case token.LAND:
				return l && r, true
			case token.LOR:
				return l || r, true
			case token.EQL:
				return l == r, true
			case token.NEQ:
				return l != r, true
			}
		}
		return false, false
	}
	var bad []string
	for _, o := range []bool{false, true} {
		for _, n := range []bool{false, true} {
			v, ok := eval(cond, o, n)
			if !ok {
				c.Unclassified(key, c.P.Pos(cond.Pos()), "the condition guarding modifyVoterTurnout is not a boolean combination of `old vote == nil` and `new vote == nil`")
				return
			}
			if v != (o != n) {
				bad = append(bad, fmt.Sprintf("old vote nil=%v, new vote nil=%v: turnout %s", o, n, map[bool]string{true: "changed although the voting status does not flip", false: "not changed although the voting status flips"}[v]))
			}
		}
	}
	if len(bad) > 0 {
		c.Fail(key, c.P.Pos(cond.Pos()), "the voters count must change exactly when the account starts or stops voting: "+strings.Join(bad, "; "))
		return
	}
	c.OK(key, c.P.Pos(cond.Pos()), "`"+types.ExprString(cond)+"` holds exactly when the voting status flips (4 rows)")
}

// ruleTallyWriteBack: ModifyAccountVotes decodes the candidate record, changes its tally and must leave the new tally
// in storage: every normal return after the change passes the store of the record, or is the return taken because
// dropCandidateIfZero said it deleted the record. A path that changes the decoded copy and returns loses the change.
func ruleTallyWriteBack(c *Ctx) {
	fd := c.P.Func(natPkg, "NEO", "ModifyAccountVotes")
	key := "ModifyAccountVotes.tally-written-back"
	if fd == nil {
		c.Lost(key+".anchor", "NEO.ModifyAccountVotes not found")
		return
	}
	f := c.P.NewFuncCFG(fd)
	var changes []site
	for _, s := range f.CallSites("math/big.(*Int).Add", "math/big.(*Int).Sub") {
		if f.DirectMentions(s.call)["pkg/core/native#Votes"] {
			changes = append(changes, s)
		}
	}
	if len(changes) == 0 {
		c.Lost(key+".change", "ModifyAccountVotes no longer changes a candidate's Votes with big.Int.Add/Sub")
		return
	}
	done := map[*cfg.Block]bool{}
	for _, s := range f.CallSites("pkg/core/dao.(*Simple).PutStorageConvertible", "pkg/core/dao.(*Simple).PutStorageItem") {
		done[s.blk] = true
	}
	// the "dropped" outcome: true edge of a condition that is the result of dropCandidateIfZero
	for _, b := range f.G.Blocks {
		if cond := f.Cond(b); cond != nil && b.Live {
			if f.Mentions(cond, b)["pkg/core/native.(*NEO).dropCandidateIfZero"] {
				e := ast.Unparen(cond)
				neg := false
				if u, ok := e.(*ast.UnaryExpr); ok && u.Op == token.NOT {
					neg = true
				}
				if neg {
					done[b.Succs[1]] = true
				} else {
					done[b.Succs[0]] = true
				}
			}
		}
	}
	var from []*cfg.Block
	for _, s := range changes {
		from = append(from, s.blk)
	}
	r := f.reach(from, done, nil)
	for _, rs := range f.OKReturns() {
		if done[rs.blk] {
			continue
		}
		if _, ok := r[rs.blk]; ok {
			// a return in the very block of the change that stores in its own expression (return d.Put...(cd))
			stores := false
			ast.Inspect(rs.node, func(x ast.Node) bool {
				if call, ok := x.(*ast.CallExpr); ok && strings.HasPrefix(f.calleeSym(call), "pkg/core/dao.(*Simple).Put") {
					stores = true
				}
				return true
			})
			if stores {
				continue
			}
			c.Fail(key, c.P.Pos(rs.node.Pos()), "ModifyAccountVotes can return normally after changing the decoded candidate's Votes without storing the record (and without the record having been dropped): the candidate's tally in storage no longer equals the NEO of its voters", f.pathTo(r, rs.blk)...)
			return
		}
	}
	c.OK(key, c.P.Pos(fd.Decl.Pos()), "every normal return after the tally change stores the record or follows its deletion")
}

// ruleDepositSameAccount: in Notary.OnPersist the deposit that is charged is read, and then stored back or removed,
// for one and the same account: the three calls take the same account expression.
func ruleDepositSameAccount(c *Ctx) {
	fd := c.P.Func(natPkg, "Notary", "OnPersist")
	key := "Notary.OnPersist.deposit-account"
	if fd == nil {
		c.Lost(key+".anchor", "Notary.OnPersist not found")
		return
	}
	f := c.P.NewFuncCFG(fd)
	acct := func(callee string, idx int) []string {
		var out []string
		for _, s := range f.CallSites(callee) {
			if idx < len(s.call.Args) {
				out = append(out, types.ExprString(ast.Unparen(s.call.Args[idx])))
			}
		}
		return out
	}
	reads := acct("pkg/core/native.(*Notary).GetDepositFor", 1)
	puts := acct("pkg/core/native.(*Notary).putDepositFor", 2)
	rems := acct("pkg/core/native.(*Notary).removeDepositFor", 1)
	if len(reads) != 1 || len(puts)+len(rems) == 0 {
		c.Lost(key+".sites", fmt.Sprintf("expected one GetDepositFor and at least one put/remove in Notary.OnPersist, found %d/%d/%d", len(reads), len(puts), len(rems)))
		return
	}
	var bad []string
	for _, e := range append(puts, rems...) {
		if e != reads[0] {
			bad = append(bad, e)
		}
	}
	if len(bad) > 0 {
		c.Fail(key, c.P.Pos(fd.Decl.Pos()), fmt.Sprintf("Notary.OnPersist reads the deposit of `%s` but stores/removes the deposit of `%s`: the charged deposit record keeps its old amount while the contract's GAS was burnt", reads[0], strings.Join(bad, ", ")))
	} else {
		c.OK(key, c.P.Pos(fd.Decl.Pos()), "the charged deposit is read, stored and removed for the same account expression `"+reads[0]+"`")
	}
}
