package main

import (
	"fmt"
	"go/ast"
	"go/token"
	"go/types"
	"os"
	"sort"
	"strings"

	"golang.org/x/tools/go/cfg"
	"golang.org/x/tools/go/ssa"
)

// ---------------------------------------------------------------------------
// hash-canonical: a cached identity (hash, size) is computed from the node's own encoding, or the decoder
// on that path rejects every non-canonical encoding.

func varUintIsCanonical(c *Ctx) (bool, string) {
	fd := c.P.Func("pkg/io", "BinReader", "ReadVarUint")
	if fd == nil {
		return false, "?"
	}
	f := c.P.NewFuncCFG(fd)
	// a canonical decoder compares each multi-byte value with the smallest value that needs that form
	// (0xfd, 0x10000, 0x100000000) and fails otherwise; today there is no such comparison at all
	checks := 0
	for _, b := range f.G.Blocks {
		if cnd := f.Cond(b); cnd != nil {
			for _, at := range condAtoms(cnd) {
				if be, ok := ast.Unparen(at.e).(*ast.BinaryExpr); ok && (be.Op == token.LSS || be.Op == token.LEQ || be.Op == token.GTR || be.Op == token.GEQ) {
					checks++
				}
			}
		}
	}
	return checks >= 3, c.P.Pos(fd.Decl.Pos())
}

func ruleHashCanonical(c *Ctx) {
	owners := map[string]bool{"pkg/core/transaction#hash": true, "pkg/core/transaction#size": true, "pkg/core/block#hash": true, "pkg/network/payload#hash": true}
	canon, canonPos := varUintIsCanonical(c)
	n := 0
	for _, fd := range c.P.AllFuncDecls() {
		if fd.Decl.Body == nil {
			continue
		}
		rel := pkgRel(fd.Obj.Pkg())
		if rel != "pkg/core/transaction" && rel != "pkg/core/block" && rel != "pkg/network/payload" {
			continue
		}
		f := c.P.NewFuncCFG(fd)
		info := fd.Pkg.TypesInfo
		ast.Inspect(fd.Decl.Body, func(x ast.Node) bool {
			as, ok := x.(*ast.AssignStmt)
			if !ok || len(as.Lhs) != 1 || len(as.Rhs) != 1 {
				return true
			}
			se, ok := ast.Unparen(as.Lhs[0]).(*ast.SelectorExpr)
			if !ok {
				return true
			}
			v, ok := info.ObjectOf(se.Sel).(*types.Var)
			if !ok || !v.IsField() || !owners[symOf(v)] {
				return true
			}
			call, ok := ast.Unparen(as.Rhs[0]).(*ast.CallExpr)
			if !ok || len(call.Args) != 1 {
				return true // copied or reset identity
			}
			cs := f.calleeSym(call)
			if !strings.HasPrefix(cs, "pkg/crypto/hash.") && cs != "builtin.len" && cs != "pkg/io.GetVarSize" {
				return true
			}
			n++
			arg := ast.Unparen(call.Args[0])
			key := fmt.Sprintf("%s.%s", FuncKey(fd.Obj), v.Name())
			// origin of the bytes
			root := rootObj(info, arg)
			fromParam := false
			if pv, ok := root.(*types.Var); ok && f.params[pv] {
				if sl, ok := pv.Type().Underlying().(*types.Slice); ok && sl.Elem().String() == "byte" {
					fromParam = true
				}
			}
			ownEnc := strings.Contains(types.ExprString(arg), ".Bytes()") || cs == "pkg/io.GetVarSize"
			switch {
			case ownEnc && !fromParam:
				c.OK(key, c.P.Pos(as.Pos()), v.Name()+" is computed from the node's own encoding of the value")
			case fromParam && canon:
				c.OK(key, c.P.Pos(as.Pos()), v.Name()+" is computed from received bytes, and the length decoder rejects non-minimal encodings")
			case fromParam && rel == "pkg/core/transaction" && receivedBytesReencoded(c):
				c.OK(key, c.P.Pos(as.Pos()), v.Name()+" is computed from received bytes that the only entry point handing bytes in compares with its own re-encoding of the decoded transaction (any other encoding of the same content is refused)")
			case fromParam:
				c.Fail(key, c.P.Pos(as.Pos()), fmt.Sprintf("%s caches the %s of the RECEIVED bytes (%s) while io.BinReader.ReadVarUint (%s) accepts non-minimal length prefixes: the same content gets another identity than its canonical re-encoding", FuncKey(fd.Obj), v.Name(), types.ExprString(arg), canonPos))
			default:
				c.Unclassified(key, c.P.Pos(as.Pos()), "origin of the hashed bytes not recognised: "+types.ExprString(arg))
			}
			return true
		})
	}
	c.Floor("identity cache computations", n, 5)
}

// receivedBytesReencoded: the functions of package transaction that hand received bytes to the hashing decoder (a
// non-nil buffer argument of decodeBinaryNoSize) re-encode what they decoded into a writer that compares it with the
// received bytes, and return an error under a condition that mentions that writer. That makes the received bytes the
// canonical encoding by construction - non-minimal length prefixes, uncompressed keys and odd booleans included.
func receivedBytesReencoded(c *Ctx) bool {
	pk := c.P.Pkg("pkg/core/transaction")
	if pk == nil {
		return false
	}
	info := pk.TypesInfo
	entries, good := 0, 0
	for _, fd := range c.P.AllFuncDecls() {
		if fd.Pkg != pk || fd.Decl.Body == nil {
			continue
		}
		hands := false
		ast.Inspect(fd.Decl.Body, func(x ast.Node) bool {
			call, ok := x.(*ast.CallExpr)
			if !ok || len(call.Args) != 2 {
				return true
			}
			if se, ok := ast.Unparen(call.Fun).(*ast.SelectorExpr); ok && se.Sel.Name == "decodeBinaryNoSize" && !isNilIdent(info, call.Args[1]) {
				hands = true
			}
			return true
		})
		if !hands || fd.Decl.Name.Name == "decodeBinaryNoSize" {
			continue
		}
		entries++
		// a local of a package type whose Write method compares with bytes.Equal/bytes.Compare
		var cmp types.Object
		ast.Inspect(fd.Decl.Body, func(x ast.Node) bool {
			as, ok := x.(*ast.AssignStmt)
			if !ok || len(as.Lhs) != 1 || len(as.Rhs) != 1 {
				return true
			}
			cl, ok := ast.Unparen(as.Rhs[0]).(*ast.CompositeLit)
			if !ok {
				return true
			}
			nt, ok := info.TypeOf(cl).(*types.Named)
			if !ok || nt.Obj().Pkg() != pk.Types {
				return true
			}
			wd := c.P.Func("pkg/core/transaction", nt.Obj().Name(), "Write")
			if wd == nil || wd.Decl.Body == nil {
				return true
			}
			compares := false
			ast.Inspect(wd.Decl.Body, func(y ast.Node) bool {
				if call, ok := y.(*ast.CallExpr); ok {
					if fn := types.ExprString(call.Fun); fn == "bytes.Equal" || fn == "bytes.Compare" {
						compares = true
					}
				}
				return true
			})
			if compares {
				if id, ok := as.Lhs[0].(*ast.Ident); ok {
					cmp = info.ObjectOf(id)
				}
			}
			return true
		})
		if cmp == nil {
			continue
		}
		encodes, refuses := false, false
		ast.Inspect(fd.Decl.Body, func(x ast.Node) bool {
			switch y := x.(type) {
			case *ast.CallExpr:
				if se, ok := ast.Unparen(y.Fun).(*ast.SelectorExpr); ok && se.Sel.Name == "EncodeBinary" {
					encodes = true
				}
			case *ast.IfStmt:
				mentions := false
				ast.Inspect(y.Cond, func(z ast.Node) bool {
					if id, ok := z.(*ast.Ident); ok && info.ObjectOf(id) == cmp {
						mentions = true
					}
					return true
				})
				if mentions && len(y.Body.List) > 0 {
					if rs, ok := y.Body.List[len(y.Body.List)-1].(*ast.ReturnStmt); ok && len(rs.Results) > 0 && !isNilIdent(info, rs.Results[len(rs.Results)-1]) {
						refuses = true
					}
				}
			}
			return true
		})
		if encodes && refuses {
			good++
		}
	}
	return entries > 0 && entries == good
}

// ---------------------------------------------------------------------------
// bounded-alloc: allocations sized by decoded data are bounded first

func ruleBoundedAlloc(c *Ctx) {
	// scope: every function of the module that takes a *io.BinReader (binary decoders) plus pkg/io itself
	nmake, nbounded := 0, 0
	var fds []*FuncDecl
	for _, fd := range c.P.AllFuncDecls() {
		if fd.Decl.Body == nil {
			continue
		}
		takes := false
		for _, fl := range fd.Decl.Type.Params.List {
			if strings.HasSuffix(types.ExprString(fl.Type), "io.BinReader") || types.ExprString(fl.Type) == "*BinReader" {
				takes = true
			}
		}
		if fd.Decl.Recv != nil && len(fd.Decl.Recv.List) == 1 && strings.HasSuffix(types.ExprString(fd.Decl.Recv.List[0].Type), "BinReader") {
			takes = true
		}
		if takes {
			fds = append(fds, fd)
		}
	}
	sort.Slice(fds, func(i, j int) bool { return FuncKey(fds[i].Obj) < FuncKey(fds[j].Obj) })
	readers := map[string]bool{"pkg/io.(*BinReader).ReadVarUint": true, "pkg/io.(*BinReader).ReadU32LE": true, "pkg/io.(*BinReader).ReadU16LE": true, "pkg/io.(*BinReader).ReadU64LE": true, "pkg/io.(*BinReader).ReadB": true, "pkg/io.(*BinReader).ReadU16BE": true, "pkg/io.(*BinReader).ReadU32BE": true}
	for _, fd := range fds {
		f := c.P.NewFuncCFG(fd)
		k := 0
		for _, s := range f.CallSites("builtin.make") {
			if len(s.call.Args) < 2 {
				continue
			}
			// is the size derived from a decoded integer?
			sz := s.call.Args[1]
			m := f.Mentions(sz, s.blk)
			decoded := false
			for r := range readers {
				if m[r] {
					decoded = true
				}
			}
			if !decoded {
				continue
			}
			nmake++
			k++
			key := fmt.Sprintf("%s.make#%d", FuncKey(fd.Obj), k)
			// the size variable(s)
			var szVars []string
			ast.Inspect(sz, func(x ast.Node) bool {
				if id, ok := x.(*ast.Ident); ok {
					if v, ok := f.Info.ObjectOf(id).(*types.Var); ok && !v.IsField() && v.Pkg() != nil && v.Parent() != v.Pkg().Scope() {
						szVars = append(szVars, "local:"+v.Name())
						if f.params[v] {
							szVars[len(szVars)-1] = "param:" + v.Name()
						}
					}
				}
				return true
			})
			gated := false
			var why string
			for _, sv := range szVars {
				res := f.CheckGate(f.Entry(), map[*cfgBlock]bool{s.blk: true}, Guard{ID: "bound", Doc: "decoded size compared with a limit", Alts: [][]string{{sv}}, WholeOpen: true}, nil)
				if res.OK {
					// the gating comparison must be an ordering comparison (>, >=, <, <=), not just an error check
					for _, gp := range res.GatePos {
						if strings.ContainsAny(gp, "<>") {
							gated = true
							why = gp
						}
					}
				}
			}
			if !gated {
				// clamp idiom: `if n > Max { n = Max }`
				for _, b := range f.G.Blocks {
					cnd := f.Cond(b)
					if cnd == nil {
						continue
					}
					txt := types.ExprString(cnd)
					if id, ok := ast.Unparen(cnd).(*ast.Ident); ok { // boolean local holding the comparison
						for _, d := range f.defs[f.Info.ObjectOf(id)] {
							for _, rr := range d.rhs {
								txt += " " + types.ExprString(rr)
							}
						}
					}
					if !strings.ContainsAny(txt, "<>") {
						continue
					}
					m := f.Mentions(cnd, b)
					for _, sv := range szVars {
						if !m[sv] {
							continue
						}
						for _, n := range b.Succs[0].Nodes {
							if as, ok := n.(*ast.AssignStmt); ok && len(as.Lhs) == 1 && as.Tok == token.ASSIGN {
								if id, ok := as.Lhs[0].(*ast.Ident); ok && "local:"+id.Name == sv {
									if tv := f.Info.Types[as.Rhs[0]]; tv.Value != nil {
										gated = true
										why = "clamped to " + types.ExprString(as.Rhs[0]) + " at " + f.blockPos(b)
									}
								}
							}
						}
					}
				}
			}
			if gated {
				nbounded++
				c.OK(key, c.P.Pos(s.call.Pos()), "allocation sized by decoded data is bounded first: "+why)
			} else {
				c.Fail(key, c.P.Pos(s.call.Pos()), fmt.Sprintf("%s allocates make(..., %s) with a size read from the input and no ordering comparison of that size gates the allocation: a crafted length prefix allocates without bound", FuncKey(fd.Obj), types.ExprString(sz)))
			}
		}
	}
	c.Floor("decoders taking a BinReader", len(fds), 60)
	c.Floor("allocations sized by decoded integers", nmake, 5)
}

// ---------------------------------------------------------------------------
// codec-symmetry: EncodeBinary and DecodeBinary of one type perform the same sequence of wire primitives

var wirePair = map[string]string{
	"WriteB": "B", "ReadB": "B", "WriteBool": "Bool", "ReadBool": "Bool",
	"WriteU16LE": "U16LE", "ReadU16LE": "U16LE", "WriteU16BE": "U16BE", "ReadU16BE": "U16BE",
	"WriteU32LE": "U32LE", "ReadU32LE": "U32LE", "WriteU32BE": "U32BE", "ReadU32BE": "U32BE",
	"WriteU64LE": "U64LE", "ReadU64LE": "U64LE",
	"WriteVarUint": "VarUint", "ReadVarUint": "VarUint", "WriteVarBytes": "VarBytes", "ReadVarBytes": "VarBytes",
	"WriteBytes": "Bytes", "ReadBytes": "Bytes", "WriteString": "String", "ReadString": "String",
	"WriteArray": "Array", "ReadArray": "Array",
}

// wireOps extracts the primitive operations on the writer/reader parameter in source order; straight reports
// whether the body is straight-line up to `if <x>.Err != nil { return }` checks.
func wireOps(p *Program, fd *FuncDecl, depth int) (ops []string, straight bool) {
	info := fd.Pkg.TypesInfo
	straight = true
	var param types.Object
	for _, fl := range fd.Decl.Type.Params.List {
		for _, nm := range fl.Names {
			ts := types.ExprString(fl.Type)
			if strings.HasSuffix(ts, "BinWriter") || strings.HasSuffix(ts, "BinReader") {
				param = info.Defs[nm]
			}
		}
	}
	if param == nil {
		return nil, false
	}
	var walk func(n ast.Node)
	walk = func(n ast.Node) {
		ast.Inspect(n, func(x ast.Node) bool {
			switch s := x.(type) {
			case *ast.IfStmt:
				// error checks are transparent; everything else makes the shape conditional
				txt := types.ExprString(s.Cond)
				if !(strings.Contains(txt, ".Err != nil") || strings.Contains(txt, ".Err == nil") || strings.Contains(txt, "err != nil")) {
					straight = false
				}
			case *ast.ForStmt, *ast.RangeStmt, *ast.SwitchStmt, *ast.TypeSwitchStmt, *ast.FuncLit:
				straight = false
			case *ast.CallExpr:
				se, ok := s.Fun.(*ast.SelectorExpr)
				if !ok {
					if fid, ok := s.Fun.(*ast.Ident); ok {
						for _, a := range s.Args {
							if id, ok := ast.Unparen(a).(*ast.Ident); ok && info.ObjectOf(id) == param {
								if fo, ok := info.ObjectOf(fid).(*types.Func); ok && depth < 3 && p.DeclOf(fo) != nil && p.DeclOf(fo).Decl.Body != nil && !strings.HasPrefix(fid.Name, "DecodeBinary") && !strings.HasPrefix(fid.Name, "decodeBinary") {
									ho, hs := wireOps(p, p.DeclOf(fo), depth+1)
									ops = append(ops, ho...)
									if !hs {
										straight = false
									}
									continue
								}
								name := fid.Name
								if tv, ok := info.Types[s]; ok && tv.Type != nil {
									t := tv.Type
									if p, ok := t.(*types.Pointer); ok {
										t = p.Elem()
									}
									if nt, ok := t.(*types.Named); ok {
										name = nt.Obj().Name()
									}
								}
								ops = append(ops, "nested:"+name)
							}
						}
					}
					return true
				}
				// primitive on the parameter
				if id, ok := ast.Unparen(se.X).(*ast.Ident); ok && info.ObjectOf(id) == param {
					if k, ok := wirePair[se.Sel.Name]; ok {
						ops = append(ops, k)
					}
					return true
				}
				// nested serializable: X.EncodeBinary(w) / X.DecodeBinary(r), or a helper function given the reader/writer
				passes := false
				for _, a := range s.Args {
					if id, ok := ast.Unparen(a).(*ast.Ident); ok && info.ObjectOf(id) == param {
						passes = true
					}
				}
				if !passes {
					return true
				}
				typeName := func(t types.Type) string {
					if t == nil {
						return "?"
					}
					if p, ok := t.(*types.Pointer); ok {
						t = p.Elem()
					}
					if nt, ok := t.(*types.Named); ok {
						return nt.Obj().Name()
					}
					return t.String()
				}
				if se.Sel.Name == "EncodeBinary" || se.Sel.Name == "DecodeBinary" {
					ops = append(ops, "nested:"+typeName(info.TypeOf(se.X)))
				} else if fo, ok := info.ObjectOf(se.Sel).(*types.Func); ok && depth < 3 && p.DeclOf(fo) != nil && p.DeclOf(fo).Decl.Body != nil {
					// helper of the module: linearise its body in place
					ho, hs := wireOps(p, p.DeclOf(fo), depth+1)
					ops = append(ops, ho...)
					if !hs {
						straight = false
					}
				} else if tv, ok := info.Types[s]; ok && tv.Type != nil {
					if tup, ok := tv.Type.(*types.Tuple); ok {
						if tup.Len() > 0 {
							ops = append(ops, "nested:"+typeName(tup.At(0).Type()))
						} else {
							ops = append(ops, "helper:"+se.Sel.Name)
						}
					} else {
						ops = append(ops, "nested:"+typeName(tv.Type))
					}
				}
			}
			return true
		})
	}
	walk(fd.Decl.Body)
	return ops, straight
}

// conditional/looped codecs whose static primitive counts agree on the pinned tree (confirmed by reading): they are
// the reference — a later disagreement is a changed wire format on one side only.
var codecCountReference = map[string]bool{
	"pkg/consensus.changeView": true, "pkg/consensus.message": true, "pkg/core/block.Block": true, "pkg/core/block.Header": true,
	"pkg/core/state.ContractInvocation": true, "pkg/core/state.TokenTransferInfo": true, "pkg/core/transaction.OracleResponse": true,
	"pkg/core/transaction.Signer": true, "pkg/core/transaction.Transaction": true, "pkg/neorpc/result.ProofWithKey": true,
	"pkg/network/capability.Archival": true, "pkg/network/capability.Capability": true, "pkg/network/capability.DisableCompression": true,
	"pkg/network/payload.AddressList": true, "pkg/network/payload.Extensible": true, "pkg/network/payload.GetBlockByIndex": true,
	"pkg/network/payload.GetBlocks": true, "pkg/network/payload.MPTData": true, "pkg/network/payload.MerkleBlock": true,
	"pkg/services/stateroot.Message": true, "pkg/smartcontract/nef.File": true, "pkg/smartcontract/nef.Header": true,
}

func ruleCodecSymmetry(c *Ctx) {
	type pair struct{ enc, dec *FuncDecl }
	pairs := map[string]*pair{}
	for _, fd := range c.P.AllFuncDecls() {
		if fd.Decl.Recv == nil || fd.Decl.Body == nil {
			continue
		}
		n := fd.Decl.Name.Name
		if n != "EncodeBinary" && n != "DecodeBinary" {
			continue
		}
		rt := fd.Obj.Type().(*types.Signature).Recv().Type()
		if p, ok := rt.(*types.Pointer); ok {
			rt = p.Elem()
		}
		nt, ok := rt.(*types.Named)
		if !ok {
			continue
		}
		k := pkgRel(nt.Obj().Pkg()) + "." + nt.Obj().Name()
		if pairs[k] == nil {
			pairs[k] = &pair{}
		}
		if n == "EncodeBinary" {
			pairs[k].enc = fd
		} else {
			pairs[k].dec = fd
		}
	}
	nboth, nstraight := 0, 0
	for _, k := range sortedKeys(pairs) {
		p := pairs[k]
		if p.enc == nil || p.dec == nil {
			continue
		}
		nboth++
		eo, es := wireOps(c.P, p.enc, 0)
		do, ds := wireOps(c.P, p.dec, 0)
		if !es || !ds {
			// conditional shapes: compare the sets of primitive kinds used (a kind written but never read, or vice versa)
			em, dm := map[string]int{}, map[string]int{}
			for _, o := range eo {
				em[o]++
			}
			for _, o := range do {
				dm[o]++
			}
			var diff []string
			for k2, v := range em {
				if dm[k2] != v {
					diff = append(diff, fmt.Sprintf("%s: %d written / %d read", k2, v, dm[k2]))
				}
			}
			for k2, v := range dm {
				if _, ok := em[k2]; !ok {
					diff = append(diff, fmt.Sprintf("%s: 0 written / %d read", k2, v))
				}
			}
			sort.Strings(diff)
			if len(diff) == 0 {
				c.OK(k+".counts", c.P.Pos(p.enc.Decl.Pos()), fmt.Sprintf("conditional/looped codec: encoder and decoder contain the same wire primitives the same number of times (%d sites)", len(eo)))
			} else if codecCountReference[k] {
				c.Fail(k+".counts", c.P.Pos(p.dec.Decl.Pos()), fmt.Sprintf("%s: encoder and decoder used to contain the same wire primitives; now they differ (%s): one side of the wire format was changed without the other", k, strings.Join(diff, "; ")))
			} else {
				c.Unclassified(k+".counts", c.P.Pos(p.enc.Decl.Pos()), "conditional/looped codec whose static primitive counts differ ("+strings.Join(diff, "; ")+") — shapes not comparable statically")
			}
			continue
		}
		nstraight++
		if strings.Join(eo, ",") == strings.Join(do, ",") {
			c.OK(k+".sequence", c.P.Pos(p.enc.Decl.Pos()), fmt.Sprintf("encoder and decoder perform the same %d wire operations in the same order: %s", len(eo), strings.Join(eo, " ")))
		} else {
			c.Fail(k+".sequence", c.P.Pos(p.dec.Decl.Pos()), fmt.Sprintf("%s: EncodeBinary writes [%s] but DecodeBinary reads [%s]: the value does not survive encode-then-decode", k, strings.Join(eo, " "), strings.Join(do, " ")))
		}
	}
	c.Floor("types with both EncodeBinary and DecodeBinary", nboth, 50)
	c.Floor("straight-line codec pairs compared token by token", nstraight, 15)
}

// ---------------------------------------------------------------------------
// codec-guards: an optional part of a wire format is written and read under a condition over an already
// (de)coded field. Where encoder and decoder of one type both guard wire operations by comparing the same field
// with constants, the sets of constants agree: a kind added to one side only makes the value unreadable for it.

type codecGuard struct {
	field string
	vals  map[string]bool
	pos   token.Pos
}

// guardOf reads `recv.F == C1 || recv.F == C2 ...` (or a single comparison); ok=false for any other shape.
func guardOf(info *types.Info, e ast.Expr, g *codecGuard) bool {
	e = ast.Unparen(e)
	be, ok := e.(*ast.BinaryExpr)
	if !ok {
		return false
	}
	if be.Op == token.LOR {
		return guardOf(info, be.X, g) && guardOf(info, be.Y, g)
	}
	if be.Op != token.EQL {
		return false
	}
	x, y := ast.Unparen(be.X), ast.Unparen(be.Y)
	if tv, ok := info.Types[x]; ok && tv.Value != nil {
		x, y = y, x
	}
	tv, ok := info.Types[y]
	if !ok || tv.Value == nil {
		return false
	}
	se, ok := x.(*ast.SelectorExpr)
	if !ok {
		return false
	}
	if v, ok := info.ObjectOf(se.Sel).(*types.Var); !ok || !v.IsField() {
		return false
	}
	if g.field != "" && g.field != se.Sel.Name {
		return false
	}
	g.field = se.Sel.Name
	g.vals[tv.Value.ExactString()] = true
	return true
}

func codecGuards(fd *FuncDecl) map[string]*codecGuard {
	info := fd.Pkg.TypesInfo
	out := map[string]*codecGuard{}
	hasWire := func(n ast.Node) bool {
		hit := false
		ast.Inspect(n, func(x ast.Node) bool {
			if call, ok := x.(*ast.CallExpr); ok {
				if se, ok := ast.Unparen(call.Fun).(*ast.SelectorExpr); ok {
					if _, ok := wirePair[se.Sel.Name]; ok {
						hit = true
					}
					if se.Sel.Name == "EncodeBinary" || se.Sel.Name == "DecodeBinary" {
						hit = true
					}
				}
			}
			return !hit
		})
		return hit
	}
	ast.Inspect(fd.Decl.Body, func(x ast.Node) bool {
		is, ok := x.(*ast.IfStmt)
		if !ok || !hasWire(is.Body) {
			return true
		}
		g := &codecGuard{vals: map[string]bool{}, pos: is.Pos()}
		if guardOf(info, is.Cond, g) && g.field != "" {
			if old := out[g.field]; old != nil {
				for v := range g.vals {
					old.vals[v] = true
				}
			} else {
				out[g.field] = g
			}
		}
		return true
	})
	return out
}

func ruleCodecGuards(c *Ctx) {
	type pair struct{ enc, dec *FuncDecl }
	pairs := map[string]*pair{}
	for _, fd := range c.P.AllFuncDecls() {
		if fd.Decl.Recv == nil || fd.Decl.Body == nil {
			continue
		}
		n := fd.Decl.Name.Name
		if n != "EncodeBinary" && n != "DecodeBinary" {
			continue
		}
		rt := fd.Obj.Type().(*types.Signature).Recv().Type()
		if p, ok := rt.(*types.Pointer); ok {
			rt = p.Elem()
		}
		nt, ok := rt.(*types.Named)
		if !ok {
			continue
		}
		k := pkgRel(nt.Obj().Pkg()) + "." + nt.Obj().Name()
		if pairs[k] == nil {
			pairs[k] = &pair{}
		}
		if n == "EncodeBinary" {
			pairs[k].enc = fd
		} else {
			pairs[k].dec = fd
		}
	}
	n := 0
	for _, k := range sortedKeys(pairs) {
		p := pairs[k]
		if p.enc == nil || p.dec == nil {
			continue
		}
		eg, dg := codecGuards(p.enc), codecGuards(p.dec)
		for _, fld := range sortedKeys(eg) {
			d := dg[fld]
			if d == nil {
				continue
			}
			n++
			e := eg[fld]
			var onlyE, onlyD []string
			for v := range e.vals {
				if !d.vals[v] {
					onlyE = append(onlyE, v)
				}
			}
			for v := range d.vals {
				if !e.vals[v] {
					onlyD = append(onlyD, v)
				}
			}
			sort.Strings(onlyE)
			sort.Strings(onlyD)
			key := k + ".guard." + fld
			if len(onlyE)+len(onlyD) == 0 {
				c.OK(key, c.P.Pos(d.pos), fmt.Sprintf("optional part guarded by %s: encoder and decoder test the same %d value(s)", fld, len(e.vals)))
			} else {
				c.Fail(key, c.P.Pos(d.pos), fmt.Sprintf("%s: the optional part guarded by field %s is written for values %v only and read for values %v only: a value of one of those kinds does not survive encode-then-decode (the decoder leaves bytes unread or reads past the end)", k, fld, onlyE, onlyD))
			}
		}
	}
	c.Floor("optional parts guarded by constant comparisons on both sides", n, 1)
}

// ---------------------------------------------------------------------------
// decode-context: some serialisable types carry a field that is not on the wire but decides the wire shape (it is
// read by the type's DecodeBinary and never assigned there): the state-root flag of consensus messages. A
// decoder of such a type that creates a nested value of a type with its own context field must hand the
// context on, otherwise the nested part is decoded (and later re-encoded, hashed) in the default shape.

// contextReadOutsideDecoder: context fields that some method other than the type's decoder reads (they shape the
// encoding, the hash or the size as well); filled by contextFields.
var contextReadOutsideDecoder = map[*types.Var]bool{}

func contextFields(c *Ctx) map[*types.Named][]*types.Var {
	out := map[*types.Named][]*types.Var{}
	for _, fd := range c.P.AllFuncDecls() {
		if fd.Decl.Recv == nil || fd.Decl.Body == nil || fd.Decl.Name.Name != "DecodeBinary" {
			continue
		}
		rt := fd.Obj.Type().(*types.Signature).Recv().Type()
		if p, ok := rt.(*types.Pointer); ok {
			rt = p.Elem()
		}
		nt, ok := rt.(*types.Named)
		if !ok {
			continue
		}
		st, ok := nt.Underlying().(*types.Struct)
		if !ok {
			continue
		}
		info := fd.Pkg.TypesInfo
		read, written := map[*types.Var]bool{}, map[*types.Var]bool{}
		seenM := map[*FuncDecl]bool{}
		var scanM func(md *FuncDecl, depth int)
		scanM = func(md *FuncDecl, depth int) {
			if md == nil || md.Decl.Body == nil || md.Decl.Recv == nil || len(md.Decl.Recv.List[0].Names) == 0 || seenM[md] || depth > 2 {
				return
			}
			seenM[md] = true
			recv := info.ObjectOf(md.Decl.Recv.List[0].Names[0])
			onRecv := func(se *ast.SelectorExpr) *types.Var {
				id, ok := ast.Unparen(se.X).(*ast.Ident)
				if !ok || info.ObjectOf(id) != recv {
					return nil
				}
				v, _ := info.ObjectOf(se.Sel).(*types.Var)
				return v
			}
			var markWritten func(e ast.Expr)
			markWritten = func(e ast.Expr) {
				switch x := ast.Unparen(e).(type) {
				case *ast.SelectorExpr:
					if v := onRecv(x); v != nil {
						written[v] = true
					} else {
						markWritten(x.X)
					}
				case *ast.IndexExpr:
					markWritten(x.X)
				case *ast.StarExpr:
					markWritten(x.X)
				case *ast.UnaryExpr:
					markWritten(x.X)
				}
			}
			ast.Inspect(md.Decl.Body, func(x ast.Node) bool {
				switch y := x.(type) {
				case *ast.AssignStmt:
					for _, l := range y.Lhs {
						markWritten(l)
					}
				case *ast.UnaryExpr:
					if y.Op == token.AND {
						markWritten(y.X)
					}
				case *ast.CallExpr:
					// a method called on a field may fill it; a method called on the receiver itself is followed
					if se, ok := ast.Unparen(y.Fun).(*ast.SelectorExpr); ok {
						if id, ok := ast.Unparen(se.X).(*ast.Ident); ok && info.ObjectOf(id) == recv {
							if fo, ok := info.ObjectOf(se.Sel).(*types.Func); ok {
								scanM(c.P.DeclOf(fo), depth+1)
							}
						} else {
							markWritten(se.X)
						}
					}
				case *ast.SelectorExpr:
					if v := onRecv(y); v != nil {
						read[v] = true
					}
				}
				return true
			})
		}
		scanM(fd, 0)
		// a field the decoder itself no longer looks at is still context if other methods of the type read it
		// (the flag is then only carried for the nested values): reads in any method count, writes only in the decoder
		if tn := nt.Obj(); tn != nil {
			for i := 0; i < nt.NumMethods(); i++ {
				md := c.P.DeclOf(nt.Method(i))
				if md == nil || md.Decl.Body == nil || md.Decl.Recv == nil || len(md.Decl.Recv.List[0].Names) == 0 || seenM[md] {
					continue
				}
				recv := info.ObjectOf(md.Decl.Recv.List[0].Names[0])
				ast.Inspect(md.Decl.Body, func(x ast.Node) bool {
					if se, ok := x.(*ast.SelectorExpr); ok {
						if id, ok := ast.Unparen(se.X).(*ast.Ident); ok && info.ObjectOf(id) == recv {
							if v, ok := info.ObjectOf(se.Sel).(*types.Var); ok {
								read[v] = true
								contextReadOutsideDecoder[v] = true
							}
						}
					}
					return true
				})
			}
		}
		for i := 0; i < st.NumFields(); i++ {
			fv := st.Field(i)
			if b, ok := fv.Type().Underlying().(*types.Basic); ok && b.Kind() == types.Bool && read[fv] && !written[fv] {
				out[nt] = append(out[nt], fv)
			}
		}
	}
	return out
}

func ruleDecodeContext(c *Ctx) {
	ctxf := contextFields(c)
	var names []string
	for nt, fs := range ctxf {
		for _, f := range fs {
			names = append(names, pkgRel(nt.Obj().Pkg())+"."+nt.Obj().Name()+"."+f.Name())
		}
	}
	sort.Strings(names)
	c.Note("context fields (read, never assigned by the type's DecodeBinary): %s", strings.Join(names, ", "))
	n := 0
	for _, fd := range c.P.AllFuncDecls() {
		if fd.Decl.Recv == nil || fd.Decl.Body == nil || fd.Decl.Name.Name != "DecodeBinary" {
			continue
		}
		rt := fd.Obj.Type().(*types.Signature).Recv().Type()
		if p, ok := rt.(*types.Pointer); ok {
			rt = p.Elem()
		}
		nt, ok := rt.(*types.Named)
		if !ok || len(ctxf[nt]) == 0 {
			continue
		}
		info := fd.Pkg.TypesInfo
		k := 0
		ast.Inspect(fd.Decl.Body, func(x ast.Node) bool {
			var made *types.Named
			var lit *ast.CompositeLit
			switch y := x.(type) {
			case *ast.CompositeLit:
				if t, ok := info.TypeOf(y).(*types.Named); ok {
					made, lit = t, y
				}
			case *ast.CallExpr:
				if id, ok := ast.Unparen(y.Fun).(*ast.Ident); ok && id.Name == "new" && len(y.Args) == 1 {
					if _, isB := info.ObjectOf(id).(*types.Builtin); isB {
						if t, ok := info.TypeOf(y.Args[0]).(*types.Named); ok {
							made = t
						}
					}
				}
			}
			if made == nil || len(ctxf[made]) == 0 {
				return true
			}
			for _, cf := range ctxf[made] {
				n++
				k++
				key := fmt.Sprintf("%s.forward#%d", FuncKey(fd.Obj), k)
				set := false
				if lit != nil {
					for _, el := range lit.Elts {
						if kv, ok := el.(*ast.KeyValueExpr); ok {
							if id, ok := kv.Key.(*ast.Ident); ok && info.ObjectOf(id) == cf {
								set = true
							}
						}
					}
				}
				if !set {
					// `v := new(T); if ctx { v.F = true }` - an assignment to the field somewhere in the decoder
					ast.Inspect(fd.Decl.Body, func(z ast.Node) bool {
						if as, ok := z.(*ast.AssignStmt); ok {
							for _, l := range as.Lhs {
								if se, ok := ast.Unparen(l).(*ast.SelectorExpr); ok && info.ObjectOf(se.Sel) == cf {
									set = true
								}
							}
						}
						return true
					})
				}
				if set {
					c.OK(key, c.P.Pos(x.Pos()), fmt.Sprintf("nested %s gets its context field %s from the decoder of %s", made.Obj().Name(), cf.Name(), nt.Obj().Name()))
				} else {
					c.Fail(key, c.P.Pos(x.Pos()), fmt.Sprintf("%s creates a nested %s without setting its context field %s (which decides that type's wire shape) although %s itself is decoded under such a context: the nested part is read in the default shape, so a value encoded with the context on does not decode (or decodes to something else)", FuncKey(fd.Obj), made.Obj().Name(), cf.Name(), nt.Obj().Name()))
				}
			}
			return true
		})
	}
	c.Floor("nested constructions of context-dependent types inside context-dependent decoders", n, 3)
}

// ---------------------------------------------------------------------------
// compress-frame: the P2P compression frame. lz4.CompressBlock gives up silently (size 0, nil error) on input that
// does not shrink unless the destination has room for lz4.CompressBlockBound(len(src)) bytes, so the destination
// must be sized by that function of the same source; lz4.UncompressBlock must write into a buffer whose size was
// compared with a limit first and whose filled length is compared with the announced one.
func ruleCompressFrame(c *Ctx) {
	const symC, symB, symU = "github.com/pierrec/lz4.CompressBlock", "github.com/pierrec/lz4.CompressBlockBound", "github.com/pierrec/lz4.UncompressBlock"
	nc, nu := 0, 0
	for _, fd := range c.P.AllFuncDecls() {
		if fd.Decl.Body == nil || !InModule(fd.Obj.Pkg()) {
			continue
		}
		f := c.P.NewFuncCFG(fd)
		for i, s := range f.CallSites(symC) {
			if len(s.call.Args) < 2 {
				continue
			}
			nc++
			key := fmt.Sprintf("%s.compress#%d", FuncKey(fd.Obj), i+1)
			dm := f.Mentions(s.call.Args[1], s.blk)
			// the bound must be taken of the very source that is compressed
			srcRoot := rootObj(f.Info, s.call.Args[0])
			sameSrc := false
			for _, bs := range f.CallSites(symB) {
				if len(bs.call.Args) == 1 {
					ast.Inspect(bs.call.Args[0], func(x ast.Node) bool {
						if id, ok := x.(*ast.Ident); ok && srcRoot != nil && f.Info.ObjectOf(id) == srcRoot {
							sameSrc = true
						}
						return true
					})
				}
			}
			if dm[symB] && sameSrc {
				c.OK(key, c.P.Pos(s.call.Pos()), "the destination of CompressBlock is sized by CompressBlockBound of the compressed source")
			} else {
				c.Fail(key, c.P.Pos(s.call.Pos()), fmt.Sprintf("%s compresses into %s, which is not sized by lz4.CompressBlockBound(len(<the source>)): for input that does not shrink CompressBlock returns size 0 and no error, and the message is sent with an empty body under a header that announces the full length", FuncKey(fd.Obj), types.ExprString(s.call.Args[1])))
			}
		}
		for i, s := range f.CallSites(symU) {
			if len(s.call.Args) < 2 {
				continue
			}
			nu++
			key := fmt.Sprintf("%s.uncompress#%d", FuncKey(fd.Obj), i+1)
			// destination: a local made with a size that an ordering comparison gates
			dst := rootObj(f.Info, s.call.Args[1])
			var szSyms []string
			if dv, ok := dst.(*types.Var); ok {
				for _, d := range f.defs[dv] {
					for _, r := range d.rhs {
						if mk, ok := ast.Unparen(r).(*ast.CallExpr); ok && f.calleeSym(mk) == "builtin.make" && len(mk.Args) >= 2 {
							ast.Inspect(mk.Args[1], func(x ast.Node) bool {
								if id, ok := x.(*ast.Ident); ok {
									if v, ok := f.Info.ObjectOf(id).(*types.Var); ok && !v.IsField() {
										szSyms = append(szSyms, "local:"+v.Name())
									}
								}
								return true
							})
						}
					}
				}
			}
			bounded := ""
			for _, sv := range szSyms {
				res := f.CheckGate(f.Entry(), map[*cfgBlock]bool{s.blk: true}, Guard{ID: "bound", Doc: "announced length compared with a limit", Alts: [][]string{{sv}}, WholeOpen: true}, nil)
				if res.OK {
					for _, gp := range res.GatePos {
						if strings.ContainsAny(gp, "<>") {
							bounded = gp
						}
					}
				}
			}
			// the filled size is compared with the announced one before the success return
			sizeChecked := false
			if as, ok := s.node.(*ast.AssignStmt); ok && len(as.Lhs) >= 1 {
				if id, ok := as.Lhs[0].(*ast.Ident); ok && id.Name != "_" {
					res := f.CheckGate([]*cfg.Block{s.blk}, blocksOf(f.OKReturns()), Guard{ID: "size", Doc: "decompressed size equals the announced length", Alts: [][]string{{"local:" + id.Name}}, WholeOpen: true}, nil)
					sizeChecked = res.OK
				}
			}
			switch {
			case bounded == "":
				c.Fail(key, c.P.Pos(s.call.Pos()), fmt.Sprintf("%s decompresses into a buffer whose announced size is not compared with a limit first: a 4-byte header allocates up to 4 GiB", FuncKey(fd.Obj)))
			case !sizeChecked:
				c.Fail(key, c.P.Pos(s.call.Pos()), fmt.Sprintf("%s accepts a decompressed payload without comparing the number of bytes actually produced with the announced length: a short body yields a payload padded with zeroes", FuncKey(fd.Obj)))
			default:
				c.OK(key, c.P.Pos(s.call.Pos()), "announced length bounded ("+bounded+") and compared with the produced size before success")
			}
		}
	}
	// the Compressed flag and the body it describes are established together: every function that assigns the
	// message's wire body (re)writes the flag on every path to that assignment - a flag left over from an earlier
	// encoding, or from decoding, over a freshly serialized plain body cannot be decoded by the receiver
	const fBody, fFlags = "pkg/network#compressedPayload", "pkg/network#Flags"
	nb := 0
	for _, fd := range c.P.AllFuncDecls() {
		if fd.Decl.Body == nil || pkgRel(fd.Obj.Pkg()) != "pkg/network" {
			continue
		}
		f := c.P.NewFuncCFG(fd)
		body := f.WriteSites(fBody)
		if len(body) == 0 {
			continue
		}
		// the decoder fills both from the wire: the flag is assigned from the first byte
		nb++
		key := FuncKey(fd.Obj) + ".flag-with-body"
		flagW := f.WriteSites(fFlags)
		ok, path := f.mustBefore(f.Entry(), body, flagW, nil)
		if !ok {
			// ... or the flag is written after the body on every path to a return
			after := true
			for _, b := range body {
				var rets []site
				for _, r := range f.Returns() {
					rets = append(rets, r)
				}
				if ok2, _ := f.mustBefore([]*cfg.Block{b.blk}, rets, flagAfter(flagW, b), nil); !ok2 {
					after = false
				}
			}
			if after && len(flagW) > 0 {
				ok = true
			}
		}
		if ok {
			c.OK(key, c.P.Pos(body[0].node.Pos()), "every path that assigns the wire body also assigns the Flags field")
		} else {
			c.Fail(key, c.P.Pos(body[0].node.Pos()), fmt.Sprintf("%s assigns the message's wire body on a path that leaves Flags as they were (%s): a Message encoded twice (with and without compression for a mixed peer set) or encoded after being decoded from a compressed packet announces Compressed over a plain body", FuncKey(fd.Obj), strings.Join(path, " -> ")))
		}
	}
	c.Floor("functions assigning the message's wire body", nb, 2)
	c.Floor("lz4.CompressBlock sites", nc, 1)
	c.Floor("lz4.UncompressBlock sites", nu, 1)
}

// ---------------------------------------------------------------------------
// decoder-panics: nothing reachable from a binary decoder (DecodeBinary methods, stackitem.Deserialize*) panics
// explicitly, except at tabled sites that only a programming error (not input bytes) can reach.

var decoderPanicOK = map[string]string{
	"pkg/core/mpt.(*BaseNode).updateHash":             "call-graph imprecision: reached only through the Hash()/EncodeBinary interface methods of unrelated types on the re-encoding side of nef.CalculateChecksum; no decoder holds a trie node except mpt.NodeObject, which builds nodes whose encoding cannot fail",
	"pkg/core/mpt.(*HashNode).Hash":                   "call-graph imprecision (see updateHash): an empty HashNode is created only by the trie code, never by a decoder",
	"pkg/core/mpt.(EmptyNode).Hash":                   "call-graph imprecision (see updateHash): decoders never ask an EmptyNode for its hash",
	"pkg/core/transaction.(*Transaction).Hash":        "Hash() panics only if encoding the transaction into a memory buffer fails; the transaction was just decoded, every field is within its limits, the buffer writer cannot fail",
	"pkg/io.(*BinReader).ReadArray":                   "programming errors only (the argument is not a pointer to a slice / the element type is not Decodable): decided by the static type at the call site, not by input bytes",
	"pkg/io.(*BinWriter).WriteArray":                  "programming errors only (not a slice / element not Encodable), on the re-encoding side",
	"pkg/io.GetVarSize":                               "programming errors only (unsupported static type), on the size/re-encoding side",
	"pkg/smartcontract/nef.(*File).CalculateChecksum": "panics only if serialising the file into a memory buffer fails; BytesLong applies no size limit and the buffer writer cannot fail",
	"pkg/vm.(*exceptionHandlingContext).TryBool":      "call-graph imprecision: exceptionHandlingContext implements stackitem.Item only to live on the VM's try stack; no decoder creates one",
	"pkg/vm.(*exceptionHandlingContext).Type":         "call-graph imprecision (see TryBool)",
	"pkg/vm/stackitem.(*Map).Add#2":                   "the read-only panic: a decoder adds to a map it has just created, which is never read-only",
}

// decoderPanicGate: a panic that input bytes could reach, kept unreachable by a validation the decoder performs first:
// in every decoder-reachable caller each call of the panicking function is preceded by a call of the validator.
var decoderPanicGate = map[string]struct{ validator, why string }{
	// validator: alternatives separated by |
	"pkg/vm/stackitem.(*Map).Add#1":  {"pkg/vm/stackitem.IsValidMapKey", "invalid map key"},
	"pkg/vm/stackitem.hashCode":      {"pkg/vm/stackitem.IsValidMapKey", "invalid map key (reached through Map.Add)"},
	"pkg/encoding/bigint.FromBytes":  {"pkg/io.(*BinReader).ReadVarBytes", "more than MaxBytesLen bytes: the decoder reads the integer with ReadVarBytes(bigint.MaxBytesLen)"},
	"pkg/vm/stackitem.NewBigInteger": {"pkg/io.(*BinReader).ReadVarBytes|pkg/vm/stackitem.CheckIntegerSize", "integer out of range (the binary decoder reads at most MaxBytesLen = 32 bytes of two's complement, which is within [-2^255, 2^255); the JSON decoder checks the size first)"},
}

func ruleDecoderPanics(c *Ctx) {
	g := c.P.MRG()
	var roots []*ssa.Function
	for _, fd := range c.P.AllFuncDecls() {
		if fd.Decl.Body == nil || !InModule(fd.Obj.Pkg()) {
			continue
		}
		n := fd.Obj.Name()
		rel := pkgRel(fd.Obj.Pkg())
		if strings.HasPrefix(rel, "pkg/rpcclient") || strings.HasPrefix(rel, "cli") || strings.HasPrefix(rel, "internal") {
			continue // client-side and tooling decoders are not the node's
		}
		if n == "DecodeBinary" || n == "UnmarshalJSON" || n == "FromStackItem" || (rel == "pkg/vm/stackitem" && (strings.HasPrefix(n, "Deserialize") || n == "DecodeBinaryProtected" || strings.HasPrefix(n, "FromJSON"))) {
			if fn := c.P.SSAFunc(fd.Obj); fn != nil {
				roots = append(roots, fn)
			}
		}
	}
	via := g.Reach(roots, nil)
	var fns []*ssa.Function
	for fn := range via {
		fns = append(fns, fn)
	}
	sort.Slice(fns, func(i, j int) bool { return FnKey(fns[i]) < FnKey(fns[j]) })
	npan := 0
	for _, fn := range fns {
		if fn.Pkg == nil || !InModule(fn.Pkg.Pkg) {
			continue
		}
		k := 0
		for _, b := range fn.Blocks {
			for _, ins := range b.Instrs {
				p, ok := ins.(*ssa.Panic)
				if !ok || !p.Pos().IsValid() {
					continue // compiler-inserted panics of range-over-func loops have no position
				}
				npan++
				k++
				key := fmt.Sprintf("%s.panic#%d", FnKey(fn), k)
				if os.Getenv("NV_DPANIC") != "" {
					fmt.Println("DPANIC", key, c.P.Pos(p.Pos()), strings.Join(g.PathTo(via, fn), " <- "))
				}
				gate, gated := decoderPanicGate[fmt.Sprintf("%s#%d", FnKey(fn), k)]
				if !gated {
					gate, gated = decoderPanicGate[FnKey(fn)]
				}
				why, tabled := decoderPanicOK[fmt.Sprintf("%s#%d", FnKey(fn), k)]
				if !tabled {
					why, tabled = decoderPanicOK[FnKey(fn)]
				}
				if gated {
					// the direct callers of the gated function that are themselves reachable; hashCode is entered through Map.Add
					target := fn
					if FnKey(fn) == "pkg/vm/stackitem.hashCode" {
						for _, e := range g.Nodes[fn].In {
							if FnKey(e.Caller.Fn) == "pkg/vm/stackitem.(*Map).Add" {
								target = e.Caller.Fn
							}
						}
					}
					bad := ""
					ncall := 0
					for _, e := range g.Nodes[target].In {
						if _, ok := via[e.Caller.Fn]; !ok || e.Caller.Fn.Pkg == nil || !InModule(e.Caller.Fn.Pkg.Pkg) {
							continue
						}
						cfo, _ := e.Caller.Fn.Object().(*types.Func)
						cfd := c.P.DeclOf(cfo)
						if cfd == nil {
							continue
						}
						cf := c.P.NewFuncCFG(cfd)
						targets := cf.CallSites(FnKey(target))
						if len(targets) == 0 {
							continue
						}
						ncall += len(targets)
						ok, path := cf.mustBefore(cf.Entry(), targets, cf.CallSites(strings.Split(gate.validator, "|")...), nil)
						if !ok {
							// the other accepted idiom: the caller compares the length of the data with a limit and bails out
							res := cf.CheckGate(cf.Entry(), blocksOf(targets), Guard{ID: "len", Doc: "length compared with the limit", Alts: [][]string{{"builtin.len"}}, WholeOpen: true}, nil)
							for _, gp := range res.GatePos {
								if res.OK && strings.ContainsAny(gp, "<>") {
									ok = true
								}
							}
						}
						if !ok {
							bad = fmt.Sprintf("%s calls %s on a path that does not pass %s first (%s)", FnKey(e.Caller.Fn), shortSym(FnKey(target)), shortSym(gate.validator), strings.Join(path, " -> "))
						}
						// a validator that is a *read* validates by failing: it sets the reader's error and hands back nil. The
						// validation only counts if that error is looked at between the read and the use of what was read
						// (bigint.FromBytes(nil) panics - finding 83)
						if ok && strings.Contains(gate.validator, "(*BinReader).Read") && FnKey(target) == "pkg/encoding/bigint.FromBytes" {
							vals := cf.CallSites(strings.Split(gate.validator, "|")...)
							for _, tsite := range targets {
								// the nearest validator call before the target, in source order
								vpos := token.NoPos
								for _, v := range vals {
									if v.call.Pos() < tsite.call.Pos() && v.call.Pos() > vpos {
										vpos = v.call.Pos()
									}
								}
								if vpos == token.NoPos {
									continue // validated by a length comparison, not by a read
								}
								checked := false
								ast.Inspect(cfd.Decl.Body, func(x ast.Node) bool {
									is, isIf := x.(*ast.IfStmt)
									if !isIf || is.Pos() < vpos || is.Pos() > tsite.call.Pos() {
										return true
									}
									if cf.DirectMentions(is.Cond)["pkg/io#Err"] {
										checked = true
									}
									return true
								})
								if !checked {
									if bad != "" {
										bad += "; "
									}
									bad += fmt.Sprintf("%s hands what %s returned to %s without looking at the reader's error in between: when the read fails (more bytes announced than the limit) it returns nil, and %s panics on nil", FnKey(e.Caller.Fn), shortSym(gate.validator), shortSym(FnKey(target)), shortSym(FnKey(target)))
								}
							}
						}
					}
					switch {
					case bad != "":
						c.Fail(key, c.P.Pos(p.Pos()), fmt.Sprintf("%s panics on %s, and a decoder reaches it unvalidated: %s", FnKey(fn), gate.why, bad))
					case ncall == 0:
						c.Unclassified(key, c.P.Pos(p.Pos()), "gated panic whose decoder-side call sites were not found")
					default:
						c.OK(key, c.P.Pos(p.Pos()), fmt.Sprintf("panics on %s; every one of the %d decoder-side call sites is preceded by %s", gate.why, ncall, shortSym(gate.validator)))
					}
				} else if tabled {
					c.OK(key, c.P.Pos(p.Pos()), "tabled: "+why)
				} else {
					c.Fail(key, c.P.Pos(p.Pos()), FnKey(fn)+" panics explicitly and is reachable from a binary decoder: bytes from the network or the database must produce an error, not a panic", g.PathTo(via, fn)...)
				}
			}
		}
	}
	c.Floor("binary decoder entry points", len(roots), 60)
	c.Floor("functions reachable from decoders", len(fns), 100)
}

// flagAfter keeps the flag writes that are not before the body write inside the body write's own block.
func flagAfter(ws []site, body site) []site {
	var out []site
	for _, w := range ws {
		if w.blk == body.blk && w.idx < body.idx {
			continue
		}
		out = append(out, w)
	}
	return out
}

// ---------------------------------------------------------------------------
// context-construction: a value of a type whose wire shape depends on a context field (contextFields: the state-root
// flags of block.Header and of the consensus messages, Headers.StateRootInHeader) is used for encoding, hashing or
// size estimation as soon as it exists; every place of the node that builds one sets the field (in the literal or by
// an assignment in the same function), or is tabled with the reason the value never meets a state-root network.
var contextConstructionOK = map[string]string{
	"pkg/network/payload.(*MerkleBlock).DecodeBinary":  "MerkleBlock is neither produced nor handled by the node (no handler for CMDMerkleBlock); its header is decoded in the default shape",
	"pkg/network.(*Message).decodePayload|MerkleBlock": "the same message: decoded because the command is in the table of commands, dropped by the server (no handler for CMDMerkleBlock)",
}

// embeddedContextFields: the context fields a struct type gets by embedding (any depth up to 3), and the names of
// the embedded fields they come through.
func embeddedContextFields(ctxf map[*types.Named][]*types.Var, nt *types.Named, depth int) ([]*types.Var, map[string]bool) {
	via := map[string]bool{}
	st, ok := nt.Underlying().(*types.Struct)
	if !ok || depth > 3 {
		return nil, via
	}
	var out []*types.Var
	for i := 0; i < st.NumFields(); i++ {
		f := st.Field(i)
		if !f.Embedded() {
			continue
		}
		t := f.Type()
		if p, ok := t.(*types.Pointer); ok {
			t = p.Elem()
		}
		en, ok := t.(*types.Named)
		if !ok {
			continue
		}
		got := ctxf[en]
		if len(got) == 0 {
			got, _ = embeddedContextFields(ctxf, en, depth+1)
		}
		if len(got) > 0 {
			via[f.Name()] = true
			out = append(out, got...)
		}
	}
	return out, via
}

func ruleContextConstruction(c *Ctx) {
	ctxf := contextFields(c)
	n := 0
	for _, fd := range c.P.AllFuncDecls() {
		if fd.Decl.Body == nil || !InModule(fd.Obj.Pkg()) {
			continue
		}
		rel := pkgRel(fd.Obj.Pkg())
		if strings.HasPrefix(rel, "cli") || strings.HasPrefix(rel, "internal") || strings.HasPrefix(rel, "pkg/neotest") {
			continue
		}
		info := fd.Pkg.TypesInfo
		k := 0
		ast.Inspect(fd.Decl.Body, func(x ast.Node) bool {
			lit, ok := x.(*ast.CompositeLit)
			if !ok {
				return true
			}
			nt, ok := info.TypeOf(lit).(*types.Named)
			if !ok {
				return true
			}
			fields := ctxf[nt]
			if len(fields) == 0 {
				// a wrapper that embeds a context-dependent type (result.Header, result.Block: the RPC client decodes
				// JSON into them, and the embedded header's UnmarshalJSON verifies the hash) - unless the literal
				// provides the embedded value wholesale
				emb, via := embeddedContextFields(ctxf, nt, 0)
				provided := false
				for _, el := range lit.Elts {
					if kv, ok := el.(*ast.KeyValueExpr); ok {
						if id, ok := kv.Key.(*ast.Ident); ok && via[id.Name] {
							provided = true
						}
					} else {
						provided = true // positional literal
					}
				}
				if !provided {
					fields = emb
				}
			} else if strings.HasPrefix(rel, "pkg/rpcclient") {
				return true
			}
			for _, cf := range fields {
				if !contextReadOutsideDecoder[cf] {
					// the field matters to the type's decoder only: a value built to be encoded needs none
					decodes := false
					ast.Inspect(fd.Decl.Body, func(z ast.Node) bool {
						if call, ok := z.(*ast.CallExpr); ok {
							if se, ok := ast.Unparen(call.Fun).(*ast.SelectorExpr); ok && strings.HasPrefix(se.Sel.Name, "Decode") {
								decodes = true
							}
						}
						return !decodes
					})
					if !decodes {
						continue
					}
				}
				n++
				k++
				key := fmt.Sprintf("%s.ctx#%d", FuncKey(fd.Obj), k)
				set := false
				for _, el := range lit.Elts {
					if kv, ok := el.(*ast.KeyValueExpr); ok {
						if id, ok := kv.Key.(*ast.Ident); ok && info.ObjectOf(id) == cf {
							set = true
						}
					}
				}
				if !set {
					ast.Inspect(fd.Decl.Body, func(z ast.Node) bool {
						if as, ok := z.(*ast.AssignStmt); ok {
							for _, l := range as.Lhs {
								if se, ok := ast.Unparen(l).(*ast.SelectorExpr); ok && info.ObjectOf(se.Sel) == cf {
									set = true
								}
							}
						}
						return true
					})
				}
				switch {
				case set:
					c.OK(key, c.P.Pos(lit.Pos()), fmt.Sprintf("%s is built with its context field %s set", nt.Obj().Name(), cf.Name()))
				case contextConstructionOK[FuncKey(fd.Obj)] != "":
					c.OK(key, c.P.Pos(lit.Pos()), "tabled: "+contextConstructionOK[FuncKey(fd.Obj)])
				case contextConstructionOK[FuncKey(fd.Obj)+"|"+nt.Obj().Name()] != "":
					c.OK(key, c.P.Pos(lit.Pos()), "tabled: "+contextConstructionOK[FuncKey(fd.Obj)+"|"+nt.Obj().Name()])
				default:
					c.Fail(key, c.P.Pos(lit.Pos()), fmt.Sprintf("%s builds a %s without setting %s, the field that decides its wire shape: whatever is computed from it (encoding, hash, size estimate) is that of the default shape - on a network with state roots in headers the value is 32 bytes shorter than the real one", FuncKey(fd.Obj), nt.Obj().Name(), cf.Name()))
				}
			}
			return true
		})
	}
	c.Floor("constructions of context-dependent values in the node", n, 6)
}
