package main

import (
	"fmt"
	"go/ast"
	"go/token"
	"go/types"
	"sort"
	"strings"
)

// ---------------------------------------------------------------------------
// hash-canonical: a cached identity (hash, size) is computed from the node's own encoding, or the decoder
// on that path rejects every non-canonical encoding.

func varUintIsCanonical(c *Ctx) (bool, string) {
	fd := c.P.Func("pkg/io", "BinReader", "ReadVarUint")
	if fd == nil {
		return false, "?"
	}
	f := c.P.NewFuncCFG(fd)
	// a canonical decoder compares each multi-byte value with the smallest value that needs that form
	// (0xfd, 0x10000, 0x100000000) and fails otherwise; today there is no such comparison at all
	checks := 0
	for _, b := range f.G.Blocks {
		if cnd := f.Cond(b); cnd != nil {
			for _, at := range condAtoms(cnd) {
				if be, ok := ast.Unparen(at.e).(*ast.BinaryExpr); ok && (be.Op == token.LSS || be.Op == token.LEQ || be.Op == token.GTR || be.Op == token.GEQ) {
					checks++
				}
			}
		}
	}
	return checks >= 3, c.P.Pos(fd.Decl.Pos())
}

func ruleHashCanonical(c *Ctx) {
	owners := map[string]bool{"pkg/core/transaction#hash": true, "pkg/core/transaction#size": true, "pkg/core/block#hash": true, "pkg/network/payload#hash": true}
	canon, canonPos := varUintIsCanonical(c)
	n := 0
	for _, fd := range c.P.AllFuncDecls() {
		if fd.Decl.Body == nil {
			continue
		}
		rel := pkgRel(fd.Obj.Pkg())
		if rel != "pkg/core/transaction" && rel != "pkg/core/block" && rel != "pkg/network/payload" {
			continue
		}
		f := c.P.NewFuncCFG(fd)
		info := fd.Pkg.TypesInfo
		ast.Inspect(fd.Decl.Body, func(x ast.Node) bool {
			as, ok := x.(*ast.AssignStmt)
			if !ok || len(as.Lhs) != 1 || len(as.Rhs) != 1 {
				return true
			}
			se, ok := ast.Unparen(as.Lhs[0]).(*ast.SelectorExpr)
			if !ok {
				return true
			}
			v, ok := info.ObjectOf(se.Sel).(*types.Var)
			if !ok || !v.IsField() || !owners[symOf(v)] {
				return true
			}
			call, ok := ast.Unparen(as.Rhs[0]).(*ast.CallExpr)
			if !ok || len(call.Args) != 1 {
				return true // copied or reset identity
			}
			cs := f.calleeSym(call)
			if !strings.HasPrefix(cs, "pkg/crypto/hash.") && cs != "builtin.len" && cs != "pkg/io.GetVarSize" {
				return true
			}
			n++
			arg := ast.Unparen(call.Args[0])
			key := fmt.Sprintf("%s.%s", FuncKey(fd.Obj), v.Name())
			// origin of the bytes
			root := rootObj(info, arg)
			fromParam := false
			if pv, ok := root.(*types.Var); ok && f.params[pv] {
				if sl, ok := pv.Type().Underlying().(*types.Slice); ok && sl.Elem().String() == "byte" {
					fromParam = true
				}
			}
			ownEnc := strings.Contains(types.ExprString(arg), ".Bytes()") || cs == "pkg/io.GetVarSize"
			switch {
			case ownEnc && !fromParam:
				c.OK(key, c.P.Pos(as.Pos()), v.Name()+" is computed from the node's own encoding of the value")
			case fromParam && canon:
				c.OK(key, c.P.Pos(as.Pos()), v.Name()+" is computed from received bytes, and the length decoder rejects non-minimal encodings")
			case fromParam:
				c.Fail(key, c.P.Pos(as.Pos()), fmt.Sprintf("%s caches the %s of the RECEIVED bytes (%s) while io.BinReader.ReadVarUint (%s) accepts non-minimal length prefixes: the same content gets another identity than its canonical re-encoding", FuncKey(fd.Obj), v.Name(), types.ExprString(arg), canonPos))
			default:
				c.Unclassified(key, c.P.Pos(as.Pos()), "origin of the hashed bytes not recognised: "+types.ExprString(arg))
			}
			return true
		})
	}
	c.Floor("identity cache computations", n, 5)
}

// ---------------------------------------------------------------------------
// bounded-alloc: allocations sized by decoded data are bounded first

func ruleBoundedAlloc(c *Ctx) {
	// scope: every function of the module that takes a *io.BinReader (binary decoders) plus pkg/io itself
	nmake, nbounded := 0, 0
	var fds []*FuncDecl
	for _, fd := range c.P.AllFuncDecls() {
		if fd.Decl.Body == nil {
			continue
		}
		takes := false
		for _, fl := range fd.Decl.Type.Params.List {
			if strings.HasSuffix(types.ExprString(fl.Type), "io.BinReader") || types.ExprString(fl.Type) == "*BinReader" {
				takes = true
			}
		}
		if fd.Decl.Recv != nil && len(fd.Decl.Recv.List) == 1 && strings.HasSuffix(types.ExprString(fd.Decl.Recv.List[0].Type), "BinReader") {
			takes = true
		}
		if takes {
			fds = append(fds, fd)
		}
	}
	sort.Slice(fds, func(i, j int) bool { return FuncKey(fds[i].Obj) < FuncKey(fds[j].Obj) })
	readers := map[string]bool{"pkg/io.(*BinReader).ReadVarUint": true, "pkg/io.(*BinReader).ReadU32LE": true, "pkg/io.(*BinReader).ReadU16LE": true, "pkg/io.(*BinReader).ReadU64LE": true, "pkg/io.(*BinReader).ReadB": true, "pkg/io.(*BinReader).ReadU16BE": true, "pkg/io.(*BinReader).ReadU32BE": true}
	for _, fd := range fds {
		f := c.P.NewFuncCFG(fd)
		k := 0
		for _, s := range f.CallSites("builtin.make") {
			if len(s.call.Args) < 2 {
				continue
			}
			// is the size derived from a decoded integer?
			sz := s.call.Args[1]
			m := f.Mentions(sz, s.blk)
			decoded := false
			for r := range readers {
				if m[r] {
					decoded = true
				}
			}
			if !decoded {
				continue
			}
			nmake++
			k++
			key := fmt.Sprintf("%s.make#%d", FuncKey(fd.Obj), k)
			// the size variable(s)
			var szVars []string
			ast.Inspect(sz, func(x ast.Node) bool {
				if id, ok := x.(*ast.Ident); ok {
					if v, ok := f.Info.ObjectOf(id).(*types.Var); ok && !v.IsField() && v.Pkg() != nil && v.Parent() != v.Pkg().Scope() {
						szVars = append(szVars, "local:"+v.Name())
						if f.params[v] {
							szVars[len(szVars)-1] = "param:" + v.Name()
						}
					}
				}
				return true
			})
			gated := false
			var why string
			for _, sv := range szVars {
				res := f.CheckGate(f.Entry(), map[*cfgBlock]bool{s.blk: true}, Guard{ID: "bound", Doc: "decoded size compared with a limit", Alts: [][]string{{sv}}, WholeOpen: true}, nil)
				if res.OK {
					// the gating comparison must be an ordering comparison (>, >=, <, <=), not just an error check
					for _, gp := range res.GatePos {
						if strings.ContainsAny(gp, "<>") {
							gated = true
							why = gp
						}
					}
				}
			}
			if !gated {
				// clamp idiom: `if n > Max { n = Max }`
				for _, b := range f.G.Blocks {
					cnd := f.Cond(b)
					if cnd == nil {
						continue
					}
					txt := types.ExprString(cnd)
					if id, ok := ast.Unparen(cnd).(*ast.Ident); ok { // boolean local holding the comparison
						for _, d := range f.defs[f.Info.ObjectOf(id)] {
							for _, rr := range d.rhs {
								txt += " " + types.ExprString(rr)
							}
						}
					}
					if !strings.ContainsAny(txt, "<>") {
						continue
					}
					m := f.Mentions(cnd, b)
					for _, sv := range szVars {
						if !m[sv] {
							continue
						}
						for _, n := range b.Succs[0].Nodes {
							if as, ok := n.(*ast.AssignStmt); ok && len(as.Lhs) == 1 && as.Tok == token.ASSIGN {
								if id, ok := as.Lhs[0].(*ast.Ident); ok && "local:"+id.Name == sv {
									if tv := f.Info.Types[as.Rhs[0]]; tv.Value != nil {
										gated = true
										why = "clamped to " + types.ExprString(as.Rhs[0]) + " at " + f.blockPos(b)
									}
								}
							}
						}
					}
				}
			}
			if gated {
				nbounded++
				c.OK(key, c.P.Pos(s.call.Pos()), "allocation sized by decoded data is bounded first: "+why)
			} else {
				c.Fail(key, c.P.Pos(s.call.Pos()), fmt.Sprintf("%s allocates make(..., %s) with a size read from the input and no ordering comparison of that size gates the allocation: a crafted length prefix allocates without bound", FuncKey(fd.Obj), types.ExprString(sz)))
			}
		}
	}
	c.Floor("decoders taking a BinReader", len(fds), 60)
	c.Floor("allocations sized by decoded integers", nmake, 5)
}

// ---------------------------------------------------------------------------
// codec-symmetry: EncodeBinary and DecodeBinary of one type perform the same sequence of wire primitives

var wirePair = map[string]string{
	"WriteB": "B", "ReadB": "B", "WriteBool": "Bool", "ReadBool": "Bool",
	"WriteU16LE": "U16LE", "ReadU16LE": "U16LE", "WriteU16BE": "U16BE", "ReadU16BE": "U16BE",
	"WriteU32LE": "U32LE", "ReadU32LE": "U32LE", "WriteU32BE": "U32BE", "ReadU32BE": "U32BE",
	"WriteU64LE": "U64LE", "ReadU64LE": "U64LE",
	"WriteVarUint": "VarUint", "ReadVarUint": "VarUint", "WriteVarBytes": "VarBytes", "ReadVarBytes": "VarBytes",
	"WriteBytes": "Bytes", "ReadBytes": "Bytes", "WriteString": "String", "ReadString": "String",
	"WriteArray": "Array", "ReadArray": "Array",
}

// wireOps extracts the primitive operations on the writer/reader parameter in source order; straight reports
// whether the body is straight-line up to `if <x>.Err != nil { return }` checks.
func wireOps(p *Program, fd *FuncDecl, depth int) (ops []string, straight bool) {
	info := fd.Pkg.TypesInfo
	straight = true
	var param types.Object
	for _, fl := range fd.Decl.Type.Params.List {
		for _, nm := range fl.Names {
			ts := types.ExprString(fl.Type)
			if strings.HasSuffix(ts, "BinWriter") || strings.HasSuffix(ts, "BinReader") {
				param = info.Defs[nm]
			}
		}
	}
	if param == nil {
		return nil, false
	}
	var walk func(n ast.Node)
	walk = func(n ast.Node) {
		ast.Inspect(n, func(x ast.Node) bool {
			switch s := x.(type) {
			case *ast.IfStmt:
				// error checks are transparent; everything else makes the shape conditional
				txt := types.ExprString(s.Cond)
				if !(strings.Contains(txt, ".Err != nil") || strings.Contains(txt, ".Err == nil") || strings.Contains(txt, "err != nil")) {
					straight = false
				}
			case *ast.ForStmt, *ast.RangeStmt, *ast.SwitchStmt, *ast.TypeSwitchStmt, *ast.FuncLit:
				straight = false
			case *ast.CallExpr:
				se, ok := s.Fun.(*ast.SelectorExpr)
				if !ok {
					if fid, ok := s.Fun.(*ast.Ident); ok {
						for _, a := range s.Args {
							if id, ok := ast.Unparen(a).(*ast.Ident); ok && info.ObjectOf(id) == param {
								if fo, ok := info.ObjectOf(fid).(*types.Func); ok && depth < 3 && p.DeclOf(fo) != nil && p.DeclOf(fo).Decl.Body != nil && !strings.HasPrefix(fid.Name, "DecodeBinary") && !strings.HasPrefix(fid.Name, "decodeBinary") {
									ho, hs := wireOps(p, p.DeclOf(fo), depth+1)
									ops = append(ops, ho...)
									if !hs {
										straight = false
									}
									continue
								}
								name := fid.Name
								if tv, ok := info.Types[s]; ok && tv.Type != nil {
									t := tv.Type
									if p, ok := t.(*types.Pointer); ok {
										t = p.Elem()
									}
									if nt, ok := t.(*types.Named); ok {
										name = nt.Obj().Name()
									}
								}
								ops = append(ops, "nested:"+name)
							}
						}
					}
					return true
				}
				// primitive on the parameter
				if id, ok := ast.Unparen(se.X).(*ast.Ident); ok && info.ObjectOf(id) == param {
					if k, ok := wirePair[se.Sel.Name]; ok {
						ops = append(ops, k)
					}
					return true
				}
				// nested serializable: X.EncodeBinary(w) / X.DecodeBinary(r), or a helper function given the reader/writer
				passes := false
				for _, a := range s.Args {
					if id, ok := ast.Unparen(a).(*ast.Ident); ok && info.ObjectOf(id) == param {
						passes = true
					}
				}
				if !passes {
					return true
				}
				typeName := func(t types.Type) string {
					if t == nil {
						return "?"
					}
					if p, ok := t.(*types.Pointer); ok {
						t = p.Elem()
					}
					if nt, ok := t.(*types.Named); ok {
						return nt.Obj().Name()
					}
					return t.String()
				}
				if se.Sel.Name == "EncodeBinary" || se.Sel.Name == "DecodeBinary" {
					ops = append(ops, "nested:"+typeName(info.TypeOf(se.X)))
				} else if fo, ok := info.ObjectOf(se.Sel).(*types.Func); ok && depth < 3 && p.DeclOf(fo) != nil && p.DeclOf(fo).Decl.Body != nil {
					// helper of the module: linearise its body in place
					ho, hs := wireOps(p, p.DeclOf(fo), depth+1)
					ops = append(ops, ho...)
					if !hs {
						straight = false
					}
				} else if tv, ok := info.Types[s]; ok && tv.Type != nil {
					if tup, ok := tv.Type.(*types.Tuple); ok {
						if tup.Len() > 0 {
							ops = append(ops, "nested:"+typeName(tup.At(0).Type()))
						} else {
							ops = append(ops, "helper:"+se.Sel.Name)
						}
					} else {
						ops = append(ops, "nested:"+typeName(tv.Type))
					}
				}
			}
			return true
		})
	}
	walk(fd.Decl.Body)
	return ops, straight
}

// conditional/looped codecs whose static primitive counts agree on the pinned tree (confirmed by reading): they are
// the reference — a later disagreement is a changed wire format on one side only.
var codecCountReference = map[string]bool{
	"pkg/consensus.changeView": true, "pkg/consensus.message": true, "pkg/core/block.Block": true, "pkg/core/block.Header": true,
	"pkg/core/state.ContractInvocation": true, "pkg/core/state.TokenTransferInfo": true, "pkg/core/transaction.OracleResponse": true,
	"pkg/core/transaction.Signer": true, "pkg/core/transaction.Transaction": true, "pkg/neorpc/result.ProofWithKey": true,
	"pkg/network/capability.Archival": true, "pkg/network/capability.Capability": true, "pkg/network/capability.DisableCompression": true,
	"pkg/network/payload.AddressList": true, "pkg/network/payload.Extensible": true, "pkg/network/payload.GetBlockByIndex": true,
	"pkg/network/payload.GetBlocks": true, "pkg/network/payload.MPTData": true, "pkg/network/payload.MerkleBlock": true,
	"pkg/services/stateroot.Message": true, "pkg/smartcontract/nef.File": true, "pkg/smartcontract/nef.Header": true,
}

func ruleCodecSymmetry(c *Ctx) {
	type pair struct{ enc, dec *FuncDecl }
	pairs := map[string]*pair{}
	for _, fd := range c.P.AllFuncDecls() {
		if fd.Decl.Recv == nil || fd.Decl.Body == nil {
			continue
		}
		n := fd.Decl.Name.Name
		if n != "EncodeBinary" && n != "DecodeBinary" {
			continue
		}
		rt := fd.Obj.Type().(*types.Signature).Recv().Type()
		if p, ok := rt.(*types.Pointer); ok {
			rt = p.Elem()
		}
		nt, ok := rt.(*types.Named)
		if !ok {
			continue
		}
		k := pkgRel(nt.Obj().Pkg()) + "." + nt.Obj().Name()
		if pairs[k] == nil {
			pairs[k] = &pair{}
		}
		if n == "EncodeBinary" {
			pairs[k].enc = fd
		} else {
			pairs[k].dec = fd
		}
	}
	nboth, nstraight := 0, 0
	for _, k := range sortedKeys(pairs) {
		p := pairs[k]
		if p.enc == nil || p.dec == nil {
			continue
		}
		nboth++
		eo, es := wireOps(c.P, p.enc, 0)
		do, ds := wireOps(c.P, p.dec, 0)
		if !es || !ds {
			// conditional shapes: compare the sets of primitive kinds used (a kind written but never read, or vice versa)
			em, dm := map[string]int{}, map[string]int{}
			for _, o := range eo {
				em[o]++
			}
			for _, o := range do {
				dm[o]++
			}
			var diff []string
			for k2, v := range em {
				if dm[k2] != v {
					diff = append(diff, fmt.Sprintf("%s: %d written / %d read", k2, v, dm[k2]))
				}
			}
			for k2, v := range dm {
				if _, ok := em[k2]; !ok {
					diff = append(diff, fmt.Sprintf("%s: 0 written / %d read", k2, v))
				}
			}
			sort.Strings(diff)
			if len(diff) == 0 {
				c.OK(k+".counts", c.P.Pos(p.enc.Decl.Pos()), fmt.Sprintf("conditional/looped codec: encoder and decoder contain the same wire primitives the same number of times (%d sites)", len(eo)))
			} else if codecCountReference[k] {
				c.Fail(k+".counts", c.P.Pos(p.dec.Decl.Pos()), fmt.Sprintf("%s: encoder and decoder used to contain the same wire primitives; now they differ (%s): one side of the wire format was changed without the other", k, strings.Join(diff, "; ")))
			} else {
				c.Unclassified(k+".counts", c.P.Pos(p.enc.Decl.Pos()), "conditional/looped codec whose static primitive counts differ ("+strings.Join(diff, "; ")+") — shapes not comparable statically")
			}
			continue
		}
		nstraight++
		if strings.Join(eo, ",") == strings.Join(do, ",") {
			c.OK(k+".sequence", c.P.Pos(p.enc.Decl.Pos()), fmt.Sprintf("encoder and decoder perform the same %d wire operations in the same order: %s", len(eo), strings.Join(eo, " ")))
		} else {
			c.Fail(k+".sequence", c.P.Pos(p.dec.Decl.Pos()), fmt.Sprintf("%s: EncodeBinary writes [%s] but DecodeBinary reads [%s]: the value does not survive encode-then-decode", k, strings.Join(eo, " "), strings.Join(do, " ")))
		}
	}
	c.Floor("types with both EncodeBinary and DecodeBinary", nboth, 50)
	c.Floor("straight-line codec pairs compared token by token", nstraight, 15)
}
