package main

import (
	"fmt"
	"go/ast"
	"go/token"
	"go/types"
	"sort"
	"strings"

	"golang.org/x/tools/go/cfg"
	"golang.org/x/tools/go/ssa"
)

const cnsPkg = "pkg/consensus"

func ruleProposalDominators(c *Ctx) {
	ruleRecoveryRebuild(c)
	fnVB := [3]string{cnsPkg, "service", "verifyBlock"}
	fnVR := [3]string{cnsPkg, "service", "verifyRequest"}
	// backups accept what an honest primary builds: limits are inclusive on the verifying side
	limitBoundary(c, "verifyRequest.tx-count-boundary", fnVR, "pkg/config#MaxTransactionsPerBlock", "a transaction count", 1)
	limitBoundary(c, "verifyBlock.size-boundary", fnVB, "pkg/config#MaxBlockSize", "a block size", 1)
	limitBoundary(c, "verifyBlock.sysfee-boundary", fnVB, "pkg/config#MaxBlockSystemFee", "a system fee sum", 1)
	runGates(c, []GateSpec{
		{ID: "verifyBlock.accept", Fn: fnVB, Target: "return-true",
			Guards: []Guard{
				{ID: "height", Doc: "a proposal for a height the ledger already has is rejected", Alts: [][]string{{"pkg/core/interop.(Ledger).BlockHeight", fldBlockIndex}}},
				{ID: "timestamp", Doc: "proposal timestamp is above the last processed block's", Alts: [][]string{{"pkg/consensus#lastTimestamp", "pkg/core/block#Timestamp"}}},
				{ID: "max-size", Doc: "proposed block size is within MaxBlockSize", Alts: [][]string{{"pkg/core/block.(*Block).GetExpectedBlockSize", "pkg/config#MaxBlockSize"}}},
				{ID: "max-system-fee", Doc: "sum of system fees is within MaxBlockSystemFee", Alts: [][]string{{"pkg/config#MaxBlockSystemFee", "pkg/core/transaction#SystemFee"}}},
			}},
		{ID: "verifyBlock.tx-loop", Fn: fnVB, LoopOver: fldBlockTxs, Target: "loop-next",
			Guards:   []Guard{{ID: "tx-verified", Doc: "every proposed transaction is pooled into the scratch pool (already verified) or fully verified, and a failure rejects the proposal", Alts: [][]string{{symPoolAdd}, {"pkg/consensus.(Ledger).PoolTx"}}}},
			MustCall: [][]string{{symPoolAdd, "pkg/consensus.(Ledger).PoolTx"}}},
		{ID: "verifyRequest.accept", Fn: fnVR, Target: "ok-return",
			Guards: []Guard{
				{ID: "prev-hash", Doc: "request extends the block dBFT is working on", Alts: [][]string{{"pkg/consensus#prevHash", "github.com/nspcc-dev/dbft#PrevHash"}}},
				{ID: "version", Doc: "block version is the supported one", Alts: [][]string{{"pkg/consensus#version", "pkg/core/block.VersionInitial"}}},
				{ID: "tx-count", Doc: "transaction count is within MaxTransactionsPerBlock", Alts: [][]string{{"pkg/config#MaxTransactionsPerBlock", "pkg/consensus.(*prepareRequest).TransactionHashes"}}},
			}},
		{ID: "verifyRequest.accept.state-root", Fn: fnVR, Target: "ok-return", Assume: symAssume(cfgSRInHeader, true),
			Guards: []Guard{{ID: "state-root", Doc: "the request's state root equals the local root of the previous height", Alts: [][]string{{"pkg/consensus#stateRoot", "pkg/core/state#Root"}}}}},
		{ID: "getBlockWitness.collect", Fn: [3]string{cnsPkg, "service", "getBlockWitness"}, Target: "node:local<-builtin.make,local<-github.com/nspcc-dev/dbft#CommitPayloads",
			Guards: []Guard{{ID: "current-view", Doc: "only commits of the current view sign the block (a commit kept from an earlier view signed a different header)", Alts: [][]string{{"github.com/nspcc-dev/dbft.(ConsensusMessage).ViewNumber", "github.com/nspcc-dev/dbft#ViewNumber"}}}}},
		{ID: "ApplyPolicyToTxSet.truncate", Fn: [3]string{"pkg/core", "Blockchain", "ApplyPolicyToTxSet"}, LoopOver: "param#0", Target: "node:param#0,local<-param#0",
			Guards: []Guard{{ID: "limits", Doc: "the set is cut where block size or system fee would exceed the limit", Whole: true,
				Alts: [][]string{{"pkg/config#MaxBlockSize", "pkg/config#MaxBlockSystemFee"}}, Extra: []string{"pkg/core#config", symTxSize, "pkg/core/transaction#SystemFee", "pkg/config#MaxTransactionsPerBlock"}}},
			MustNode: [][]string{{"op:+=", symTxSize}, {"op:+=", "pkg/core/transaction#SystemFee"}}},
	})
	// the proposal source: whatever set of pooled transactions getVerifiedTx hands to dBFT went through
	// ApplyPolicyToTxSet, unless it is empty (every path from a pool read to the return, the empty-set edge of
	// `len(set) > 0` excepted, passes the policy call)
	if fd := c.P.Func(cnsPkg, "service", "getVerifiedTx"); fd != nil {
		f := c.P.NewFuncCFG(fd)
		const symPolicy = "pkg/consensus.(Ledger).ApplyPolicyToTxSet"
		// leak: a return reachable from `from` without passing a policy site, the empty-set edge of `len(x) > 0` excepted;
		// a call of a module helper that itself has no leak from its entry counts as a policy site (depth 1)
		var leakIn func(g *FuncCFG, from []*cfg.Block, depth int) *cfg.Block
		leakIn = func(g *FuncCFG, from []*cfg.Block, depth int) *cfg.Block {
			pol := blocksOf(g.CallSites(symPolicy))
			if depth == 0 {
				for _, b := range g.G.Blocks {
					if !b.Live {
						continue
					}
					for _, n := range b.Nodes {
						inspectNoLit(n, func(x ast.Node) bool {
							if call, ok := x.(*ast.CallExpr); ok {
								if hd := staticCalleeDecl(c.P, g.Info, call); hd != nil && hd.Decl.Body != nil && hd.Obj != fd.Obj {
									h := c.P.NewFuncCFG(hd)
									if len(h.CallSites(symPolicy)) > 0 && leakIn(h, h.Entry(), 1) == nil {
										pol[b] = true
									}
								}
							}
							return true
						})
					}
				}
			}
			emptyEdge := func(b *cfg.Block) int { // index of the successor taken when the tested set is empty, -1 if b is no emptiness test
				if g.Cond(b) == nil {
					return -1
				}
				be, ok := ast.Unparen(g.Cond(b)).(*ast.BinaryExpr)
				if !ok || !isZeroConst(g.Info, be.Y) {
					return -1
				}
				call, ok := ast.Unparen(be.X).(*ast.CallExpr)
				if !ok || g.calleeSym(call) != "builtin.len" {
					return -1
				}
				switch be.Op {
				case token.GTR, token.NEQ:
					return 1
				case token.EQL:
					return 0
				}
				return -1
			}
			rets := blocksOf(g.Returns())
			start := map[*cfg.Block]bool{}
			seen := map[*cfg.Block]bool{}
			var stack []*cfg.Block
			for _, b := range from {
				start[b], seen[b] = true, true
				stack = append(stack, b)
			}
			for len(stack) > 0 {
				b := stack[len(stack)-1]
				stack = stack[:len(stack)-1]
				if pol[b] && (!start[b] || depth > 0) {
					continue
				}
				if rets[b] {
					return b
				}
				skip := emptyEdge(b)
				for j, nx := range b.Succs {
					if j == skip || seen[nx] {
						continue
					}
					seen[nx] = true
					stack = append(stack, nx)
				}
			}
			return nil
		}
		srcs := f.CallSites("pkg/core/mempool.(*Pool).GetVerifiedTransactions", "pkg/core/mempool.(*Pool).TryGetValue")
		for i, s := range srcs {
			key := fmt.Sprintf("getVerifiedTx.policy#%d", i+1)
			leak := leakIn(f, []*cfg.Block{s.blk}, 0)
			if leak == nil {
				c.OK(key, c.P.Pos(s.call.Pos()), "transactions taken from the pool reach dBFT only through ApplyPolicyToTxSet (or as an empty set)")
			} else {
				c.Fail(key, c.P.Pos(s.call.Pos()), fmt.Sprintf("%s: transactions read from the pool here reach the return at %s without passing ApplyPolicyToTxSet: the proposal may exceed the block limits (size, system fee, count) or contain conflicting transactions, so the other validators reject it", FuncKey(fd.Obj), f.blockPos(leak)))
			}
		}
		c.Floor("pool reads in getVerifiedTx", len(srcs), 3)
	} else {
		c.Lost("getVerifiedTx.anchor", "getVerifiedTx not found")
	}
	// the witness is assembled walking validators by index, never by ranging over the signature map
	if fd := c.P.Func(cnsPkg, "service", "getBlockWitness"); fd != nil {
		bad := false
		ast.Inspect(fd.Decl.Body, func(n ast.Node) bool {
			if rs, ok := n.(*ast.RangeStmt); ok {
				if _, isMap := fd.Pkg.TypesInfo.TypeOf(rs.X).Underlying().(*types.Map); isMap {
					bad = true
					c.Fail("getBlockWitness.ordered", c.P.Pos(rs.Pos()), "the block witness is assembled by ranging over a map: signature order would be random, the multisignature check needs validator order")
				}
			}
			return true
		})
		if !bad {
			c.OK("getBlockWitness.ordered", c.P.Pos(fd.Decl.Pos()), "signatures are emitted walking the validator list by index")
		}
		witnessExactlyM(c, fd)
	} else {
		c.Lost("getBlockWitness.anchor", "getBlockWitness not found")
	}
}

// loop-confinement: dBFT and the loop-owned fields are touched only from the event loop (and Start before it)
func ruleLoopConfinement(c *Ctx) {
	pk := c.P.Pkg(cnsPkg)
	if pk == nil {
		c.Lost("anchor", "package consensus not found")
		return
	}
	confined := map[string]bool{"lastTimestamp": true, "lastProposal": true, "dbft": true}
	g := c.P.MRG()
	// entry points that run on other goroutines: every exported method of service except Start
	var roots []*ssa.Function
	var names []string
	for _, fd := range c.P.AllFuncDecls() {
		if fd.Pkg != pk || fd.Decl.Recv == nil || !fd.Decl.Name.IsExported() || fd.Decl.Body == nil {
			continue
		}
		if !namedTypeIs(fd.Obj.Type().(*types.Signature).Recv().Type(), cnsPkg, "service") || fd.Decl.Name.Name == "Start" {
			continue
		}
		if fn := c.P.SSAFunc(fd.Obj); fn != nil {
			roots = append(roots, fn)
			names = append(names, fd.Decl.Name.Name)
		}
	}
	c.Floor("foreign-goroutine entry points of the consensus service", len(roots), 4)
	loop := c.P.Func(cnsPkg, "service", "eventLoop")
	if loop == nil {
		c.Lost("eventLoop.anchor", "eventLoop not found")
		return
	}
	loopFn := c.P.SSAFunc(loop.Obj)
	via := g.Reach(roots, func(e *MEdge) bool {
		if e.Kind == "ref" {
			return true
		}
		cf := e.Callee.Fn
		for cf.Parent() != nil {
			cf = cf.Parent()
		}
		// the loop itself is started by Start on its own goroutine; stay inside the package
		return cf == loopFn || cf.Pkg == nil || pkgRel(cf.Pkg.Pkg) != cnsPkg
	})
	nacc := 0
	var fns []*ssa.Function
	for fn := range via {
		fns = append(fns, fn)
	}
	sort.Slice(fns, func(i, j int) bool { return FnKey(fns[i]) < FnKey(fns[j]) })
	for _, fn := range fns {
		for _, b := range fn.Blocks {
			for _, ins := range b.Instrs {
				fa, ok := ins.(*ssa.FieldAddr)
				if !ok {
					continue
				}
				t := fa.X.Type()
				if p, ok := t.Underlying().(*types.Pointer); ok {
					t = p.Elem()
				}
				if !namedTypeIs(t, cnsPkg, "service") {
					continue
				}
				name := fieldName(fa)
				nacc++
				if confined[name] && !onlyNilCompared(fa) {
					c.Fail("foreign-access."+FnKey(fn)+"."+name, c.P.Pos(fa.Pos()), fmt.Sprintf("%s touches service.%s and is reachable from %v, which other goroutines call: dBFT state and the loop-owned fields must only be used from the event loop", FnKey(fn), name, names), g.PathTo(via, fn)...)
				}
			}
		}
	}
	c.OK("foreign-entry-closure", c.P.Pos(loop.Decl.Pos()), fmt.Sprintf("%d functions reachable from %s (event loop excluded) make %d accesses to service fields, none to dbft/lastTimestamp/lastProposal", len(fns), strings.Join(names, "/"), nacc))
	// and the loop does use them (the rule still sees the code it is about)
	lv := g.Reach([]*ssa.Function{loopFn}, func(e *MEdge) bool { return e.Kind == "ref" })
	uses := 0
	for fn := range lv {
		for _, b := range fn.Blocks {
			for _, ins := range b.Instrs {
				if fa, ok := ins.(*ssa.FieldAddr); ok && confined[fieldName(fa)] {
					t := fa.X.Type()
					if p, ok := t.Underlying().(*types.Pointer); ok {
						t = p.Elem()
					}
					if namedTypeIs(t, cnsPkg, "service") {
						uses++
					}
				}
			}
		}
	}
	c.Floor("uses of loop-owned state inside the event loop closure", uses, 5)
}

// onlyNilCompared: the field is merely loaded and compared with nil (is the service configured at all?).
func onlyNilCompared(fa *ssa.FieldAddr) bool {
	refs := fa.Referrers()
	if refs == nil || len(*refs) == 0 {
		return false
	}
	for _, r := range *refs {
		ld, ok := r.(*ssa.UnOp)
		if !ok {
			return false
		}
		lr := ld.Referrers()
		if lr == nil {
			return false
		}
		for _, u := range *lr {
			bo, ok := u.(*ssa.BinOp)
			if !ok {
				if _, isDbg := u.(*ssa.DebugRef); isDbg {
					continue
				}
				return false
			}
			isNil := func(v ssa.Value) bool { c, ok := v.(*ssa.Const); return ok && c.IsNil() }
			if !isNil(bo.X) && !isNil(bo.Y) {
				return false
			}
		}
	}
	return true
}

// ruleRecoveryRebuild: payloads reconstructed from a recovery message (PrepareRequest, PrepareResponse, Commit,
// ChangeView of other validators) stand for messages of the recovery message's own height and view; the message
// literal that rebuilds them must take BlockIndex and ViewNumber from the recovery payload it is given. A rebuilt
// payload without its view is filed under view 0 and can never complete (or blocks) a later view.
func ruleRecoveryRebuild(c *Ctx) {
	pk := c.P.Pkg(cnsPkg)
	if pk == nil {
		return
	}
	n := 0
	for _, fd := range c.P.AllFuncDecls() {
		if fd.Pkg != pk || fd.Decl.Body == nil || fd.Decl.Type.Params == nil {
			continue
		}
		// functions taking a *Payload and building another Payload with a message literal
		var src types.Object
		for _, fl := range fd.Decl.Type.Params.List {
			if namedTypeIs(pk.TypesInfo.TypeOf(fl.Type), cnsPkg, "Payload") {
				for _, nm := range fl.Names {
					src = pk.TypesInfo.Defs[nm]
				}
			}
		}
		if src == nil || fd.Decl.Recv != nil {
			continue
		}
		f := c.P.NewFuncCFG(fd)
		ast.Inspect(fd.Decl.Body, func(x ast.Node) bool {
			cl, ok := x.(*ast.CompositeLit)
			if !ok || !namedTypeIs(pk.TypesInfo.TypeOf(cl), cnsPkg, "message") {
				return true
			}
			n++
			fromSrc := map[string]bool{}
			for _, el := range cl.Elts {
				kv, ok := el.(*ast.KeyValueExpr)
				if !ok {
					continue
				}
				id, ok := kv.Key.(*ast.Ident)
				if !ok {
					continue
				}
				usesSrc := false
				ast.Inspect(kv.Value, func(y ast.Node) bool {
					if u, ok := y.(*ast.Ident); ok && pk.TypesInfo.ObjectOf(u) == src {
						usesSrc = true
					}
					return true
				})
				if usesSrc && f.DirectMentions(kv.Value)[cnsPkg+"#"+id.Name] {
					fromSrc[id.Name] = true
				}
			}
			key := FuncKey(fd.Obj) + ".rebuilt-message"
			var missing []string
			for _, need := range []string{"BlockIndex", "ViewNumber"} {
				if !fromSrc[need] {
					missing = append(missing, need)
				}
			}
			if len(missing) == 0 {
				c.OK(key, c.P.Pos(cl.Pos()), "the rebuilt message takes BlockIndex and ViewNumber from the recovery payload")
			} else {
				c.Fail(key, c.P.Pos(cl.Pos()), fmt.Sprintf("%s rebuilds a consensus message from a recovery payload without taking %s from it: recovered messages of any later view are filed under the zero value and the height cannot finish once validators depend on recovery", FuncKey(fd.Obj), strings.Join(missing, ", ")))
			}
			return true
		})
	}
	c.Floor("messages rebuilt from a recovery payload", n, 1)
}

// witnessExactlyM: the invocation script of the block witness carries as many signatures as the threshold the
// verification script of the same function is built with. A late backup can hold more than M commits of the view
// (they arrived before the proposal); CHECKMULTISIG over an M-of-N script with M+1 signatures fails, so the block
// every validator committed would be rejected by every ledger. The loop that emits signatures must therefore be
// bounded by a counter that is advanced with every emitted signature and compared with the threshold variable.
func witnessExactlyM(c *Ctx, fd *FuncDecl) {
	info := fd.Pkg.TypesInfo
	f := c.P.NewFuncCFG(fd)
	var thr types.Object
	var thrStr string
	for _, s := range f.CallSites("pkg/smartcontract.CreateMultiSigRedeemScript") {
		if len(s.call.Args) > 0 {
			if id, ok := ast.Unparen(s.call.Args[0]).(*ast.Ident); ok {
				thr = info.ObjectOf(id)
			}
			thrStr = types.ExprString(s.call.Args[0])
		}
	}
	if thrStr == "" {
		c.Lost("getBlockWitness.exactly-m.anchor", "the verification script is not built by CreateMultiSigRedeemScript(m, ...) any more")
		return
	}
	mentionsThr := func(e ast.Expr) bool {
		found := false
		ast.Inspect(e, func(n ast.Node) bool {
			if id, ok := n.(*ast.Ident); ok && thr != nil && info.ObjectOf(id) == thr {
				found = true
			}
			if x, ok := n.(ast.Expr); ok && thr == nil && types.ExprString(x) == thrStr {
				found = true
			}
			return true
		})
		return found
	}
	nEmit := 0
	var loops []ast.Node
	var blocks []*ast.BlockStmt
	// walk with explicit stacks
	var walk func(n ast.Node)
	walk = func(n ast.Node) {
		switch x := n.(type) {
		case *ast.ForStmt, *ast.RangeStmt:
			loops = append(loops, x)
			defer func() { loops = loops[:len(loops)-1] }()
		case *ast.BlockStmt:
			blocks = append(blocks, x)
			defer func() { blocks = blocks[:len(blocks)-1] }()
		case *ast.FuncLit:
			return
		case *ast.CallExpr:
			if f.calleeSym(x) == "pkg/vm/emit.Bytes" {
				nEmit++
				key := fmt.Sprintf("getBlockWitness.exactly-m#%d", nEmit)
				if len(loops) == 0 {
					c.OK(key, c.P.Pos(x.Pos()), "signature emitted outside a loop")
					break
				}
				loop := loops[len(loops)-1]
				blk := blocks[len(blocks)-1]
				// counters advanced in the block of the emit
				counters := map[types.Object]bool{}
				for _, st := range blk.List {
					switch y := st.(type) {
					case *ast.IncDecStmt:
						if id, ok := ast.Unparen(y.X).(*ast.Ident); ok && y.Tok == token.INC {
							counters[info.ObjectOf(id)] = true
						}
					case *ast.AssignStmt:
						if len(y.Lhs) == 1 && (y.Tok == token.ADD_ASSIGN || y.Tok == token.ASSIGN) {
							if id, ok := ast.Unparen(y.Lhs[0]).(*ast.Ident); ok {
								counters[info.ObjectOf(id)] = true
							}
						}
					}
				}
				// bounding comparisons of the loop: its condition and the conditions of break/return statements in its body
				var conds []ast.Expr
				switch l := loop.(type) {
				case *ast.ForStmt:
					if l.Cond != nil {
						conds = append(conds, l.Cond)
					}
					ast.Inspect(l.Body, func(y ast.Node) bool {
						if is, ok := y.(*ast.IfStmt); ok && leavesLoop(is.Body) {
							conds = append(conds, is.Cond)
						}
						return true
					})
				case *ast.RangeStmt:
					ast.Inspect(l.Body, func(y ast.Node) bool {
						if is, ok := y.(*ast.IfStmt); ok && leavesLoop(is.Body) {
							conds = append(conds, is.Cond)
						}
						return true
					})
				}
				bounded := false
				for _, cnd := range conds {
					ast.Inspect(cnd, func(y ast.Node) bool {
						be, ok := y.(*ast.BinaryExpr)
						if !ok {
							return true
						}
						switch be.Op {
						case token.LSS, token.LEQ, token.GTR, token.GEQ, token.EQL, token.NEQ:
						default:
							return true
						}
						for _, pair := range [][2]ast.Expr{{be.X, be.Y}, {be.Y, be.X}} {
							if id, ok := ast.Unparen(pair[0]).(*ast.Ident); ok && counters[info.ObjectOf(id)] && mentionsThr(pair[1]) {
								bounded = true
							}
						}
						return true
					})
				}
				if bounded {
					c.OK(key, c.P.Pos(x.Pos()), "the emitting loop is bounded by a counter advanced with every signature and compared with the threshold of the verification script")
				} else {
					c.Fail(key, c.P.Pos(x.Pos()), "getBlockWitness emits a signature for every commit it holds: the loop is not bounded by a counter compared with the threshold "+thrStr+" of the verification script it builds; with more than M commits of the view (a backup that received them before the proposal) the M-of-N CHECKMULTISIG fails and the committed block is rejected by every ledger")
				}
			}
		}
		for _, ch := range childNodes(n) {
			walk(ch)
		}
	}
	walk(fd.Decl.Body)
	c.Floor("signature emission sites in getBlockWitness", nEmit, 1)
}

func leavesLoop(b *ast.BlockStmt) bool {
	for _, s := range b.List {
		switch x := s.(type) {
		case *ast.BranchStmt:
			if x.Tok == token.BREAK {
				return true
			}
		case *ast.ReturnStmt:
			return true
		}
	}
	return false
}

// childNodes lists the direct children of n.
func childNodes(n ast.Node) []ast.Node {
	var out []ast.Node
	first := true
	ast.Inspect(n, func(x ast.Node) bool {
		if first {
			first = false
			return true
		}
		if x != nil {
			out = append(out, x)
		}
		return false
	})
	return out
}

// threshold-family (C19, C06): two multisignature thresholds exist - the BFT one, n-(n-1)/3, for validator sets
// (block witnesses, NextConsensus; dBFT's M() and smartcontract.CreateDefaultMultiSigRedeemScript) and the majority
// one, n-(n-1)/2, for the committee. They coincide for n = 1, 2, 4 - every configuration the tests use - and differ
// from n = 7 on. A script over a *validator* list built with the majority builder gives a NextConsensus address that
// the witness of the next block (BFT threshold) does not hash to: the block is accepted, its successor never is.
// Every call of the majority builder in the module is enumerated; its argument must not derive from one of the
// validator-list sources (tabled by resolved symbol).
var validatorListSources = []string{"ComputeNextBlockValidators", "GetNextBlockValidators", "GetNextBlockValidatorsInternal", "GetValidators"}

func ruleThresholdFamily(c *Ctx) {
	nMaj, nDef := 0, 0
	for _, fd := range c.P.AllFuncDecls() {
		if fd.Decl.Body == nil || !strings.HasPrefix(pkgRel(fd.Pkg.Types), "pkg/") {
			continue
		}
		f := c.P.NewFuncCFG(fd)
		if f == nil {
			continue
		}
		nDef += len(f.CallSites("pkg/smartcontract.CreateDefaultMultiSigRedeemScript"))
		for _, s := range f.CallSites("pkg/smartcontract.CreateMajorityMultiSigRedeemScript") {
			if FuncKey(fd.Obj) == "pkg/smartcontract.CreateMajorityMultiSigRedeemScript" || len(s.call.Args) == 0 {
				continue
			}
			nMaj++
			key := "threshold-family." + FuncKey(fd.Obj)
			bad := ""
			for m := range f.Mentions(s.call.Args[0], s.blk) {
				for _, src := range validatorListSources {
					if strings.HasSuffix(m, ")."+src) || strings.HasSuffix(m, "."+src) {
						bad = m
					}
				}
			}
			if bad != "" {
				c.Fail(key, c.P.Pos(s.call.Pos()), fmt.Sprintf("%s builds a majority-threshold (n-(n-1)/2) script over a validator list (%s): block witnesses and NextConsensus use the BFT threshold n-(n-1)/3, the two differ from 7 validators on", FuncKey(fd.Obj), shortSym(bad)))
			} else {
				c.OK(key, c.P.Pos(s.call.Pos()), "majority-threshold script is not built over a validator list")
			}
		}
	}
	c.Floor("majority-threshold script sites", nMaj, 2)
	c.Floor("BFT-threshold script sites", nDef, 6)
}
