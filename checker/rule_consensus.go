package main

import (
	"fmt"
	"go/ast"
	"go/token"
	"go/types"
	"sort"
	"strings"

	"golang.org/x/tools/go/cfg"
	"golang.org/x/tools/go/ssa"
)

const cnsPkg = "pkg/consensus"

func ruleProposalDominators(c *Ctx) {
	ruleRecoveryRebuild(c)
	fnVB := [3]string{cnsPkg, "service", "verifyBlock"}
	fnVR := [3]string{cnsPkg, "service", "verifyRequest"}
	// backups accept what an honest primary builds: limits are inclusive on the verifying side
	limitBoundary(c, "verifyRequest.tx-count-boundary", fnVR, "pkg/config#MaxTransactionsPerBlock", "a transaction count", 1)
	limitBoundary(c, "verifyBlock.size-boundary", fnVB, "pkg/config#MaxBlockSize", "a block size", 1)
	limitBoundary(c, "verifyBlock.sysfee-boundary", fnVB, "pkg/config#MaxBlockSystemFee", "a system fee sum", 1)
	runGates(c, []GateSpec{
		{ID: "verifyBlock.accept", Fn: fnVB, Target: "return-true",
			Guards: []Guard{
				{ID: "height", Doc: "a proposal for a height the ledger already has is rejected", Alts: [][]string{{"pkg/core/interop.(Ledger).BlockHeight", fldBlockIndex}}},
				{ID: "timestamp", Doc: "proposal timestamp is above the last processed block's", Alts: [][]string{{"pkg/consensus#lastTimestamp", "pkg/core/block#Timestamp"}}},
				{ID: "max-size", Doc: "proposed block size is within MaxBlockSize", Alts: [][]string{{"pkg/core/block.(*Block).GetExpectedBlockSize", "pkg/config#MaxBlockSize"}}},
				{ID: "max-system-fee", Doc: "sum of system fees is within MaxBlockSystemFee", Alts: [][]string{{"pkg/config#MaxBlockSystemFee", "pkg/core/transaction#SystemFee"}}},
			}},
		{ID: "verifyBlock.tx-loop", Fn: fnVB, LoopOver: fldBlockTxs, Target: "loop-next",
			Guards:   []Guard{{ID: "tx-verified", Doc: "every proposed transaction is pooled into the scratch pool (already verified) or fully verified, and a failure rejects the proposal", Alts: [][]string{{symPoolAdd}, {"pkg/consensus.(Ledger).PoolTx"}}}},
			MustCall: [][]string{{symPoolAdd, "pkg/consensus.(Ledger).PoolTx"}}},
		{ID: "verifyRequest.accept", Fn: fnVR, Target: "ok-return",
			Guards: []Guard{
				{ID: "prev-hash", Doc: "request extends the block dBFT is working on", Alts: [][]string{{"pkg/consensus#prevHash", "github.com/nspcc-dev/dbft#PrevHash"}}},
				{ID: "version", Doc: "block version is the supported one", Alts: [][]string{{"pkg/consensus#version", "pkg/core/block.VersionInitial"}}},
				{ID: "tx-count", Doc: "transaction count is within MaxTransactionsPerBlock", Alts: [][]string{{"pkg/config#MaxTransactionsPerBlock", "pkg/consensus.(*prepareRequest).TransactionHashes"}}},
			}},
		{ID: "verifyRequest.accept.state-root", Fn: fnVR, Target: "ok-return", Assume: symAssume(cfgSRInHeader, true),
			Guards: []Guard{{ID: "state-root", Doc: "the request's state root equals the local root of the previous height", Alts: [][]string{{"pkg/consensus#stateRoot", "pkg/core/state#Root"}}}}},
		{ID: "getBlockWitness.collect", Fn: [3]string{cnsPkg, "service", "getBlockWitness"}, Target: "node:local<-builtin.make,local<-github.com/nspcc-dev/dbft#CommitPayloads",
			Guards: []Guard{{ID: "current-view", Doc: "only commits of the current view sign the block (a commit kept from an earlier view signed a different header)", Alts: [][]string{{"github.com/nspcc-dev/dbft.(ConsensusMessage).ViewNumber", "github.com/nspcc-dev/dbft#ViewNumber"}}}}},
		{ID: "ApplyPolicyToTxSet.truncate", Fn: [3]string{"pkg/core", "Blockchain", "ApplyPolicyToTxSet"}, LoopOver: "param#0", Target: "node:param#0,local<-param#0",
			Guards: []Guard{{ID: "limits", Doc: "the set is cut where block size or system fee would exceed the limit", Whole: true,
				Alts: [][]string{{"pkg/config#MaxBlockSize", "pkg/config#MaxBlockSystemFee"}}, Extra: []string{"pkg/core#config", symTxSize, "pkg/core/transaction#SystemFee", "pkg/config#MaxTransactionsPerBlock"}}},
			MustNode: [][]string{{"op:+=", symTxSize}, {"op:+=", "pkg/core/transaction#SystemFee"}}},
	})
	// the proposal source: whatever set of pooled transactions getVerifiedTx hands to dBFT went through
	// ApplyPolicyToTxSet, unless it is empty (every path from a pool read to the return, the empty-set edge of
	// `len(set) > 0` excepted, passes the policy call)
	if fd := c.P.Func(cnsPkg, "service", "getVerifiedTx"); fd != nil {
		f := c.P.NewFuncCFG(fd)
		const symPolicy = "pkg/consensus.(Ledger).ApplyPolicyToTxSet"
		// leak: a return reachable from `from` without passing a policy site, the empty-set edge of `len(x) > 0` excepted;
		// a call of a module helper that itself has no leak from its entry counts as a policy site (depth 1)
		var leakIn func(g *FuncCFG, from []*cfg.Block, depth int) *cfg.Block
		leakIn = func(g *FuncCFG, from []*cfg.Block, depth int) *cfg.Block {
			pol := blocksOf(g.CallSites(symPolicy))
			if depth == 0 {
				for _, b := range g.G.Blocks {
					if !b.Live {
						continue
					}
					for _, n := range b.Nodes {
						inspectNoLit(n, func(x ast.Node) bool {
							if call, ok := x.(*ast.CallExpr); ok {
								if hd := staticCalleeDecl(c.P, g.Info, call); hd != nil && hd.Decl.Body != nil && hd.Obj != fd.Obj {
									h := c.P.NewFuncCFG(hd)
									if len(h.CallSites(symPolicy)) > 0 && leakIn(h, h.Entry(), 1) == nil {
										pol[b] = true
									}
								}
							}
							return true
						})
					}
				}
			}
			emptyEdge := func(b *cfg.Block) int { // index of the successor taken when the tested set is empty, -1 if b is no emptiness test
				if g.Cond(b) == nil {
					return -1
				}
				be, ok := ast.Unparen(g.Cond(b)).(*ast.BinaryExpr)
				if !ok || !isZeroConst(g.Info, be.Y) {
					return -1
				}
				call, ok := ast.Unparen(be.X).(*ast.CallExpr)
				if !ok || g.calleeSym(call) != "builtin.len" {
					return -1
				}
				switch be.Op {
				case token.GTR, token.NEQ:
					return 1
				case token.EQL:
					return 0
				}
				return -1
			}
			rets := blocksOf(g.Returns())
			start := map[*cfg.Block]bool{}
			seen := map[*cfg.Block]bool{}
			var stack []*cfg.Block
			for _, b := range from {
				start[b], seen[b] = true, true
				stack = append(stack, b)
			}
			for len(stack) > 0 {
				b := stack[len(stack)-1]
				stack = stack[:len(stack)-1]
				if pol[b] && (!start[b] || depth > 0) {
					continue
				}
				if rets[b] {
					return b
				}
				skip := emptyEdge(b)
				for j, nx := range b.Succs {
					if j == skip || seen[nx] {
						continue
					}
					seen[nx] = true
					stack = append(stack, nx)
				}
			}
			return nil
		}
		srcs := f.CallSites("pkg/core/mempool.(*Pool).GetVerifiedTransactions", "pkg/core/mempool.(*Pool).TryGetValue")
		for i, s := range srcs {
			key := fmt.Sprintf("getVerifiedTx.policy#%d", i+1)
			leak := leakIn(f, []*cfg.Block{s.blk}, 0)
			if leak == nil {
				c.OK(key, c.P.Pos(s.call.Pos()), "transactions taken from the pool reach dBFT only through ApplyPolicyToTxSet (or as an empty set)")
			} else {
				c.Fail(key, c.P.Pos(s.call.Pos()), fmt.Sprintf("%s: transactions read from the pool here reach the return at %s without passing ApplyPolicyToTxSet: the proposal may exceed the block limits (size, system fee, count) or contain conflicting transactions, so the other validators reject it", FuncKey(fd.Obj), f.blockPos(leak)))
			}
		}
		c.Floor("pool reads in getVerifiedTx", len(srcs), 3)
	} else {
		c.Lost("getVerifiedTx.anchor", "getVerifiedTx not found")
	}
	// the witness is assembled walking validators by index, never by ranging over the signature map
	if fd := c.P.Func(cnsPkg, "service", "getBlockWitness"); fd != nil {
		bad := false
		ast.Inspect(fd.Decl.Body, func(n ast.Node) bool {
			if rs, ok := n.(*ast.RangeStmt); ok {
				if _, isMap := fd.Pkg.TypesInfo.TypeOf(rs.X).Underlying().(*types.Map); isMap {
					bad = true
					c.Fail("getBlockWitness.ordered", c.P.Pos(rs.Pos()), "the block witness is assembled by ranging over a map: signature order would be random, the multisignature check needs validator order")
				}
			}
			return true
		})
		if !bad {
			c.OK("getBlockWitness.ordered", c.P.Pos(fd.Decl.Pos()), "signatures are emitted walking the validator list by index")
		}
	} else {
		c.Lost("getBlockWitness.anchor", "getBlockWitness not found")
	}
}

// loop-confinement: dBFT and the loop-owned fields are touched only from the event loop (and Start before it)
func ruleLoopConfinement(c *Ctx) {
	pk := c.P.Pkg(cnsPkg)
	if pk == nil {
		c.Lost("anchor", "package consensus not found")
		return
	}
	confined := map[string]bool{"lastTimestamp": true, "lastProposal": true, "dbft": true}
	g := c.P.MRG()
	// entry points that run on other goroutines: every exported method of service except Start
	var roots []*ssa.Function
	var names []string
	for _, fd := range c.P.AllFuncDecls() {
		if fd.Pkg != pk || fd.Decl.Recv == nil || !fd.Decl.Name.IsExported() || fd.Decl.Body == nil {
			continue
		}
		if !namedTypeIs(fd.Obj.Type().(*types.Signature).Recv().Type(), cnsPkg, "service") || fd.Decl.Name.Name == "Start" {
			continue
		}
		if fn := c.P.SSAFunc(fd.Obj); fn != nil {
			roots = append(roots, fn)
			names = append(names, fd.Decl.Name.Name)
		}
	}
	c.Floor("foreign-goroutine entry points of the consensus service", len(roots), 4)
	loop := c.P.Func(cnsPkg, "service", "eventLoop")
	if loop == nil {
		c.Lost("eventLoop.anchor", "eventLoop not found")
		return
	}
	loopFn := c.P.SSAFunc(loop.Obj)
	via := g.Reach(roots, func(e *MEdge) bool {
		if e.Kind == "ref" {
			return true
		}
		cf := e.Callee.Fn
		for cf.Parent() != nil {
			cf = cf.Parent()
		}
		// the loop itself is started by Start on its own goroutine; stay inside the package
		return cf == loopFn || cf.Pkg == nil || pkgRel(cf.Pkg.Pkg) != cnsPkg
	})
	nacc := 0
	var fns []*ssa.Function
	for fn := range via {
		fns = append(fns, fn)
	}
	sort.Slice(fns, func(i, j int) bool { return FnKey(fns[i]) < FnKey(fns[j]) })
	for _, fn := range fns {
		for _, b := range fn.Blocks {
			for _, ins := range b.Instrs {
				fa, ok := ins.(*ssa.FieldAddr)
				if !ok {
					continue
				}
				t := fa.X.Type()
				if p, ok := t.Underlying().(*types.Pointer); ok {
					t = p.Elem()
				}
				if !namedTypeIs(t, cnsPkg, "service") {
					continue
				}
				name := fieldName(fa)
				nacc++
				if confined[name] && !onlyNilCompared(fa) {
					c.Fail("foreign-access."+FnKey(fn)+"."+name, c.P.Pos(fa.Pos()), fmt.Sprintf("%s touches service.%s and is reachable from %v, which other goroutines call: dBFT state and the loop-owned fields must only be used from the event loop", FnKey(fn), name, names), g.PathTo(via, fn)...)
				}
			}
		}
	}
	c.OK("foreign-entry-closure", c.P.Pos(loop.Decl.Pos()), fmt.Sprintf("%d functions reachable from %s (event loop excluded) make %d accesses to service fields, none to dbft/lastTimestamp/lastProposal", len(fns), strings.Join(names, "/"), nacc))
	// and the loop does use them (the rule still sees the code it is about)
	lv := g.Reach([]*ssa.Function{loopFn}, func(e *MEdge) bool { return e.Kind == "ref" })
	uses := 0
	for fn := range lv {
		for _, b := range fn.Blocks {
			for _, ins := range b.Instrs {
				if fa, ok := ins.(*ssa.FieldAddr); ok && confined[fieldName(fa)] {
					t := fa.X.Type()
					if p, ok := t.Underlying().(*types.Pointer); ok {
						t = p.Elem()
					}
					if namedTypeIs(t, cnsPkg, "service") {
						uses++
					}
				}
			}
		}
	}
	c.Floor("uses of loop-owned state inside the event loop closure", uses, 5)
}

// onlyNilCompared: the field is merely loaded and compared with nil (is the service configured at all?).
func onlyNilCompared(fa *ssa.FieldAddr) bool {
	refs := fa.Referrers()
	if refs == nil || len(*refs) == 0 {
		return false
	}
	for _, r := range *refs {
		ld, ok := r.(*ssa.UnOp)
		if !ok {
			return false
		}
		lr := ld.Referrers()
		if lr == nil {
			return false
		}
		for _, u := range *lr {
			bo, ok := u.(*ssa.BinOp)
			if !ok {
				if _, isDbg := u.(*ssa.DebugRef); isDbg {
					continue
				}
				return false
			}
			isNil := func(v ssa.Value) bool { c, ok := v.(*ssa.Const); return ok && c.IsNil() }
			if !isNil(bo.X) && !isNil(bo.Y) {
				return false
			}
		}
	}
	return true
}

// ruleRecoveryRebuild: payloads reconstructed from a recovery message (PrepareRequest, PrepareResponse, Commit,
// ChangeView of other validators) stand for messages of the recovery message's own height and view; the message
// literal that rebuilds them must take BlockIndex and ViewNumber from the recovery payload it is given. A rebuilt
// payload without its view is filed under view 0 and can never complete (or blocks) a later view.
func ruleRecoveryRebuild(c *Ctx) {
	pk := c.P.Pkg(cnsPkg)
	if pk == nil {
		return
	}
	n := 0
	for _, fd := range c.P.AllFuncDecls() {
		if fd.Pkg != pk || fd.Decl.Body == nil || fd.Decl.Type.Params == nil {
			continue
		}
		// functions taking a *Payload and building another Payload with a message literal
		var src types.Object
		for _, fl := range fd.Decl.Type.Params.List {
			if namedTypeIs(pk.TypesInfo.TypeOf(fl.Type), cnsPkg, "Payload") {
				for _, nm := range fl.Names {
					src = pk.TypesInfo.Defs[nm]
				}
			}
		}
		if src == nil || fd.Decl.Recv != nil {
			continue
		}
		f := c.P.NewFuncCFG(fd)
		ast.Inspect(fd.Decl.Body, func(x ast.Node) bool {
			cl, ok := x.(*ast.CompositeLit)
			if !ok || !namedTypeIs(pk.TypesInfo.TypeOf(cl), cnsPkg, "message") {
				return true
			}
			n++
			fromSrc := map[string]bool{}
			for _, el := range cl.Elts {
				kv, ok := el.(*ast.KeyValueExpr)
				if !ok {
					continue
				}
				id, ok := kv.Key.(*ast.Ident)
				if !ok {
					continue
				}
				usesSrc := false
				ast.Inspect(kv.Value, func(y ast.Node) bool {
					if u, ok := y.(*ast.Ident); ok && pk.TypesInfo.ObjectOf(u) == src {
						usesSrc = true
					}
					return true
				})
				if usesSrc && f.DirectMentions(kv.Value)[cnsPkg+"#"+id.Name] {
					fromSrc[id.Name] = true
				}
			}
			key := FuncKey(fd.Obj) + ".rebuilt-message"
			var missing []string
			for _, need := range []string{"BlockIndex", "ViewNumber"} {
				if !fromSrc[need] {
					missing = append(missing, need)
				}
			}
			if len(missing) == 0 {
				c.OK(key, c.P.Pos(cl.Pos()), "the rebuilt message takes BlockIndex and ViewNumber from the recovery payload")
			} else {
				c.Fail(key, c.P.Pos(cl.Pos()), fmt.Sprintf("%s rebuilds a consensus message from a recovery payload without taking %s from it: recovered messages of any later view are filed under the zero value and the height cannot finish once validators depend on recovery", FuncKey(fd.Obj), strings.Join(missing, ", ")))
			}
			return true
		})
	}
	c.Floor("messages rebuilt from a recovery payload", n, 1)
}
