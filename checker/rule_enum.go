package main

import (
	"fmt"
	"go/ast"
	"go/types"
	"os"
	"sort"
	"strings"
)

// enum-switch: a switch over a value of a module enumeration (a named integer type with at least three constants
// of that type declared in its package) either has a default clause or names every constant. A switch that silently
// does nothing for one kind is how "a table entry gone wrong" looks in code. Switches that deliberately handle a
// subset are tabled by function + type with the reason.
var enumSwitchOK = map[string]string{}

func ruleEnumSwitch(c *Ctx, pkgs ...string) {
	want := map[string]bool{}
	for _, p := range pkgs {
		want[p] = true
	}
	enumConsts := map[*types.TypeName][]string{}
	constsOf := func(tn *types.TypeName) []string {
		if cs, ok := enumConsts[tn]; ok {
			return cs
		}
		var out []string
		if tn.Pkg() != nil {
			sc := tn.Pkg().Scope()
			for _, n := range sc.Names() {
				if k, ok := sc.Lookup(n).(*types.Const); ok && types.Identical(k.Type(), tn.Type()) {
					out = append(out, n)
				}
			}
		}
		sort.Strings(out)
		enumConsts[tn] = out
		return out
	}
	n := 0
	for _, fd := range c.P.AllFuncDecls() {
		if !want[pkgRel(fd.Pkg.Types)] || fd.Decl.Body == nil {
			continue
		}
		info := fd.Pkg.TypesInfo
		idx := 0
		ast.Inspect(fd.Decl.Body, func(x ast.Node) bool {
			sw, ok := x.(*ast.SwitchStmt)
			if !ok || sw.Tag == nil {
				return true
			}
			t := info.TypeOf(sw.Tag)
			nt, ok := t.(*types.Named)
			if !ok || !InModule(nt.Obj().Pkg()) {
				return true
			}
			b, ok := nt.Underlying().(*types.Basic)
			if !ok || b.Info()&types.IsInteger == 0 {
				return true
			}
			all := constsOf(nt.Obj())
			if len(all) < 3 {
				return true
			}
			n++
			idx++
			key := fmt.Sprintf("%s.switch-%s#%d", FuncKey(fd.Obj), nt.Obj().Name(), idx)
			seen := map[string]bool{}
			hasDefault := false
			for _, cl := range sw.Body.List {
				cc := cl.(*ast.CaseClause)
				if cc.List == nil {
					hasDefault = true
				}
				for _, e := range cc.List {
					seen[constName(info, e)] = true
				}
			}
			if hasDefault {
				c.OK(key, c.P.Pos(sw.Pos()), "has a default clause")
				return true
			}
			var missing []string
			// aliases: constants with equal values count as one
			valSeen := map[string]bool{}
			for _, k := range all {
				if seen[k] {
					valSeen[nt.Obj().Pkg().Scope().Lookup(k).(*types.Const).Val().ExactString()] = true
				}
			}
			anyExported := false
			for _, k := range all {
				if ast.IsExported(k) {
					anyExported = true
				}
			}
			for _, k := range all {
				if anyExported && !ast.IsExported(k) {
					continue // unexported member of an exported enumeration: a sentinel (`last`), not a kind
				}
				if !seen[k] && !valSeen[nt.Obj().Pkg().Scope().Lookup(k).(*types.Const).Val().ExactString()] {
					missing = append(missing, k)
				}
			}
			if len(missing) == 0 {
				c.OK(key, c.P.Pos(sw.Pos()), fmt.Sprintf("names all %d constants of %s", len(all), nt.Obj().Name()))
				return true
			}
			base := FuncKey(fd.Obj) + "#" + nt.Obj().Name()
			if why, ok := enumSwitchOK[base]; ok {
				c.OK(key, c.P.Pos(sw.Pos()), "tabled subset: "+why)
				return true
			}
			if os.Getenv("NV_ENUM") != "" {
				fmt.Println("ENUM", c.P.Pos(sw.Pos()), base, "missing", missing)
			}
			c.Fail(key, c.P.Pos(sw.Pos()), fmt.Sprintf("%s switches over %s without a default clause and without a case for %s: values of those kinds fall through silently", FuncKey(fd.Obj), nt.Obj().Name(), strings.Join(missing, ", ")))
			return true
		})
	}
	c.OK("scope."+strings.Join(pkgs, "+"), "", fmt.Sprintf("%d switches over module enumerations examined", n))
}
