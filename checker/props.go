package main

func init() {
	register(&PropertySpec{
		ID: "C08",
		Rules: []RuleSpec{
			{"tautology", "no comparison of a side-effect-free expression with itself anywhere in the module (==, Equals, Cmp, bytes.Equal, ...)", ruleTautology},
		},
		NotCovered: "ordering by priority, capacity arithmetic, eviction of the lowest entry only, total-order properties of the comparison",
	})
}
