package main

func init() {
	register(&PropertySpec{
		ID: "C06",
		Rules: []RuleSpec{
			{"tx-compatible", "AddBlock and the consensus service's verifyBlock reject a block in which a transaction names another transaction of the same block in a Conflicts attribute, by a check of their own: the scratch pool both use replaces the named transaction instead of failing", ruleTxCompatible},
			{"revalidate-covers-admission", "every admission check of verifyAndPoolTx that reads chain state is repeated by IsTxStillRelevant, the filter the pool goes through after every block, on every path that answers true: pooled transactions are not verified again when they come in a block, so the pool must hold valid transactions at every height", ruleRevalidateCoversAdmission},
			{"err-discipline", "no error returned by a function of the module is discarded (called as a statement or assigned to _) in block acceptance (pkg/core, dao, block), except at the tabled sites whose reason is recorded: a dropped error is a dropped check or a lost write", func(c *Ctx) { ruleErrDiscipline(c, "pkg/core", "pkg/core/dao", "pkg/core/block") }},
			{"absent-is-nil", "a lookup that returns nil for a missing key and may return a stored empty value (dao.GetStorageItem, BoltDB bucket Get) is never tested for absence by length", func(c *Ctx) { ruleAbsentIsNil(c, "pkg/core", "pkg/core/dao", "pkg/core/block") }},
			{"unsigned-window", "an ordering comparison one operand of which is the difference of two non-constant unsigned values (a height minus a window) is made only where the function tests the order of those two values: otherwise the difference wraps around and \"older than the retained window\" holds for every height of a short chain", func(c *Ctx) { ruleUnsignedWindow(c, "pkg/core", "pkg/core/dao", "pkg/core/block") }},
			{"loop-memo", "a local initialised once inside a loop (if v == nil { v = ... }) and reused by later iterations is not derived from a variable the loop body changes between iterations (a key buffer rewritten per element, a cursor): later iterations would reuse what the first one saw", func(c *Ctx) { ruleLoopMemo(c, "pkg/core", "pkg/core/dao", "pkg/core/block") }},
			{"enum-switch", "every switch over a module enumeration (named integer type with at least three constants) has a default clause or names every kind: no kind falls through a default-less switch silently", func(c *Ctx) { ruleEnumSwitch(c, "pkg/core", "pkg/core/dao", "pkg/core/block") }},
			{"loop-accumulator", "a boolean that summarises a loop (some element needs X / all elements satisfy Y) and is read after it is accumulated monotonically - set to a constant, combined with its previous value, assigned under a test of itself, or followed by leaving the loop - never overwritten by the value computed for the current element only", func(c *Ctx) { ruleLoopAccumulator(c, "pkg/core", "pkg/core/dao", "pkg/core/block") }},
			{"dead-update", "no struct-typed local is assigned and field-updated without ever being read, passed on or returned (a modified copy that is lost while the stale original goes on being used)", func(c *Ctx) { ruleDeadUpdate(c, "pkg/core", "pkg/core/dao", "pkg/core/block") }},
			{"check-all-loop", "a loop that rejects on a property of each element with an error return is not left early with a break (the elements after it would escape the check)", func(c *Ctx) { ruleCheckAllLoop(c, "pkg/core", "pkg/core/dao", "pkg/core/block") }},
			{"header-strictness", "verifyHeader rejects a timestamp equal to or earlier than the previous one (three orderings folded); the state-root module stores its local root and local height together", ruleHeaderStrictness},
			{"commit-point", "no error exit of storeBlock is reachable after the PersistPrivate publish (one tabled exception), and the publish is gated by the MPT update and the storing goroutine's outcome", ruleCommitPoint},
			{"admit-dominators", "the per-transaction verification a block goes through (verifyAndPoolTx) is gated by every admission check - script, expiry, policy for every signer, size, fee, on-chain conflicts, witnesses, attributes: a block of individually invalid transactions is not an acceptable extension", ruleAdmitDominators},
			{"witness-covered-shortcut", "a shortcut of AddBlock that is keyed by a hash (header already known, transaction already pooled) looks at the witness it is about to store - the hash covers neither a header's nor a transaction's witness", ruleWitnessCoveredShortcut},
			{"trusted-header-checked", "the comparison of the header at the trusted height with the configured hash gates the store of the batch and is made on the batch that is stored (no reassignment of the batch in between)", ruleTrustedHeaderChecked},
			{"accept-dominators", "every acceptance check (index, state-root setting, header link/verification, Merkle root, per-transaction verification; header chain checks and witness against the previous NextConsensus) gates storeBlock / HeaderHashes.addHeaders on every CFG path", ruleAcceptDominators},
		},
		NotCovered: "that each check computes the right thing; witness VM semantics; that the correct block is still accepted afterwards",
	})
	register(&PropertySpec{
		ID: "C04",
		Rules: []RuleSpec{
			{"err-discipline", "no error returned by a function of the module is discarded (called as a statement or assigned to _) in the interop layer and the natives, except at the tabled sites whose reason is recorded: a dropped error is a dropped check or a lost write", func(c *Ctx) {
				ruleErrDiscipline(c, "pkg/core/interop", "pkg/core/interop/contract", "pkg/core/interop/storage", "pkg/core/native")
			}},
			{"absent-is-nil", "a lookup that returns nil for a missing key and may return a stored empty value (dao.GetStorageItem, BoltDB bucket Get) is never tested for absence by length", func(c *Ctx) {
				ruleAbsentIsNil(c, "pkg/core/interop", "pkg/core/interop/contract", "pkg/core/interop/storage", "pkg/core/native")
			}},
			{"unsigned-window", "an ordering comparison one operand of which is the difference of two non-constant unsigned values (a height minus a window) is made only where the function tests the order of those two values: otherwise the difference wraps around and \"older than the retained window\" holds for every height of a short chain", func(c *Ctx) {
				ruleUnsignedWindow(c, "pkg/core/interop", "pkg/core/interop/contract", "pkg/core/interop/storage", "pkg/core/native")
			}},
			{"loop-memo", "a local initialised once inside a loop (if v == nil { v = ... }) and reused by later iterations is not derived from a variable the loop body changes between iterations (a key buffer rewritten per element, a cursor): later iterations would reuse what the first one saw", func(c *Ctx) {
				ruleLoopMemo(c, "pkg/core/interop", "pkg/core/interop/contract", "pkg/core/interop/storage", "pkg/core/native")
			}},
			{"enum-switch", "every switch over a module enumeration (named integer type with at least three constants) has a default clause or names every kind: no kind falls through a default-less switch silently", func(c *Ctx) {
				ruleEnumSwitch(c, "pkg/core/interop", "pkg/core/interop/contract", "pkg/core/interop/storage", "pkg/core/native")
			}},
			{"loop-accumulator", "a boolean that summarises a loop (some element needs X / all elements satisfy Y) and is read after it is accumulated monotonically - set to a constant, combined with its previous value, assigned under a test of itself, or followed by leaving the loop - never overwritten by the value computed for the current element only", func(c *Ctx) {
				ruleLoopAccumulator(c, "pkg/core/interop", "pkg/core/interop/contract", "pkg/core/interop/storage", "pkg/core/native")
			}},
			{"dead-update", "no struct-typed local is assigned and field-updated without ever being read, passed on or returned (a modified copy that is lost while the stale original goes on being used)", func(c *Ctx) {
				ruleDeadUpdate(c, "pkg/core/interop", "pkg/core/interop/contract", "pkg/core/interop/storage", "pkg/core/native")
			}},
			{"check-all-loop", "a loop that rejects on a property of each element with an error return is not left early with a break (the elements after it would escape the check)", func(c *Ctx) {
				ruleCheckAllLoop(c, "pkg/core/interop", "pkg/core/interop/contract", "pkg/core/interop/storage", "pkg/core/native")
			}},
			{"transfer-log-on-halt", "storeBlock turns notifications into transfer-log entries only behind the VMState == Halt test", ruleTransferLogOnHalt},
			{"scopeless-loader", "a frame loaded inside the execution closure by a function that opens no rollback scope for it (no private DAO layer, no unload callback) gets flags whose upper bound contains neither WriteStates nor AllowNotify: otherwise what it writes survives when it throws and an outer frame catches", ruleScopelessLoader},
			{"vm-bytes-retained", "a system call or native method that keeps bytes taken from a VM item beyond the call (iterator, struct, map) clones them first: a Buffer stays writable by the contract", func(c *Ctx) {
				ruleVMBytesRetained(c, "pkg/core/interop/storage", "pkg/core/interop/runtime", "pkg/core/interop/contract", "pkg/core/interop/iterator", "pkg/core/interop/crypto", "pkg/core/native", "pkg/core/interop")
			}},
			{"publish-atomic", "all private layers given to one PersistPrivate call (the block and its state changes) are merged inside one critical section of the store: the lock is taken before the loop over the layers and released after it", rulePublishAtomic},
			{"oracle-requests-reconciled", "the one map of execution state kept outside the DAO layers (Oracle.newRequests) is checked against contract storage before it is handed to the oracle service: requests of faulted or rolled-back executions are dropped", ruleOracleRequestsReconciled},
			{"notification-immutable", "a recorded notification is an immutable deep copy (made by AddNotification or by every caller): System.Runtime.GetNotifications hands the recorded object out, and a rolled-back callee must not be able to rewrite an event emitted before it ran", ruleNotificationImmutable},
			{"tx-commit-guard", "the per-transaction DAO layer is persisted only on the non-fault branch, it is the private layer of a context created for that transaction, and OnPersist/PostPersist persist only after a successful Exec", ruleTxCommitGuard},
			{"unload-rollback", "the unload callback of a wrapped call persists only on commit, cuts notifications back and restores the base DAO layer on every exit; baselines are captured before the callee is loaded; the VM passes commit = no uncaught exception; ContractHasTryBlock scans every handler of every frame", ruleUnloadRollback},
			{"exec-confinement", "in the execution closure no store targets a package-level variable or a native contract object: everything an execution writes lives in a layer that is dropped on FAULT / caught exception", ruleExecConfinement},
			{"flags-effects", "no system call or native method whose handler can write contract storage or notify is registered with flags that omit WriteStates / AllowNotify: calls made without those flags get no rollback scope of their own, so such a handler would leave a trace that survives a caught exception", ruleFlagsEffects},
			{"reset-complete", "every VM field written during execution is re-initialised by VM.Reset (the VM is reused for all transactions of a block)", ruleResetComplete},
			{"cache-ro", "no write through a native cache obtained with GetROCache (a leaked alias is exactly a trace that survives rollback)", ruleCacheRO},
			{"cache-copy", "Copy() of every native cache gives a dropped layer nothing to share with the layer below", ruleCacheCopy},
		},
		NotCovered: "ContractHasTryBlock optimisation soundness, fee deduction, token arithmetic, nested try/finally state machine",
	})
	register(&PropertySpec{
		ID: "C03",
		Rules: []RuleSpec{
			{"limit-coherence", "the trie's key and value limits (enforced on its read paths only) cover what contract storage accepts on the write path: 4-byte contract id + MaxStorageKeyLen, MaxStorageValueLen", ruleLimitCoherence},
			{"value-absence", "in package mpt a []byte that becomes a leaf value is never tested for absence by its length (nil means absent, an empty value is a stored value)", ruleValueAbsence},
			{"err-discipline", "no error returned by a function of the module is discarded (called as a statement or assigned to _) in the trie and state-root packages, except at the tabled sites whose reason is recorded: a dropped error is a dropped check or a lost write", func(c *Ctx) { ruleErrDiscipline(c, "pkg/core/mpt", "pkg/core/stateroot", "pkg/core") }},
			{"absent-is-nil", "a lookup that returns nil for a missing key and may return a stored empty value (dao.GetStorageItem, BoltDB bucket Get) is never tested for absence by length", func(c *Ctx) { ruleAbsentIsNil(c, "pkg/core/mpt", "pkg/core/stateroot", "pkg/core") }},
			{"unsigned-window", "an ordering comparison one operand of which is the difference of two non-constant unsigned values (a height minus a window) is made only where the function tests the order of those two values: otherwise the difference wraps around and \"older than the retained window\" holds for every height of a short chain", func(c *Ctx) { ruleUnsignedWindow(c, "pkg/core/mpt", "pkg/core/stateroot", "pkg/core") }},
			{"loop-memo", "a local initialised once inside a loop (if v == nil { v = ... }) and reused by later iterations is not derived from a variable the loop body changes between iterations (a key buffer rewritten per element, a cursor): later iterations would reuse what the first one saw", func(c *Ctx) { ruleLoopMemo(c, "pkg/core/mpt", "pkg/core/stateroot", "pkg/core") }},
			{"enum-switch", "every switch over a module enumeration (named integer type with at least three constants) has a default clause or names every kind: no kind falls through a default-less switch silently", func(c *Ctx) { ruleEnumSwitch(c, "pkg/core/mpt", "pkg/core/stateroot", "pkg/core") }},
			{"loop-accumulator", "a boolean that summarises a loop (some element needs X / all elements satisfy Y) and is read after it is accumulated monotonically - set to a constant, combined with its previous value, assigned under a test of itself, or followed by leaving the loop - never overwritten by the value computed for the current element only", func(c *Ctx) { ruleLoopAccumulator(c, "pkg/core/mpt", "pkg/core/stateroot", "pkg/core") }},
			{"dead-update", "no struct-typed local is assigned and field-updated without ever being read, passed on or returned (a modified copy that is lost while the stale original goes on being used)", func(c *Ctx) { ruleDeadUpdate(c, "pkg/core/mpt", "pkg/core/stateroot", "pkg/core") }},
			{"check-all-loop", "a loop that rejects on a property of each element with an error return is not left early with a break (the elements after it would escape the check)", func(c *Ctx) { ruleCheckAllLoop(c, "pkg/core/mpt", "pkg/core/stateroot", "pkg/core") }},
			{"context-height", "natives and system calls take the current height and tip hash from the execution context (the height the execution is made for), never from the live ledger: only interop.Context's own accessors read ic.Chain's height", ruleContextHeight},
			{"historic-resolves-historic", "an RPC helper with an optional state-root parameter consults the live contract state only when no root was given: historic storage requests resolve the contract in the root they read", ruleHistoricResolvesHistoric},
			{"proof-key", "VerifyProof walks from NewHashNode(root) over a store of its own in strict mode, and stores every proof element under the double-SHA256 of that very element", ruleProofKey},
			{"historic-root", "the historic VM's trie store is rooted at GetStateRoot(b.Index-1) of the block it executes in, over a private cache layer, and refuses garbage-collected heights", ruleHistoricRoot},
			{"mpt-reader", "Trie methods read node records only through the mode-aware getFromStore (a retained root keeps every key contract storage holds, in every trie mode)", ruleMPTReader},
			{"mpt-batch-source", "the MPT batch of a block is GetStorageChanges() of the very layer every execution of the block wrote to, taken after the last execution, and that layer is what is published", ruleMPTBatchSource},
			{"seek-orientation", "every decision of the trie-backed range search (Trie.Find, TrieStore.Seek, Billet.traverse) that combines the scan direction with a comparison against the start point has the ordered-map truth table: a subtree is skipped exactly when it lies before the start in scan direction; children are visited in scan order, the node's own value first (forward) or last (backward)", func(c *Ctx) { ruleSeekOrientation(c, map[string]bool{"pkg/core/mpt": true}) }},
		},
		NotCovered: "trie correctness itself (C10), proofs per key, equality of historic and live results beyond the direction/start truth tables (keys that are strict prefixes or extensions of the start point in a backward scan)",
	})
	register(&PropertySpec{
		ID: "C02",
		Rules: []RuleSpec{
			{"err-discipline", "no error returned by a function of the module is discarded (called as a statement or assigned to _) in the ledger, its DAO and the stores, except at the tabled sites whose reason is recorded: a dropped error is a dropped check or a lost write", func(c *Ctx) { ruleErrDiscipline(c, "pkg/core", "pkg/core/dao", "pkg/core/storage") }},
			{"absent-is-nil", "a lookup that returns nil for a missing key and may return a stored empty value (dao.GetStorageItem, BoltDB bucket Get) is never tested for absence by length", func(c *Ctx) { ruleAbsentIsNil(c, "pkg/core", "pkg/core/dao", "pkg/core/storage") }},
			{"unsigned-window", "an ordering comparison one operand of which is the difference of two non-constant unsigned values (a height minus a window) is made only where the function tests the order of those two values: otherwise the difference wraps around and \"older than the retained window\" holds for every height of a short chain", func(c *Ctx) { ruleUnsignedWindow(c, "pkg/core", "pkg/core/dao", "pkg/core/storage") }},
			{"loop-memo", "a local initialised once inside a loop (if v == nil { v = ... }) and reused by later iterations is not derived from a variable the loop body changes between iterations (a key buffer rewritten per element, a cursor): later iterations would reuse what the first one saw", func(c *Ctx) { ruleLoopMemo(c, "pkg/core", "pkg/core/dao", "pkg/core/storage") }},
			{"enum-switch", "every switch over a module enumeration (named integer type with at least three constants) has a default clause or names every kind: no kind falls through a default-less switch silently", func(c *Ctx) { ruleEnumSwitch(c, "pkg/core", "pkg/core/dao", "pkg/core/storage") }},
			{"loop-accumulator", "a boolean that summarises a loop (some element needs X / all elements satisfy Y) and is read after it is accumulated monotonically - set to a constant, combined with its previous value, assigned under a test of itself, or followed by leaving the loop - never overwritten by the value computed for the current element only", func(c *Ctx) { ruleLoopAccumulator(c, "pkg/core", "pkg/core/dao", "pkg/core/storage") }},
			{"dead-update", "no struct-typed local is assigned and field-updated without ever being read, passed on or returned (a modified copy that is lost while the stale original goes on being used)", func(c *Ctx) { ruleDeadUpdate(c, "pkg/core", "pkg/core/dao", "pkg/core/storage") }},
			{"check-all-loop", "a loop that rejects on a property of each element with an error return is not left early with a break (the elements after it would escape the check)", func(c *Ctx) { ruleCheckAllLoop(c, "pkg/core", "pkg/core/dao", "pkg/core/storage") }},
			{"inactive-after-jump", "the state-sync module sets its stage to inactive only after the jump callback ran on the same path, or at the tabled exits where the ledger needs no jump (a restart between the last synchronised block and the jump is not one of them)", ruleInactiveAfterJump},
			{"gc-keeps-startup-page", "the on-disk collector of header-hash pages bounds itself by the current header height, so that the last complete page, which HeaderHashes.init loads unconditionally, is never removed", ruleGCKeepsStartupPage},
			{"gc-from-persisted", "every collector tryRunGC starts gets a target derived from the persisted height, never from the in-memory block height", ruleGCFromPersisted},
			{"cache-latest", "whatever fills the RoleManagement cache from storage asks for the newest record (MaxUint32), never for the record in force at the current height: a rebuilt cache equals the cache of the node that executed the designating block", ruleCacheLatest},
			{"historic-root", "every opening of a read-only trie store of an earlier root - the reset of the ledger copies contract storage out of its target root this way - uses a mode without the GC flag: the nodes of the target state that later blocks superseded are inactive, not gone", ruleHistoricRoot},
			{"publish-atomic", "all private layers given to one PersistPrivate call (the block and its state changes) are merged inside one critical section of the store: the lock is taken before the loop over the layers and released after it", rulePublishAtomic},
			{"page-tail-bound", "HeaderHashes.init recomputes the number of hashes held in complete pages from the persisted header height so that fewer than one page remains for memory at every height (folded around the page borders): the writer stores a page only when memory holds exactly one", rulePageTailBound},
			{"stage-machine", "reset and jump are well-formed stage machines: unknown stage is an error; each stage ends by recording the label of the next clause as its last write and persists that layer before falling through; no value captured before the switch from a field a stage changes is used after that stage; the tail removes the marker; start-up resumes from it", ruleStageMachine},
			{"cache-init", "a node reopened after a crash rebuilds every native cache field from storage and raises the in-memory dirty flags that have no storage record (votesChanged), so the blocks that follow give the same state roots as on a node that never stopped", ruleCacheInit},
			{"resume-path", "no stage deletes data that Blockchain.init reads before it dispatches on the stage marker, and in-memory module state established inside one stage clause is also established on the common path (so a run resumed from a later stage has it)", ruleResumePath},
			{"backend-tx", "every BoltDB/LevelDB mutation happens inside a transaction; a change set is one transaction committed on the success path", ruleBackendTx},
			{"swap-order", "the flush installs the tempstore before the lower write and restores the lower store only after it returned, under the write lock", ruleSwapOrder},
			{"block-single-publish", "a block reaches the shared DAO through exactly one PersistPrivate of layers created in storeBlock, the tip pointer is written to one of them, and nothing else in the closure of storeBlock mutates bc.dao", ruleSinglePublish},
		},
		NotCovered: "idempotence of re-executing a partially persisted stage, content equality after recovery, GC passes, header-hash page arithmetic",
	})
	register(&PropertySpec{
		ID: "C20",
		Rules: []RuleSpec{
			{"tx-record-complete", "every writer of transaction records stores the execution result with the transaction, because native Ledger.getTransactionVMState reads it from there: a node that stored blocks without executing them answers like a node that did", ruleTxRecordComplete},
			{"err-discipline", "no error returned by a function of the module is discarded (called as a statement or assigned to _) in state sync and the block queue, except at the tabled sites whose reason is recorded: a dropped error is a dropped check or a lost write", func(c *Ctx) { ruleErrDiscipline(c, "pkg/core/statesync", "pkg/network/bqueue") }},
			{"absent-is-nil", "a lookup that returns nil for a missing key and may return a stored empty value (dao.GetStorageItem, BoltDB bucket Get) is never tested for absence by length", func(c *Ctx) { ruleAbsentIsNil(c, "pkg/core/statesync", "pkg/network/bqueue") }},
			{"unsigned-window", "an ordering comparison one operand of which is the difference of two non-constant unsigned values (a height minus a window) is made only where the function tests the order of those two values: otherwise the difference wraps around and \"older than the retained window\" holds for every height of a short chain", func(c *Ctx) { ruleUnsignedWindow(c, "pkg/core/statesync", "pkg/network/bqueue") }},
			{"loop-memo", "a local initialised once inside a loop (if v == nil { v = ... }) and reused by later iterations is not derived from a variable the loop body changes between iterations (a key buffer rewritten per element, a cursor): later iterations would reuse what the first one saw", func(c *Ctx) { ruleLoopMemo(c, "pkg/core/statesync", "pkg/network/bqueue") }},
			{"enum-switch", "every switch over a module enumeration (named integer type with at least three constants) has a default clause or names every kind: no kind falls through a default-less switch silently", func(c *Ctx) { ruleEnumSwitch(c, "pkg/core/statesync", "pkg/network/bqueue") }},
			{"loop-accumulator", "a boolean that summarises a loop (some element needs X / all elements satisfy Y) and is read after it is accumulated monotonically - set to a constant, combined with its previous value, assigned under a test of itself, or followed by leaving the loop - never overwritten by the value computed for the current element only", func(c *Ctx) { ruleLoopAccumulator(c, "pkg/core/statesync", "pkg/network/bqueue") }},
			{"dead-update", "no struct-typed local is assigned and field-updated without ever being read, passed on or returned (a modified copy that is lost while the stale original goes on being used)", func(c *Ctx) { ruleDeadUpdate(c, "pkg/core/statesync", "pkg/network/bqueue") }},
			{"check-all-loop", "a loop that rejects on a property of each element with an error return is not left early with a break (the elements after it would escape the check)", func(c *Ctx) { ruleCheckAllLoop(c, "pkg/core/statesync", "pkg/network/bqueue") }},
			{"multimap-merge", "a multimap (map with slice values) that outlives the merge is merged into by appending to the list stored under a key, never by maps.Copy or a plain keyed store (only the last contribution for a key would survive)", func(c *Ctx) { ruleMultimapMerge(c, "pkg/core/statesync", "pkg/network/bqueue", "pkg/core/mpt") }},
			{"record-kind", "every function that decodes a trie node record (from the store, from a proof, from a peer) refuses the child-only kinds - hash node and empty node - before it uses the node: an empty record panics, a hash-node record makes the loaded node point at itself", func(c *Ctx) { ruleRecordKind(c, "pkg/core/statesync", "pkg/core/mpt") }},
			{"stage-gated-accessor", "every way from a P2P command handler to statesync.Module.BlockHeight - which panics until the MPT stage is complete - passes a branch on the module's stage that controls the onward call (one data-gated site tabled): a peer's message during the header or MPT stage must be ignored, not crash the node", ruleStageGatedAccessor},
			{"ring-slot-index", "in the block queue, the element found in the ring slot computed for an index is compared with that same index (same base, same constant offset): a clean-up that is off by one never matches, the length leaks and the node stops asking for blocks", ruleRingSlotIndex},
			{"record-layout-agreement", "every trie mode that state synchronisation computes from KeepOnlyLatestState / RemoveUntraceableBlocks has the reference-counting bit of the state-root module's mode for all four combinations: the synchronised records are read by that module after the jump", ruleRecordLayoutAgreement},
			{"trusted-header-checked", "the comparison of the header at the trusted height with the configured hash gates the store of the batch and is made on the batch that is stored (no reassignment of the batch in between)", ruleTrustedHeaderChecked},
			{"lock-pairing", "in pkg/network/bqueue and pkg/core/statesync every mutex acquired is released on every exit (defer-aware, boolean-correlated; the hand-unlocked Blocking branch of Queue.Put included)", func(c *Ctx) { lockPairingPkgs(c, []string{"pkg/network/bqueue", "pkg/core/statesync"}, nil, 10) }},
			{"lockset", "the block queue's ring/len/lastQ and the state-sync module's stage, sync point, heights, tries and node pool are read and written only while the owning mutex is held (write lock for writes), in methods every call site of which holds it, or in the tabled traversal callback", ruleLocksetSync},
			{"stage-machine", "the state jump that ends a state synchronisation is a well-formed stage machine: markers name the next clause and are persisted with the stage, and everything the jump writes to the store is in or before the batch that removes the marker (a restart at any point resumes or finds the jump complete)", ruleStageMachine},
			{"sync-guards", "restored MPT nodes are stored only behind the hash comparison; statesync stores blocks only behind index/setting/Merkle/header-hash/stage checks; stage bits are set only after the root/sync-point test and a synchronous persist; queue slots are cleared only behind a content test; each restore call gets its own clone", ruleSyncGuards},
			{"traverse-callback", "a Billet.Traverse callback that removes the node's hash from a container on the first occurrence does not panic merely because a later occurrence of the same hash (equal subtrees) is not found there", ruleTraverseCallback},
			{"inactive-after-jump", "the state-sync module sets its stage to inactive only after the jump callback ran on the same path, or at the tabled exits where the ledger needs no jump (restart with everything fetched is not one of them)", ruleInactiveAfterJump},
			{"chan-typestate", "every send on Queue.checkBlocks holds queueLock and follows a `discarded` check made after the lock was last acquired; the channel is closed only by the function that sets the flag", ruleChanTypestate},
		},
		NotCovered: "ring-buffer position arithmetic, lastQ, in-order application, pool/path bookkeeping, lockstep with the source node",
	})
	register(&PropertySpec{
		ID: "C12",
		Rules: []RuleSpec{
			{"detach-before-release", "an instruction that takes an element out of a compound item removes it from the container before it tells the reference counter (refs.Remove): an element that references its container is not released a second time by the container's own recursive release, so the counter never falls below what is reachable", ruleDetachBeforeRelease},
			{"budget-shared", "a recursive walk over a compound item counts down budgets that its caller hands down by pointer; it never keeps a budget in a local of its own, which would start afresh at every nesting level and bound one level instead of the operation", func(c *Ctx) { ruleBudgetShared(c, "pkg/vm", "pkg/vm/stackitem") }},
			{"err-discipline", "no error returned by a function of the module is discarded (called as a statement or assigned to _) in the VM, except at the tabled sites whose reason is recorded: a dropped error is a dropped check or a lost write", func(c *Ctx) { ruleErrDiscipline(c, "pkg/vm", "pkg/vm/stackitem") }},
			{"absent-is-nil", "a lookup that returns nil for a missing key and may return a stored empty value (dao.GetStorageItem, BoltDB bucket Get) is never tested for absence by length", func(c *Ctx) { ruleAbsentIsNil(c, "pkg/vm", "pkg/vm/stackitem") }},
			{"unsigned-window", "an ordering comparison one operand of which is the difference of two non-constant unsigned values (a height minus a window) is made only where the function tests the order of those two values: otherwise the difference wraps around and \"older than the retained window\" holds for every height of a short chain", func(c *Ctx) { ruleUnsignedWindow(c, "pkg/vm", "pkg/vm/stackitem") }},
			{"loop-memo", "a local initialised once inside a loop (if v == nil { v = ... }) and reused by later iterations is not derived from a variable the loop body changes between iterations (a key buffer rewritten per element, a cursor): later iterations would reuse what the first one saw", func(c *Ctx) { ruleLoopMemo(c, "pkg/vm", "pkg/vm/stackitem") }},
			{"enum-switch", "every switch over a module enumeration (named integer type with at least three constants) has a default clause or names every kind: no kind falls through a default-less switch silently", func(c *Ctx) { ruleEnumSwitch(c, "pkg/vm", "pkg/vm/stackitem") }},
			{"loop-accumulator", "a boolean that summarises a loop (some element needs X / all elements satisfy Y) and is read after it is accumulated monotonically - set to a constant, combined with its previous value, assigned under a test of itself, or followed by leaving the loop - never overwritten by the value computed for the current element only", func(c *Ctx) { ruleLoopAccumulator(c, "pkg/vm", "pkg/vm/stackitem") }},
			{"dead-update", "no struct-typed local is assigned and field-updated without ever being read, passed on or returned (a modified copy that is lost while the stale original goes on being used)", func(c *Ctx) { ruleDeadUpdate(c, "pkg/vm", "pkg/vm/stackitem") }},
			{"check-all-loop", "a loop that rejects on a property of each element with an error return is not left early with a break (the elements after it would escape the check)", func(c *Ctx) { ruleCheckAllLoop(c, "pkg/vm", "pkg/vm/stackitem") }},
			{"sibling-arms", "where a type switch of the VM gives Array and Struct arms of their own that perform the same container operation, both arms assign the same variables (the reference bookkeeping of the removed or replaced element)", ruleSiblingArms},
			{"limit-scale", "the VM stores its gas limit scaled by a constant; the scaling of a caller-chosen 64-bit limit is bounded against math.MaxInt64 so that the stored limit cannot wrap negative (a negative limit means no limit)", ruleLimitScale},
			{"refs-handover", "an element read from a stack without un-counting it and stored elsewhere without counting it keeps its one count: the source stack is not un-counted (Clear/Pop/RemoveAt) afterwards in the same instruction - the counter would under-count what is reachable", ruleRefsHandover},
			{"reset-complete", "every VM field written during execution (the reference counter included) is re-initialised by VM.Reset: the VM is reused for all transactions of a block, a counter that carries over makes the item limit trigger early", ruleResetComplete},
			{"opcode-tables", "every Opcode constant is valid in the decoder table, dispatched by vm.execute (arm or PUSHINT range test, faulting default), priced in fee.coefficients, and operand usage agrees between decoder and dispatcher", ruleOpcodeTables},
			{"panic-scope", "execute starts by deferring the recover + MaxStackSize closure, is entered only from step/StepInto, and nothing reachable from Run/Step* outside it panics explicitly", rulePanicScope},
			{"gas-before-dispatch", "on the priced branch the price is fetched, added and compared with the limit (faulting) before any instruction touches the stack", ruleGasBeforeDispatch},
			{"limit-guards", "every growth site of a bounded resource (NEWBUFFER/CAT allocation, SHL/SHR/POW operand, TRY nesting, NEWARRAY size, invocation stack) is gated by the comparison with its limit", ruleLimitGuards},
			{"bigint-ctor", "conversions to *stackitem.BigInteger exist only in package stackitem, each after CheckIntegerSize or from a <=64-bit source; NewBigInteger faults on an oversized value", ruleBigintCtor},
			{"slot-scope", "the static slot's references are released only when the last frame of its script unloads", ruleSlotScope},
			{"clone-supersedes", "once an item was superseded by its struct clone and the reference counter told about the swap, the counter is never again given the original in that instruction (the original may be held elsewhere: releasing it twice under-counts, and the 2048-item limit is bypassed)", ruleCloneSupersedes},
			{"jump-opcode-agreement", "the set of opcodes whose execute arm computes a jump target equals the set whose operands IsScriptCorrect records as jump targets; the boundary subset test gates its success exit; interpreter and checker share one decoder", ruleJumpAgreement},
		},
		NotCovered: "the reference counter's arithmetic (never under-counts), implicit run-time panics outside the recover scope",
	})
	register(&PropertySpec{
		ID: "C13",
		Rules: []RuleSpec{
			{"budget-shared", "a recursive walk over a compound item counts down budgets that its caller hands down by pointer; it never keeps a budget in a local of its own, which would start afresh at every nesting level and bound one level instead of the operation", func(c *Ctx) { ruleBudgetShared(c, "pkg/vm", "pkg/vm/stackitem") }},
			{"wrap-carry", "hand-written multi-word arithmetic tests the wrap value of the word after ++/-- (0 / MaxUintN), and a function that changes the words of a *big.Int parameter in place writes them back in a deferred function: converting an Integer to bytes leaves the Integer on the stack unchanged", ruleWrapCarry},
			{"operand-validated", "an operand taken from the evaluation stack is converted on the succeeding path of its instruction too, not only inside a failure message: an operand the conversion rejects faults the VM whatever the other operands are", ruleOperandValidated},
			{"err-discipline", "no error returned by a function of the module is discarded (called as a statement or assigned to _) in the VM, except at the tabled sites whose reason is recorded: a dropped error is a dropped check or a lost write", func(c *Ctx) { ruleErrDiscipline(c, "pkg/vm", "pkg/vm/stackitem") }},
			{"absent-is-nil", "a lookup that returns nil for a missing key and may return a stored empty value (dao.GetStorageItem, BoltDB bucket Get) is never tested for absence by length", func(c *Ctx) { ruleAbsentIsNil(c, "pkg/vm", "pkg/vm/stackitem") }},
			{"unsigned-window", "an ordering comparison one operand of which is the difference of two non-constant unsigned values (a height minus a window) is made only where the function tests the order of those two values: otherwise the difference wraps around and \"older than the retained window\" holds for every height of a short chain", func(c *Ctx) { ruleUnsignedWindow(c, "pkg/vm", "pkg/vm/stackitem") }},
			{"loop-memo", "a local initialised once inside a loop (if v == nil { v = ... }) and reused by later iterations is not derived from a variable the loop body changes between iterations (a key buffer rewritten per element, a cursor): later iterations would reuse what the first one saw", func(c *Ctx) { ruleLoopMemo(c, "pkg/vm", "pkg/vm/stackitem") }},
			{"enum-switch", "every switch over a module enumeration (named integer type with at least three constants) has a default clause or names every kind: no kind falls through a default-less switch silently", func(c *Ctx) { ruleEnumSwitch(c, "pkg/vm", "pkg/vm/stackitem") }},
			{"loop-accumulator", "a boolean that summarises a loop (some element needs X / all elements satisfy Y) and is read after it is accumulated monotonically - set to a constant, combined with its previous value, assigned under a test of itself, or followed by leaving the loop - never overwritten by the value computed for the current element only", func(c *Ctx) { ruleLoopAccumulator(c, "pkg/vm", "pkg/vm/stackitem") }},
			{"dead-update", "no struct-typed local is assigned and field-updated without ever being read, passed on or returned (a modified copy that is lost while the stale original goes on being used)", func(c *Ctx) { ruleDeadUpdate(c, "pkg/vm", "pkg/vm/stackitem") }},
			{"check-all-loop", "a loop that rejects on a property of each element with an error return is not left early with a break (the elements after it would escape the check)", func(c *Ctx) { ruleCheckAllLoop(c, "pkg/vm", "pkg/vm/stackitem") }},
			{"sibling-arms", "where a type switch of the VM gives Array and Struct arms of their own that perform the same container operation, both arms assign the same variables (the reference bookkeeping of the removed or replaced element)", ruleSiblingArms},
			{"modpow-sign", "the Euclidean-to-truncated correction of MODPOW (subtracting |modulus|) is gated by the parity test of the exponent and the sign tests: an even power of a negative base is positive and must not be shifted", ruleModPowSign},
			{"reset-complete", "every VM field written during execution is re-initialised by VM.Reset: the VM is reused for all transactions of a block, and a pending exception that carries over makes the next transaction's ENDFINALLY re-throw it", ruleResetComplete},
			{"opcode-tables", "every Opcode constant is valid in the decoder table, dispatched by vm.execute (arm or PUSHINT range test, faulting default), priced in fee.coefficients, and operand usage agrees between decoder and dispatcher", ruleOpcodeTables},
			{"bigint-ctor", "conversions to *stackitem.BigInteger exist only in package stackitem, each after CheckIntegerSize or from a <=64-bit source (every integer result passes the 256-bit range check)", ruleBigintCtor},
			{"byte-moves", "bytes are moved between buffers that may be the same stack item only by the builtin copy (overlap-safe), never by an element loop", ruleByteMoves},
			{"operand-immutable", "a big.Int obtained from a stack item is never the receiver of a big.Int mutator in pkg/vm", ruleOperandImmutable},
			{"map-index-comaintenance", "every function that re-shapes the element slice of a stackitem.Map updates its key index too", ruleMapIndex},
		},
		NotCovered: "numeric semantics at the 256-bit boundary, remainder signs, shift rounding, conversion rules — everything an independent specification would compare; the heart of C13 is not statically decidable here",
	})
	register(&PropertySpec{
		ID: "C16",
		Rules: []RuleSpec{
			{"err-discipline", "no error returned by a function of the module is discarded (called as a statement or assigned to _) in manifests and contract calls, except at the tabled sites whose reason is recorded: a dropped error is a dropped check or a lost write", func(c *Ctx) {
				ruleErrDiscipline(c, "pkg/smartcontract/manifest", "pkg/core/interop/contract", "pkg/core/interop")
			}},
			{"absent-is-nil", "a lookup that returns nil for a missing key and may return a stored empty value (dao.GetStorageItem, BoltDB bucket Get) is never tested for absence by length", func(c *Ctx) {
				ruleAbsentIsNil(c, "pkg/smartcontract/manifest", "pkg/core/interop/contract", "pkg/core/interop")
			}},
			{"unsigned-window", "an ordering comparison one operand of which is the difference of two non-constant unsigned values (a height minus a window) is made only where the function tests the order of those two values: otherwise the difference wraps around and \"older than the retained window\" holds for every height of a short chain", func(c *Ctx) {
				ruleUnsignedWindow(c, "pkg/smartcontract/manifest", "pkg/core/interop/contract", "pkg/core/interop")
			}},
			{"loop-memo", "a local initialised once inside a loop (if v == nil { v = ... }) and reused by later iterations is not derived from a variable the loop body changes between iterations (a key buffer rewritten per element, a cursor): later iterations would reuse what the first one saw", func(c *Ctx) {
				ruleLoopMemo(c, "pkg/smartcontract/manifest", "pkg/core/interop/contract", "pkg/core/interop")
			}},
			{"enum-switch", "every switch over a module enumeration (named integer type with at least three constants) has a default clause or names every kind: no kind falls through a default-less switch silently", func(c *Ctx) {
				ruleEnumSwitch(c, "pkg/smartcontract/manifest", "pkg/core/interop/contract", "pkg/core/interop")
			}},
			{"loop-accumulator", "a boolean that summarises a loop (some element needs X / all elements satisfy Y) and is read after it is accumulated monotonically - set to a constant, combined with its previous value, assigned under a test of itself, or followed by leaving the loop - never overwritten by the value computed for the current element only", func(c *Ctx) {
				ruleLoopAccumulator(c, "pkg/smartcontract/manifest", "pkg/core/interop/contract", "pkg/core/interop")
			}},
			{"dead-update", "no struct-typed local is assigned and field-updated without ever being read, passed on or returned (a modified copy that is lost while the stale original goes on being used)", func(c *Ctx) {
				ruleDeadUpdate(c, "pkg/smartcontract/manifest", "pkg/core/interop/contract", "pkg/core/interop")
			}},
			{"check-all-loop", "a loop that rejects on a property of each element with an error return is not left early with a break (the elements after it would escape the check)", func(c *Ctx) {
				ruleCheckAllLoop(c, "pkg/smartcontract/manifest", "pkg/core/interop/contract", "pkg/core/interop")
			}},
			{"flags-effects", "for every system call and native-method registration the effects of the handler over the module-restricted call graph (contract-storage write, notification, script load) are covered by the declared required flags (legacy superseded registrations tabled); the payment callback natives issue is charged to the registrations from which a feasible path - boolean arguments and hardfork window taken into account - leads to a mint with the callback switched on", ruleFlagsEffects},
			{"native-flag-check", "native.Call and Context.SyscallHandler invoke the handler only behind the Has(RequiredFlags) test; the historical relaxation is confined to pre-Aspidochelone Management deploy/update", ruleFlagChecks},
			{"scopeless-loader", "a frame loaded by a function that opens no rollback scope for it (System.Runtime.LoadScript) gets flags whose upper bound - constants from the type checker, & intersects, &^ clears - contains neither WriteStates nor AllowNotify: flags only shrink, and a dynamic script is read-only", ruleScopelessLoader},
			{"call-guards", "safe methods are called with write/notify stripped, a deployed caller passes CanCall before a non-safe call, flags given to the loaders are the intersection with the current context's flags, and no other loader site exists in the execution closure", ruleCallGuards},
			{"wild-nonnil", "an explicit (possibly empty) method/trust list is never stored as a possibly-nil slice into a wildcard container, for which nil means wildcard", ruleWildNonNil},
			{"perm-method-check", "every allowing exit of Permission.IsAllowed passes the method-list check, hash/group kinds compare the callee, and switches over the permission kind are exhaustive", rulePermissions},
		},
		NotCovered: "ReadStates (several syscalls check it dynamically), Manifest.CanCall matching semantics beyond the method-list clause, group membership data",
	})
	register(&PropertySpec{
		ID: "C15",
		Rules: []RuleSpec{
			{"err-discipline", "no error returned by a function of the module is discarded (called as a statement or assigned to _) in witness checking, except at the tabled sites whose reason is recorded: a dropped error is a dropped check or a lost write", func(c *Ctx) { ruleErrDiscipline(c, "pkg/core/interop/runtime", "pkg/core/transaction") }},
			{"absent-is-nil", "a lookup that returns nil for a missing key and may return a stored empty value (dao.GetStorageItem, BoltDB bucket Get) is never tested for absence by length", func(c *Ctx) { ruleAbsentIsNil(c, "pkg/core/interop/runtime", "pkg/core/transaction") }},
			{"unsigned-window", "an ordering comparison one operand of which is the difference of two non-constant unsigned values (a height minus a window) is made only where the function tests the order of those two values: otherwise the difference wraps around and \"older than the retained window\" holds for every height of a short chain", func(c *Ctx) { ruleUnsignedWindow(c, "pkg/core/interop/runtime", "pkg/core/transaction") }},
			{"loop-memo", "a local initialised once inside a loop (if v == nil { v = ... }) and reused by later iterations is not derived from a variable the loop body changes between iterations (a key buffer rewritten per element, a cursor): later iterations would reuse what the first one saw", func(c *Ctx) { ruleLoopMemo(c, "pkg/core/interop/runtime", "pkg/core/transaction") }},
			{"enum-switch", "every switch over a module enumeration (named integer type with at least three constants) has a default clause or names every kind: no kind falls through a default-less switch silently", func(c *Ctx) { ruleEnumSwitch(c, "pkg/core/interop/runtime", "pkg/core/transaction") }},
			{"loop-accumulator", "a boolean that summarises a loop (some element needs X / all elements satisfy Y) and is read after it is accumulated monotonically - set to a constant, combined with its previous value, assigned under a test of itself, or followed by leaving the loop - never overwritten by the value computed for the current element only", func(c *Ctx) { ruleLoopAccumulator(c, "pkg/core/interop/runtime", "pkg/core/transaction") }},
			{"dead-update", "no struct-typed local is assigned and field-updated without ever being read, passed on or returned (a modified copy that is lost while the stale original goes on being used)", func(c *Ctx) { ruleDeadUpdate(c, "pkg/core/interop/runtime", "pkg/core/transaction") }},
			{"check-all-loop", "a loop that rejects on a property of each element with an error return is not left early with a break (the elements after it would escape the check)", func(c *Ctx) { ruleCheckAllLoop(c, "pkg/core/interop/runtime", "pkg/core/transaction") }},
			{"cond-tables", "each witness-condition kind is reported by exactly one type; the binary, stack-item and JSON decoders have an arm for every kind constructing that type, reject unknown kinds, and recurse with a strictly decreasing, tested depth", ruleCondTables},
			{"cond-context", "each condition's Match consults exactly the match-context method its kind prescribes; the runtime adapters do not swap calling/current; every allowing exit of checkScope is gated by the account match and by the context test of its scope", ruleCondContext},
		},
		NotCovered: "boolean algebra of And/Or/Not, group lookup data, the calling-hash shortcut's interaction with dynamic scripts",
	})
	register(&PropertySpec{
		ID: "C09",
		Rules: []RuleSpec{
			{"err-discipline", "no error returned by a function of the module is discarded (called as a statement or assigned to _) in the stores and the DAO, except at the tabled sites whose reason is recorded: a dropped error is a dropped check or a lost write", func(c *Ctx) { ruleErrDiscipline(c, "pkg/core/storage", "pkg/core/dao") }},
			{"absent-is-nil", "a lookup that returns nil for a missing key and may return a stored empty value (dao.GetStorageItem, BoltDB bucket Get) is never tested for absence by length", func(c *Ctx) { ruleAbsentIsNil(c, "pkg/core/storage", "pkg/core/dao") }},
			{"unsigned-window", "an ordering comparison one operand of which is the difference of two non-constant unsigned values (a height minus a window) is made only where the function tests the order of those two values: otherwise the difference wraps around and \"older than the retained window\" holds for every height of a short chain", func(c *Ctx) { ruleUnsignedWindow(c, "pkg/core/storage", "pkg/core/dao") }},
			{"loop-memo", "a local initialised once inside a loop (if v == nil { v = ... }) and reused by later iterations is not derived from a variable the loop body changes between iterations (a key buffer rewritten per element, a cursor): later iterations would reuse what the first one saw", func(c *Ctx) { ruleLoopMemo(c, "pkg/core/storage", "pkg/core/dao") }},
			{"enum-switch", "every switch over a module enumeration (named integer type with at least three constants) has a default clause or names every kind: no kind falls through a default-less switch silently", func(c *Ctx) { ruleEnumSwitch(c, "pkg/core/storage", "pkg/core/dao") }},
			{"loop-accumulator", "a boolean that summarises a loop (some element needs X / all elements satisfy Y) and is read after it is accumulated monotonically - set to a constant, combined with its previous value, assigned under a test of itself, or followed by leaving the loop - never overwritten by the value computed for the current element only", func(c *Ctx) { ruleLoopAccumulator(c, "pkg/core/storage", "pkg/core/dao") }},
			{"dead-update", "no struct-typed local is assigned and field-updated without ever being read, passed on or returned (a modified copy that is lost while the stale original goes on being used)", func(c *Ctx) { ruleDeadUpdate(c, "pkg/core/storage", "pkg/core/dao") }},
			{"check-all-loop", "a loop that rejects on a property of each element with an error return is not left early with a break (the elements after it would escape the check)", func(c *Ctx) { ruleCheckAllLoop(c, "pkg/core/storage", "pkg/core/dao") }},
			{"limit-exclusive", "a backend scan loop that admits a key equal to the range limit (the first key after the prefix) also requires the prefix", ruleLimitExclusive},
			{"seek-snapshot-atomic", "a range scan that merges a snapshot of the cache with a scan of the lower store starts the lower scan inside the critical section in which the snapshot was taken (known finding: it does not)", ruleSeekSnapshotAtomic},
			{"vm-bytes-retained", "a system call or native method that keeps bytes taken from a VM item beyond the call (iterator, struct, map) clones them first: a Buffer stays writable by the contract", func(c *Ctx) {
				ruleVMBytesRetained(c, "pkg/core/interop/storage", "pkg/core/interop/runtime", "pkg/core/interop/contract", "pkg/core/interop/iterator", "pkg/core/interop/crypto", "pkg/core/native", "pkg/core/interop")
			}},
			{"flag-guarded-value", "a cursor variable that travels with a validity flag is read only where the flag is known to be true: after the flag went false the variable still holds the element consumed last", func(c *Ctx) { ruleFlagGuardedValue(c, "pkg/core/storage") }},
			{"publish-atomic", "all private layers given to one PersistPrivate call (the block and its state changes) are merged inside one critical section of the store: the lock is taken before the loop over the layers and released after it", rulePublishAtomic},
			{"lock-pairing", "in pkg/core/storage every mutex acquired is released on every exit (conditional wrappers analysed for shared stores; the isSync-correlated unlock/relock of persist included)", func(c *Ctx) { lockPairingPkgs(c, []string{stPkg}, storageAssume, 10) }},
			{"lockset", "every access of mem/stor/ps of a shared MemoryStore/MemCachedStore happens under the store's mutex (write lock for writes) or in a caller-holds-lock function whose call sites hold it; a function that reads a cache map and ps for one answer does so in one critical section; seek gets matching lockers", ruleStoreLockset},
			{"swap-order", "persist replaces mem/stor/ps only under the write lock inside the plock bracket, installs the tempstore before the lower write, restores ps only after it returned, and merges concurrent writes into both old maps on failure", ruleSwapOrder},
			{"stor-routing", "chooseMap routes exactly the contract-storage prefixes to stor; no keyed access to mem/stor bypasses it; GetStorageChanges returns stor", ruleStorRouting},
			{"backend-tx", "every BoltDB/LevelDB mutation happens inside a transaction; a change set is one transaction committed on the success path", ruleBackendTx},
			{"seek-prefix-owned", "a seek range built from the DAO's reusable key buffer is copied before being handed to a seek whose callback may re-enter the DAO", ruleSeekPrefixOwned},
			{"twin-maps", "whatever a store does to one of its twin maps (mem, stor) as a whole - count, copy, merge, replace, hand to the lower store - it does to the other in the same or in a twin statement (three tabled exceptions): no kind of key is lost or resurrected by a flush", ruleTwinMaps},
			{"seek-stop", "once the consumer of a merged range scan has returned false it is never called again: the merge callback records the stop before returning and the tail loop over in-memory items is gated by it", ruleSeekStop},
			{"seek-orientation", "in every store implementation the key filter keeps exactly the keys at or past the start in scan direction, results are sorted by the comparator of that direction, disk iterators step with Next/Prev accordingly, and the backend range is [prefix+start, end of prefix) forward and [prefix, end of prefix+start) backward", func(c *Ctx) { ruleSeekOrientation(c, map[string]bool{"pkg/core/storage": true}) }},
		},
		NotCovered: "the merge algorithm of performSeek, ordering/duplicates across layers, search depth, and the treatment of keys that strictly extend the start point in a backward scan (memory layers drop them, disk ranges keep them: value-level, see DESIGN.md §6)",
	})
	register(&PropertySpec{
		ID: "C01",
		Rules: []RuleSpec{
			{"continuation-fresh-index", "no function literal of a native contract (continuations run after a contract call that can re-enter the native) indexes or slices a native cache slice with a position computed before the literal was created: the cached sorted lists stay in the order a restarted node rebuilds from storage", ruleContinuationFreshIndex},
			{"err-discipline", "no error returned by a function of the module is discarded (called as a statement or assigned to _) in the native contracts, except at the tabled sites whose reason is recorded: a dropped error is a dropped check or a lost write", func(c *Ctx) { ruleErrDiscipline(c, "pkg/core/native", "pkg/core/state") }},
			{"absent-is-nil", "a lookup that returns nil for a missing key and may return a stored empty value (dao.GetStorageItem, BoltDB bucket Get) is never tested for absence by length", func(c *Ctx) { ruleAbsentIsNil(c, "pkg/core/native", "pkg/core/state") }},
			{"unsigned-window", "an ordering comparison one operand of which is the difference of two non-constant unsigned values (a height minus a window) is made only where the function tests the order of those two values: otherwise the difference wraps around and \"older than the retained window\" holds for every height of a short chain", func(c *Ctx) { ruleUnsignedWindow(c, "pkg/core/native", "pkg/core/state") }},
			{"loop-memo", "a local initialised once inside a loop (if v == nil { v = ... }) and reused by later iterations is not derived from a variable the loop body changes between iterations (a key buffer rewritten per element, a cursor): later iterations would reuse what the first one saw", func(c *Ctx) { ruleLoopMemo(c, "pkg/core/native", "pkg/core/state") }},
			{"enum-switch", "every switch over a module enumeration (named integer type with at least three constants) has a default clause or names every kind: no kind falls through a default-less switch silently", func(c *Ctx) { ruleEnumSwitch(c, "pkg/core/native", "pkg/core/state") }},
			{"loop-accumulator", "a boolean that summarises a loop (some element needs X / all elements satisfy Y) and is read after it is accumulated monotonically - set to a constant, combined with its previous value, assigned under a test of itself, or followed by leaving the loop - never overwritten by the value computed for the current element only", func(c *Ctx) { ruleLoopAccumulator(c, "pkg/core/native", "pkg/core/state") }},
			{"dead-update", "no struct-typed local is assigned and field-updated without ever being read, passed on or returned (a modified copy that is lost while the stale original goes on being used)", func(c *Ctx) { ruleDeadUpdate(c, "pkg/core/native", "pkg/core/state") }},
			{"check-all-loop", "a loop that rejects on a property of each element with an error return is not left early with a break (the elements after it would escape the check)", func(c *Ctx) { ruleCheckAllLoop(c, "pkg/core/native", "pkg/core/state") }},
			{"local-option-outcome", "nothing fails (error return, panic) inside a branch taken only when the node-local SaveInvocations option is on", ruleLocalOptionOutcome},
			{"serctx-alias", "the buffer SerializationContext.Serialize returns (valid only until the next Serialize of the same execution) is measured, copied or handed to copying sinks, never kept in a stack item, a struct or a slice", ruleSerCtxAlias},
			{"wild-nonnil", "the stack-item decoder of a manifest - through which a restarted node rebuilds the contracts cache from storage - never turns an explicit (possibly empty) method/trust list into the nil that means wildcard: the running node holds the manifest parsed at deployment, the restarted one what this decoder yields", ruleWildNonNil},
			{"swap-order", "a failed flush puts the old maps back merged with everything written during the flush (both twins), so that however often and whenever the node flushes - successfully or not - no block's storage changes are lost", ruleSwapOrder},
			{"twin-maps", "whatever a store does to one of its twin maps (mem, stor) as a whole it does to the other in the same or in a twin statement: contract storage is flushed, merged and restored together with everything else", ruleTwinMaps},
			{"cache-latest", "whatever fills the RoleManagement cache from storage asks for the newest record (MaxUint32), never for the record in force at the current height: a rebuilt cache equals the cache of the node that executed the designating block", ruleCacheLatest},
			{"context-height", "natives and system calls take the current height and tip hash from the execution context (the height the execution is made for), never from the live ledger: only interop.Context's own accessors read ic.Chain's height", ruleContextHeight},
			{"cache-ro", "no write (field, element, delete/clear/copy, or through a parameter-mutating callee) through a native cache obtained with GetROCache, on any path (isCacheRW idiom handled by boolean correlation)", ruleCacheRO},
			{"det-sources", "no wall clock, random source, environment or scheduler introspection is read in the closure of block processing except for values that flow only into logging/metrics", ruleDetSources},
			{"det-maprange", "every map iteration in the closure of block processing is order-insensitive (keyed updates, or collected then sorted) or tabled with a reason", ruleDetMapRange},
			{"exec-confinement", "in the execution closure no store targets a package-level variable of the module or a field of a native contract object (state outside the DAO layers), one tabled exception", ruleExecConfinement},
			{"ledger-traceable", "every method of the Ledger native that looks a block or transaction up gives data derived from it out only behind isTraceableBlock: the answer does not depend on whether the node is archival or prunes history", ruleLedgerTraceable},
			{"cfg-local", "no field of the node-local configuration (config.Ledger, NeoFS fetchers, ApplicationConfiguration) is read in the execution closure, one tabled exception", ruleCfgLocal},
			{"cache-init", "InitializeCache of every native (transitively) fills every field of its cache from storage, except tabled derived/constant fields", ruleCacheInit},
			{"cache-pairing", "every execution-time function that stores a record InitializeCache reads into a cache field also updates that field ((key, field) pairs derived from the cache builders)", ruleCachePairing},
			{"cache-key-shape", "all keyed accesses of one native cache map use keys of the same shape (none mixes whole prefixed storage keys with prefix-stripped ones)", ruleCacheKeyShape},
			{"derived-invalidation", "every state-changing writer of a cache field that NEO.computeCommitteeMembers reads marks the NEO cache dirty (votesChanged), since the recomputation is skipped otherwise", ruleDerivedInvalidation},
			{"cache-copy", "Copy() of every native cache gives the new DAO layer its own copy of every map/slice/pointer field, except the tabled replace-only fields, which are never modified in place anywhere", ruleCacheCopy},
			{"mpt-reader", "Trie methods read node records only through the mode-aware getFromStore: with state garbage collection (a node-local option) a raw read returns records awaiting collection, so the state transition would depend on the option and on restarts", ruleMPTReader},
		},
		NotCovered: "equality of two replicas is never observed; arithmetic of rewards, epoch boundaries, what InitializeCache computes, flush timing, backend differences, third-party nondeterminism",
	})
	register(&PropertySpec{
		ID: "C10",
		Rules: []RuleSpec{
			{"collapse-owner", "no method of Trie other than Collapse lends the trie's own nodes to code that replaces visited nodes by collapsed hashes, unless it switched collapsing off first: a search never makes unflushed content unreadable", ruleCollapseOwner},
			{"limit-coherence", "the trie's key and value limits (enforced on its read paths only) cover what contract storage accepts on the write path: 4-byte contract id + MaxStorageKeyLen, MaxStorageValueLen", ruleLimitCoherence},
			{"value-absence", "in package mpt a []byte that becomes a leaf value is never tested for absence by its length (nil means absent, an empty value is a stored value)", ruleValueAbsence},
			{"err-discipline", "no error returned by a function of the module is discarded (called as a statement or assigned to _) in package mpt, except at the tabled sites whose reason is recorded: a dropped error is a dropped check or a lost write", func(c *Ctx) { ruleErrDiscipline(c, "pkg/core/mpt") }},
			{"absent-is-nil", "a lookup that returns nil for a missing key and may return a stored empty value (dao.GetStorageItem, BoltDB bucket Get) is never tested for absence by length", func(c *Ctx) { ruleAbsentIsNil(c, "pkg/core/mpt") }},
			{"unsigned-window", "an ordering comparison one operand of which is the difference of two non-constant unsigned values (a height minus a window) is made only where the function tests the order of those two values: otherwise the difference wraps around and \"older than the retained window\" holds for every height of a short chain", func(c *Ctx) { ruleUnsignedWindow(c, "pkg/core/mpt") }},
			{"loop-memo", "a local initialised once inside a loop (if v == nil { v = ... }) and reused by later iterations is not derived from a variable the loop body changes between iterations (a key buffer rewritten per element, a cursor): later iterations would reuse what the first one saw", func(c *Ctx) { ruleLoopMemo(c, "pkg/core/mpt") }},
			{"enum-switch", "every switch over a module enumeration (named integer type with at least three constants) has a default clause or names every kind: no kind falls through a default-less switch silently", func(c *Ctx) { ruleEnumSwitch(c, "pkg/core/mpt") }},
			{"loop-accumulator", "a boolean that summarises a loop (some element needs X / all elements satisfy Y) and is read after it is accumulated monotonically - set to a constant, combined with its previous value, assigned under a test of itself, or followed by leaving the loop - never overwritten by the value computed for the current element only", func(c *Ctx) { ruleLoopAccumulator(c, "pkg/core/mpt") }},
			{"dead-update", "no struct-typed local is assigned and field-updated without ever being read, passed on or returned (a modified copy that is lost while the stale original goes on being used)", func(c *Ctx) { ruleDeadUpdate(c, "pkg/core/mpt") }},
			{"check-all-loop", "a loop that rejects on a property of each element with an error return is not left early with a break (the elements after it would escape the check)", func(c *Ctx) { ruleCheckAllLoop(c, "pkg/core/mpt") }},
			{"copy-complete", "Clone of every trie node kind starts from the whole node or names every field (a restored node that lost a field hashes differently)", func(c *Ctx) { ruleCopyComplete(c, 4, "pkg/core/mpt") }},
			{"record-kind", "every function that decodes a trie node record (from the store, from a proof, from a peer) refuses the child-only kinds - hash node and empty node - before it uses the node: an empty record panics, a hash-node record makes the loaded node point at itself", func(c *Ctx) { ruleRecordKind(c, "pkg/core/mpt") }},
			{"ext-next", "whatever the structural code of the trie places under a new extension node (NewExtensionNode, newSubTrie) is known not to be an extension or empty: a concrete leaf/branch, the next of an existing extension, guarded by a failed extension assertion, or a parameter all of whose callers qualify; results of restructuring calls go through mergeExtension", ruleExtNext},
			{"historic-root", "the read-only tries and trie stores opened over an earlier root (state reads, range searches, proofs) use the store owner's record layout with nothing but the GC flag cleared: a proof built by a trie that does not cut the reference-count suffix off carries five extra bytes per item and does not verify", ruleHistoricRoot},
			{"proof-key", "VerifyProof walks from NewHashNode(root) over a store of its own in strict mode, and stores every proof element under the double-SHA256 of that very element", ruleProofKey},
			{"node-switch", "type switches dispatching over trie node kinds cover all five kinds or fail in their default arm", ruleNodeSwitch},
			{"append-alias", "no append(node.field, ...) in package mpt whose result leaves the field (it would write into the spare capacity a node key shares with the path/batch array it was sliced from)", ruleAppendAlias},
			{"mpt-reader", "Trie methods read node records only through the mode-aware getFromStore (reads after reload agree with content in every trie mode)", ruleMPTReader},
			{"rc-writers", "node records reach the store only through the tabled count-folding writers, and the counter folded by Flush becomes the base of the next flush (a node still referenced is never deleted, so reads after reload agree with content)", ruleRCWriters},
			{"seek-orientation", "ordered range searches over the trie (Trie.Find, TrieStore.Seek, Billet.traverse) skip a subtree exactly when it lies before the start in scan direction, and visit children in scan order with the node's own value first (forward) or last (backward)", func(c *Ctx) { ruleSeekOrientation(c, map[string]bool{"pkg/core/mpt": true}) }},
		},
		NotCovered: "history independence as such, batch/restructuring correctness, completeness of proofs; of ordered traversal only the direction/start truth tables and the visiting order are decided",
	})
	register(&PropertySpec{
		ID: "C11",
		Rules: []RuleSpec{
			{"rollback-rc", "the working trie is moved back to an earlier root only where node records are rewound too or the ledger refuses the reset in every reference-counting mode: records left as they are describe the abandoned top state", ruleRollbackRC},
			{"err-discipline", "no error returned by a function of the module is discarded (called as a statement or assigned to _) in the trie and state-root packages, except at the tabled sites whose reason is recorded: a dropped error is a dropped check or a lost write", func(c *Ctx) { ruleErrDiscipline(c, "pkg/core/mpt", "pkg/core/stateroot") }},
			{"absent-is-nil", "a lookup that returns nil for a missing key and may return a stored empty value (dao.GetStorageItem, BoltDB bucket Get) is never tested for absence by length", func(c *Ctx) { ruleAbsentIsNil(c, "pkg/core/mpt", "pkg/core/stateroot") }},
			{"unsigned-window", "an ordering comparison one operand of which is the difference of two non-constant unsigned values (a height minus a window) is made only where the function tests the order of those two values: otherwise the difference wraps around and \"older than the retained window\" holds for every height of a short chain", func(c *Ctx) { ruleUnsignedWindow(c, "pkg/core/mpt", "pkg/core/stateroot") }},
			{"loop-memo", "a local initialised once inside a loop (if v == nil { v = ... }) and reused by later iterations is not derived from a variable the loop body changes between iterations (a key buffer rewritten per element, a cursor): later iterations would reuse what the first one saw", func(c *Ctx) { ruleLoopMemo(c, "pkg/core/mpt", "pkg/core/stateroot") }},
			{"enum-switch", "every switch over a module enumeration (named integer type with at least three constants) has a default clause or names every kind: no kind falls through a default-less switch silently", func(c *Ctx) { ruleEnumSwitch(c, "pkg/core/mpt", "pkg/core/stateroot") }},
			{"loop-accumulator", "a boolean that summarises a loop (some element needs X / all elements satisfy Y) and is read after it is accumulated monotonically - set to a constant, combined with its previous value, assigned under a test of itself, or followed by leaving the loop - never overwritten by the value computed for the current element only", func(c *Ctx) { ruleLoopAccumulator(c, "pkg/core/mpt", "pkg/core/stateroot") }},
			{"dead-update", "no struct-typed local is assigned and field-updated without ever being read, passed on or returned (a modified copy that is lost while the stale original goes on being used)", func(c *Ctx) { ruleDeadUpdate(c, "pkg/core/mpt", "pkg/core/stateroot") }},
			{"check-all-loop", "a loop that rejects on a property of each element with an error return is not left early with a break (the elements after it would escape the check)", func(c *Ctx) { ruleCheckAllLoop(c, "pkg/core/mpt", "pkg/core/stateroot") }},
			{"mpt-reader", "Trie methods read node records only through the mode-aware getFromStore, which reports inactive records as (nil, not found); the reference-count suffix is written and read in one format", ruleMPTReader},
			{"store-value-immutable", "Trie methods never modify in place a slice obtained from the store (counter updates work on a copy), so a trie computed over a private layer and dropped leaves stored records untouched", ruleStoreValueImmutable},
			{"rc-loaded", "a node a Trie method loads from the store while restructuring is either handed on / embedded / returned as a whole or released with removeRef on every path that returns normally (a replaced node is never left counted)", ruleRCLoaded},
			{"trie-copy-shares", "a value copy of a Trie shares the node objects and the pending-count map with the original: it is not mutated through (PutBatch, Put, Delete, Flush, Collapse) - a block computed on such a copy and dropped would leave the installed trie restructured and re-counted", ruleTrieCopyShares},
			{"record-layout-agreement", "every trie mode that state synchronisation computes from KeepOnlyLatestState / RemoveUntraceableBlocks has the reference-counting bit of the state-root module's mode for all four combinations: the synchronised records are read by that module after the jump", ruleRecordLayoutAgreement},
			{"rc-curr-released", "every structural function of the trie that receives a counted leaf, branch or extension releases it (removeRef), keeps it whole or hands it on whole on every normally returning path", ruleRCCurrReleased},
			{"multimap-merge", "the paths of the children of a restored node are accumulated over all paths of the node (appended, never replaced): descendants of a subtree that hangs off the trie twice are restored and counted once per path", func(c *Ctx) { ruleMultimapMerge(c, "pkg/core/statesync", "pkg/core/mpt") }},
			{"rc-writers", "node records reach the store only through the tabled count-folding writers; the GC pass deletes a record only if it is inactive and not newer than the GC height", ruleRCWriters},
			{"working-trie", "the state-root module's working trie (the one flushed to the database) is opened on every (re)initialisation, jump and reset with the module's unmasked mode over the module's own store, and a flush stamps nodes with the index of the block whose root record is written", ruleWorkingTrie},
		},
		NotCovered: "that counts equal occurrences (pairing per operation is not the global sum), the shared refcount map across per-block copies, Billet's restore counts",
	})
	register(&PropertySpec{
		ID: "C05",
		Rules: []RuleSpec{
			{"err-discipline", "no error returned by a function of the module is discarded (called as a statement or assigned to _) in the native contracts, except at the tabled sites whose reason is recorded: a dropped error is a dropped check or a lost write", func(c *Ctx) { ruleErrDiscipline(c, "pkg/core/native", "pkg/core/state") }},
			{"absent-is-nil", "a lookup that returns nil for a missing key and may return a stored empty value (dao.GetStorageItem, BoltDB bucket Get) is never tested for absence by length", func(c *Ctx) { ruleAbsentIsNil(c, "pkg/core/native", "pkg/core/state") }},
			{"unsigned-window", "an ordering comparison one operand of which is the difference of two non-constant unsigned values (a height minus a window) is made only where the function tests the order of those two values: otherwise the difference wraps around and \"older than the retained window\" holds for every height of a short chain", func(c *Ctx) { ruleUnsignedWindow(c, "pkg/core/native", "pkg/core/state") }},
			{"loop-memo", "a local initialised once inside a loop (if v == nil { v = ... }) and reused by later iterations is not derived from a variable the loop body changes between iterations (a key buffer rewritten per element, a cursor): later iterations would reuse what the first one saw", func(c *Ctx) { ruleLoopMemo(c, "pkg/core/native", "pkg/core/state") }},
			{"enum-switch", "every switch over a module enumeration (named integer type with at least three constants) has a default clause or names every kind: no kind falls through a default-less switch silently", func(c *Ctx) { ruleEnumSwitch(c, "pkg/core/native", "pkg/core/state") }},
			{"loop-accumulator", "a boolean that summarises a loop (some element needs X / all elements satisfy Y) and is read after it is accumulated monotonically - set to a constant, combined with its previous value, assigned under a test of itself, or followed by leaving the loop - never overwritten by the value computed for the current element only", func(c *Ctx) { ruleLoopAccumulator(c, "pkg/core/native", "pkg/core/state") }},
			{"dead-update", "no struct-typed local is assigned and field-updated without ever being read, passed on or returned (a modified copy that is lost while the stale original goes on being used)", func(c *Ctx) { ruleDeadUpdate(c, "pkg/core/native", "pkg/core/state") }},
			{"check-all-loop", "a loop that rejects on a property of each element with an error return is not left early with a break (the elements after it would escape the check)", func(c *Ctx) { ruleCheckAllLoop(c, "pkg/core/native", "pkg/core/state") }},
			{"vote-deposit-flow", "a non-zero balance change of a voting account passes modifyVoterTurnout on every successful path; every path of Notary.onPayment to the stored deposit adds the received amount", ruleVoteAndDepositFlow},
			{"amount-exact", "the deltas handed to the balance updaters never pass through big.Int.Int64/Uint64: debit and credit of one movement use the same arbitrary-precision amount", ruleAmountExact},
			{"token-writers", "account balances, total supply, voters count, candidate records and notary deposits are written only by the tabled functions that keep them consistent; saveTotalSupply runs only inside addTokens; a stored candidate record is never replaced by a blank one", ruleTokenWriters},
			{"amount-immutable", "no native function leaves a *big.Int parameter modified: in-place negation is flipped back on every path, no other mutator has a parameter as receiver (the amount of an already emitted Transfer event is the same integer)", ruleAmountImmutable},
		},
		NotCovered: "the sums themselves; reward distribution; anything numeric",
	})
	register(&PropertySpec{
		ID: "C19",
		Rules: []RuleSpec{
			{"tx-compatible", "AddBlock and the consensus service's verifyBlock reject a block in which a transaction names another transaction of the same block in a Conflicts attribute, by a check of their own: the scratch pool both use replaces the named transaction instead of failing", ruleTxCompatible},
			{"revalidate-covers-admission", "every admission check of verifyAndPoolTx that reads chain state is repeated by IsTxStillRelevant, the filter the pool goes through after every block, on every path that answers true: pooled transactions are not verified again when they come in a block, so the pool must hold valid transactions at every height", ruleRevalidateCoversAdmission},
			{"epoch-mirror", "the list of allowed extensible senders, the ledger's mirror of NEO's next block validators, is rebuilt for exactly the block indices at which NEO.OnPersist replaces them: consensus payloads of newly elected validators are admitted from the first block of their epoch", ruleEpochMirror},
			{"err-discipline", "no error returned by a function of the module is discarded (called as a statement or assigned to _) in the consensus service, except at the tabled sites whose reason is recorded: a dropped error is a dropped check or a lost write", func(c *Ctx) { ruleErrDiscipline(c, "pkg/consensus") }},
			{"absent-is-nil", "a lookup that returns nil for a missing key and may return a stored empty value (dao.GetStorageItem, BoltDB bucket Get) is never tested for absence by length", func(c *Ctx) { ruleAbsentIsNil(c, "pkg/consensus") }},
			{"unsigned-window", "an ordering comparison one operand of which is the difference of two non-constant unsigned values (a height minus a window) is made only where the function tests the order of those two values: otherwise the difference wraps around and \"older than the retained window\" holds for every height of a short chain", func(c *Ctx) { ruleUnsignedWindow(c, "pkg/consensus") }},
			{"loop-memo", "a local initialised once inside a loop (if v == nil { v = ... }) and reused by later iterations is not derived from a variable the loop body changes between iterations (a key buffer rewritten per element, a cursor): later iterations would reuse what the first one saw", func(c *Ctx) { ruleLoopMemo(c, "pkg/consensus") }},
			{"enum-switch", "every switch over a module enumeration (named integer type with at least three constants) has a default clause or names every kind: no kind falls through a default-less switch silently", func(c *Ctx) { ruleEnumSwitch(c, "pkg/consensus") }},
			{"loop-accumulator", "a boolean that summarises a loop (some element needs X / all elements satisfy Y) and is read after it is accumulated monotonically - set to a constant, combined with its previous value, assigned under a test of itself, or followed by leaving the loop - never overwritten by the value computed for the current element only", func(c *Ctx) { ruleLoopAccumulator(c, "pkg/consensus") }},
			{"dead-update", "no struct-typed local is assigned and field-updated without ever being read, passed on or returned (a modified copy that is lost while the stale original goes on being used)", func(c *Ctx) { ruleDeadUpdate(c, "pkg/consensus") }},
			{"check-all-loop", "a loop that rejects on a property of each element with an error return is not left early with a break (the elements after it would escape the check)", func(c *Ctx) { ruleCheckAllLoop(c, "pkg/consensus") }},
			{"codec-guards", "where the encoder and the decoder of one consensus message both guard wire operations by comparing the same field with constants (the change-view reason), the two sets of constants agree", ruleCodecGuards},
			{"decode-context", "a decoder of a consensus message whose wire shape depends on the state-root flag hands the flag on to every nested context-dependent value it creates", ruleDecodeContext},
			{"context-construction", "every place of the node that builds a value whose wire shape depends on a context field (block.Header.StateRootEnabled, the consensus state-root flags) sets that field, in the literal or by an assignment in the same function (one tabled exception)", ruleContextConstruction},
			{"threshold-family", "no multisignature script with the committee (majority) threshold is built over a validator list: NextConsensus and block witnesses use the BFT threshold, and the two formulas agree only for 1, 2 and 4 keys", ruleThresholdFamily},
			{"proposal-dominators", "verifyBlock accepts only behind the height/timestamp/size/system-fee checks and per-transaction verification; verifyRequest only behind prev-hash/version/state-root/count checks; the block witness takes commits of the current view only, in validator order; the proposed transaction set is cut after (not before) adding the transaction that overflows a limit", ruleProposalDominators},
			{"loop-confinement", "dBFT state and the service's loop-owned fields are not touched by anything reachable from the methods other goroutines call (OnPayload, OnTransaction, Shutdown, Name)", ruleLoopConfinement},
		},
		NotCovered: "agreement and liveness — entirely; they live in nspcc-dev/dbft and in message timing",
	})
	register(&PropertySpec{
		ID: "C17",
		Rules: []RuleSpec{
			{"varsize-arg-types", "every call of io.GetVarSize passes a value of a shape the reflection-based implementation has an arm for; a slice of structs that are Serializable only through pointer receivers counts only if the implementation takes element addresses: the size reported for a value equals the length of its encoding", ruleVarSizeArgTypes},
			{"err-discipline", "no error returned by a function of the module is discarded (called as a statement or assigned to _) in the codecs, except at the tabled sites whose reason is recorded: a dropped error is a dropped check or a lost write", func(c *Ctx) {
				ruleErrDiscipline(c, "pkg/io", "pkg/core/transaction", "pkg/core/block", "pkg/network/payload", "pkg/vm/stackitem", "pkg/core/state")
			}},
			{"absent-is-nil", "a lookup that returns nil for a missing key and may return a stored empty value (dao.GetStorageItem, BoltDB bucket Get) is never tested for absence by length", func(c *Ctx) {
				ruleAbsentIsNil(c, "pkg/io", "pkg/core/transaction", "pkg/core/block", "pkg/network/payload", "pkg/vm/stackitem", "pkg/core/state")
			}},
			{"unsigned-window", "an ordering comparison one operand of which is the difference of two non-constant unsigned values (a height minus a window) is made only where the function tests the order of those two values: otherwise the difference wraps around and \"older than the retained window\" holds for every height of a short chain", func(c *Ctx) {
				ruleUnsignedWindow(c, "pkg/io", "pkg/core/transaction", "pkg/core/block", "pkg/network/payload", "pkg/vm/stackitem", "pkg/core/state")
			}},
			{"loop-memo", "a local initialised once inside a loop (if v == nil { v = ... }) and reused by later iterations is not derived from a variable the loop body changes between iterations (a key buffer rewritten per element, a cursor): later iterations would reuse what the first one saw", func(c *Ctx) {
				ruleLoopMemo(c, "pkg/io", "pkg/core/transaction", "pkg/core/block", "pkg/network/payload", "pkg/vm/stackitem", "pkg/core/state")
			}},
			{"enum-switch", "every switch over a module enumeration (named integer type with at least three constants) has a default clause or names every kind: no kind falls through a default-less switch silently", func(c *Ctx) {
				ruleEnumSwitch(c, "pkg/io", "pkg/core/transaction", "pkg/core/block", "pkg/network/payload", "pkg/vm/stackitem", "pkg/core/state")
			}},
			{"loop-accumulator", "a boolean that summarises a loop (some element needs X / all elements satisfy Y) and is read after it is accumulated monotonically - set to a constant, combined with its previous value, assigned under a test of itself, or followed by leaving the loop - never overwritten by the value computed for the current element only", func(c *Ctx) {
				ruleLoopAccumulator(c, "pkg/io", "pkg/core/transaction", "pkg/core/block", "pkg/network/payload", "pkg/vm/stackitem", "pkg/core/state")
			}},
			{"dead-update", "no struct-typed local is assigned and field-updated without ever being read, passed on or returned (a modified copy that is lost while the stale original goes on being used)", func(c *Ctx) {
				ruleDeadUpdate(c, "pkg/io", "pkg/core/transaction", "pkg/core/block", "pkg/network/payload", "pkg/vm/stackitem", "pkg/core/state")
			}},
			{"check-all-loop", "a loop that rejects on a property of each element with an error return is not left early with a break (the elements after it would escape the check)", func(c *Ctx) {
				ruleCheckAllLoop(c, "pkg/io", "pkg/core/transaction", "pkg/core/block", "pkg/network/payload", "pkg/vm/stackitem", "pkg/core/state")
			}},
			{"attr-budget", "the transaction decoder limits the attribute count by MaxAttributes less the signers count", ruleAttrBudget},
			{"context-construction", "every place of the node that builds a value whose wire shape depends on a context field (block.Header.StateRootEnabled, the consensus state-root flags) sets that field, in the literal or by an assignment in the same function (one tabled exception)", ruleContextConstruction},
			{"hash-canonical", "every cached identity (hash/size of transaction, header, extensible, notary request) is computed from the node's own encoding, or from received bytes only if the length decoder rejects non-minimal encodings", ruleHashCanonical},
			{"copy-complete", "a Copy method of a wire type (transaction parts, P2P payloads) that builds its result field by field names every field of the struct, or the field is tabled as a lazily recomputed cache: a copy that is encoded must give the bytes of the original", func(c *Ctx) { ruleCopyComplete(c, 12, "pkg/core/transaction", "pkg/network/payload") }},
			{"codec-fields", "for every struct type with both halves of a codec family (binary, JSON, stack item) the fields the encoder reads and the fields the decoder restores are the same set, except for tabled asymmetries (cached identities, context carried by the enclosing message): a field written out and never restored is lost by a round trip", ruleCodecFields},
			{"record-kind", "every function that decodes a trie node record (from the store, from a proof, from a peer) refuses the child-only kinds - hash node and empty node - before it uses the node: an empty record panics, a hash-node record makes the loaded node point at itself", func(c *Ctx) { ruleRecordKind(c, "pkg/core/mpt", "pkg/core/statesync") }},
			{"serctx-alias", "the buffer SerializationContext.Serialize returns (valid only until the next Serialize of the same execution) is measured, copied or handed to copying sinks, never kept in a stack item, a struct or a slice", ruleSerCtxAlias},
			{"sticky-error", "a decoder assigns the (possibly nil) result of a validation or hashing call to its reader's Err only behind a test of that Err: the first decoding error is never replaced", ruleStickyError},
			{"encode-pure", "no encoder (binary, JSON, stack item) assigns a field of the value it encodes, tabled caches excepted: encoding does not change the value", ruleEncodePure},
			{"array-max", "every ReadArray of the node's decoders passes the maximum its format allows (ReadArray allocates for the announced count before reading an element); database-only readers are tabled", ruleArrayMax},
			{"decoded-loop", "a loop whose trip count was read from the input is entered only behind an ordering comparison of the count with a limit, or leaves as soon as the reader has failed", ruleDecodedLoop},
			{"limit-used", "every maximum a wire package declares (Max*/max* constant) is mentioned by non-test code of the module: a declared bound that nothing enforces leaves the decoder with the reader's defaults", func(c *Ctx) {
				ruleLimitUsed(c, "pkg/io", "pkg/network", "pkg/network/payload", "pkg/network/capability", "pkg/consensus", "pkg/core/transaction", "pkg/core/block", "pkg/core/state", "pkg/core/mpt", "pkg/smartcontract/nef", "pkg/smartcontract/manifest", "pkg/vm/stackitem", "pkg/core/interop/runtime", "pkg/config/limits")
			}},
			{"param-used", "in the wire packages every named parameter of a size-reporting function (name contains Size, integer result, signature not imposed by an interface) is used by the body: a size computed without the value the caller asked about is the size of something else", func(c *Ctx) {
				ruleParamUsed(c, "pkg/core/block", "pkg/core/transaction", "pkg/network/payload", "pkg/network", "pkg/io", "pkg/core/state", "pkg/consensus", "pkg/smartcontract/nef", "pkg/smartcontract/manifest", "pkg/vm/stackitem", "pkg/core/mpt")
			}},
			{"codec-symmetry", "for every type with EncodeBinary and DecodeBinary the sequences of wire primitives on the writer/reader agree token by token when both are straight-line; otherwise the sets of primitive kinds agree", ruleCodecSymmetry},
			{"codec-guards", "where the encoder and the decoder of one type both guard wire operations by comparing the same field with constants, the two sets of constants agree", ruleCodecGuards},
			{"decode-context", "a decoder of a type whose wire shape depends on a context field (read, never assigned by its DecodeBinary: the consensus state-root flag) hands the context on to every nested value of a context-dependent type it creates", ruleDecodeContext},
			{"compress-frame", "the destination of lz4.CompressBlock is sized by lz4.CompressBlockBound of the same source (otherwise incompressible input is silently sent as an empty body); the buffer of lz4.UncompressBlock has a bounded announced size and the produced size is compared with it", ruleCompressFrame},
			{"decoder-panics", "no function reachable (resolved call graph) from a binary decoder - every DecodeBinary method, stackitem.Deserialize* - contains an explicit panic, except at tabled sites only a programming error can reach", ruleDecoderPanics},
			{"bounded-alloc", "in every binary decoder a make() sized by a decoded integer is gated by an ordering comparison of that integer", ruleBoundedAlloc},
			{"varint-agreement", "the variable-length integer writer (io.PutVarUint), the length-prefix estimator called by io.GetVarSize and the reader (ReadVarUint), folded over the source for the sixteen values around the format's borders, agree: the writer's width is the minimal one, the estimator returns the same width, the reader takes after each prefix the payload the writer puts", ruleVarintAgreement},
			{"signed-count", "a count decoded as a 64-bit unsigned integer is compared with its limit before it is converted to a signed type, or the signed value is tested against zero: otherwise 2^64-1 becomes -1 and passes every upper-bound test (panic in make, silently empty loop, reader maximum switched off)", ruleSignedCount},
			{"wild-nonnil", "the stack-item and JSON decoders of a manifest never turn an explicit (possibly empty) method/trust list into the nil that means wildcard, so a stored manifest decodes to what was encoded", ruleWildNonNil},
			{"depth-guard", "recursive witness-condition decoders (binary, stack item, JSON) test their depth parameter and pass a strictly smaller one on every recursive step", func(c *Ctx) { ruleDepthGuard(c) }},
		},
		NotCovered: "JSON round trips, Size() equality, value equality after decode, hangs",
	})
	register(&PropertySpec{
		ID: "C07",
		Rules: []RuleSpec{
			{"revalidate-covers-admission", "every admission check of verifyAndPoolTx that reads chain state is repeated by IsTxStillRelevant, the filter the pool goes through after every block, on every path that answers true: pooled transactions are not verified again when they come in a block, so the pool must hold valid transactions at every height", ruleRevalidateCoversAdmission},
			{"err-discipline", "no error returned by a function of the module is discarded (called as a statement or assigned to _) in transaction admission (pkg/core, mempool, transaction, fee), except at the tabled sites whose reason is recorded: a dropped error is a dropped check or a lost write", func(c *Ctx) {
				ruleErrDiscipline(c, "pkg/core", "pkg/core/mempool", "pkg/core/transaction", "pkg/core/fee")
			}},
			{"absent-is-nil", "a lookup that returns nil for a missing key and may return a stored empty value (dao.GetStorageItem, BoltDB bucket Get) is never tested for absence by length", func(c *Ctx) {
				ruleAbsentIsNil(c, "pkg/core", "pkg/core/mempool", "pkg/core/transaction", "pkg/core/fee")
			}},
			{"unsigned-window", "an ordering comparison one operand of which is the difference of two non-constant unsigned values (a height minus a window) is made only where the function tests the order of those two values: otherwise the difference wraps around and \"older than the retained window\" holds for every height of a short chain", func(c *Ctx) {
				ruleUnsignedWindow(c, "pkg/core", "pkg/core/mempool", "pkg/core/transaction", "pkg/core/fee")
			}},
			{"loop-memo", "a local initialised once inside a loop (if v == nil { v = ... }) and reused by later iterations is not derived from a variable the loop body changes between iterations (a key buffer rewritten per element, a cursor): later iterations would reuse what the first one saw", func(c *Ctx) { ruleLoopMemo(c, "pkg/core", "pkg/core/mempool", "pkg/core/transaction", "pkg/core/fee") }},
			{"enum-switch", "every switch over a module enumeration (named integer type with at least three constants) has a default clause or names every kind: no kind falls through a default-less switch silently", func(c *Ctx) {
				ruleEnumSwitch(c, "pkg/core", "pkg/core/mempool", "pkg/core/transaction", "pkg/core/fee")
			}},
			{"loop-accumulator", "a boolean that summarises a loop (some element needs X / all elements satisfy Y) and is read after it is accumulated monotonically - set to a constant, combined with its previous value, assigned under a test of itself, or followed by leaving the loop - never overwritten by the value computed for the current element only", func(c *Ctx) {
				ruleLoopAccumulator(c, "pkg/core", "pkg/core/mempool", "pkg/core/transaction", "pkg/core/fee")
			}},
			{"dead-update", "no struct-typed local is assigned and field-updated without ever being read, passed on or returned (a modified copy that is lost while the stale original goes on being used)", func(c *Ctx) {
				ruleDeadUpdate(c, "pkg/core", "pkg/core/mempool", "pkg/core/transaction", "pkg/core/fee")
			}},
			{"check-all-loop", "a loop that rejects on a property of each element with an error return is not left early with a break (the elements after it would escape the check)", func(c *Ctx) {
				ruleCheckAllLoop(c, "pkg/core", "pkg/core/mempool", "pkg/core/transaction", "pkg/core/fee")
			}},
			{"attr-budget", "the transaction decoder limits the attribute count by MaxAttributes less the signers count (the decoder is the only place that enforces the combined limit)", ruleAttrBudget},
			{"context-construction", "every place of the node that builds a value whose wire shape depends on a context field (block.Header.StateRootEnabled, the consensus state-root flags) sets that field, in the literal or by an assignment in the same function (one tabled exception)", ruleContextConstruction},
			{"attr-exhaustive", "every attribute kind has an arm in the binary decoder, the encoder and verifyTxAttributes; decoder and encoder reject unknown kinds", ruleAttrExhaustive},
			{"hash-canonical", "a cached identity (hash/size) is computed from the node's own encoding, or from received bytes only if the length decoder rejects non-minimal encodings (the same content must be the same transaction in every accepted encoding)", ruleHashCanonical},
			{"commit-point", "the main mempool is refreshed against the new ledger - after the block was published and the height advanced - so that a transaction expiring with the block does not stay pooled (blocks proposed from the pool are accepted by the ledger)", ruleCommitPoint},
			{"proposal-dominators", "ApplyPolicyToTxSet cuts the set where a block limit would be exceeded, testing the limits after adding the transaction that overflows them; the verifying side treats the limits as inclusive", ruleProposalDominators},
			{"jump-opcode-agreement", "the script check applied on admission (transaction script and witness scripts) records as jump targets the operands of exactly the opcodes the interpreter jumps by, and its boundary test gates its success exit", ruleJumpAgreement},
			{"conflict-records", "every iteration of StoreAsTransaction that writes per-signer conflict records rewrites the stub under the conflicting hash first (HasTransaction trusts the stub's height); the witness budget verifyTxWitnesses computes for re-verification subtracts what admission subtracts (size part and attribute fees)", ruleConflictStubAndBudget},
			{"admit-dominators", "every admission check of verifyAndPoolTx (script, expiry, VUB window, policy, size, network fee, on-chain/conflict record, witnesses with the remaining fee, attributes) gates pool.Add on every CFG path", ruleAdmitDominators},
		},
		NotCovered: "the exact fee threshold (arithmetic), witness costs, block packing sizes, proposal validity after a wire round trip",
	})
	register(&PropertySpec{
		ID: "C08",
		Rules: []RuleSpec{
			{"sum-over-set", "a pooled transaction gets into the list of transactions to be replaced once, however often it is named: every append to a local slice that the function later sums over (fees to outbid, fees credited to the payer) sits behind a membership test on that slice", ruleSumOverSet},
			{"err-discipline", "no error returned by a function of the module is discarded (called as a statement or assigned to _) in the mempool, except at the tabled sites whose reason is recorded: a dropped error is a dropped check or a lost write", func(c *Ctx) { ruleErrDiscipline(c, "pkg/core/mempool") }},
			{"absent-is-nil", "a lookup that returns nil for a missing key and may return a stored empty value (dao.GetStorageItem, BoltDB bucket Get) is never tested for absence by length", func(c *Ctx) { ruleAbsentIsNil(c, "pkg/core/mempool") }},
			{"unsigned-window", "an ordering comparison one operand of which is the difference of two non-constant unsigned values (a height minus a window) is made only where the function tests the order of those two values: otherwise the difference wraps around and \"older than the retained window\" holds for every height of a short chain", func(c *Ctx) { ruleUnsignedWindow(c, "pkg/core/mempool") }},
			{"loop-memo", "a local initialised once inside a loop (if v == nil { v = ... }) and reused by later iterations is not derived from a variable the loop body changes between iterations (a key buffer rewritten per element, a cursor): later iterations would reuse what the first one saw", func(c *Ctx) { ruleLoopMemo(c, "pkg/core/mempool") }},
			{"enum-switch", "every switch over a module enumeration (named integer type with at least three constants) has a default clause or names every kind: no kind falls through a default-less switch silently", func(c *Ctx) { ruleEnumSwitch(c, "pkg/core/mempool") }},
			{"loop-accumulator", "a boolean that summarises a loop (some element needs X / all elements satisfy Y) and is read after it is accumulated monotonically - set to a constant, combined with its previous value, assigned under a test of itself, or followed by leaving the loop - never overwritten by the value computed for the current element only", func(c *Ctx) { ruleLoopAccumulator(c, "pkg/core/mempool") }},
			{"dead-update", "no struct-typed local is assigned and field-updated without ever being read, passed on or returned (a modified copy that is lost while the stale original goes on being used)", func(c *Ctx) { ruleDeadUpdate(c, "pkg/core/mempool") }},
			{"check-all-loop", "a loop that rejects on a property of each element with an error return is not left early with a break (the elements after it would escape the check)", func(c *Ctx) { ruleCheckAllLoop(c, "pkg/core/mempool") }},
			{"fee-sum-cumulative", "the total checkBalance returns on success derives from the payer's previous pooled total: RemoveStale rebuilds the per-payer sums from it", ruleFeeSumCumulative},
			{"lock-pairing", "in pkg/core/mempool every mutex acquired is released on every exit of every function (defer-aware, boolean-correlated), never released unheld, never re-acquired while held", func(c *Ctx) { lockPairingPkgs(c, []string{"pkg/core/mempool"}, nil, 10) }},
			{"add-failure-atomic", "no write to verifiedMap/verifiedTxes/fees/conflicts/oracleResp (direct or through a Pool method) lies on a CFG path to a non-nil error return of Pool.Add or checkTxConflicts (tabled: removal before the infeasible capacity exit; balance-cache fill)", ruleAddFailureAtomic},
			{"index-comaintenance", "every removal/insertion path of the pool updates all five indexes, and fee credits in conflict resolution are gated by payer equality", ruleIndexComaintenance},
			{"single-comparator", "the priority fields of two transactions (network fee, fee per byte) are compared only inside item.Compare (one tabled exception: the oracle-response replacement rule): no second, partial order decides a placement or an eviction", ruleSingleComparator},
			{"index-fresh", "a position computed on verifiedTxes (sort.Search/len/range index) is never used after a call that may restructure the slice", ruleIndexFresh},
			{"comparator-keys", "the pool comparator compares Transaction.FeePerByte of both sides, then NetworkFee of both sides", ruleComparatorKeys},
			{"tautology", "no comparison of a side-effect-free expression with itself anywhere in the module (==, Equals, Cmp, bytes.Equal, ...)", ruleTautology},
		},
		NotCovered: "ordering by priority, capacity arithmetic, eviction of the lowest entry only, total-order properties of the comparison",
	})
}
