package main

func init() {
	register(&PropertySpec{
		ID: "C06",
		Rules: []RuleSpec{
			{"accept-dominators", "every acceptance check (index, state-root setting, header link/verification, Merkle root, per-transaction verification; header chain checks and witness against the previous NextConsensus) gates storeBlock / HeaderHashes.addHeaders on every CFG path", ruleAcceptDominators},
		},
		NotCovered: "that each check computes the right thing; witness VM semantics; that the correct block is still accepted afterwards",
	})
	register(&PropertySpec{
		ID: "C07",
		Rules: []RuleSpec{
			{"admit-dominators", "every admission check of verifyAndPoolTx (script, expiry, VUB window, policy, size, network fee, on-chain/conflict record, witnesses with the remaining fee, attributes) gates pool.Add on every CFG path", ruleAdmitDominators},
		},
		NotCovered: "the exact fee threshold (arithmetic), witness costs, block packing sizes, proposal validity after a wire round trip",
	})
	register(&PropertySpec{
		ID: "C08",
		Rules: []RuleSpec{
			{"tautology", "no comparison of a side-effect-free expression with itself anywhere in the module (==, Equals, Cmp, bytes.Equal, ...)", ruleTautology},
		},
		NotCovered: "ordering by priority, capacity arithmetic, eviction of the lowest entry only, total-order properties of the comparison",
	})
}
