package main

import (
	"fmt"
	"go/ast"
	"go/constant"
	"go/token"
	"go/types"
	"sort"
	"strings"

	"golang.org/x/tools/go/cfg"
)

// seek-orientation
//
// Range scans touch keys only through comparisons with the start point and through the direction flag, i.e.
// through a finite set of orderings: (direction in {forward, backward}) x (sign of key-vs-start in {<,=,>}).
// A key (or a whole subtree lying on one side of the start) belongs to the answer iff
//
//	forward:  key >= start        backward: key <= start
//
// The rule finds every decision in pkg/core/storage and pkg/core/mpt that combines those two inputs and
// evaluates its truth table (plain enumeration of the <= 6 rows and of the few unrelated atoms of the
// condition - no solver) against that specification:
//
//	branch   an if / tagless switch whose condition compares something with the start and one of whose
//	         outcomes leaves the function (drops the subtree) while the other goes on
//	filter   a func(key) bool literal returning such a comparison (true = the key is kept), installed
//	         unconditionally or under a test of the direction flag
//	cmpsel   a function selecting the comparator used to sort the result by direction
//	order    an if on the direction flag whose arms iterate children by index and recurse: ascending and
//	         own-value-first when forward, descending and own-value-last when backward
//	iter     an if on the direction flag whose arms pick the iterator's step method (Next / Prev)
//	range    seekRangeToPrefixes: forward scans [prefix+start, end of prefix), backward scans
//	         [prefix, end of prefix+start)
//
// What is the direction flag / the start point inside a function is derived, not named: the roots are the
// fields SeekRange.Backwards / SeekRange.Start (and Trie.Find's `from`, the RPC-level start point), and a
// parameter inherits the role when some call site in the two packages passes it a value that has it.

var seekPkgs = []string{"pkg/core/storage", "pkg/core/mpt"}

const (
	symBackwards = "pkg/core/storage#Backwards"
	symStart     = "pkg/core/storage#Start"
	symPrefix    = "pkg/core/storage#Prefix"
)

// extra start roots: parameters that are a start point by API contract (one reason each)
var seekStartRoots = map[string]string{
	"pkg/core/mpt.(*Trie).Find#from": "FindStates' `from` key: results start strictly after it, scanning forward",
}

var compareFuncs = map[string]bool{"bytes.Compare": true, "cmp.Compare": true, "strings.Compare": true, "slices.Compare": true}

type seekRoles struct {
	dir   map[types.Object]bool
	start map[types.Object]bool
}

type seekFn struct {
	fd  *FuncDecl
	cfg *FuncCFG
	key string
}

func ruleSeekOrientation(c *Ctx, want map[string]bool) {
	p := c.P
	var fns []*seekFn
	for _, fd := range p.AllFuncDecls() {
		if fd.Decl.Body == nil {
			continue
		}
		rel := pkgRel(fd.Pkg.Types)
		in := false
		for _, sp := range seekPkgs {
			if rel == sp {
				in = true
			}
		}
		if !in {
			continue
		}
		fc := p.NewFuncCFG(fd)
		if fc == nil {
			continue
		}
		fns = append(fns, &seekFn{fd, fc, FuncKey(fd.Obj)})
	}
	sort.Slice(fns, func(i, j int) bool { return fns[i].key < fns[j].key })
	c.Floor("functions scanned in storage and mpt", len(fns), 150)

	roles := &seekRoles{dir: map[types.Object]bool{}, start: map[types.Object]bool{}}
	// roots by API contract
	rootsSeen := 0
	for _, sf := range fns {
		for _, fl := range sf.fd.Decl.Type.Params.List {
			for _, n := range fl.Names {
				if _, ok := seekStartRoots[sf.key+"#"+n.Name]; ok {
					roles.start[sf.cfg.Info.Defs[n]] = true
					rootsSeen++
				}
			}
		}
	}
	if rootsSeen != len(seekStartRoots) {
		c.Lost("start-roots", fmt.Sprintf("only %d of %d tabled start-point parameters resolve", rootsSeen, len(seekStartRoots)))
	}
	// propagate roles through call sites to a fixpoint
	for changed := true; changed; {
		changed = false
		for _, sf := range fns {
			ast.Inspect(sf.fd.Decl.Body, func(n ast.Node) bool {
				call, ok := n.(*ast.CallExpr)
				if !ok {
					return true
				}
				callee := staticCalleeDecl(p, sf.cfg.Info, call)
				if callee == nil || callee.Decl.Type.Params == nil {
					return true
				}
				var params []types.Object
				for _, fl := range callee.Decl.Type.Params.List {
					for _, nm := range fl.Names {
						params = append(params, callee.Pkg.TypesInfo.Defs[nm])
					}
				}
				for i, a := range call.Args {
					if i >= len(params) || params[i] == nil {
						break
					}
					if isBoolType(sf.cfg.Info.TypeOf(a)) && roles.isDirExpr(sf.cfg, a) && !roles.dir[params[i]] {
						roles.dir[params[i]] = true
						changed = true
					}
					if isBytesLike(sf.cfg.Info.TypeOf(a)) && roles.mentionsStart(sf.cfg, a) && !roles.start[params[i]] {
						roles.start[params[i]] = true
						changed = true
					}
				}
				return true
			})
		}
	}
	var dirNames, startNames []string
	for o := range roles.dir {
		dirNames = append(dirNames, o.Name())
	}
	for o := range roles.start {
		startNames = append(startNames, o.Name())
	}
	sort.Strings(dirNames)
	sort.Strings(startNames)
	c.Note("direction parameters derived: %v; start-point parameters derived: %v", dirNames, startNames)

	counts := map[string]int{}
	for _, sf := range fns {
		if want != nil && !want[pkgRel(sf.fd.Pkg.Types)] {
			continue
		}
		s := &seekScan{c: c, sf: sf, roles: roles, counts: counts}
		s.scan()
	}
	for _, k := range []string{"branch", "filter", "cmpsel", "order", "iter", "range"} {
		c.Note("%s decisions: %d", k, counts[k])
	}
	if want == nil || want["pkg/core/mpt"] {
		c.Floor("start-comparison branches in package mpt (Find, TrieStore.Seek, traverse)", counts["branch:pkg/core/mpt"], 3)
		c.Floor("direction-ordered child iterations in package mpt", counts["order:pkg/core/mpt"], 1)
		c.Floor("kept-subtree start resets in package mpt (Find, TrieStore.Seek, traverse)", counts["consumed:pkg/core/mpt"], 3)
		c.Floor("strip arms taking the equal case in package mpt", counts["equalstrip:pkg/core/mpt"], 3)
	}
	if want == nil || want["pkg/core/storage"] {
		c.Floor("key filters in package storage", counts["filter:pkg/core/storage"], 4)
		c.Floor("comparator selectors in package storage", counts["cmpsel:pkg/core/storage"], 1)
		c.Floor("iterator direction choices in package storage", counts["iter:pkg/core/storage"], 2)
		c.Floor("range translations in package storage", counts["range:pkg/core/storage"], 1)
	}
}

func staticCalleeDecl(p *Program, info *types.Info, call *ast.CallExpr) *FuncDecl {
	var id *ast.Ident
	switch fx := ast.Unparen(call.Fun).(type) {
	case *ast.Ident:
		id = fx
	case *ast.SelectorExpr:
		id = fx.Sel
	}
	if id == nil {
		return nil
	}
	fn, ok := info.ObjectOf(id).(*types.Func)
	if !ok {
		return nil
	}
	return p.DeclOf(fn)
}

func isBoolType(t types.Type) bool {
	if t == nil {
		return false
	}
	b, ok := t.Underlying().(*types.Basic)
	return ok && b.Info()&types.IsBoolean != 0
}

func isBytesLike(t types.Type) bool {
	if t == nil {
		return false
	}
	switch u := t.Underlying().(type) {
	case *types.Slice:
		b, ok := u.Elem().Underlying().(*types.Basic)
		return ok && b.Kind() == types.Uint8
	case *types.Basic:
		return u.Info()&types.IsString != 0
	}
	return false
}

// isDirExpr: e is the direction flag itself (field Backwards, or a parameter/local that has the role).
func (r *seekRoles) isDirExpr(f *FuncCFG, e ast.Expr) bool {
	switch x := ast.Unparen(e).(type) {
	case *ast.Ident:
		o := f.Info.ObjectOf(x)
		if r.dir[o] {
			return true
		}
		if v, ok := o.(*types.Var); ok && !f.params[v] && len(f.defs[v]) == 1 && len(f.defs[v][0].rhs) == 1 {
			return r.isDirExpr(f, f.defs[v][0].rhs[0])
		}
	case *ast.SelectorExpr:
		return symOf(f.Info.ObjectOf(x.Sel)) == symBackwards
	}
	return false
}

func (r *seekRoles) mentionsStart(f *FuncCFG, e ast.Expr) bool {
	if f.Mentions(e, nil)[symStart] {
		return true
	}
	found := false
	r.walkObjs(f, e, map[types.Object]bool{}, 0, func(o types.Object) {
		if r.start[o] {
			found = true
		}
	})
	return found
}

// walkObjs visits the variables mentioned by e, expanding locals through all their definitions.
func (r *seekRoles) walkObjs(f *FuncCFG, e ast.Node, seen map[types.Object]bool, depth int, fn func(types.Object)) {
	if e == nil || depth > 6 {
		return
	}
	ast.Inspect(e, func(n ast.Node) bool {
		if _, ok := n.(*ast.FuncLit); ok {
			return false
		}
		id, ok := n.(*ast.Ident)
		if !ok {
			return true
		}
		v, ok := f.Info.ObjectOf(id).(*types.Var)
		if !ok || seen[v] {
			return true
		}
		seen[v] = true
		fn(v)
		if !f.params[v] || len(f.defs[v]) > 0 {
			for _, d := range f.defs[v] {
				for _, rh := range d.rhs {
					r.walkObjs(f, rh, seen, depth+1, fn)
				}
			}
		}
		return true
	})
}

// ---------------------------------------------------------------------------

type seekScan struct {
	c      *Ctx
	sf     *seekFn
	roles  *seekRoles
	counts map[string]int
	stack  []ast.Node
}

func (s *seekScan) rel() string { return pkgRel(s.sf.fd.Pkg.Types) }

// hasDir: does the function see the direction flag at all (a parameter with the role, or a SeekRange value)?
func (s *seekScan) hasDir() bool {
	has := false
	ast.Inspect(s.sf.fd.Decl, func(n ast.Node) bool {
		if e, ok := n.(ast.Expr); ok {
			switch e.(type) {
			case *ast.Ident, *ast.SelectorExpr:
				if s.roles.isDirExpr(s.sf.cfg, e) {
					has = true
				}
			}
		}
		return !has
	})
	return has
}

type orientEnv struct {
	dir    bool
	sign   int
	useExt bool // rows distinguish keys after the start that extend it (have it as a proper prefix)
	ext    bool
	free   map[string]bool
	und    map[string]bool // choices for atoms that are related to the start but not determined by the sign
}

type orientEval struct {
	s          *seekScan
	withExt    bool // key filters: a backward scan keeps the keys that extend the start (all five stores must agree)
	freeKeys   []string
	undKeys    []string
	sawSign    bool
	sawRelated bool
	sawDir     bool
}

var prefixFuncs = map[string]bool{"bytes.HasPrefix": true, "strings.HasPrefix": true}
var equalFuncs = map[string]bool{"bytes.Equal": true, "slices.Equal": true}

// related evaluates HasPrefix/Equal between a key-like value and the start: partly determined by the sign
// (a key that has the start as prefix is not before it), otherwise undetermined - and then *both* outcomes
// must agree with the specification.
func (ev *orientEval) related(call *ast.CallExpr, env *orientEnv) (val bool, ok bool) {
	f := ev.s.sf.cfg
	sym := f.calleeSym(call)
	if (!prefixFuncs[sym] && !equalFuncs[sym]) || len(call.Args) != 2 {
		return false, false
	}
	sg, isStart := ev.keyVsStart(call, env)
	if !isStart {
		return false, false
	}
	ev.sawRelated = true
	startSecond := ev.s.roles.mentionsStart(f, call.Args[1])
	if !startSecond {
		sg = -sg // sg is now sign(key - start) in both cases (keyVsStart flipped it for start-first)
	}
	if env.sign == 0 {
		return true, true
	}
	if equalFuncs[sym] {
		return false, true
	}
	// HasPrefix(key, start): impossible when key < start; HasPrefix(start, key): impossible when key > start
	if (startSecond && env.sign < 0) || (!startSecond && env.sign > 0) {
		return false, true
	}
	// HasPrefix(key, start) for a key after the start is exactly "the key extends the start"
	if prefixFuncs[sym] && startSecond && env.sign > 0 && env.useExt {
		return env.ext, true
	}
	k := types.ExprString(call)
	found := false
	for _, uk := range ev.undKeys {
		if uk == k {
			found = true
		}
	}
	if !found {
		ev.undKeys = append(ev.undKeys, k)
	}
	return env.und[k], true
}

func (ev *orientEval) free(e ast.Expr, env *orientEnv) bool {
	k := types.ExprString(e)
	found := false
	for _, fk := range ev.freeKeys {
		if fk == k {
			found = true
		}
	}
	if !found {
		ev.freeKeys = append(ev.freeKeys, k)
	}
	return env.free[k]
}

// signSource resolves e to (a compare call, polarity): Compare(a,b), -Compare(a,b), or a local defined once by one.
func (ev *orientEval) signSource(e ast.Expr) (*ast.CallExpr, int) {
	f := ev.s.sf.cfg
	switch x := ast.Unparen(e).(type) {
	case *ast.CallExpr:
		if compareFuncs[f.calleeSym(x)] && len(x.Args) == 2 {
			return x, 1
		}
	case *ast.UnaryExpr:
		if x.Op == token.SUB {
			if c, pol := ev.signSource(x.X); c != nil {
				return c, -pol
			}
		}
	case *ast.Ident:
		if v, ok := f.Info.ObjectOf(x).(*types.Var); ok && !f.params[v] && len(f.defs[v]) == 1 && len(f.defs[v][0].rhs) == 1 {
			return ev.signSource(f.defs[v][0].rhs[0])
		}
	}
	return nil, 0
}

// keyVsStart gives the sign of key-vs-start that the compare call computes under env (ok=false: not a start comparison).
func (ev *orientEval) keyVsStart(call *ast.CallExpr, env *orientEnv) (int, bool) {
	f := ev.s.sf.cfg
	a := ev.s.roles.mentionsStart(f, call.Args[0])
	b := ev.s.roles.mentionsStart(f, call.Args[1])
	switch {
	case b && !a:
		return env.sign, true
	case a && !b:
		return -env.sign, true
	}
	return 0, false
}

func isZeroConst(info *types.Info, e ast.Expr) bool {
	tv, ok := info.Types[e]
	return ok && tv.Value != nil && tv.Value.Kind() == constant.Int && constant.Sign(tv.Value) == 0
}

func (ev *orientEval) eval(e ast.Expr, env *orientEnv) bool {
	f := ev.s.sf.cfg
	e = ast.Unparen(e)
	if ev.s.roles.isDirExpr(f, e) {
		ev.sawDir = true
		return env.dir
	}
	switch x := e.(type) {
	case *ast.CallExpr:
		if v, ok := ev.related(x, env); ok {
			return v
		}
	case *ast.UnaryExpr:
		if x.Op == token.NOT {
			return !ev.eval(x.X, env)
		}
	case *ast.BinaryExpr:
		switch x.Op {
		case token.LAND:
			l, r := ev.eval(x.X, env), ev.eval(x.Y, env)
			return l && r
		case token.LOR:
			l, r := ev.eval(x.X, env), ev.eval(x.Y, env)
			return l || r
		}
		if (x.Op == token.EQL || x.Op == token.NEQ) && isBoolType(f.Info.TypeOf(x.X)) && isBoolType(f.Info.TypeOf(x.Y)) {
			l, r := ev.eval(x.X, env), ev.eval(x.Y, env)
			return (l == r) == (x.Op == token.EQL)
		}
		// len(key) <op> len(start) when key == start: the lengths are equal
		if env.sign == 0 {
			if lc, ok := ast.Unparen(x.X).(*ast.CallExpr); ok && f.calleeSym(lc) == "builtin.len" && len(lc.Args) == 1 {
				if rc, ok := ast.Unparen(x.Y).(*ast.CallExpr); ok && f.calleeSym(rc) == "builtin.len" && len(rc.Args) == 1 {
					if ev.s.roles.mentionsStart(f, lc.Args[0]) != ev.s.roles.mentionsStart(f, rc.Args[0]) {
						ev.sawRelated = true
						switch x.Op {
						case token.LEQ, token.GEQ, token.EQL:
							return true
						case token.LSS, token.GTR, token.NEQ:
							return false
						}
					}
				}
			}
		}
		switch x.Op {
		case token.LSS, token.GTR, token.LEQ, token.GEQ, token.EQL, token.NEQ:
			lhs, rhs, op := x.X, x.Y, x.Op
			if isZeroConst(f.Info, lhs) {
				lhs, rhs = rhs, lhs
				op = map[token.Token]token.Token{token.LSS: token.GTR, token.GTR: token.LSS, token.LEQ: token.GEQ, token.GEQ: token.LEQ, token.EQL: token.EQL, token.NEQ: token.NEQ}[op]
			}
			if isZeroConst(f.Info, rhs) {
				if call, pol := ev.signSource(lhs); call != nil {
					if sg, ok := ev.keyVsStart(call, env); ok {
						ev.sawSign = true
						sg *= pol
						switch op {
						case token.LSS:
							return sg < 0
						case token.GTR:
							return sg > 0
						case token.LEQ:
							return sg <= 0
						case token.GEQ:
							return sg >= 0
						case token.EQL:
							return sg == 0
						case token.NEQ:
							return sg != 0
						}
					}
				}
			}
		}
	}
	return ev.free(e, env)
}

// specAccept: is a key with this sign (relative to the start) part of the answer in this direction?
func specAccept(dir bool, sign int) bool {
	if sign == 0 {
		return true
	}
	if dir {
		return sign < 0
	}
	return sign > 0
}

// decide enumerates the rows; accept(env) must equal the specification under some fixed valuation of the
// unrelated atoms of the condition (the valuation under which the comparison is what decides).
func (ev *orientEval) decide(dirs []bool, signs []int, accept func(env *orientEnv) (bool, bool)) (ok bool, detail string, relevant bool) {
	// discover atoms
	for _, sg := range signs {
		accept(&orientEnv{sign: sg, free: map[string]bool{}, und: map[string]bool{}})
	}
	if !ev.sawSign && !ev.sawRelated {
		return true, "", false
	}
	if len(ev.freeKeys) > 6 {
		return true, "too many unrelated atoms", false
	}
	var firstBad string
	bestBad := 1 << 30
	for mask := 0; mask < 1<<len(ev.freeKeys); mask++ {
		nbad := 0
		fr := map[string]bool{}
		for i, k := range ev.freeKeys {
			fr[k] = mask&(1<<i) != 0
		}
		good := true
		var bad string
		for _, d := range dirs {
			for _, sg := range signs {
				for um := 0; um < 1<<len(ev.undKeys); um++ {
					und := map[string]bool{}
					for i, k := range ev.undKeys {
						und[k] = um&(1<<i) != 0
					}
					exts := []bool{false}
					if ev.withExt && sg > 0 {
						exts = []bool{false, true}
					}
					var got, want, defined, mismatch, extRow bool
					for _, ex := range exts {
						got, defined = accept(&orientEnv{dir: d, sign: sg, free: fr, und: und, useExt: ev.withExt, ext: ex})
						want = specAccept(d, sg) || (ev.withExt && d && ex)
						if defined && got != want {
							mismatch, extRow = true, ex
							break
						}
					}
					if !mismatch {
						continue
					}
					good = false
					nbad++
					if bad == "" {
						bad = fmt.Sprintf("%s scan, key %s start%s: the code %s it, the stores' common answer %s it",
							map[bool]string{false: "forward", true: "backward"}[d],
							map[int]string{-1: "before", 0: "equal to", 1: "after"}[sg],
							map[bool]string{false: "", true: " and extending it (start is its proper prefix)"}[extRow],
							map[bool]string{true: "keeps", false: "drops"}[got],
							map[bool]string{true: "keeps", false: "drops"}[want])
						if len(ev.undKeys) > 0 {
							bad += fmt.Sprintf(" (for some keys: the outcome hangs on %s, which the position does not determine)", strings.Join(ev.undKeys, ", "))
						}
					}
				}
			}
		}
		if good {
			return true, "", true
		}
		// report the valuation of the unrelated atoms under which the fewest rows disagree: that is the one under
		// which the comparison is what decides
		if firstBad == "" || nbad < bestBad {
			firstBad, bestBad = bad, nbad
		}
	}
	return false, firstBad, true
}

// dirContext: the directions consistent with the tests of the direction flag that enclose node n.
func (s *seekScan) dirContext(stack []ast.Node, n ast.Node) []bool {
	allowed := map[bool]bool{false: true, true: true}
	for i := 0; i < len(stack); i++ {
		ifs, ok := stack[i].(*ast.IfStmt)
		if !ok {
			continue
		}
		var inBody, inElse bool
		if i+1 < len(stack) {
			inBody = stack[i+1] == ast.Node(ifs.Body)
			inElse = ifs.Else != nil && stack[i+1] == ifs.Else
		} else {
			inBody = containsNode(ifs.Body, n)
			inElse = ifs.Else != nil && containsNode(ifs.Else, n)
		}
		if !inBody && !inElse {
			continue
		}
		ev := &orientEval{s: s}
		for _, d := range []bool{false, true} {
			v := ev.eval(ifs.Cond, &orientEnv{dir: d, free: map[string]bool{}})
			if len(ev.freeKeys) > 0 || ev.sawSign || !ev.sawDir {
				break // not a pure test of the direction flag
			}
			if (inBody && !v) || (inElse && v) {
				allowed[d] = false
			}
		}
	}
	var out []bool
	for _, d := range []bool{false, true} {
		if allowed[d] {
			out = append(out, d)
		}
	}
	return out
}

func dropsBlock(b ast.Stmt) bool {
	blk, ok := b.(*ast.BlockStmt)
	if !ok || len(blk.List) == 0 {
		return false
	}
	_, ret := blk.List[len(blk.List)-1].(*ast.ReturnStmt)
	return ret
}

func (s *seekScan) scan() {
	f := s.sf.cfg
	fnHasDir := s.hasDir()
	baseDirs := []bool{false}
	if fnHasDir {
		baseDirs = []bool{false, true}
	}
	restrict := func(ctx []bool) []bool {
		var out []bool
		for _, d := range ctx {
			for _, b := range baseDirs {
				if b == d {
					out = append(out, d)
				}
			}
		}
		return out
	}
	idx := map[string]int{}
	nextKey := func(kind string) string {
		idx[kind]++
		return fmt.Sprintf("%s.%s#%d", s.sf.key, kind, idx[kind])
	}
	litsByVar := map[types.Object][]*ast.FuncLit{}
	litCtx := map[*ast.FuncLit][]bool{}
	var litOrder []types.Object

	var stack []ast.Node
	ast.Inspect(s.sf.fd.Decl.Body, func(n ast.Node) bool {
		if n == nil {
			stack = stack[:len(stack)-1]
			return true
		}
		stack = append(stack, n)
		switch x := n.(type) {
		case *ast.IfStmt:
			s.ifBranch(x, restrict(s.dirContext(stack[:len(stack)-1], x)), nextKey, stack[:len(stack)-1])
			s.ifArms(x, nextKey)
		case *ast.SwitchStmt:
			if x.Tag == nil {
				s.switchBranch(x, restrict(s.dirContext(stack[:len(stack)-1], x)), nextKey)
			}
		case *ast.AssignStmt:
			for i, rh := range x.Rhs {
				lit, ok := rh.(*ast.FuncLit)
				if !ok || i >= len(x.Lhs) {
					continue
				}
				if id, ok := x.Lhs[i].(*ast.Ident); ok {
					o := f.Info.ObjectOf(id)
					if len(litsByVar[o]) == 0 {
						litOrder = append(litOrder, o)
					}
					litsByVar[o] = append(litsByVar[o], lit)
					litCtx[lit] = s.dirContext(stack[:len(stack)-1], x)
				}
			}
		}
		return true
	})
	// filters: func literals returning a start comparison
	for _, o := range litOrder {
		lits := litsByVar[o]
		// an unconditional definition overridden under a direction test holds for the remaining directions
		overridden := map[bool]bool{}
		for _, l := range lits {
			if len(litCtx[l]) == 1 {
				overridden[litCtx[l][0]] = true
			}
		}
		for _, l := range lits {
			ctx := litCtx[l]
			if len(ctx) == 2 && len(lits) > 1 {
				var rest []bool
				for _, d := range ctx {
					if !overridden[d] {
						rest = append(rest, d)
					}
				}
				ctx = rest
			}
			s.filterLit(o, l, ctx, nextKey)
		}
	}
	s.cmpSelector(nextKey)
	s.rangeTranslation(nextKey)
	s.startConsumed(baseDirs, nextKey)
	s.equalTakesStripArm(nextKey)
	if fnHasDir {
		s.visitorGuard(nextKey)
	}
}

// visitorGuard: a traversal that carries the not yet consumed rest of the start point down the tree reports a node
// to its visitor (a parameter of function type) under a test "the start is used up". A node reached with a rest
// left has a path that is a proper prefix of the start, i.e. it lies *before* the start: a forward scan is right to
// pass it by, a backward scan has to report it (finding 85: TrieStore.Seek backwards lost the value stored under a
// key that is a prefix of the start). With "start used up" false, the guard of the visitor call is unsatisfiable
// forwards and satisfiable backwards.
func (s *seekScan) visitorGuard(nextKey func(string) string) {
	f := s.sf.cfg
	var stack []ast.Node
	ast.Inspect(s.sf.fd.Decl.Body, func(n ast.Node) bool {
		if n == nil {
			stack = stack[:len(stack)-1]
			return true
		}
		stack = append(stack, n)
		if _, ok := n.(*ast.FuncLit); ok {
			return true
		}
		call, ok := n.(*ast.CallExpr)
		if !ok {
			return true
		}
		id, ok := call.Fun.(*ast.Ident)
		if !ok {
			return true
		}
		v, ok := f.Info.ObjectOf(id).(*types.Var)
		if !ok || !f.params[v] {
			return true
		}
		if _, isFn := v.Type().Underlying().(*types.Signature); !isFn {
			return true
		}
		// innermost if whose body holds the call
		var guard *ast.IfStmt
		for i := len(stack) - 2; i >= 1 && guard == nil; i-- {
			if is, ok := stack[i-1].(*ast.IfStmt); ok && ast.Node(is.Body) == stack[i] {
				guard = is
			}
			if _, ok := stack[i].(*ast.FuncLit); ok {
				break
			}
		}
		if guard == nil {
			return true
		}
		// the "start is used up" atoms of the guard
		var used []string
		ast.Inspect(guard.Cond, func(x ast.Node) bool {
			be, ok := x.(*ast.BinaryExpr)
			if !ok || be.Op != token.EQL || !isZeroConst(f.Info, be.Y) {
				return true
			}
			if lc, ok := ast.Unparen(be.X).(*ast.CallExpr); ok && f.calleeSym(lc) == "builtin.len" && len(lc.Args) == 1 && s.roles.mentionsStart(f, lc.Args[0]) {
				used = append(used, types.ExprString(be))
			}
			return true
		})
		if len(used) == 0 {
			return true
		}
		ev := &orientEval{s: s}
		ev.eval(guard.Cond, &orientEnv{free: map[string]bool{}, und: map[string]bool{}})
		var others []string
		for _, k := range ev.freeKeys {
			isUsed := false
			for _, u := range used {
				if u == k {
					isUsed = true
				}
			}
			if !isUsed {
				others = append(others, k)
			}
		}
		sat := map[bool]bool{}
		if len(others) <= 8 {
			for _, d := range []bool{false, true} {
				for mask := 0; mask < 1<<len(others); mask++ {
					fr := map[string]bool{}
					for i, k := range others {
						fr[k] = mask&(1<<i) != 0
					}
					for _, u := range used {
						fr[u] = false
					}
					if ev.eval(guard.Cond, &orientEnv{dir: d, free: fr, und: map[string]bool{}}) {
						sat[d] = true
					}
				}
			}
		}
		key := nextKey("visitor-guard")
		switch {
		case len(others) > 8:
			s.c.Unclassified(key, s.c.P.Pos(guard.Pos()), "the guard of the visitor call has too many atoms to enumerate")
		case sat[false]:
			s.report("visitor", key, guard.Pos(), false, "", fmt.Sprintf("`%s` lets a forward scan report a node that is reached with a part of the start point left: its key is a proper prefix of the start, i.e. before it", trunc(types.ExprString(guard.Cond), 90)))
		case !sat[true]:
			s.report("visitor", key, guard.Pos(), false, "", fmt.Sprintf("`%s` reports a node to the visitor only when the start point is used up, in both directions: a node reached with a part of the start left has a key that is a proper prefix of the start - it lies before the start, and a backward scan (which answers with the keys at or before the start) loses it, while every other store returns it", trunc(types.ExprString(guard.Cond), 90)))
		default:
			s.report("visitor", key, guard.Pos(), true, fmt.Sprintf("`%s`: a node reached with a part of the start left (its key is a proper prefix of the start) is passed by forwards and can be reported backwards", trunc(types.ExprString(guard.Cond), 90)), "")
		}
		return true
	})
}

// equalTakesStripArm: the arm that re-expresses the start relative to the node found (`start` has the node's path as
// a prefix: strip it) must also take the case path == start; otherwise that case reaches the diverging arm, where
// neither "before" nor "after" holds, and the scan goes on with an absolute start. The arm's whole condition is
// folded under key == start (HasPrefix/Equal true, lengths equal); atoms that do not compare the two (a "start is
// not empty" test) may take either value.
func (s *seekScan) equalTakesStripArm(nextKey func(string) string) {
	f := s.sf.cfg
	ast.Inspect(s.sf.fd.Decl.Body, func(n ast.Node) bool {
		is, ok := n.(*ast.IfStmt)
		if !ok {
			return true
		}
		// HasPrefix(<start>, <other>) somewhere in the condition, the body re-assigns that start variable
		var v types.Object
		ast.Inspect(is.Cond, func(x ast.Node) bool {
			call, ok := x.(*ast.CallExpr)
			if !ok || !prefixFuncs[f.calleeSym(call)] || len(call.Args) != 2 {
				return true
			}
			if id, ok := ast.Unparen(call.Args[0]).(*ast.Ident); ok && s.roles.mentionsStart(f, call.Args[0]) && !s.roles.mentionsStart(f, call.Args[1]) {
				if vv, ok := f.Info.ObjectOf(id).(*types.Var); ok && !vv.IsField() {
					v = vv
				}
			}
			return true
		})
		if v == nil {
			return true
		}
		assigns := false
		for _, st := range is.Body.List {
			if as, ok := st.(*ast.AssignStmt); ok {
				for _, l := range as.Lhs {
					if id, ok := ast.Unparen(l).(*ast.Ident); ok && f.Info.ObjectOf(id) == v {
						assigns = true
					}
				}
			}
		}
		if !assigns {
			return true
		}
		ev := &orientEval{s: s}
		ev.eval(is.Cond, &orientEnv{sign: 0, free: map[string]bool{}, und: map[string]bool{}})
		taken := false
		for mask := 0; mask < 1<<len(ev.freeKeys) && !taken; mask++ {
			fr := map[string]bool{}
			for i, k := range ev.freeKeys {
				fr[k] = mask&(1<<i) != 0
			}
			if ev.eval(is.Cond, &orientEnv{sign: 0, free: fr, und: map[string]bool{}}) {
				taken = true
			}
		}
		key := nextKey("equal-strip")
		s.report("equalstrip", key, is.Pos(), taken,
			fmt.Sprintf("`%s`: the case node path == start takes the arm that strips the path off the start", trunc(types.ExprString(is.Cond), 80)),
			fmt.Sprintf("`%s` is false when the node's path equals the start: that case falls through to the arm for diverging paths, where it is neither before nor after, and the scan of the subtree goes on with the absolute start (keys are skipped)", trunc(types.ExprString(is.Cond), 80)))
		return true
	})
}

// startConsumed: where a comparison with the start point decides that a subtree is kept (it lies wholly inside
// the range), the start no longer applies inside that subtree: the start variable must be re-assigned before it
// is handed to the scan of the subtree, otherwise keys of the kept subtree are compared with a start expressed
// relative to another node. Decided on the CFG, path-sensitively over the finite rows (direction x sign): from
// the first comparison block, each edge is followed with the rows under which it is taken; reaching a call that
// receives the start variable with a non-empty row set and no assignment on the way is a violation.
func (s *seekScan) startConsumed(dirs []bool, nextKey func(string) string) {
	f := s.sf.cfg
	type row struct {
		dir  bool
		sign int
	}
	type signBlock struct {
		b *cfg.Block
		c ast.Expr
		v types.Object
	}
	var sbs []signBlock
	isSign := map[*cfg.Block]*signBlock{}
	for _, b := range f.G.Blocks {
		if !b.Live {
			continue
		}
		c := f.Cond(b)
		if c == nil {
			continue
		}
		ev := &orientEval{s: s}
		ev.eval(c, &orientEnv{free: map[string]bool{}, und: map[string]bool{}})
		if !ev.sawSign {
			continue
		}
		var v types.Object
		ast.Inspect(c, func(n ast.Node) bool {
			e, ok := n.(ast.Expr)
			if !ok || v != nil {
				return v == nil
			}
			if call, _ := ev.signSource(e); call != nil {
				for _, a := range call.Args {
					if id, ok := ast.Unparen(a).(*ast.Ident); ok && s.roles.mentionsStart(f, a) {
						if vv, ok := f.Info.ObjectOf(id).(*types.Var); ok && !vv.IsField() {
							v = vv
						}
					}
				}
			}
			return true
		})
		if v == nil {
			continue
		}
		sbs = append(sbs, signBlock{b, c, v})
	}
	for i := range sbs {
		isSign[sbs[i].b] = &sbs[i]
	}
	assigns := func(n ast.Node, v types.Object) bool {
		as, ok := n.(*ast.AssignStmt)
		if !ok {
			return false
		}
		for _, l := range as.Lhs {
			if id, ok := ast.Unparen(l).(*ast.Ident); ok && f.Info.ObjectOf(id) == v {
				return true
			}
		}
		return false
	}
	consumes := func(n ast.Node, v types.Object) *ast.CallExpr {
		var hit *ast.CallExpr
		inspectNoLit(n, func(x ast.Node) bool {
			call, ok := x.(*ast.CallExpr)
			if !ok || hit != nil {
				return hit == nil
			}
			fd := staticCalleeDecl(s.c.P, f.Info, call)
			if fd == nil {
				return true
			}
			for _, a := range call.Args {
				if id, ok := ast.Unparen(a).(*ast.Ident); ok && f.Info.ObjectOf(id) == v {
					hit = call
				}
			}
			return true
		})
		return hit
	}
	for _, sb := range sbs {
		// only the first comparison of a chain starts a walk
		first := true
		for _, o := range sbs {
			if o.b != sb.b && o.v == sb.v {
				if _, ok := f.reach([]*cfg.Block{o.b}, nil, nil)[sb.b]; ok {
					if _, back := f.reach([]*cfg.Block{sb.b}, nil, nil)[o.b]; !back || o.b.Index < sb.b.Index {
						first = false
					}
				}
			}
		}
		if !first {
			continue
		}
		var all []row
		for _, d := range dirs {
			all = append(all, row{d, -1}, row{d, 1})
		}
		type state struct {
			b    *cfg.Block
			mask int
		}
		seen := map[state]bool{}
		var bad *ast.CallExpr
		var badRows []row
		nconsumer := 0
		var walk func(b *cfg.Block, rows []row, fromCond bool)
		split := func(sb2 *signBlock, rows []row) (t, fl []row) {
			for _, r := range rows {
				ev := &orientEval{s: s}
				if ev.eval(sb2.c, &orientEnv{dir: r.dir, sign: r.sign, free: map[string]bool{}, und: map[string]bool{}}) {
					t = append(t, r)
				} else {
					fl = append(fl, r)
				}
			}
			return
		}
		maskOf := func(rows []row) int {
			m := 0
			for _, r := range rows {
				bit := 0
				if r.dir {
					bit = 2
				}
				if r.sign > 0 {
					bit++
				}
				m |= 1 << bit
			}
			return m
		}
		walk = func(b *cfg.Block, rows []row, fromCond bool) {
			if len(rows) == 0 || bad != nil {
				return
			}
			if !fromCond {
				st := state{b, maskOf(rows)}
				if seen[st] {
					return
				}
				seen[st] = true
				for _, n := range b.Nodes {
					if call := consumes(n, sb.v); call != nil {
						nconsumer++
						// `v = g(v)` consumes and re-assigns at once: the callee sees the old value
						bad, badRows = call, rows
						return
					}
					if assigns(n, sb.v) {
						return
					}
				}
			}
			if sb2 := isSign[b]; sb2 != nil && sb2.v == sb.v && len(b.Succs) == 2 {
				t, fl := split(sb2, rows)
				walk(b.Succs[0], t, false)
				walk(b.Succs[1], fl, false)
				return
			}
			for _, nx := range b.Succs {
				walk(nx, rows, false)
			}
		}
		walk(sb.b, all, true)
		key := nextKey("start-consumed")
		if bad != nil {
			s.report("consumed", key, bad.Pos(), false, "", fmt.Sprintf("after the comparison with the start at %s decides (rows %v: direction backward?/sign of node-vs-start) that the subtree is kept, %s still receives the start variable %s unchanged: the keys of a subtree lying wholly inside the range are then compared with a start that is relative to another node, and part of them is skipped", s.c.P.Pos(sb.c.Pos()), badRows, trunc(types.ExprString(bad.Fun), 40), sb.v.Name()))
		} else {
			s.report("consumed", key, sb.c.Pos(), true, fmt.Sprintf("on every feasible path (rows: %d directions x {before, after}) from the comparison to a scan that takes %s, the start is re-assigned or the function left", len(dirs), sb.v.Name()), "")
		}
	}
}

func (s *seekScan) report(kind, key string, pos token.Pos, ok bool, okMsg, badMsg string) {
	s.counts[kind]++
	s.counts[kind+":"+s.rel()]++
	if ok {
		s.c.OK(key, s.c.P.Pos(pos), okMsg)
	} else {
		s.c.Fail(key, s.c.P.Pos(pos), badMsg)
	}
}

// ifBranch: `if cond {A} else {B}` where exactly one arm leaves the function.
func (s *seekScan) ifBranch(x *ast.IfStmt, dirs []bool, nextKey func(string) string, stack []ast.Node) {
	bodyDrops := dropsBlock(x.Body)
	elseDrops := x.Else != nil && dropsBlock(x.Else)
	// A subtree all of whose keys extend the start (the start is a proper prefix of the subtree's path) is after the
	// start and still part of a backward scan's answer - the stores' common convention, which the key filters are
	// already held to (finding 85). The rows of the table distinguish that case.
	ev := &orientEval{s: s, withExt: true}
	// the conditions of the if statements in whose else arm this one stands were false here: a row under which one of
	// them holds does not arrive
	var refuted []ast.Expr
	var inner ast.Node = x
	for i := len(stack) - 1; i >= 0; i-- {
		if is, ok := stack[i].(*ast.IfStmt); ok && is.Else != nil && ast.Node(is.Else) == inner {
			refuted = append(refuted, is.Cond)
		}
		if _, ok := stack[i].(*ast.FuncLit); ok {
			break
		}
		inner = stack[i]
	}
	if bodyDrops == elseDrops {
		// still count conditions that compare with the start: their shape is not understood
		ev.eval(x.Cond, &orientEnv{free: map[string]bool{}})
		if ev.sawSign {
			s.c.Unclassified(nextKey("branch"), s.c.P.Pos(x.Pos()), "a comparison with the start point decides a branch neither (or both) of whose arms leaves the function")
		}
		return
	}
	ok, detail, rel := ev.decide(dirs, []int{-1, 1}, func(env *orientEnv) (bool, bool) {
		v := ev.eval(x.Cond, env)
		for _, rc := range refuted {
			if ev.eval(rc, env) {
				return v, false
			}
		}
		if bodyDrops {
			return !v, true
		}
		return v, true
	})
	if !rel {
		return
	}
	key := nextKey("branch")
	s.report("branch", key, x.Pos(), ok,
		fmt.Sprintf("`%s`: a subtree is dropped exactly when it lies before the start in scan direction (directions checked: %v)", trunc(types.ExprString(x.Cond), 90), dirs),
		fmt.Sprintf("`%s` decides whether a subtree is scanned, but not by its position relative to the start in scan direction: %s", trunc(types.ExprString(x.Cond), 90), detail))
}

// switchBranch: tagless switch; the first clause whose condition holds decides.
func (s *seekScan) switchBranch(x *ast.SwitchStmt, dirs []bool, nextKey func(string) string) {
	ev := &orientEval{s: s}
	ok, detail, rel := ev.decide(dirs, []int{-1, 1}, func(env *orientEnv) (bool, bool) {
		for _, st := range x.Body.List {
			cc := st.(*ast.CaseClause)
			if cc.List == nil {
				return !dropsBlock(&ast.BlockStmt{List: cc.Body}), true
			}
			for _, e := range cc.List {
				if ev.eval(e, env) {
					return !dropsBlock(&ast.BlockStmt{List: cc.Body}), true
				}
			}
		}
		return true, true
	})
	if !rel {
		return
	}
	key := nextKey("branch")
	s.report("branch", key, x.Pos(), ok,
		fmt.Sprintf("switch over the comparison with the start: a subtree is dropped exactly when it lies before the start in scan direction (directions checked: %v)", dirs),
		"a switch over the comparison with the start decides whether a subtree is scanned, but not by its position relative to the start in scan direction: "+detail)
}

// filterLit: `func(key) bool { return <comparison with start> }`.
func (s *seekScan) filterLit(o types.Object, l *ast.FuncLit, dirs []bool, nextKey func(string) string) {
	if l.Type.Results == nil || len(l.Type.Results.List) != 1 || !isBoolType(s.sf.cfg.Info.TypeOf(l.Type.Results.List[0].Type)) {
		return
	}
	if len(l.Body.List) != 1 {
		return
	}
	ret, ok := l.Body.List[0].(*ast.ReturnStmt)
	if !ok || len(ret.Results) != 1 {
		return
	}
	ev := &orientEval{s: s, withExt: true}
	okk, detail, rel := ev.decide(dirs, []int{-1, 0, 1}, func(env *orientEnv) (bool, bool) {
		return ev.eval(ret.Results[0], env), true
	})
	if !rel {
		return
	}
	key := nextKey("filter")
	s.report("filter", key, l.Pos(), okk,
		fmt.Sprintf("filter %s (in force for directions %v) keeps exactly the keys at or past the start in scan direction (a backward scan also keeps the keys that extend the start, as the BoltDB/LevelDB ranges and the trie store do)", o.Name(), dirs),
		fmt.Sprintf("filter %s (in force for directions %v) does not keep exactly the keys at or past the start in scan direction: %s", o.Name(), dirs, detail))
}

// ifArms: `if <pure direction test> {A} else {B}`: child iteration order and iterator step method.
func (s *seekScan) ifArms(x *ast.IfStmt, nextKey func(string) string) {
	els, ok := x.Else.(*ast.BlockStmt)
	if !ok {
		return
	}
	ev := &orientEval{s: s}
	vF := ev.eval(x.Cond, &orientEnv{dir: false, free: map[string]bool{}})
	vT := ev.eval(x.Cond, &orientEnv{dir: true, free: map[string]bool{}})
	if len(ev.freeKeys) > 0 || ev.sawSign || !ev.sawDir || vF == vT {
		return
	}
	arm := map[bool]*ast.BlockStmt{} // direction -> arm
	if vF {
		arm[false], arm[true] = x.Body, els
	} else {
		arm[true], arm[false] = x.Body, els
	}
	self := s.sf.fd.Obj
	isSelfCall := func(call *ast.CallExpr) bool {
		d := staticCalleeDecl(s.c.P, s.sf.cfg.Info, call)
		return d != nil && d.Obj == self
	}
	// --- order
	type armInfo struct {
		loops   []*ast.ForStmt
		outside []*ast.CallExpr
	}
	infos := map[bool]*armInfo{}
	for _, d := range []bool{false, true} {
		ai := &armInfo{}
		var loopDepth []ast.Node
		ast.Inspect(arm[d], func(n ast.Node) bool {
			if n == nil {
				return true
			}
			if _, ok := n.(*ast.FuncLit); ok {
				return false
			}
			if fs, ok := n.(*ast.ForStmt); ok {
				has := false
				ast.Inspect(fs.Body, func(m ast.Node) bool {
					if c, ok := m.(*ast.CallExpr); ok && isSelfCall(c) {
						has = true
					}
					return true
				})
				if has {
					ai.loops = append(ai.loops, fs)
				}
			}
			return true
		})
		_ = loopDepth
		ast.Inspect(arm[d], func(n ast.Node) bool {
			if _, ok := n.(*ast.FuncLit); ok {
				return false
			}
			if c, ok := n.(*ast.CallExpr); ok && isSelfCall(c) {
				in := false
				for _, l := range ai.loops {
					if containsNode(l, c) {
						in = true
					}
				}
				if !in {
					ai.outside = append(ai.outside, c)
				}
			}
			return true
		})
		infos[d] = ai
	}
	if len(infos[false].loops) > 0 && len(infos[true].loops) > 0 {
		key := nextKey("order")
		var bad []string
		for _, d := range []bool{false, true} {
			name := map[bool]string{false: "forward", true: "backward"}[d]
			for _, l := range infos[d].loops {
				inc, ok := l.Post.(*ast.IncDecStmt)
				if !ok {
					bad = append(bad, name+" arm: loop step is not an increment/decrement")
					continue
				}
				if (inc.Tok == token.DEC) != d {
					bad = append(bad, fmt.Sprintf("%s arm iterates children with %s", name, inc.Tok))
				}
				for _, oc := range infos[d].outside {
					// the node's own value (no extra path nibble) sorts before everything below it
					if !d && !(oc.End() <= l.Pos()) {
						bad = append(bad, "forward arm visits the node's own value after its children")
					}
					if d && !(oc.Pos() >= l.End()) {
						bad = append(bad, "backward arm visits the node's own value before its children")
					}
				}
			}
		}
		s.report("order", key, x.Pos(), len(bad) == 0,
			"children are visited ascending and after the node's own value when scanning forward, descending and before it when scanning backward",
			"child visiting order does not follow the scan direction: "+strings.Join(bad, "; "))
	}
	// --- iter: step method values assigned in both arms
	steps := map[bool][]string{}
	for _, d := range []bool{false, true} {
		ast.Inspect(arm[d], func(n ast.Node) bool {
			as, ok := n.(*ast.AssignStmt)
			if !ok {
				return true
			}
			for _, rh := range as.Rhs {
				if sel, ok := ast.Unparen(rh).(*ast.SelectorExpr); ok {
					if sl := s.sf.cfg.Info.Selections[sel]; sl != nil && sl.Kind() == types.MethodVal {
						steps[d] = append(steps[d], sel.Sel.Name)
					}
				}
			}
			return true
		})
	}
	if len(steps[false]) > 0 && len(steps[true]) > 0 {
		key := nextKey("iter")
		var bad []string
		for _, m := range steps[false] {
			if m != "Next" {
				bad = append(bad, "forward arm steps with "+m)
			}
		}
		for _, m := range steps[true] {
			if m != "Prev" {
				bad = append(bad, "backward arm steps with "+m)
			}
		}
		s.report("iter", key, x.Pos(), len(bad) == 0,
			"the iterator steps with Next when scanning forward and with Prev when scanning backward",
			"iterator step does not follow the scan direction: "+strings.Join(bad, "; "))
	}
}

// cmpSelector: func(dir bool) func(a, b []byte) int.
func (s *seekScan) cmpSelector(nextKey func(string) string) {
	d := s.sf.fd.Decl
	if d.Type.Results == nil || len(d.Type.Results.List) != 1 {
		return
	}
	sig, ok := s.sf.cfg.Info.TypeOf(d.Type.Results.List[0].Type).(*types.Signature)
	if !ok || sig.Params().Len() != 2 || sig.Results().Len() != 1 {
		return
	}
	if !isBytesLike(sig.Params().At(0).Type()) {
		return
	}
	var dirParam types.Object
	for _, fl := range d.Type.Params.List {
		for _, n := range fl.Names {
			if o := s.sf.cfg.Info.Defs[n]; s.roles.dir[o] {
				dirParam = o
			}
		}
	}
	if dirParam == nil {
		return
	}
	// polarity of a returned comparator: +1 ascending, -1 descending, 0 unknown
	polarity := func(e ast.Expr) int {
		switch x := ast.Unparen(e).(type) {
		case *ast.SelectorExpr, *ast.Ident:
			var id *ast.Ident
			if se, ok := x.(*ast.SelectorExpr); ok {
				id = se.Sel
			} else {
				id = x.(*ast.Ident)
			}
			if fn, ok := s.sf.cfg.Info.ObjectOf(id).(*types.Func); ok && compareFuncs[fn.Pkg().Name()+"."+fn.Name()] {
				return 1
			}
		case *ast.FuncLit:
			if len(x.Body.List) != 1 || len(x.Type.Params.List) == 0 {
				return 0
			}
			ret, ok := x.Body.List[0].(*ast.ReturnStmt)
			if !ok || len(ret.Results) != 1 {
				return 0
			}
			var ps []types.Object
			for _, fl := range x.Type.Params.List {
				for _, n := range fl.Names {
					ps = append(ps, s.sf.cfg.Info.Defs[n])
				}
			}
			if len(ps) != 2 {
				return 0
			}
			pol := 1
			r := ast.Unparen(ret.Results[0])
			if u, ok := r.(*ast.UnaryExpr); ok && u.Op == token.SUB {
				pol = -1
				r = ast.Unparen(u.X)
			}
			call, ok := r.(*ast.CallExpr)
			if !ok || !compareFuncs[s.sf.cfg.calleeSym(call)] || len(call.Args) != 2 {
				return 0
			}
			a0, ok0 := ast.Unparen(call.Args[0]).(*ast.Ident)
			a1, ok1 := ast.Unparen(call.Args[1]).(*ast.Ident)
			if !ok0 || !ok1 {
				return 0
			}
			o0, o1 := s.sf.cfg.Info.ObjectOf(a0), s.sf.cfg.Info.ObjectOf(a1)
			switch {
			case o0 == ps[0] && o1 == ps[1]:
				return pol
			case o0 == ps[1] && o1 == ps[0]:
				return -pol
			}
		}
		return 0
	}
	result := map[bool]int{}
	for _, dir := range []bool{false, true} {
		for _, st := range d.Body.List {
			done := false
			switch x := st.(type) {
			case *ast.IfStmt:
				ev := &orientEval{s: s}
				v := ev.eval(x.Cond, &orientEnv{dir: dir, free: map[string]bool{}})
				if len(ev.freeKeys) > 0 || !ev.sawDir {
					result[dir] = 0
					done = true
					break
				}
				if v && dropsBlock(x.Body) {
					ret := x.Body.List[len(x.Body.List)-1].(*ast.ReturnStmt)
					if len(ret.Results) == 1 {
						result[dir] = polarity(ret.Results[0])
					}
					done = true
				} else if !v && x.Else != nil && dropsBlock(x.Else) {
					eb := x.Else.(*ast.BlockStmt)
					ret := eb.List[len(eb.List)-1].(*ast.ReturnStmt)
					if len(ret.Results) == 1 {
						result[dir] = polarity(ret.Results[0])
					}
					done = true
				}
			case *ast.ReturnStmt:
				if len(x.Results) == 1 {
					result[dir] = polarity(x.Results[0])
				}
				done = true
			}
			if done {
				break
			}
		}
	}
	key := nextKey("cmpsel")
	if result[false] == 0 || result[true] == 0 {
		s.c.Unclassified(key, s.c.P.Pos(d.Pos()), "comparator selector of a shape the rule does not read")
		s.counts["cmpsel"]++
		s.counts["cmpsel:"+s.rel()]++
		return
	}
	s.report("cmpsel", key, d.Pos(), result[false] == 1 && result[true] == -1,
		"results are sorted ascending for a forward scan and descending for a backward scan",
		fmt.Sprintf("comparator selected for sorting the result: forward %+d, backward %+d (expected +1 / -1)", result[false], result[true]))
}

// rangeTranslation: the function turning a SeekRange into a backend [Start, Limit) range.
func (s *seekScan) rangeTranslation(nextKey func(string) string) {
	d := s.sf.fd.Decl
	f := s.sf.cfg
	if d.Type.Results == nil || len(d.Type.Results.List) != 1 {
		return
	}
	rt := f.Info.TypeOf(d.Type.Results.List[0].Type)
	if rt == nil || !strings.HasSuffix(rt.String(), "util.Range") {
		return
	}
	if d.Type.Params == nil || len(d.Type.Params.List) != 1 || !strings.HasSuffix(f.Info.TypeOf(d.Type.Params.List[0].Type).String(), "storage.SeekRange") {
		return
	}
	for _, st := range d.Body.List {
		x, ok := st.(*ast.IfStmt)
		if !ok {
			continue
		}
		els, ok := x.Else.(*ast.BlockStmt)
		if !ok {
			continue
		}
		ev := &orientEval{s: s}
		vF := ev.eval(x.Cond, &orientEnv{dir: false, free: map[string]bool{}})
		vT := ev.eval(x.Cond, &orientEnv{dir: true, free: map[string]bool{}})
		if len(ev.freeKeys) > 0 || !ev.sawDir || vF == vT {
			continue
		}
		arm := map[bool]*ast.BlockStmt{false: els, true: x.Body}
		if vF {
			arm = map[bool]*ast.BlockStmt{false: x.Body, true: els}
		}
		key := nextKey("range")
		var bad []string
		for _, dir := range []bool{false, true} {
			name := map[bool]string{false: "forward", true: "backward"}[dir]
			var prefixArgStart, startFieldStart, sawPrefix, sawStartField bool
			ast.Inspect(arm[dir], func(n ast.Node) bool {
				switch y := n.(type) {
				case *ast.CallExpr:
					if strings.HasSuffix(f.calleeSym(y), "util.BytesPrefix") && len(y.Args) == 1 {
						sawPrefix = true
						prefixArgStart = f.Mentions(y.Args[0], nil)[symStart]
					}
				case *ast.AssignStmt:
					for i, lh := range y.Lhs {
						if sel, ok := lh.(*ast.SelectorExpr); ok && strings.HasSuffix(symOf(f.Info.ObjectOf(sel.Sel)), "util#Start") && i < len(y.Rhs) {
							sawStartField = true
							startFieldStart = f.Mentions(y.Rhs[i], nil)[symStart]
						}
					}
				}
				return true
			})
			if !sawPrefix || !sawStartField {
				bad = append(bad, name+" arm: range construction not recognised")
				continue
			}
			if !dir {
				if prefixArgStart {
					bad = append(bad, "forward: the upper bound is derived from prefix+start instead of the prefix")
				}
				if !startFieldStart {
					bad = append(bad, "forward: the lower bound ignores the start point")
				}
			} else {
				if !prefixArgStart {
					bad = append(bad, "backward: the upper bound ignores the start point")
				}
				if startFieldStart {
					bad = append(bad, "backward: the lower bound is derived from the start point instead of the prefix")
				}
			}
		}
		s.report("range", key, x.Pos(), len(bad) == 0,
			"forward scans [prefix+start, end of prefix), backward scans [prefix, end of prefix+start)",
			"backend range does not follow the scan direction: "+strings.Join(bad, "; "))
		return
	}
}

// seek-stop-honoured: once the consumer of a range scan has said stop (returned false), it is never called again.
// In performSeek the consumer is called from the merge callback handed to the lower store and from the tail loop over
// the remaining in-memory items; the merge callback must record the stop in a variable that gates every later call.
func ruleSeekStop(c *Ctx) {
	fd := c.P.Func("pkg/core/storage", "", "performSeek")
	if fd == nil {
		c.Lost("anchor", "storage.performSeek not found")
		return
	}
	// the consumer: the parameter of func type returning bool
	var consumer types.Object
	for _, fl := range fd.Decl.Type.Params.List {
		if sig, ok := fd.Pkg.TypesInfo.TypeOf(fl.Type).(*types.Signature); ok && sig.Results().Len() == 1 && isBoolType(sig.Results().At(0).Type()) {
			for _, nm := range fl.Names {
				consumer = fd.Pkg.TypesInfo.Defs[nm]
			}
		}
	}
	if consumer == nil {
		c.Lost("consumer", "performSeek has no consumer callback parameter")
		return
	}
	isConsumerCall := func(info *types.Info, e ast.Expr) bool {
		call, ok := ast.Unparen(e).(*ast.CallExpr)
		if !ok {
			return false
		}
		id, ok := ast.Unparen(call.Fun).(*ast.Ident)
		return ok && info.ObjectOf(id) == consumer
	}
	info := fd.Pkg.TypesInfo
	nsites := 0
	flagNames := map[string]bool{}
	check := func(f *FuncCFG, name string, isLit bool) {
		// the stop flag: a bool variable assigned `true` in this body
		for _, b := range f.G.Blocks {
			if !b.Live {
				continue
			}
			cond := f.Cond(b)
			if cond == nil {
				continue
			}
			// `!consumer(...)` / `consumer(...)` as the whole condition
			for range []int{0} {
				e := ast.Unparen(cond)
				neg := false
				for {
					u, ok := e.(*ast.UnaryExpr)
					if !ok || u.Op != token.NOT {
						break
					}
					neg = !neg
					e = ast.Unparen(u.X)
				}
				if !isConsumerCall(info, e) {
					mentions := false
					ast.Inspect(cond, func(x ast.Node) bool {
						if ex, ok := x.(ast.Expr); ok && isConsumerCall(info, ex) {
							mentions = true
						}
						return true
					})
					if mentions {
						nsites++
						c.Unclassified(fmt.Sprintf("%s.stop#%d", name, nsites), c.P.Pos(cond.Pos()), "the consumer's answer is part of a compound condition the rule does not read")
					}
					continue
				}
				nsites++
				stopSucc := b.Succs[1] // consumer returned false
				if neg {
					stopSucc = b.Succs[0]
				}
				key := fmt.Sprintf("%s.stop#%d", name, nsites)
				pos := c.P.Pos(cond.Pos())
				// from the stop edge no consumer call may be reachable inside this body ...
				var again []string
				r := f.reach([]*cfg.Block{stopSucc}, nil, nil)
				for _, ob := range f.G.Blocks {
					if _, ok := r[ob]; !ok {
						continue
					}
					for _, n := range ob.Nodes {
						inspectNoLit(n, func(x ast.Node) bool {
							if ex, ok := x.(ast.Expr); ok && isConsumerCall(info, ex) {
								again = append(again, c.P.Pos(x.Pos()))
							}
							return true
						})
					}
				}
				if len(again) > 0 {
					c.Fail(key, pos, "after the consumer returned false it can be called again at "+strings.Join(again, ", "))
					continue
				}
				if !isLit {
					c.OK(key, pos, "the scan ends when the consumer says stop")
					continue
				}
				// ... and, inside the merge callback, every path from the stop edge to a return records the stop
				sets := map[*cfg.Block]bool{}
				for _, ob := range f.G.Blocks {
					for _, n := range ob.Nodes {
						if as, ok := n.(*ast.AssignStmt); ok && len(as.Lhs) == 1 && len(as.Rhs) == 1 {
							if v, isC := boolConst(info, as.Rhs[0]); isC && v {
								if id, ok := as.Lhs[0].(*ast.Ident); ok && isBoolType(info.TypeOf(id)) {
									sets[ob] = true
									if _, onStopPath := r[ob]; onStopPath {
										flagNames[id.Name] = true
									}
								}
							}
						}
					}
				}
				rr := f.reach([]*cfg.Block{stopSucc}, sets, nil)
				leak := ""
				for _, rs := range f.Returns() {
					if sets[rs.blk] {
						continue
					}
					if _, ok := rr[rs.blk]; ok {
						leak = c.P.Pos(rs.node.Pos())
					}
				}
				if sets[stopSucc] {
					leak = ""
				}
				if leak != "" {
					c.Fail(key, pos, "the merge callback returns (at "+leak+") after the consumer said stop without recording it: the tail loop over the remaining in-memory items still delivers to the consumer")
				} else {
					c.OK(key, pos, "the stop is recorded before the merge callback returns")
				}
			}
		}
	}
	outer := c.P.NewFuncCFG(fd)
	check(outer, "performSeek", false)
	li := 0
	ast.Inspect(fd.Decl.Body, func(n ast.Node) bool {
		lit, ok := n.(*ast.FuncLit)
		if !ok {
			return true
		}
		li++
		lf := c.P.NewLitCFG(info, fmt.Sprintf("performSeek$%d", li), lit)
		if lf != nil {
			check(lf, fmt.Sprintf("performSeek$%d", li), true)
		}
		return true
	})
	c.Floor("consumer calls whose result is tested in performSeek", nsites, 3)
	// the tail loop runs only if no stop was recorded (the flag is the variable the merge callback sets)
	var alts [][]string
	for n := range flagNames {
		alts = append(alts, []string{"local:" + n})
	}
	if len(alts) != 1 {
		c.Lost("stop-flag", fmt.Sprintf("expected one stop flag set by the merge callback, found %d", len(alts)))
		return
	}
	targets := map[*cfg.Block]bool{}
	for _, b := range outer.G.Blocks {
		if !b.Live {
			continue
		}
		for _, n := range b.Nodes {
			inspectNoLit(n, func(x ast.Node) bool {
				if ex, ok := x.(ast.Expr); ok && isConsumerCall(info, ex) {
					targets[b] = true
				}
				return true
			})
		}
	}
	if len(targets) == 0 {
		c.OK("performSeek.tail", c.P.Pos(fd.Decl.Pos()), "no consumer call outside the merge callback")
		return
	}
	res := outer.CheckGate(outer.Entry(), targets, Guard{ID: "not-stopped", Doc: "the remaining in-memory items are delivered only if the consumer has not said stop", Alts: alts}, nil)
	if res.OK {
		c.OK("performSeek.tail", c.P.Pos(fd.Decl.Pos()), "the tail loop over in-memory items is gated by the stop flag: "+res.Msg)
	} else {
		c.Fail("performSeek.tail", c.P.Pos(fd.Decl.Pos()), "the tail loop over the remaining in-memory items can call the consumer although it has said stop: "+res.Msg, res.Path...)
	}
}
