package main

import (
	"fmt"
	"go/ast"
	"go/constant"
	"go/token"
	"go/types"
	"sort"
	"strconv"
	"strings"

	"golang.org/x/tools/go/cfg"
)

const mptPkg = "pkg/core/mpt"

// ---------------------------------------------------------------------------
// C11 mpt-reader / rc-writers / gc-guard / suffix codec

func ruleMPTReader(c *Ctx) {
	pk := c.P.Pkg(mptPkg)
	if pk == nil {
		c.Lost("anchor", "package mpt not found")
		return
	}
	rawGet := "pkg/core/storage.(*MemCachedStore).Get"
	nraw, nmode := 0, 0
	for _, fd := range c.P.AllFuncDecls() {
		if fd.Pkg != pk || fd.Decl.Body == nil {
			continue
		}
		f := c.P.NewFuncCFG(fd)
		isTrie := fd.Decl.Recv != nil && namedTypeIs(fd.Obj.Type().(*types.Signature).Recv().Type(), mptPkg, "Trie")
		for i, s := range f.CallSites(rawGet) {
			nraw++
			key := fmt.Sprintf("%s.raw-read#%d", FuncKey(fd.Obj), i+1)
			switch {
			case FuncKey(fd.Obj) == "pkg/core/mpt.getFromStore":
				c.OK(key, c.P.Pos(s.call.Pos()), "the one mode-aware reader")
			case isTrie:
				c.Fail(key, c.P.Pos(s.call.Pos()), FuncKey(fd.Obj)+" reads a trie node record from the store directly: in GC mode an inactive (logically deleted) record must be treated as absent, which only getFromStore(key, mode, store) does — a re-created node would inherit the garbage mark and be collected")
			default:
				c.OK(key, c.P.Pos(s.call.Pos()), "raw read outside Trie (Billet restore path keeps its own counts)")
			}
		}
		nmode += len(f.CallSites("pkg/core/mpt.getFromStore"))
	}
	c.Floor("mode-aware read sites", nmode, 1)
	c.Floor("raw store reads in package mpt", nraw, 2)
	// the mode-aware reader hides inactive records completely: (nil, ErrKeyNotFound)
	if fd := c.P.Func(mptPkg, "", "getFromStore"); fd == nil {
		c.Lost("getFromStore.anchor", "mpt.getFromStore not found")
	} else {
		f := c.P.NewFuncCFG(fd)
		good := false
		for _, b := range f.G.Blocks {
			cnd := f.Cond(b)
			if cnd == nil {
				continue
			}
			m := f.Mentions(cnd, b)
			if !m["pkg/core/mpt.(TrieMode).GC"] || !m["pkg/core/mpt.IsActiveValue"] {
				continue
			}
			for _, n := range b.Succs[0].Nodes {
				if rs, ok := n.(*ast.ReturnStmt); ok && len(rs.Results) == 2 && isNilIdent(f.Info, rs.Results[0]) && f.DirectMentions(rs.Results[1])["pkg/core/storage.ErrKeyNotFound"] {
					good = true
				}
			}
		}
		if good {
			c.OK("getFromStore.inactive-hidden", c.P.Pos(fd.Decl.Pos()), "in GC mode an inactive record is reported as (nil, ErrKeyNotFound)")
		} else {
			c.Fail("getFromStore.inactive-hidden", c.P.Pos(fd.Decl.Pos()), "getFromStore no longer returns (nil, ErrKeyNotFound) for an inactive record in GC mode: callers that look at the data (updateRefCount) would reuse the garbage-marked record")
		}
	}
	// reference-count suffix: writers append 1 active byte + 4 count bytes, the reader consumes exactly that
	if fd := c.P.Func(mptPkg, "Trie", "getFromStore"); fd == nil {
		c.Lost("Trie.getFromStore.anchor", "(*Trie).getFromStore not found")
	} else {
		f := c.P.NewFuncCFG(fd)
		var seq []string
		ast.Inspect(fd.Decl.Body, func(n ast.Node) bool {
			if is, ok := n.(*ast.IfStmt); ok && f.DirectMentions(is.Cond)["pkg/core/mpt.(TrieMode).RC"] {
				ast.Inspect(is.Body, func(m ast.Node) bool {
					if call, ok := m.(*ast.CallExpr); ok {
						if cs := f.calleeSym(call); strings.HasPrefix(cs, "pkg/io.(*BinReader).Read") {
							seq = append(seq, strings.TrimPrefix(cs, "pkg/io.(*BinReader)."))
						}
					}
					return true
				})
				return false
			}
			return true
		})
		if strings.Join(seq, ",") == "ReadB,ReadU32LE" {
			c.OK("rc-suffix.reader", c.P.Pos(fd.Decl.Pos()), "stored count is read as <active byte><uint32 count>, matching the 5-byte suffix the writers append")
		} else {
			c.Fail("rc-suffix.reader", c.P.Pos(fd.Decl.Pos()), fmt.Sprintf("(*Trie).getFromStore reads the reference-count suffix as %v; the writers append <1 active byte><4 count bytes>: the cached count would be read from the wrong offset", seq))
		}
	}
	nsfx := 0
	for _, fd := range c.P.AllFuncDecls() {
		if fd.Pkg != pk || fd.Decl.Body == nil {
			continue
		}
		ast.Inspect(fd.Decl.Body, func(n ast.Node) bool {
			if cl, ok := n.(*ast.CompositeLit); ok && len(cl.Elts) >= 4 {
				if sl, ok := pk.TypesInfo.TypeOf(cl).Underlying().(*types.Slice); ok && sl.Elem().String() == "byte" {
					allConst := true
					for _, e := range cl.Elts {
						if tv := pk.TypesInfo.Types[e]; tv.Value == nil {
							allConst = false
						}
					}
					if allConst {
						nsfx++
						key := fmt.Sprintf("rc-suffix.writer.%s", FuncKey(fd.Obj))
						if len(cl.Elts) == 5 && pk.TypesInfo.Types[cl.Elts[0]].Value.String() == "1" {
							c.OK(key, c.P.Pos(cl.Pos()), "new record = node bytes + active byte 1 + 4 count bytes")
						} else {
							c.Fail(key, c.P.Pos(cl.Pos()), "a node record is created with a suffix other than <1><4 count bytes>")
						}
					}
				}
			}
			call, ok := n.(*ast.CallExpr)
			if !ok {
				return true
			}
			if id, ok := call.Fun.(*ast.Ident); ok && id.Name == "append" && len(call.Args) >= 3 {
				allConst := true
				for _, a := range call.Args[1:] {
					if tv := pk.TypesInfo.Types[a]; tv.Value == nil {
						allConst = false
					}
				}
				if !allConst || call.Ellipsis.IsValid() {
					return true
				}
				if sl, ok := pk.TypesInfo.TypeOf(call.Args[0]).Underlying().(*types.Slice); !ok || sl.Elem().String() != "byte" {
					return true
				}
				nsfx++
				key := fmt.Sprintf("rc-suffix.writer.%s", FuncKey(fd.Obj))
				if len(call.Args) == 6 && pk.TypesInfo.Types[call.Args[1]].Value.String() == "1" {
					c.OK(key, c.P.Pos(call.Pos()), "new record = node bytes + active byte 1 + 4 count bytes")
				} else {
					c.Fail(key, c.P.Pos(call.Pos()), "a node record is created with a suffix other than <1><4 count bytes>")
				}
			}
			return true
		})
	}
	c.Floor("suffix writers", nsfx, 2)
	rcSuffixReadersAgree(c)
}

// rcSuffixReadersAgree: two more places where the layout of the suffix is written down. (a) A loader that hands a
// record on as the node's serialisation cuts the five bytes off exactly when the records have them - under the
// predicate the writers append them under, TrieMode.RC(); guarded by another predicate (GC() holds for a subset of
// the RC modes only) a ModeLatest trie caches node bytes with the suffix, and every proof built from nodes that a
// traversal loaded fails to verify. (b) The counter is four bytes: it is read with a 32-bit read of the last four
// bytes, never as the single byte at len-4 (a node referenced 257 times would be stored back with count 2, and
// flagged inactive after two removals while 255 references still point at it).
func rcSuffixReadersAgree(c *Ctx) {
	pk := c.P.Pkg(mptPkg)
	if pk == nil {
		return
	}
	info := pk.TypesInfo
	ncut, nread := 0, 0
	for _, fd := range c.P.AllFuncDecls() {
		if fd.Pkg != pk || fd.Decl.Body == nil {
			continue
		}
		f := c.P.NewFuncCFG(fd)
		// len(x)-k as the linear form of an index/bound over x
		tailOff := func(of ast.Expr, e ast.Expr) (int64, bool) {
			be, ok := ast.Unparen(e).(*ast.BinaryExpr)
			if !ok || be.Op != token.SUB {
				return 0, false
			}
			call, ok := ast.Unparen(be.X).(*ast.CallExpr)
			if !ok || f.calleeSym(call) != "builtin.len" || len(call.Args) != 1 || !sameExpr(info, call.Args[0], of) {
				return 0, false
			}
			tv, ok := info.Types[be.Y]
			if !ok || tv.Value == nil {
				return 0, false
			}
			v, ok := constant.Int64Val(constant.ToInt(tv.Value))
			return v, ok
		}
		var stack []ast.Node
		ast.Inspect(fd.Decl.Body, func(n ast.Node) bool {
			if n == nil {
				stack = stack[:len(stack)-1]
				return true
			}
			stack = append(stack, n)
			switch x := n.(type) {
			case *ast.SliceExpr:
				// x[:len(x)-5]: the cut
				if x.Low == nil && x.High != nil {
					if k, ok := tailOff(x.X, x.High); ok && k == 5 {
						ncut++
						guard := ""
						for i := len(stack) - 2; i >= 0 && guard == ""; i-- {
							if is, ok := stack[i].(*ast.IfStmt); ok {
								guard = types.ExprString(is.Cond)
								if f.DirectMentions(is.Cond)["pkg/core/mpt.(TrieMode).RC"] {
									guard = "RC"
								}
							}
						}
						key := fmt.Sprintf("rc-suffix.cut.%s#%d", shortSym(FuncKey(fd.Obj)), ncut)
						if guard == "RC" {
							c.OK(key, c.P.Pos(x.Pos()), "the suffix is cut off exactly in the modes whose records carry it")
						} else {
							c.Fail(key, c.P.Pos(x.Pos()), fmt.Sprintf("%s cuts the reference-count suffix off a stored record under `%s`, not under TrieMode.RC(), the predicate the writers append it under: in a mode where the two differ (ModeLatest: counted but not garbage collected) the node keeps the five bytes in the serialisation it caches, and every proof that contains a node loaded this way fails to verify", FuncKey(fd.Obj), guard))
						}
					}
				}
			case *ast.IndexExpr:
				if k, ok := tailOff(x.X, x.Index); ok && k >= 1 && k <= 4 {
					nread++
					c.Fail(fmt.Sprintf("rc-suffix.width.%s#%d", shortSym(FuncKey(fd.Obj)), nread), c.P.Pos(x.Pos()), fmt.Sprintf("%s takes the single byte `%s` of a stored record: the last four bytes are the reference counter, a 32-bit little-endian number - read one byte at a time a node referenced more than 255 times is stored back with a small count, and is flagged inactive (invisible in GC mode) while references still point at it", FuncKey(fd.Obj), types.ExprString(x)))
				}
			case *ast.CallExpr:
				if strings.HasSuffix(f.calleeSym(x), "Uint32") && len(x.Args) == 1 {
					if sl, ok := ast.Unparen(x.Args[0]).(*ast.SliceExpr); ok && sl.High == nil && sl.Low != nil {
						if k, ok := tailOff(sl.X, sl.Low); ok && k == 4 {
							nread++
							c.OK(fmt.Sprintf("rc-suffix.width.%s#%d", shortSym(FuncKey(fd.Obj)), nread), c.P.Pos(x.Pos()), "the counter is read as the 32-bit number in the last four bytes")
						}
					}
				}
			}
			return true
		})
	}
	c.Floor("cuts of the reference-count suffix", ncut, 2)
	c.Floor("reads of the stored reference counter", nread, 2)
}

func ruleRCWriters(c *Ctx) {
	ruleRefCountResult(c)
	allowed := map[string]string{
		"pkg/core/mpt.(*Trie).Flush":                  "non-RC mode: stores flushed node bytes",
		"pkg/core/mpt.(*Trie).updateRefCount":         "folds the per-block delta into the stored count",
		"pkg/core/mpt.(*Billet).incrementRefAndStore": "state sync restore: count +1 per restored occurrence",
		"pkg/core/mpt.(*Billet).RestoreHashNode":      "temporary contract storage item of a restored leaf (not a DataMPT record)",
		"pkg/core/mpt.VerifyProof":                    "scratch store created inside the function",
	}
	g := c.P.MRG()
	mut := c.P.storeMutators()
	n := 0
	var fns []string
	byName := map[string]*MNode{}
	for fn, node := range g.Nodes {
		if fn.Pkg != nil && pkgRel(fn.Pkg.Pkg) == mptPkg {
			byName[FnKey(fn)] = node
			fns = append(fns, FnKey(fn))
		}
	}
	sort.Strings(fns)
	for _, name := range fns {
		node := byName[name]
		for _, e := range node.Out {
			if !mut[e.Callee.Fn] || e.Kind != "static" {
				continue
			}
			if e.Callee.Fn.Pkg == nil || pkgRel(e.Callee.Fn.Pkg.Pkg) != "pkg/core/storage" {
				continue
			}
			n++
			key := name + "->" + e.Callee.Fn.Name()
			if why, ok := allowed[name]; ok {
				c.OK(key, c.P.Pos(e.Site.Pos()), "tabled store writer: "+why)
			} else {
				c.Fail(key, c.P.Pos(e.Site.Pos()), name+" writes to the trie's store outside the count-folding path (Flush/updateRefCount): a structural operation that stores or deletes node records directly bypasses reference counting")
			}
		}
	}
	c.Floor("store writes in package mpt", n, 6)
	// the stored counter is the base of every update whose cached base is zero: an entry created by addRef/removeRef
	// has initial == 0 whether or not the node already has a record (the cache is dropped by Collapse after every
	// flush, by restarts and state jumps), so whenever the cached base is zero the record is looked up before the
	// delta is folded and written - for additions as well as for removals
	if fd := c.P.Func("pkg/core/mpt", "Trie", "updateRefCount"); fd == nil {
		c.Lost("updateRefCount.base-from-store.anchor", "Trie.updateRefCount not found")
	} else {
		f := c.P.NewFuncCFG(fd)
		sites := f.CallSites("pkg/core/mpt.getFromStore")
		for i, st := range sites {
			key := fmt.Sprintf("updateRefCount.base-from-store#%d", i+1)
			// the if statements the call sits in
			var conds []ast.Expr
			var stack []ast.Node
			ast.Inspect(fd.Decl.Body, func(n ast.Node) bool {
				if n == nil {
					stack = stack[:len(stack)-1]
					return true
				}
				if n == ast.Node(st.call) {
					for k, a := range stack {
						if is, ok := a.(*ast.IfStmt); ok && k+1 < len(stack) && stack[k+1] == ast.Node(is.Body) {
							conds = append(conds, is.Cond)
						} else if ok {
							conds = append(conds, &ast.UnaryExpr{Op: token.NOT, X: is.Cond}) // else arm
						}
					}
				}
				stack = append(stack, n)
				return true
			})
			var atoms []atom
			for _, cnd := range conds {
				atoms = append(atoms, condAtoms(cnd)...)
			}
			extra := ""
			zeroTest := false
			for _, at := range atoms {
				be, ok := ast.Unparen(at.e).(*ast.BinaryExpr)
				if ok && be.Op == token.EQL && f.Mentions(at.e, st.blk)["local<-pkg/core/mpt#initial"] || ok && be.Op == token.EQL && f.Mentions(at.e, st.blk)["pkg/core/mpt#initial"] {
					zeroTest = true
					continue
				}
				extra = types.ExprString(at.e)
			}
			switch {
			case extra != "":
				c.Fail(key, c.P.Pos(st.call.Pos()), "updateRefCount looks the stored counter up only when `"+extra+"` also holds: an entry with a zero cached base whose node already has a record (same bytes stored by an earlier block, cache dropped by Collapse or a restart in between) is then written with its delta as the whole count")
			case !zeroTest && len(atoms) > 0:
				c.Unclassified(key, c.P.Pos(st.call.Pos()), "the condition guarding the lookup is not a zero test of the cached base")
			default:
				c.OK(key, c.P.Pos(st.call.Pos()), "the stored counter is looked up whenever the cached base is zero, nothing else decides")
			}
		}
		c.Floor("stored-counter lookups in updateRefCount", len(sites), 1)
	}
	// GC deletes only records that are inactive and not newer than the GC index
	gc := c.P.Func("pkg/core/stateroot", "Module", "GC")
	if gc == nil {
		c.Lost("GC.anchor", "stateroot.(*Module).GC not found")
		return
	}
	var lit *ast.FuncLit
	ast.Inspect(gc.Decl.Body, func(x ast.Node) bool {
		if l, ok := x.(*ast.FuncLit); ok && lit == nil && l.Type.Results != nil && len(l.Type.Results.List) > 0 {
			lit = l
		}
		return true
	})
	if lit == nil {
		c.Lost("GC.callback", "no keep/continue callback in Module.GC")
		return
	}
	f := c.P.NewLitCFG(gc.Pkg.TypesInfo, "pkg/core/stateroot.(*Module).GC$1", lit)
	var drops []site
	for _, r := range f.Returns() {
		rs := r.node.(*ast.ReturnStmt)
		if len(rs.Results) == 2 {
			if v, ok := boolConst(f.Info, rs.Results[0]); ok && !v {
				drops = append(drops, r)
			}
		}
	}
	if len(drops) == 0 {
		c.Lost("GC.drop", "GC callback has no `keep=false` exit")
		return
	}
	for _, g := range []Guard{
		{ID: "inactive-only", Doc: "only records marked inactive are deleted", Alts: [][]string{{"pkg/core/mpt.IsActiveValue"}}},
		{ID: "not-newer-than-index", Doc: "only records that became inactive at or before the GC height are deleted", Alts: [][]string{{"encoding/binary.(littleEndian).Uint32"}}},
	} {
		res := f.CheckGate(f.Entry(), blocksOf(drops), g, nil)
		if res.OK {
			c.OK("GC.drop."+g.ID, c.P.Pos(lit.Pos()), res.Msg)
		} else {
			c.Fail("GC.drop."+g.ID, c.P.Pos(lit.Pos()), "stateroot GC can delete a node record without the check: "+res.Msg, res.Path...)
		}
	}
	// boundary: a record that became inactive at height h belongs to every state below h. GC(index) keeps the states
	// from index on, so the record goes exactly when h <= index: the comparison of the decoded height with the GC
	// index is folded over h - index in -3..3 (constant offsets on either side included) and must send precisely the
	// non-positive differences to the deleting exit.
	var idxObj types.Object
	if ps := gc.Decl.Type.Params; ps != nil && len(ps.List) > 0 && len(ps.List[0].Names) > 0 {
		idxObj = gc.Pkg.TypesInfo.ObjectOf(ps.List[0].Names[0])
	}
	dropBlocks := blocksOf(drops)
	nb := 0
	for _, b := range f.G.Blocks {
		if !b.Live {
			continue
		}
		cond := f.Cond(b)
		if cond == nil || len(b.Succs) != 2 {
			continue
		}
		be, ok := ast.Unparen(cond).(*ast.BinaryExpr)
		if !ok {
			continue
		}
		switch be.Op {
		case token.LSS, token.GTR, token.LEQ, token.GEQ:
		default:
			continue
		}
		mentionsIdx := func(e ast.Expr) bool {
			found := false
			ast.Inspect(e, func(n ast.Node) bool {
				if id, ok := n.(*ast.Ident); ok && idxObj != nil && f.Info.ObjectOf(id) == idxObj {
					found = true
				}
				return true
			})
			return found
		}
		hx := f.Mentions(be.X, b)["encoding/binary.(littleEndian).Uint32"]
		hy := f.Mentions(be.Y, b)["encoding/binary.(littleEndian).Uint32"]
		ix, iy := mentionsIdx(be.X), mentionsIdx(be.Y)
		if !((hx && iy) || (hy && ix)) {
			continue
		}
		nb++
		_, offX, okX := linearForm(f, be.X, 0)
		_, offY, okY := linearForm(f, be.Y, 0)
		if !okX || !okY {
			c.Unclassified("GC.drop.boundary", c.P.Pos(be.Pos()), "the height comparison is not of the form value+const OP value+const")
			continue
		}
		tDrop := reachesAny(f, b.Succs[0], dropBlocks)
		fDrop := reachesAny(f, b.Succs[1], dropBlocks)
		if tDrop == fDrop {
			c.Unclassified("GC.drop.boundary", c.P.Pos(be.Pos()), "neither outcome of the height comparison is the deleting one")
			continue
		}
		bad := ""
		for d := int64(-3); d <= 3; d++ { // d = h - index
			l, r := d+offX, offY // h on the left
			if hy {
				l, r = offX, d+offY // index on the left
			}
			var v bool
			switch be.Op {
			case token.LSS:
				v = l < r
			case token.GTR:
				v = l > r
			case token.LEQ:
				v = l <= r
			case token.GEQ:
				v = l >= r
			}
			dropped := v == tDrop
			if dropped != (d <= 0) {
				bad = fmt.Sprintf("a record that became inactive at height index%+d is %s", d, map[bool]string{true: "deleted although the state at the GC height still uses it", false: "kept although no retained state uses it"}[dropped])
				break
			}
		}
		if bad != "" {
			c.Fail("GC.drop.boundary", c.P.Pos(be.Pos()), "stateroot GC compares the deactivation height with the GC index off by one: "+bad)
		} else {
			c.OK("GC.drop.boundary", c.P.Pos(be.Pos()), "records are deleted exactly when they became inactive at or before the GC index")
		}
	}
	c.Floor("height comparisons in the GC callback", nb, 1)
}

// ---------------------------------------------------------------------------
// append-alias: append(x.f, ...) whose result does not go back into x.f writes into x.f's spare capacity,
// i.e. into whatever else shares the backing array (trie node keys are sub-slices of batch/path arrays).

type appendHit struct {
	fn   string
	pos  ast.Node
	expr string
	fld  string
}

func findAppendAlias(c *Ctx, rel string) []appendHit {
	pk := c.P.Pkg(rel)
	var hits []appendHit
	if pk == nil {
		return hits
	}
	for _, fd := range c.P.AllFuncDecls() {
		if fd.Pkg != pk || fd.Decl.Body == nil {
			continue
		}
		var parents []ast.Node
		ast.Inspect(fd.Decl.Body, func(n ast.Node) bool {
			if n == nil {
				parents = parents[:len(parents)-1]
				return false
			}
			parents = append(parents, n)
			call, ok := n.(*ast.CallExpr)
			if !ok || len(call.Args) < 2 {
				return true
			}
			id, ok := call.Fun.(*ast.Ident)
			if !ok || id.Name != "append" {
				return true
			}
			if _, isB := pk.TypesInfo.ObjectOf(id).(*types.Builtin); !isB {
				return true
			}
			se, ok := ast.Unparen(call.Args[0]).(*ast.SelectorExpr)
			if !ok {
				return true
			}
			v, ok := pk.TypesInfo.ObjectOf(se.Sel).(*types.Var)
			if !ok || !v.IsField() {
				return true
			}
			// result assigned back to the same field?
			if len(parents) >= 2 {
				if as, ok := parents[len(parents)-2].(*ast.AssignStmt); ok {
					for i, r := range as.Rhs {
						if r == call && i < len(as.Lhs) && sameExpr(pk.TypesInfo, as.Lhs[i], se) {
							return true
						}
					}
				}
			}
			hits = append(hits, appendHit{FuncKey(fd.Obj), call, types.ExprString(call), symOf(v)})
			return true
		})
	}
	return hits
}

func ruleAppendAlias(c *Ctx) {
	// node key fields whose every assignment is a fresh copy are capacity-tight and may be appended to
	hits := findAppendAlias(c, mptPkg)
	perFn := map[string]int{}
	for _, h := range hits {
		perFn[h.fn]++
		c.Fail(fmt.Sprintf("%s#%d", h.fn, perFn[h.fn]), c.P.Pos(h.pos.Pos()), fmt.Sprintf("%s builds a new slice with %s: if the node's %s has spare capacity (it is a sub-slice of the path/batch key it was created from) this overwrites the bytes that follow it in the shared array — other nodes' keys change under their cached hashes", h.fn, h.expr, shortSym(h.fld)))
	}
	if len(hits) == 0 {
		c.OK("no-append-to-shared-field", mptPkg, "no append(x.field, ...) whose result leaves the field: node keys are never extended in place into a shared backing array")
	}
	// positive control: the detector must see the one legitimate in-place append (result stored back)
	ctl := 0
	pk := c.P.Pkg(mptPkg)
	if pk != nil {
		for _, f := range pk.Syntax {
			ast.Inspect(f, func(n ast.Node) bool {
				if call, ok := n.(*ast.CallExpr); ok {
					if id, ok := call.Fun.(*ast.Ident); ok && id.Name == "append" {
						ctl++
					}
				}
				return true
			})
		}
	}
	c.Floor("append calls scanned in package mpt", ctl, 10)
	appendAliasEscapes(c)
}

// appendAliasEscapes is the second half of the same convention (finding 84): the field need not be appended to where
// it is read. A function that *returns* a node's slice field itself hands the shared array to its caller; if a
// caller appends to what it got - directly, or by passing it to a function that appends to that parameter
// (Billet.traverse builds the paths of the children with append(path, i)) - the bytes behind the key are overwritten
// just the same. For every function of the package that returns a bare slice field of a trie node type, no caller
// lets that result reach the first argument of an append.
func appendAliasEscapes(c *Ctx) {
	pk := c.P.Pkg(mptPkg)
	if pk == nil {
		return
	}
	info := pk.TypesInfo
	nodeTypes := map[string]bool{"ExtensionNode": true, "LeafNode": true, "HashNode": true, "BranchNode": true, "BaseNode": true}
	var decls []*FuncDecl
	for _, fd := range c.P.AllFuncDecls() {
		if fd.Pkg == pk && fd.Decl.Body != nil {
			decls = append(decls, fd)
		}
	}
	// appendsTo[f][i]: f appends to its i-th parameter (or hands it to a function that does)
	appendsTo := map[*types.Func]map[int]bool{}
	paramIdx := func(fd *FuncDecl, o types.Object) int {
		sig := fd.Obj.Type().(*types.Signature)
		for i := 0; i < sig.Params().Len(); i++ {
			if sig.Params().At(i) == o {
				return i
			}
		}
		return -1
	}
	for changed := true; changed; {
		changed = false
		for _, fd := range decls {
			inspectNoLit(fd.Decl.Body, func(x ast.Node) bool {
				call, ok := x.(*ast.CallExpr)
				if !ok {
					return true
				}
				mark := func(arg ast.Expr) {
					id, ok := ast.Unparen(arg).(*ast.Ident)
					if !ok {
						return
					}
					if i := paramIdx(fd, info.ObjectOf(id)); i >= 0 {
						if appendsTo[fd.Obj] == nil {
							appendsTo[fd.Obj] = map[int]bool{}
						}
						if !appendsTo[fd.Obj][i] {
							appendsTo[fd.Obj][i] = true
							changed = true
						}
					}
				}
				if id, ok := call.Fun.(*ast.Ident); ok && id.Name == "append" && len(call.Args) >= 2 {
					if _, isB := info.ObjectOf(id).(*types.Builtin); isB {
						mark(call.Args[0])
					}
					return true
				}
				if fn := calleeFunc(info, call); fn != nil && appendsTo[fn] != nil {
					for i, a := range call.Args {
						if appendsTo[fn][i] {
							mark(a)
						}
					}
				}
				return true
			})
		}
	}
	// functions that return a bare slice field of a node
	type esc struct {
		fd  *FuncDecl
		idx int
		ret *ast.ReturnStmt
		fld string
	}
	var escapes []esc
	nret := 0
	for _, fd := range decls {
		inspectNoLit(fd.Decl.Body, func(x ast.Node) bool {
			rs, ok := x.(*ast.ReturnStmt)
			if !ok {
				return true
			}
			nret++
			for i, r := range rs.Results {
				se, ok := ast.Unparen(r).(*ast.SelectorExpr)
				if !ok {
					continue
				}
				v, ok := info.ObjectOf(se.Sel).(*types.Var)
				if !ok || !v.IsField() {
					continue
				}
				if _, isSl := v.Type().Underlying().(*types.Slice); !isSl {
					continue
				}
				t := info.TypeOf(se.X)
				if pt, ok := t.(*types.Pointer); ok {
					t = pt.Elem()
				}
				if nt, ok := t.(*types.Named); ok && nt.Obj().Pkg() == pk.Types && nodeTypes[nt.Obj().Name()] {
					escapes = append(escapes, esc{fd, i, rs, nt.Obj().Name() + "." + v.Name()})
				}
			}
			return true
		})
	}
	c.Floor("return statements scanned in package mpt", nret, 100)
	n := 0
	reported := map[string]bool{}
	for _, e := range escapes {
		for _, g := range decls {
			inspectNoLit(g.Decl.Body, func(x ast.Node) bool {
				as, ok := x.(*ast.AssignStmt)
				if !ok || len(as.Rhs) != 1 || e.idx >= len(as.Lhs) {
					return true
				}
				call, ok := ast.Unparen(as.Rhs[0]).(*ast.CallExpr)
				if !ok || calleeFunc(info, call) != e.fd.Obj {
					return true
				}
				id, ok := as.Lhs[e.idx].(*ast.Ident)
				if !ok || id.Name == "_" {
					return true
				}
				v := info.ObjectOf(id)
				// does v reach the first argument of an append in g?
				via := ""
				inspectNoLit(g.Decl.Body, func(y ast.Node) bool {
					cl, ok := y.(*ast.CallExpr)
					if !ok {
						return true
					}
					if aid, ok := cl.Fun.(*ast.Ident); ok && aid.Name == "append" && len(cl.Args) >= 2 {
						if _, isB := info.ObjectOf(aid).(*types.Builtin); isB {
							if a, ok := ast.Unparen(cl.Args[0]).(*ast.Ident); ok && info.ObjectOf(a) == v {
								via = "append(" + a.Name + ", …)"
							}
						}
						return true
					}
					if fn := calleeFunc(info, cl); fn != nil && appendsTo[fn] != nil {
						for i, a := range cl.Args {
							if aid, ok := ast.Unparen(a).(*ast.Ident); ok && appendsTo[fn][i] && info.ObjectOf(aid) == v {
								via = shortSym(FuncKey(fn)) + ", which appends to that parameter"
							}
						}
					}
					return true
				})
				if via == "" {
					return true
				}
				key := fmt.Sprintf("escape.%s->%s", shortSym(FuncKey(e.fd.Obj)), shortSym(FuncKey(g.Obj)))
				if reported[key+e.fld] {
					return true
				}
				reported[key+e.fld] = true
				n++
				c.Fail(key+"#"+strconv.Itoa(n), c.P.Pos(e.ret.Pos()), fmt.Sprintf("%s returns the node's %s itself, and %s hands that result to %s: when the key is a sub-slice of the batch/path array it was created from, the append overwrites the bytes that follow it in the shared array - the keys of the extension nodes below change under their cached hashes (a later Get of a stored key fails, the listing shows a key that was never stored)", shortSym(FuncKey(e.fd.Obj)), e.fld, shortSym(FuncKey(g.Obj)), via))
				return true
			})
		}
	}
	if n == 0 {
		c.OK("no-escaping-field-appended", mptPkg, fmt.Sprintf("%d return statements hand out a node's slice field itself; none of those results reaches an append", len(escapes)))
	}
}

// ---------------------------------------------------------------------------
// store-value-immutable: a value obtained from the store is never modified in place by Trie code (the trie's
// store can be a per-block private layer that is dropped; Get returns lower-layer slices by reference)

type ownedClient struct {
	f    *FuncCFG
	bad  map[token.Pos]string
	nsrc int
}

func isStoreRead(f *FuncCFG, e ast.Expr) bool {
	call, ok := ast.Unparen(e).(*ast.CallExpr)
	if !ok {
		return false
	}
	switch f.calleeSym(call) {
	case "pkg/core/mpt.getFromStore", "pkg/core/storage.(*MemCachedStore).Get", "pkg/core/storage.(Store).Get", "pkg/core/storage.(*MemoryStore).Get":
		return true
	}
	return false
}

func isFreshCopy(f *FuncCFG, e ast.Expr) bool {
	call, ok := ast.Unparen(e).(*ast.CallExpr)
	if !ok {
		return false
	}
	switch f.calleeSym(call) {
	case "slices.Clone", "bytes.Clone", "slices.Concat", "builtin.make":
		return true
	}
	return false
}

func (oc *ownedClient) Node(f *FuncCFG, b *cfgBlock, idx int, n ast.Node, st *FState) {
	owned := func(e ast.Expr) bool {
		o := rootObj(f.Info, e)
		return o != nil && st.Facts["owned:"+o.Name()] == 1
	}
	inspectNoLit(n, func(x ast.Node) bool {
		switch s := x.(type) {
		case *ast.AssignStmt:
			for _, l := range s.Lhs {
				if ix, ok := ast.Unparen(l).(*ast.IndexExpr); ok && owned(ix.X) && f.Info.TypeOf(ix.X) != nil {
					if _, isSlice := f.Info.TypeOf(ix.X).Underlying().(*types.Slice); isSlice {
						oc.bad[s.Pos()] = fmt.Sprintf("%s writes into %s, a slice obtained from the store", f.Name, types.ExprString(ix.X))
					}
				}
			}
		case *ast.CallExpr:
			cs := f.calleeSym(s)
			if strings.HasPrefix(cs, "encoding/binary.(littleEndian).PutUint") || strings.HasPrefix(cs, "encoding/binary.(bigEndian).PutUint") || cs == "builtin.copy" {
				if len(s.Args) > 0 && owned(s.Args[0]) {
					oc.bad[s.Pos()] = fmt.Sprintf("%s patches %s in place; the slice was returned by the store (by reference for in-memory layers), so the stored record of the lower layer changes without a Put and stays changed if this trie's layer is dropped", f.Name, types.ExprString(s.Args[0]))
				}
			}
			if cs == "builtin.append" && len(s.Args) > 1 && owned(s.Args[0]) {
				oc.bad[s.Pos()] = fmt.Sprintf("%s appends to %s, a (sub-)slice of a stored value: the bytes following it in the stored record are overwritten", f.Name, types.ExprString(s.Args[0]))
			}
		}
		return true
	})
	if as, ok := n.(*ast.AssignStmt); ok {
		for i, l := range as.Lhs {
			id, ok := l.(*ast.Ident)
			if !ok {
				continue
			}
			var r ast.Expr
			if len(as.Rhs) == len(as.Lhs) {
				r = as.Rhs[i]
			} else if i == 0 && len(as.Rhs) == 1 {
				r = as.Rhs[0]
			}
			if r == nil {
				continue
			}
			switch {
			case isStoreRead(f, r):
				st.Facts["owned:"+id.Name] = 1
				oc.nsrc++
				// the value is meaningful only if the accompanying error is nil
				if len(as.Lhs) == 2 && i == 0 {
					if eid, ok := as.Lhs[1].(*ast.Ident); ok && eid.Name != "_" {
						st.Facts["pair:"+eid.Name+":"+id.Name] = 1
					}
				}
			case isFreshCopy(f, r):
				st.Facts["owned:"+id.Name] = 0
			default:
				lt := f.Info.TypeOf(l)
				if lt == nil {
					continue
				}
				_, isSlice := lt.Underlying().(*types.Slice)
				if o := rootObj(f.Info, r); o != nil && st.Facts["owned:"+o.Name()] == 1 {
					if isSlice {
						st.Facts["owned:"+id.Name] = 1 // sub-slice / alias
					}
				} else if isSlice {
					st.Facts["owned:"+id.Name] = 0
				}
			}
		}
	}
}

// Edge: a failed read yields no stored value.
func (oc *ownedClient) Edge(f *FuncCFG, b *cfgBlock, cond ast.Expr, value bool, st *FState) bool {
	facts := map[types.Object]bool{}
	if !f.nilFactsOf(cond, value, facts) {
		return true
	}
	for o, isNil := range facts {
		if isNil {
			continue
		}
		for k := range st.Facts {
			if strings.HasPrefix(k, "pair:"+o.Name()+":") {
				st.Facts["owned:"+strings.TrimPrefix(k, "pair:"+o.Name()+":")] = 0
			}
		}
	}
	return true
}
func (oc *ownedClient) Deferred(f *FuncCFG, op string, st *FState)                  {}
func (oc *ownedClient) Exit(f *FuncCFG, b *cfgBlock, r *ast.ReturnStmt, st *FState) {}

func ruleStoreValueImmutable(c *Ctx) {
	pk := c.P.Pkg(mptPkg)
	if pk == nil {
		c.Lost("anchor", "package mpt not found")
		return
	}
	nsrc := 0
	for _, fd := range c.P.AllFuncDecls() {
		if fd.Pkg != pk || fd.Decl.Body == nil || fd.Decl.Recv == nil {
			continue
		}
		if !namedTypeIs(fd.Obj.Type().(*types.Signature).Recv().Type(), mptPkg, "Trie") {
			continue
		}
		f := c.P.NewFuncCFG(fd)
		uses := false
		ast.Inspect(fd.Decl.Body, func(n ast.Node) bool {
			if e, ok := n.(ast.Expr); ok && isStoreRead(f, e) {
				uses = true
			}
			return !uses
		})
		if !uses {
			continue
		}
		oc := &ownedClient{f: f, bad: map[token.Pos]string{}}
		res := f.RunFlow(oc, FState{Bools: map[string]bool{}, Facts: map[string]int{}}, nil)
		nsrc += oc.nsrc
		if res.Overflow {
			c.Unclassified(FuncKey(fd.Obj)+".overflow", c.P.Pos(fd.Decl.Pos()), "state overflow")
			continue
		}
		if len(oc.bad) == 0 {
			c.OK(FuncKey(fd.Obj), c.P.Pos(fd.Decl.Pos()), "values read from the store are only read, or copied before being changed")
			continue
		}
		var ps []token.Pos
		for p := range oc.bad {
			ps = append(ps, p)
		}
		sort.Slice(ps, func(i, j int) bool { return ps[i] < ps[j] })
		for i, p := range ps {
			c.Fail(fmt.Sprintf("%s.in-place#%d", FuncKey(fd.Obj), i+1), c.P.Pos(p), oc.bad[p])
		}
	}
	c.Floor("store reads in Trie methods", nsrc, 2)
}

// ---------------------------------------------------------------------------
// C10/C03 proof-key: proof verification re-walks the given nodes by THEIR OWN hash from the GIVEN root

func ruleProofKey(c *Ctx) {
	fd := c.P.Func(mptPkg, "", "VerifyProof")
	if fd == nil {
		c.Lost("anchor", "mpt.VerifyProof not found")
		return
	}
	f := c.P.NewFuncCFG(fd)
	pos := c.P.Pos(fd.Decl.Pos())
	// (a) the scratch trie is rooted at a hash node of the root hash parameter, over a store created here
	okRoot, okStore := false, false
	for _, s := range f.CallSites("pkg/core/mpt.NewTrie") {
		if len(s.call.Args) == 3 {
			m0 := f.DirectMentions(s.call.Args[0])
			okRoot = m0["pkg/core/mpt.NewHashNode"] && m0["param#0"]
			m2 := f.DirectMentions(s.call.Args[2])
			okStore = m2["pkg/core/storage.NewMemCachedStore"] && m2["pkg/core/storage.NewMemoryStore"]
		}
	}
	if okRoot {
		c.OK("root", pos, "verification starts from a hash node of the root hash it is given")
	} else {
		c.Fail("root", pos, "VerifyProof no longer roots its scratch trie at NewHashNode(rh): the walk would not be anchored at the claimed state root")
	}
	if okStore {
		c.OK("isolated-store", pos, "proof nodes are loaded into a store created inside the function")
	} else {
		c.Fail("isolated-store", pos, "VerifyProof no longer uses a store of its own: proof nodes could be satisfied from (or leak into) real node storage")
	}
	// (b) every proof element is stored under the hash of that very element
	puts := f.CallSites("pkg/core/storage.(*MemCachedStore).Put")
	if len(puts) == 0 {
		c.Lost("puts", "VerifyProof stores no proof node")
		return
	}
	for i, p := range puts {
		key := fmt.Sprintf("self-keyed#%d", i+1)
		if len(p.call.Args) != 2 {
			c.Fail(key, c.P.Pos(p.call.Pos()), "unexpected Put shape")
			continue
		}
		km := f.Mentions(p.call.Args[0], p.blk)
		// the hashed expression and the stored expression must be the same element
		same := false
		if kc, ok := ast.Unparen(p.call.Args[0]).(*ast.CallExpr); ok && len(kc.Args) == 1 {
			isOwnHash := func(r ast.Expr) bool {
				hc, ok := ast.Unparen(r).(*ast.CallExpr)
				return ok && len(hc.Args) == 1 && f.calleeSym(hc) == "pkg/crypto/hash.DoubleSha256" && sameExpr(f.Info, hc.Args[0], p.call.Args[1])
			}
			if hid, ok := ast.Unparen(kc.Args[0]).(*ast.Ident); ok {
				// every definition of the key's hash, not just one of them (seed C03-r9m1 gave the first element another)
				ds := f.defs[f.Info.ObjectOf(hid)]
				same = len(ds) > 0
				for _, d := range ds {
					for _, r := range d.rhs {
						if !isOwnHash(r) {
							same = false
						}
					}
				}
			} else if isOwnHash(kc.Args[0]) {
				same = true
			}
		}
		if km["pkg/core/mpt.makeStorageKey"] && km["pkg/crypto/hash.DoubleSha256"] && same {
			c.OK(key, c.P.Pos(p.call.Pos()), "a proof node is stored under makeStorageKey(DoubleSha256(that node))")
		} else {
			c.Fail(key, c.P.Pos(p.call.Pos()), "a proof element is stored under a key that is not the double-SHA256 of the element itself: a forged node could be served for another hash")
		}
	}
	// (c) the walk is strict (exact key) and the result is the found leaf's value
	strict := false
	for _, s := range f.CallSites("pkg/core/mpt.(*Trie).getWithPath") {
		if len(s.call.Args) == 3 {
			if v, ok := boolConst(f.Info, s.call.Args[2]); ok && v {
				strict = true
			}
		}
	}
	if strict {
		c.OK("strict-walk", pos, "the path is walked in strict mode (exact key match)")
	} else {
		c.Fail("strict-walk", pos, "VerifyProof walks the path in non-strict mode: a proof for a prefix of the key would verify")
	}
}

// ruleRefCountResult: Flush folds the pending delta into the stored counter through updateRefCount, which returns the
// new stored value; that value must be written back to the entry's `initial` field, otherwise the next flush of the
// same (uncollapsed) trie folds its delta into a stale base and deletes or deactivates a node that is still referenced.
func ruleRefCountResult(c *Ctx) {
	pk := c.P.Pkg("pkg/core/mpt")
	if pk == nil {
		return
	}
	n := 0
	for _, fd := range c.P.AllFuncDecls() {
		if fd.Pkg != pk || fd.Decl.Body == nil {
			continue
		}
		f := c.P.NewFuncCFG(fd)
		var stack []ast.Node
		idx := 0
		ast.Inspect(fd.Decl.Body, func(x ast.Node) bool {
			if x == nil {
				stack = stack[:len(stack)-1]
				return true
			}
			stack = append(stack, x)
			call, ok := x.(*ast.CallExpr)
			if !ok || f.calleeSym(call) != "pkg/core/mpt.(*Trie).updateRefCount" {
				return true
			}
			n++
			idx++
			key := fmt.Sprintf("%s.refcount-result#%d", FuncKey(fd.Obj), idx)
			stored := false
			for i := len(stack) - 2; i >= 0 && !stored; i-- {
				if as, ok := stack[i].(*ast.AssignStmt); ok {
					for k, rh := range as.Rhs {
						if containsNode(rh, call) && k < len(as.Lhs) {
							if se, ok := ast.Unparen(as.Lhs[k]).(*ast.SelectorExpr); ok && symOf(f.Info.ObjectOf(se.Sel)) == "pkg/core/mpt#initial" {
								stored = true
							}
						}
					}
				}
				if _, isStmt := stack[i].(ast.Stmt); isStmt {
					break
				}
			}
			if stored {
				c.OK(key, c.P.Pos(call.Pos()), "the counter returned by updateRefCount becomes the entry's stored base")
			} else {
				c.Fail(key, c.P.Pos(call.Pos()), "the counter returned by updateRefCount is not written back to the entry's `initial` field: a second flush of the same trie computes the stored counter from a stale base")
			}
			return true
		})
	}
	c.Floor("calls of updateRefCount", n, 1)
}

// rc-loaded: a node the trie loads from the store to restructure is a counted node: it must either stay in the
// result as a whole (handed on to the function that takes it over, embedded in a new node, returned) or be released
// with removeRef. Building its replacement from its fields and dropping it leaves the stored record referenced by
// nothing and never collected. Decided per load site by a path search over (block, aliases of the loaded node,
// disposed?) - aliases follow type assertions and die on reassignment.
func ruleRCLoaded(c *Ctx) {
	pk := c.P.Pkg("pkg/core/mpt")
	if pk == nil {
		c.Lost("anchor", "package mpt not found")
		return
	}
	const loader = "pkg/core/mpt.(*Trie).getFromStore"
	nsites := 0
	for _, fd := range c.P.AllFuncDecls() {
		if fd.Pkg != pk || fd.Decl.Body == nil || fd.Decl.Recv == nil {
			continue
		}
		f := c.P.NewFuncCFG(fd)
		info := f.Info
		idx := 0
		for _, b := range f.G.Blocks {
			if !b.Live {
				continue
			}
			for ni, n := range b.Nodes {
				as, ok := n.(*ast.AssignStmt)
				if !ok || len(as.Rhs) != 1 || len(as.Lhs) < 1 {
					continue
				}
				call, ok := ast.Unparen(as.Rhs[0]).(*ast.CallExpr)
				if !ok || f.calleeSym(call) != loader {
					continue
				}
				id, ok := as.Lhs[0].(*ast.Ident)
				if !ok {
					continue
				}
				loaded := info.ObjectOf(id)
				if loaded == nil {
					continue
				}
				nsites++
				idx++
				key := fmt.Sprintf("%s.load#%d", FuncKey(fd.Obj), idx)
				if bad := rcLoadedSearch(c, f, b, ni+1, loaded); bad != "" {
					c.Fail(key, c.P.Pos(as.Pos()), "a node loaded from the store can leave "+FuncKey(fd.Obj)+" (at "+bad+") neither kept as a whole nor released with removeRef: its stored record stays counted although nothing refers to it any more")
				} else {
					c.OK(key, c.P.Pos(as.Pos()), "the loaded node is handed on as a whole or released on every path that returns normally")
				}
			}
		}
	}
	c.Floor("nodes loaded by Trie methods", nsites, 5)
}

func rcLoadedSearch(c *Ctx, f *FuncCFG, b0 *cfg.Block, start int, loaded types.Object) string {
	info := f.Info
	type state struct {
		b        *cfg.Block
		aliases  string // sorted object ids
		disposed bool
	}
	ids := map[types.Object]int{}
	var objs []types.Object
	idOf := func(o types.Object) int {
		if i, ok := ids[o]; ok {
			return i
		}
		ids[o] = len(objs)
		objs = append(objs, o)
		return ids[o]
	}
	enc := func(set map[types.Object]bool) string {
		var xs []int
		for o := range set {
			xs = append(xs, idOf(o))
		}
		sort.Ints(xs)
		return fmt.Sprint(xs)
	}
	// wholeUse: an alias used other than as the base of a field/method selection, a type assertion or a comparison
	wholeUse := func(n ast.Node, set map[types.Object]bool) bool {
		found := false
		var stack []ast.Node
		ast.Inspect(n, func(x ast.Node) bool {
			if x == nil {
				stack = stack[:len(stack)-1]
				return true
			}
			stack = append(stack, x)
			if _, ok := x.(*ast.FuncLit); ok {
				return true
			}
			if call, ok := x.(*ast.CallExpr); ok && strings.HasSuffix(f.calleeSym(call), ".removeRef") {
				for _, a := range call.Args {
					ast.Inspect(a, func(y ast.Node) bool {
						if id, ok := y.(*ast.Ident); ok && set[info.ObjectOf(id)] {
							found = true
						}
						return true
					})
				}
			}
			id, ok := x.(*ast.Ident)
			if !ok || !set[info.ObjectOf(id)] || len(stack) < 2 {
				return true
			}
			switch p := stack[len(stack)-2].(type) {
			case *ast.SelectorExpr:
				if p.X == ast.Expr(id) {
					return true
				}
			case *ast.TypeAssertExpr:
				return true
			case *ast.BinaryExpr:
				return true
			case *ast.AssignStmt:
				for _, lh := range p.Lhs {
					if lh == ast.Expr(id) {
						return true // being assigned, not used
					}
				}
			}
			found = true
			return true
		})
		return found
	}
	step := func(n ast.Node, set map[types.Object]bool, disposed bool) (map[types.Object]bool, bool) {
		if wholeUse(n, set) {
			disposed = true
		}
		if as, ok := n.(*ast.AssignStmt); ok {
			out := map[types.Object]bool{}
			for o := range set {
				out[o] = true
			}
			for i, lh := range as.Lhs {
				lid, ok := lh.(*ast.Ident)
				if !ok {
					continue
				}
				lo := info.ObjectOf(lid)
				var rh ast.Expr
				if len(as.Rhs) == len(as.Lhs) {
					rh = as.Rhs[i]
				} else if i == 0 {
					rh = as.Rhs[0]
				}
				isAlias := false
				if rh != nil {
					switch r := ast.Unparen(rh).(type) {
					case *ast.Ident:
						isAlias = set[info.ObjectOf(r)]
					case *ast.TypeAssertExpr:
						if rid, ok := ast.Unparen(r.X).(*ast.Ident); ok {
							isAlias = set[info.ObjectOf(rid)]
						}
					}
				}
				if isAlias {
					out[lo] = true
				} else if lo != nil {
					delete(out, lo)
				}
			}
			return out, disposed
		}
		return set, disposed
	}
	seen := map[state]bool{}
	type item struct {
		b        *cfg.Block
		from     int
		set      map[types.Object]bool
		disposed bool
	}
	work := []item{{b0, start, map[types.Object]bool{loaded: true}, false}}
	for len(work) > 0 {
		it := work[len(work)-1]
		work = work[:len(work)-1]
		set, disposed := it.set, it.disposed
		for i := it.from; i < len(it.b.Nodes); i++ {
			n := it.b.Nodes[i]
			set, disposed = step(n, set, disposed)
			if r, ok := n.(*ast.ReturnStmt); ok {
				if !disposed && !f.isErrorExit(it.b, r) {
					return c.P.Pos(r.Pos())
				}
			}
		}
		if len(set) == 0 && !disposed {
			// the node is no longer reachable through any variable: it was dropped
			for _, s := range it.b.Succs {
				_ = s
			}
		}
		for _, s := range it.b.Succs {
			st := state{s, enc(set), disposed}
			if seen[st] {
				continue
			}
			seen[st] = true
			cp := map[types.Object]bool{}
			for o := range set {
				cp[o] = true
			}
			work = append(work, item{s, 0, cp, disposed})
		}
	}
	return ""
}

// ---------------------------------------------------------------------------
// working-trie: the state-root module's working trie - the one whose changes are flushed to the database - is
// always opened with the module's full mode (a masked mode stops marking replaced nodes inactive, so the collector
// never sees them or, worse, removes what a retained root still needs after the next reload) over the module's
// own store, and each flush stamps the nodes with the index of the very block whose root record is written.
func ruleWorkingTrie(c *Ctx) {
	pk := c.P.Pkg("pkg/core/stateroot")
	if pk == nil {
		c.Lost("anchor", "package stateroot not found")
		return
	}
	const fMpt, fMode, fStore = "pkg/core/stateroot#mpt", "pkg/core/stateroot#mode", "pkg/core/stateroot#Store"
	nopen, nflush := 0, 0
	for _, fd := range c.P.AllFuncDecls() {
		if fd.Obj.Pkg() != pk.Types || fd.Decl.Body == nil {
			continue
		}
		f := c.P.NewFuncCFG(fd)
		k := 0
		for _, s := range f.WriteSites(fMpt) {
			as, ok := s.node.(*ast.AssignStmt)
			if !ok || len(as.Rhs) != 1 {
				continue
			}
			call, ok := ast.Unparen(as.Rhs[0]).(*ast.CallExpr)
			if !ok || f.calleeSym(call) != "pkg/core/mpt.NewTrie" || len(call.Args) != 3 {
				continue
			}
			nopen++
			k++
			key := fmt.Sprintf("open.%s#%d", FuncKey(fd.Obj), k)
			mode, store := call.Args[1], call.Args[2]
			masked := ""
			var chk func(e ast.Expr, depth int)
			chk = func(e ast.Expr, depth int) {
				ast.Inspect(e, func(x ast.Node) bool {
					switch y := x.(type) {
					case *ast.BinaryExpr:
						if y.Op == token.AND_NOT || y.Op == token.AND || y.Op == token.XOR {
							masked = types.ExprString(y)
						}
					case *ast.Ident:
						if v, ok := f.Info.ObjectOf(y).(*types.Var); ok && !v.IsField() && depth < 3 {
							for _, d := range f.defs[v] {
								for _, r := range d.rhs {
									chk(r, depth+1)
								}
							}
						}
					}
					return true
				})
			}
			chk(mode, 0)
			mm := f.Mentions(mode, s.blk)
			sm := f.Mentions(store, s.blk)
			switch {
			case !mm[fMode]:
				c.Fail(key, c.P.Pos(call.Pos()), fmt.Sprintf("%s opens the working trie with a mode (%s) that is not the module's configured mode", FuncKey(fd.Obj), types.ExprString(mode)))
			case masked != "":
				c.Fail(key, c.P.Pos(call.Pos()), fmt.Sprintf("%s opens the working trie with a masked mode (%s): with the GC flag stripped the flushes of the following blocks delete or keep replaced nodes as in non-GC mode instead of marking them inactive with their height, and the retained roots lose nodes (or the collector never frees any)", FuncKey(fd.Obj), masked))
			case !sm[fStore] || sm["pkg/core/storage.NewMemCachedStore"] || sm["pkg/core/storage.NewPrivateMemCachedStore"]:
				c.Fail(key, c.P.Pos(call.Pos()), fmt.Sprintf("%s opens the working trie over %s, not over the module's own store: its flushes never reach the database", FuncKey(fd.Obj), types.ExprString(store)))
			default:
				c.OK(key, c.P.Pos(call.Pos()), "working trie opened with the module's unmasked mode over the module's store")
			}
		}
		// flush height == index of the root record
		var idx ast.Expr
		ast.Inspect(fd.Decl.Body, func(x ast.Node) bool {
			cl, ok := x.(*ast.CompositeLit)
			if !ok {
				return true
			}
			if t := f.Info.TypeOf(cl); t == nil || !strings.HasSuffix(t.String(), "pkg/core/state.MPTRoot") {
				return true
			}
			for _, el := range cl.Elts {
				if kv, ok := el.(*ast.KeyValueExpr); ok {
					if id, ok := kv.Key.(*ast.Ident); ok && id.Name == "Index" {
						idx = kv.Value
					}
				}
			}
			return true
		})
		for _, s := range f.CallSites("pkg/core/mpt.(*Trie).Flush") {
			if len(s.call.Args) != 1 || idx == nil {
				continue
			}
			nflush++
			key := "flush-height." + FuncKey(fd.Obj)
			strip := func(m map[string]bool) map[string]bool { // names of intermediate locals do not matter, their sources do
				out := map[string]bool{}
				for k := range m {
					if strings.HasPrefix(k, "local:") || strings.HasPrefix(k, "local<-") {
						continue
					}
					out[k] = true
				}
				return out
			}
			a, b := strip(f.Mentions(s.call.Args[0], s.blk)), strip(f.Mentions(idx, nil))
			same := len(a) == len(b)
			for k := range a {
				if !b[k] {
					same = false
				}
			}
			if same && len(a) > 0 {
				c.OK(key, c.P.Pos(s.call.Pos()), fmt.Sprintf("the height given to Flush (%s) is the index of the root record written for the same block (%s)", types.ExprString(s.call.Args[0]), types.ExprString(idx)))
			} else {
				c.Fail(key, c.P.Pos(s.call.Pos()), fmt.Sprintf("%s flushes the trie with height %s while the root record it writes carries index %s: nodes replaced by this block are marked inactive (or new nodes stamped) with another height than the block's, so a collection up to G removes nodes the state of G still needs", FuncKey(fd.Obj), types.ExprString(s.call.Args[0]), types.ExprString(idx)))
			}
		}
	}
	c.Floor("working trie openings in stateroot.Module", nopen, 4)
	c.Floor("flushes paired with a root record", nflush, 1)
}
