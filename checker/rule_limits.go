package main

import (
	"fmt"
	"go/ast"
	"go/constant"
	"go/token"
	"go/types"
	"os"
	"strings"

	"golang.org/x/tools/go/cfg"
)

// limitBoundary: a configured maximum is an inclusive bound - a quantity equal to the limit is acceptable (the
// proposer side fills blocks up to exactly the limit), one above is not. For the function fn, every ordering
// comparison between something and the limit (a value mentioning limitSym on exactly one side) is evaluated over the
// three orderings (below, equal, above); the outcome that cannot reach an accepting exit is the rejecting one, and the
// comparison must reject exactly "above".
func limitBoundary(c *Ctx, keyBase string, fn [3]string, limitSym, what string, minSites int) {
	boundary(c, keyBase, fn, limitSym, true, "above", what, false, minSites)
}

// boundary is the general form: sym identifies one side of the comparison (the limit if symIsLimit, else the
// quantity); rejectWhen says for which orderings of quantity vs limit the code must reject: "above" (> limit),
// "below" (< limit), "not-above" (<= limit).
func boundary(c *Ctx, keyBase string, fn [3]string, limitSym string, symIsLimit bool, rejectWhen, what string, allowConst bool, minSites int) {
	fd := c.P.Func(fn[0], fn[1], fn[2])
	if fd == nil {
		c.Lost(keyBase+".anchor", fmt.Sprintf("%s.%s.%s not found", fn[0], fn[1], fn[2]))
		return
	}
	n := boundaryIn(c, keyBase, fd, limitSym, symIsLimit, rejectWhen, what, allowConst, 0)
	if n < minSites {
		// the comparison may live in a helper the function calls (and whose failure it propagates)
		f := c.P.NewFuncCFG(fd)
		seen := map[*types.Func]bool{fd.Obj: true}
		var walk func(f *FuncCFG, depth int)
		walk = func(f *FuncCFG, depth int) {
			for _, hc := range f.helperCalls(c.P, nil) {
				if seen[hc.fd.Obj] || n >= minSites {
					continue
				}
				seen[hc.fd.Obj] = true
				n += boundaryIn(c, keyBase, hc.fd, limitSym, symIsLimit, rejectWhen, what, allowConst, n)
				if depth < 2 && n < minSites {
					if hf := c.P.NewFuncCFG(hc.fd); hf != nil {
						walk(hf, depth+1)
					}
				}
			}
		}
		walk(f, 1)
	}
	if n < minSites {
		c.Lost(keyBase+".sites", fmt.Sprintf("%s: %d comparisons with %s found (helpers included), expected at least %d", FuncKey(fd.Obj), n, limitSym, minSites))
	}
}

func boundaryIn(c *Ctx, keyBase string, fd *FuncDecl, limitSym string, symIsLimit bool, rejectWhen, what string, allowConst bool, base int) int {
	f := c.P.NewFuncCFG(fd)
	if f == nil {
		return 0
	}
	// accepting exits: `return true`, nil-error returns, falling off the end
	accept := map[*cfg.Block]bool{}
	for _, r := range f.OKReturns() {
		if rs, ok := r.node.(*ast.ReturnStmt); ok && len(rs.Results) > 0 {
			if v, isC := boolConst(f.Info, rs.Results[0]); isC && !v {
				continue
			}
		}
		accept[r.blk] = true
	}
	n := 0
	for _, b := range f.G.Blocks {
		if !b.Live {
			continue
		}
		cond := f.Cond(b)
		if cond == nil {
			continue
		}
		for _, at := range condAtoms(cond) {
			be, ok := ast.Unparen(at.e).(*ast.BinaryExpr)
			if !ok {
				continue
			}
			switch be.Op {
			case token.LSS, token.GTR, token.LEQ, token.GEQ:
			default:
				continue
			}
			lx, ly := f.Mentions(be.X, b)[limitSym], f.Mentions(be.Y, b)[limitSym]
			if lx == ly {
				continue
			}
			other := be.X
			if lx {
				other = be.Y
			}
			if tv, ok := f.Info.Types[other]; ok && tv.Value != nil && !allowConst {
				continue // limit against a constant (is the limit configured at all)
			}
			if !symIsLimit {
				lx = !lx // sym names the quantity: the limit is the other side
			}
			n++
			key := fmt.Sprintf("%s#%d", keyBase, base+n)
			if ast.Unparen(cond) != ast.Expr(be) && ast.Unparen(cond) != at.e {
				c.Unclassified(key, c.P.Pos(be.Pos()), "the comparison with the limit is part of a compound condition")
				continue
			}
			// which outcome rejects?
			tReach := reachesAny(f, b.Succs[0], accept)
			fReach := reachesAny(f, b.Succs[1], accept)
			if tReach == fReach {
				c.Unclassified(key, c.P.Pos(be.Pos()), "neither outcome of the comparison with the limit is a rejection")
				continue
			}
			rejectOn := !tReach // condition value that rejects
			var bad []string
			for _, sign := range []int{-1, 0, 1} { // quantity vs limit
				sg := sign
				if lx {
					sg = -sign // limit on the left: the expression orders limit vs quantity
				}
				var v bool
				switch be.Op {
				case token.LSS:
					v = sg < 0
				case token.GTR:
					v = sg > 0
				case token.LEQ:
					v = sg <= 0
				case token.GEQ:
					v = sg >= 0
				}
				rejected := v == rejectOn
				want := sign > 0
				switch rejectWhen {
				case "below":
					want = sign < 0
				case "not-above":
					want = sign <= 0
				}
				if rejected != want {
					bad = append(bad, fmt.Sprintf("%s %s the limit is %s", what, map[int]string{-1: "below", 0: "equal to", 1: "above"}[sign], map[bool]string{true: "rejected", false: "accepted"}[rejected]))
				}
			}
			if len(bad) > 0 {
				c.Fail(key, c.P.Pos(be.Pos()), fmt.Sprintf("%s: %s must be rejected exactly when %s the limit, but here %v", FuncKey(fd.Obj), what, rejectWhen, bad))
			} else {
				c.OK(key, c.P.Pos(be.Pos()), fmt.Sprintf("%s is rejected exactly when %s the limit", what, rejectWhen))
			}
		}
	}
	return n
}

func reachesAny(f *FuncCFG, from *cfg.Block, targets map[*cfg.Block]bool) bool {
	r := f.reach([]*cfg.Block{from}, nil, nil)
	for b := range targets {
		if _, ok := r[b]; ok {
			return true
		}
	}
	return false
}

// linearForm splits an integer expression into a base (canonical text, single-definition locals expanded) and a
// constant offset: `sr.Index + 1` -> ("sr.Index", 1). ok=false if the expression is not of that shape.
func linearForm(f *FuncCFG, e ast.Expr, depth int) (string, int64, bool) {
	e = ast.Unparen(e)
	if tv, ok := f.Info.Types[e]; ok && tv.Value != nil {
		if v, ok := constantInt(tv); ok {
			return "", v, true
		}
	}
	switch x := e.(type) {
	case *ast.BinaryExpr:
		if x.Op != token.ADD && x.Op != token.SUB {
			break
		}
		lb, lo, lok := linearForm(f, x.X, depth)
		rb, ro, rok := linearForm(f, x.Y, depth)
		if !lok || !rok {
			break
		}
		if x.Op == token.ADD {
			switch {
			case rb == "":
				return lb, lo + ro, true
			case lb == "":
				return rb, lo + ro, true
			}
		} else if rb == "" {
			return lb, lo - ro, true
		}
	case *ast.CallExpr:
		// conversions: uint32(x)
		if len(x.Args) == 1 {
			if tv, ok := f.Info.Types[x.Fun]; ok && tv.IsType() {
				return linearForm(f, x.Args[0], depth)
			}
		}
	case *ast.Ident:
		if v, ok := f.Info.ObjectOf(x).(*types.Var); ok && !f.params[v] && depth < 3 && len(f.defs[v]) == 1 && len(f.defs[v][0].rhs) == 1 {
			if b, o, ok := linearForm(f, f.defs[v][0].rhs[0], depth+1); ok && b != "" {
				return b, o, true
			}
		}
	}
	return types.ExprString(e), 0, true
}

func constantInt(tv types.TypeAndValue) (int64, bool) {
	if tv.Value == nil || tv.Value.Kind() != constant.Int {
		return 0, false
	}
	return constant.Int64Val(tv.Value)
}

// ruleDeferredRootCoverage: with state roots in headers, a block's own root is checked against the *next* header's
// PrevStateRoot when that header is already known. The guard that decides "already known" and the index of the
// header that is fetched must agree: the check may be skipped only if header number (fetched index) does not exist,
// i.e. guard  <=>  HeaderHeight() >= fetched index.
func ruleDeferredRootCoverage(c *Ctx) {
	fd := c.P.Func("pkg/core", "Blockchain", "storeBlock")
	key := "storeBlock.deferred-root-coverage"
	if fd == nil {
		c.Lost(key+".anchor", "storeBlock not found")
		return
	}
	f := c.P.NewFuncCFG(fd)
	// the if statement whose body compares PrevStateRoot
	var site *ast.IfStmt
	inspectNoLit(fd.Decl.Body, func(n ast.Node) bool {
		is, ok := n.(*ast.IfStmt)
		if !ok || site != nil {
			return true
		}
		if f.DirectMentions(is.Body)["pkg/core/block#PrevStateRoot"] && mentionsSuffix(f.DirectMentions(is.Cond), ").HeaderHeight") {
			site = is
		}
		return true
	})
	if site == nil {
		c.Lost(key+".site", "no HeaderHeight-guarded comparison of the next header's PrevStateRoot in storeBlock")
		return
	}
	// guard atom: HeaderHeight() op X
	var gBase string
	var gMin int64 // guard holds iff HeaderHeight() >= gBase + gMin
	gok := false
	for _, at := range condAtoms(site.Cond) {
		be, ok := ast.Unparen(at.e).(*ast.BinaryExpr)
		if !ok {
			continue
		}
		hx := mentionsSuffix(f.DirectMentions(be.X), ").HeaderHeight")
		hy := mentionsSuffix(f.DirectMentions(be.Y), ").HeaderHeight")
		if hx == hy {
			continue
		}
		other, op := be.Y, be.Op
		if hy {
			other = be.X
			op = map[token.Token]token.Token{token.LSS: token.GTR, token.GTR: token.LSS, token.LEQ: token.GEQ, token.GEQ: token.LEQ}[op]
		}
		b, o, ok := linearForm(f, other, 0)
		if !ok {
			continue
		}
		switch op {
		case token.GTR:
			gBase, gMin, gok = b, o+1, true
		case token.GEQ:
			gBase, gMin, gok = b, o, true
		}
	}
	// fetched index: argument of GetHeaderHash inside the body
	var fBase string
	var fOff int64
	fok := false
	inspectNoLit(site.Body, func(n ast.Node) bool {
		if call, ok := n.(*ast.CallExpr); ok && strings.HasSuffix(f.calleeSym(call), ").GetHeaderHash") && len(call.Args) == 1 && !fok {
			fBase, fOff, fok = linearForm(f, call.Args[0], 0)
		}
		return true
	})
	if !gok || !fok || gBase != fBase {
		c.Unclassified(key, c.P.Pos(site.Pos()), fmt.Sprintf("guard (%q+%d, ok=%v) and fetched header index (%q+%d, ok=%v) are not offsets of one quantity", gBase, gMin, gok, fBase, fOff, fok))
		return
	}
	if gMin == fOff {
		c.OK(key, c.P.Pos(site.Pos()), fmt.Sprintf("the deferred state-root check runs exactly when header %s%+d is known", fBase, fOff))
	} else {
		c.Fail(key, c.P.Pos(site.Pos()), fmt.Sprintf("the deferred state-root check fetches header %s%+d but runs only when HeaderHeight() >= %s%+d: for the heights in between the block is stored although the known next header commits to another state root (or the fetch fails)", fBase, fOff, gBase, gMin))
	}
}

func mentionsSuffix(m map[string]bool, suffix string) bool {
	for s := range m {
		if strings.HasSuffix(s, suffix) {
			return true
		}
	}
	return false
}

// limit-coherence: what the write side admits the read side must be able to ask for. Contract storage accepts keys of
// MaxStorageKeyLen bytes and values of MaxStorageValueLen bytes; in the trie a key is the 4-byte contract id followed
// by the storage key. The trie's own limits, which only its read paths (Get, GetProof, Find) and node decoder
// enforce, must cover that - otherwise a stored pair exists that cannot be read, proved or found against its root.
// Constants are read from the type checker (go/constant), the relations are frozen here with their reason.
type constRel struct {
	id          string
	lhsPkg, lhs string
	rhsPkg, rhs string
	plus        int64
	why         string
}

var constRels = []constRel{
	{"mpt-key-covers-storage-key", "pkg/core/mpt", "MaxKeyLength", "pkg/config/limits", "MaxStorageKeyLen", 4, "trie key = contract id (int32, 4 bytes) + storage key"},
	{"mpt-value-covers-storage-value", "pkg/core/mpt", "MaxValueLength", "pkg/config/limits", "MaxStorageValueLen", 0, "a leaf holds the storage value"},
	{"mpt-value-covers-native-item", "pkg/core/mpt", "MaxValueLength", "pkg/vm/stackitem", "MaxSize", 0, "native contracts store serialised stack items (ContractManagement: the contract state, NEF and manifest together) through dao.PutStorageConvertible, bounded by stackitem.MaxSize only - System.Storage.Put's MaxStorageValueLen does not apply to them"},
}

func ruleLimitCoherence(c *Ctx) {
	get := func(rel, name string) (int64, bool) {
		pk := c.P.Pkg(rel)
		if pk == nil {
			return 0, false
		}
		k, ok := pk.Types.Scope().Lookup(name).(*types.Const)
		if !ok {
			return 0, false
		}
		return constant.Int64Val(constant.ToInt(k.Val()))
	}
	for _, r := range constRels {
		l, ok1 := get(r.lhsPkg, r.lhs)
		rv, ok2 := get(r.rhsPkg, r.rhs)
		if !ok1 || !ok2 {
			c.Lost(r.id, fmt.Sprintf("constant %s.%s or %s.%s not found", r.lhsPkg, r.lhs, r.rhsPkg, r.rhs))
			continue
		}
		pos := ""
		if pk := c.P.Pkg(r.lhsPkg); pk != nil {
			pos = c.P.Pos(pk.Types.Scope().Lookup(r.lhs).Pos())
		}
		if l >= rv+r.plus {
			c.OK(r.id, pos, fmt.Sprintf("%s.%s = %d >= %s.%s + %d = %d (%s)", shortSym(r.lhsPkg), r.lhs, l, shortSym(r.rhsPkg), r.rhs, r.plus, rv+r.plus, r.why))
		} else {
			c.Fail(r.id, pos, fmt.Sprintf("%s.%s = %d is below %s.%s + %d = %d (%s): pairs the write path stores cannot be read, proved or range-searched against their own state root", r.lhsPkg, r.lhs, l, r.rhsPkg, r.rhs, r.plus, rv+r.plus, r.why))
		}
	}
}

// value-absence: in package mpt an absent leaf value is nil; an empty value ([]byte{}) is a legal stored value.
// A []byte that becomes a leaf (argument of NewLeafNode) must therefore never be tested for absence by its length.
func ruleValueAbsence(c *Ctx) {
	pk := c.P.Pkg("pkg/core/mpt")
	if pk == nil {
		c.Lost("anchor", "package mpt not found")
		return
	}
	n := 0
	for _, fd := range c.P.AllFuncDecls() {
		if fd.Pkg != pk || fd.Decl.Body == nil {
			continue
		}
		info := pk.TypesInfo
		vals := map[types.Object]bool{}
		ast.Inspect(fd.Decl.Body, func(x ast.Node) bool {
			call, ok := x.(*ast.CallExpr)
			if !ok {
				return true
			}
			if id, ok := ast.Unparen(call.Fun).(*ast.Ident); ok && id.Name == "NewLeafNode" && len(call.Args) == 1 {
				if a, ok := ast.Unparen(call.Args[0]).(*ast.Ident); ok {
					if o := info.ObjectOf(a); o != nil {
						vals[o] = true
					}
				}
			}
			return true
		})
		if len(vals) == 0 {
			continue
		}
		idx := 0
		ast.Inspect(fd.Decl.Body, func(x ast.Node) bool {
			be, ok := x.(*ast.BinaryExpr)
			if !ok {
				return true
			}
			for _, pair := range [][2]ast.Expr{{be.X, be.Y}, {be.Y, be.X}} {
				call, ok := ast.Unparen(pair[0]).(*ast.CallExpr)
				if !ok || len(call.Args) != 1 {
					continue
				}
				if id, ok := ast.Unparen(call.Fun).(*ast.Ident); !ok || id.Name != "len" {
					continue
				}
				a, ok := ast.Unparen(call.Args[0]).(*ast.Ident)
				if !ok || !vals[info.ObjectOf(a)] || !isZeroConst(info, pair[1]) {
					continue
				}
				idx++
				c.Fail(fmt.Sprintf("%s.len-test#%d", FuncKey(fd.Obj), idx), c.P.Pos(be.Pos()), fmt.Sprintf("%s tests len(%s) against 0 although %s becomes a leaf value: an empty value is a stored value, only nil means absent - the key would silently vanish from the trie", FuncKey(fd.Obj), a.Name, a.Name))
			}
			return true
		})
		n += len(vals)
		if idx == 0 {
			c.OK(FuncKey(fd.Obj)+".values", c.P.Pos(fd.Decl.Pos()), fmt.Sprintf("%d leaf-value variables, none tested for absence by length", len(vals)))
		}
	}
	c.Floor("variables that become leaf values", n, 3)
}

// unsigned-window: `x < a - b` (or any ordering comparison one operand of which is a difference of two non-constant
// unsigned values) wraps around when b > a: "older than the retained window" becomes true for every height on a chain
// shorter than the window. Such a comparison must be protected: the same condition (by &&) or a condition on the way
// tests a > b / a >= b, or the difference is of a shape tabled as safe.
func ruleUnsignedWindow(c *Ctx, pkgs ...string) {
	want := map[string]bool{}
	for _, p := range pkgs {
		want[p] = true
	}
	n := 0
	for _, fd := range c.P.AllFuncDecls() {
		if !want[pkgRel(fd.Pkg.Types)] || fd.Decl.Body == nil {
			continue
		}
		info := fd.Pkg.TypesInfo
		f := c.P.NewFuncCFG(fd)
		idx := 0
		isUnsigned := func(e ast.Expr) bool {
			t := info.TypeOf(e)
			if t == nil {
				return false
			}
			b, ok := t.Underlying().(*types.Basic)
			return ok && b.Info()&types.IsUnsigned != 0
		}
		nonConst := func(e ast.Expr) bool {
			tv, ok := info.Types[e]
			return ok && tv.Value == nil
		}
		compared := map[*ast.BinaryExpr]bool{}
		var examine func(be *ast.BinaryExpr, sides []ast.Expr)
		examine = func(be *ast.BinaryExpr, sides []ast.Expr) {
			for _, side := range sides {
				sub, ok := ast.Unparen(side).(*ast.BinaryExpr)
				if !ok || sub.Op != token.SUB || !isUnsigned(sub) || !nonConst(sub.X) || !nonConst(sub.Y) || compared[sub] {
					continue
				}
				compared[sub] = true
				n++
				idx++
				key := fmt.Sprintf("%s.unsigned-diff#%d", FuncKey(fd.Obj), idx)
				a, b := types.ExprString(ast.Unparen(sub.X)), types.ExprString(ast.Unparen(sub.Y))
				// a guard a > b / a >= b / b < a / b <= a anywhere in the function (conditions are evaluated before; a
				// cheap over-approximation of "on the way")
				guarded := false
				ast.Inspect(fd.Decl.Body, func(y ast.Node) bool {
					g, ok := y.(*ast.BinaryExpr)
					if !ok {
						return true
					}
					l, r := types.ExprString(ast.Unparen(g.X)), types.ExprString(ast.Unparen(g.Y))
					switch g.Op {
					case token.GTR, token.GEQ, token.LSS, token.LEQ:
						// any test of their order counts: `if a < b { return }` establishes a >= b for what follows
						if (l == a && r == b) || (l == b && r == a) {
							guarded = true
						}
					}
					return true
				})
				// the same through single-definition locals (h, mtb := f(), g())
				if !guarded {
					la, _, _ := linearForm(f, sub.X, 0)
					lb, _, _ := linearForm(f, sub.Y, 0)
					ast.Inspect(fd.Decl.Body, func(y ast.Node) bool {
						g, ok := y.(*ast.BinaryExpr)
						if !ok {
							return true
						}
						gl, _, _ := linearForm(f, g.X, 0)
						gr, _, _ := linearForm(f, g.Y, 0)
						switch g.Op {
						case token.GTR, token.GEQ, token.LSS, token.LEQ:
							if (gl == la && gr == lb) || (gl == lb && gr == la) {
								guarded = true
							}
						}
						return true
					})
				}
				base := FuncKey(fd.Obj) + "#" + a + "-" + b
				if guarded {
					c.OK(key, c.P.Pos(sub.Pos()), fmt.Sprintf("`%s - %s` is compared only where %s >= %s is tested in the function", a, b, a, b))
				} else if why, ok := unsignedDiffOK[base]; ok {
					c.OK(key, c.P.Pos(sub.Pos()), "tabled: "+why)
				} else {
					if os.Getenv("NV_USUB") != "" {
						fmt.Println("USUB", c.P.Pos(sub.Pos()), base, types.ExprString(be))
					}
					c.Fail(key, c.P.Pos(sub.Pos()), fmt.Sprintf("%s computes `%s`: the unsigned difference %s - %s wraps around when %s > %s and nothing in the function tests their order", FuncKey(fd.Obj), trunc(types.ExprString(be), 70), a, b, b, a))
				}
			}
		}
		ast.Inspect(fd.Decl.Body, func(x ast.Node) bool {
			be, ok := x.(*ast.BinaryExpr)
			if !ok {
				return true
			}
			switch be.Op {
			case token.LSS, token.GTR, token.LEQ, token.GEQ:
				examine(be, []ast.Expr{be.X, be.Y})
			}
			return true
		})
		// a height minus the traceability window, wherever it is used (assigned, converted, passed on): the same demand
		ast.Inspect(fd.Decl.Body, func(x ast.Node) bool {
			sub, ok := x.(*ast.BinaryExpr)
			if !ok || sub.Op != token.SUB || compared[sub] {
				return true
			}
			for k := range f.Mentions(sub.Y, nil) {
				if strings.Contains(k, "MaxTraceableBlocks") {
					examine(sub, []ast.Expr{sub})
					break
				}
			}
			return true
		})
	}
	c.OK("scope."+strings.Join(pkgs, "+"), "", fmt.Sprintf("%d ordering comparisons of an unsigned difference examined", n))
}

var unsignedDiffOK = map[string]string{
	"pkg/core.(*Blockchain).tryRunGC#syncP-mtb":          "int64(syncP-mtb) wraps to a value above 2^31 while the chain is shorter than MaxTraceableBlocks plus two sync intervals; min() then keeps tgtBlock = height-MaxTraceableBlocks, so removal is merely not aligned to the older sync point (peers syncing from that point cannot get their first blocks here - an observation recorded in DESIGN.md, outside the listed properties: the collector still never passes height-MaxTraceableBlocks)",
	"pkg/core/statesync.(*Module).Init#p-s.syncInterval": "p >= 2*syncInterval on this path: the function returns above when p < 2*s.syncInterval",
}

// absent-is-nil: a lookup that answers "no such key" with nil and may legally return an existing *empty* value must be
// tested with == nil, never by length: `len(v) == 0` turns every stored empty value (blocked-account markers before
// Faun, voters count, empty contract values) into "not found". Sources: dao.Simple.GetStorageItem and the BoltDB
// bucket Get. Decided for direct uses and for single-definition locals.
var absentSources = map[string]bool{
	"pkg/core/dao.(*Simple).GetStorageItem":    true,
	"github.com/nspcc-dev/bbolt.(*Bucket).Get": true,
}

// absentLenOK: functions where the record looked up can never be stored empty, so length and nil tests coincide.
var absentLenOK = map[string]string{
	"pkg/core/native.(*NEO).getAccountState": "NEO account records are serialised stack items (a struct with balance, height, vote): never empty",
}

func ruleAbsentIsNil(c *Ctx, pkgs ...string) {
	want := map[string]bool{}
	for _, p := range pkgs {
		want[p] = true
	}
	nsrc := 0
	for _, fd := range c.P.AllFuncDecls() {
		if !want[pkgRel(fd.Pkg.Types)] || fd.Decl.Body == nil {
			continue
		}
		f := c.P.NewFuncCFG(fd)
		info := f.Info
		var fromSource func(e ast.Expr) bool
		fromSource = func(e ast.Expr) bool {
			switch x := ast.Unparen(e).(type) {
			case *ast.CallExpr:
				cs := f.calleeSym(x)
				if absentSources[cs] {
					return true
				}
				if (cs == "bytes.Clone" || cs == "slices.Clone") && len(x.Args) == 1 {
					return fromSource(x.Args[0]) // Clone(nil) is nil
				}
			case *ast.Ident:
				v, ok := info.ObjectOf(x).(*types.Var)
				if !ok || v.IsField() {
					return false
				}
				// the single assignment to the variable anywhere in the function, closures included (named results
				// filled inside a transaction callback)
				var rhs []ast.Expr
				ast.Inspect(fd.Decl.Body, func(y ast.Node) bool {
					if as, ok := y.(*ast.AssignStmt); ok && len(as.Lhs) == len(as.Rhs) {
						for i, l := range as.Lhs {
							if id, ok := l.(*ast.Ident); ok && info.ObjectOf(id) == v {
								rhs = append(rhs, as.Rhs[i])
							}
						}
					}
					return true
				})
				if len(rhs) == 1 {
					if _, isID := ast.Unparen(rhs[0]).(*ast.Ident); !isID {
						return fromSource(rhs[0])
					}
				}
			}
			return false
		}
		// a nil test of the same value elsewhere in the function: length is then not the presence test
		nilTested := func(e ast.Expr) bool {
			id, ok := ast.Unparen(e).(*ast.Ident)
			if !ok {
				return false
			}
			o := info.ObjectOf(id)
			found := false
			ast.Inspect(fd.Decl.Body, func(y ast.Node) bool {
				if be, ok := y.(*ast.BinaryExpr); ok && (be.Op == token.EQL || be.Op == token.NEQ) {
					for _, pr := range [][2]ast.Expr{{be.X, be.Y}, {be.Y, be.X}} {
						if u, ok := ast.Unparen(pr[0]).(*ast.Ident); ok && info.ObjectOf(u) == o && isNilIdent(info, pr[1]) {
							found = true
						}
					}
				}
				return true
			})
			return found
		}
		ast.Inspect(fd.Decl.Body, func(x ast.Node) bool {
			if call, ok := x.(*ast.CallExpr); ok && absentSources[f.calleeSym(call)] {
				nsrc++
			}
			return true
		})
		idx := 0
		ast.Inspect(fd.Decl.Body, func(x ast.Node) bool {
			be, ok := x.(*ast.BinaryExpr)
			if !ok {
				return true
			}
			for _, pair := range [][2]ast.Expr{{be.X, be.Y}, {be.Y, be.X}} {
				call, ok := ast.Unparen(pair[0]).(*ast.CallExpr)
				if !ok || len(call.Args) != 1 || f.calleeSym(call) != "builtin.len" || !isZeroConst(info, pair[1]) {
					continue
				}
				if !fromSource(call.Args[0]) || nilTested(call.Args[0]) {
					continue
				}
				idx++
				if why, ok := absentLenOK[FuncKey(fd.Obj)]; ok {
					c.OK(fmt.Sprintf("%s.len-test#%d", FuncKey(fd.Obj), idx), c.P.Pos(be.Pos()), "tabled: "+why)
					continue
				}
				c.Fail(fmt.Sprintf("%s.len-test#%d", FuncKey(fd.Obj), idx), c.P.Pos(be.Pos()), fmt.Sprintf("%s decides whether a key exists by `%s`: the lookup returns nil for a missing key and may return an existing empty value, which this test reports as missing", FuncKey(fd.Obj), types.ExprString(be)))
			}
			return true
		})
	}
	c.OK("scope."+strings.Join(pkgs, "+"), "", fmt.Sprintf("%d lookups that return nil for a missing key examined; none is tested by length", nsrc))
}
