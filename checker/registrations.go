package main

import (
	"go/ast"
	"go/constant"
	"go/token"
	"go/types"
	"sort"

	"golang.org/x/tools/go/packages"
	"golang.org/x/tools/go/ssa"
)

// Call flag bits (pkg/smartcontract/callflag); re-read from the program by Registrations().
type flagBits struct {
	ReadStates, WriteStates, AllowCall, AllowNotify uint64
}

// NativeReg is one NewMethodAndPrice[Deferrable] registration.
type NativeReg struct {
	Pkg        *packages.Package
	Call       *ast.CallExpr
	Owner      *types.Func // constructor containing the registration
	HandlerObj *types.Func // nil for function literals
	HandlerLit *ast.FuncLit
	Handler    *ssa.Function
	Name       string // handler name
	Flags      uint64
	FlagsKnown bool
	From, Till string // hardfork constant names ("" = none)
	Deferrable bool
	Ordinal    int // n-th registration of this handler in Owner (line-free key)
}

// SyscallReg is one interop.Function literal.
type SyscallReg struct {
	Pkg        *packages.Package
	Lit        *ast.CompositeLit
	NameConst  string // name of the interopnames constant
	HandlerObj *types.Func
	Handler    *ssa.Function
	Flags      uint64
	FlagsKnown bool
}

// Regs caches the registration tables.
type Regs struct {
	Natives  []*NativeReg
	Syscalls []*SyscallReg
	Bits     flagBits
}

func constUint(info *types.Info, e ast.Expr) (uint64, bool) {
	tv, ok := info.Types[e]
	if !ok || tv.Value == nil {
		return 0, false
	}
	v, ok := constant.Uint64Val(constant.ToInt(tv.Value))
	return v, ok
}

func constName(info *types.Info, e ast.Expr) string {
	switch x := ast.Unparen(e).(type) {
	case *ast.Ident:
		return x.Name
	case *ast.SelectorExpr:
		return x.Sel.Name
	}
	return types.ExprString(e)
}

// ssaOfLit finds the SSA function of a function literal.
func (p *Program) ssaOfLit(lit *ast.FuncLit) *ssa.Function {
	p.SSA()
	var find func(fn *ssa.Function) *ssa.Function
	find = func(fn *ssa.Function) *ssa.Function {
		for _, af := range fn.AnonFuncs {
			if af.Syntax() == lit {
				return af
			}
			if af.Pos() <= lit.Pos() && lit.End() <= token.Pos(int(af.Syntax().End())) {
				if r := find(af); r != nil {
					return r
				}
			}
		}
		return nil
	}
	for _, fd := range p.declOf {
		if fd.Decl.Pos() <= lit.Pos() && lit.End() <= fd.Decl.End() {
			if fn := p.SSAFunc(fd.Obj); fn != nil {
				return find(fn)
			}
		}
	}
	return nil
}

// Registrations scans the module for native-method registrations and system-call tables.
func (p *Program) Registrations() *Regs {
	r := &Regs{}
	if cf := p.Pkg("pkg/smartcontract/callflag"); cf != nil {
		get := func(n string) uint64 {
			if c, ok := cf.Types.Scope().Lookup(n).(*types.Const); ok {
				v, _ := constant.Uint64Val(constant.ToInt(c.Val()))
				return v
			}
			return 0
		}
		r.Bits = flagBits{get("ReadStates"), get("WriteStates"), get("AllowCall"), get("AllowNotify")}
	}
	p.SSA()
	for _, pk := range p.Pkgs {
		info := pk.TypesInfo
		for _, file := range pk.Syntax {
			for _, d := range file.Decls {
				var owner *types.Func
				if fd, ok := d.(*ast.FuncDecl); ok {
					owner, _ = info.Defs[fd.Name].(*types.Func)
				}
				ord := map[string]int{}
				ast.Inspect(d, func(n ast.Node) bool {
					switch x := n.(type) {
					case *ast.CallExpr:
						var callee types.Object
						switch f := ast.Unparen(x.Fun).(type) {
						case *ast.Ident:
							callee = info.ObjectOf(f)
						case *ast.SelectorExpr:
							callee = info.ObjectOf(f.Sel)
						}
						fo, ok := callee.(*types.Func)
						if !ok {
							return true
						}
						k := FuncKey(fo)
						if k != "pkg/core/native.NewMethodAndPrice" && k != "pkg/core/native.NewMethodAndPriceDeferrable" || len(x.Args) < 3 {
							return true
						}
						nr := &NativeReg{Pkg: pk, Call: x, Owner: owner, Deferrable: k != "pkg/core/native.NewMethodAndPrice"}
						switch h := ast.Unparen(x.Args[0]).(type) {
						case *ast.SelectorExpr:
							nr.HandlerObj, _ = info.ObjectOf(h.Sel).(*types.Func)
						case *ast.Ident:
							nr.HandlerObj, _ = info.ObjectOf(h).(*types.Func)
						case *ast.FuncLit:
							nr.HandlerLit = h
						}
						if nr.HandlerObj != nil {
							nr.Handler = p.SSAFunc(nr.HandlerObj.Origin())
							nr.Name = FuncKey(nr.HandlerObj)
						} else if nr.HandlerLit != nil {
							nr.Handler = p.ssaOfLit(nr.HandlerLit)
							nr.Name = "literal"
							if nr.Handler != nil {
								nr.Name = FnKey(nr.Handler)
							}
						}
						nr.Flags, nr.FlagsKnown = constUint(info, x.Args[2])
						if len(x.Args) > 3 {
							nr.From = constName(info, x.Args[3])
						}
						if len(x.Args) > 4 {
							nr.Till = constName(info, x.Args[4])
						}
						ord[nr.Name]++
						nr.Ordinal = ord[nr.Name]
						r.Natives = append(r.Natives, nr)
					case *ast.CompositeLit:
						tv := info.Types[x]
						if tv.Type == nil {
							return true
						}
						nt, ok := tv.Type.(*types.Named)
						if !ok || nt.Obj().Name() != "Function" || nt.Obj().Pkg() == nil || nt.Obj().Pkg().Path() != modPath+"/pkg/core/interop" {
							return true
						}
						sr := &SyscallReg{Pkg: pk, Lit: x, FlagsKnown: true}
						for _, el := range x.Elts {
							kv, ok := el.(*ast.KeyValueExpr)
							if !ok {
								continue
							}
							key, _ := kv.Key.(*ast.Ident)
							if key == nil {
								continue
							}
							switch key.Name {
							case "Name":
								sr.NameConst = constName(info, kv.Value)
							case "Func":
								switch h := ast.Unparen(kv.Value).(type) {
								case *ast.SelectorExpr:
									sr.HandlerObj, _ = info.ObjectOf(h.Sel).(*types.Func)
								case *ast.Ident:
									sr.HandlerObj, _ = info.ObjectOf(h).(*types.Func)
								}
							case "RequiredFlags":
								sr.Flags, sr.FlagsKnown = constUint(info, kv.Value)
							}
						}
						if sr.HandlerObj != nil {
							sr.Handler = p.SSAFunc(sr.HandlerObj.Origin())
						}
						if sr.NameConst != "" || sr.HandlerObj != nil {
							r.Syscalls = append(r.Syscalls, sr)
						}
					}
					return true
				})
			}
		}
	}
	sort.SliceStable(r.Natives, func(i, j int) bool {
		a, b := r.Natives[i], r.Natives[j]
		if a.Name != b.Name {
			return a.Name < b.Name
		}
		return a.Call.Pos() < b.Call.Pos()
	})
	sort.SliceStable(r.Syscalls, func(i, j int) bool { return r.Syscalls[i].NameConst < r.Syscalls[j].NameConst })
	return r
}

var regsCache = map[*Program]*Regs{}

// Regs returns the cached registration tables.
func (p *Program) Regs() *Regs {
	if r, ok := regsCache[p]; ok {
		return r
	}
	r := p.Registrations()
	regsCache[p] = r
	return r
}

// HandlerRoots returns every function that can be stored in a syscall or native-method slot.
func (p *Program) HandlerRoots() []*ssa.Function {
	r := p.Regs()
	seen := map[*ssa.Function]bool{}
	var out []*ssa.Function
	add := func(f *ssa.Function) {
		if f != nil && !seen[f] {
			seen[f] = true
			out = append(out, f)
		}
	}
	for _, n := range r.Natives {
		add(n.Handler)
	}
	for _, s := range r.Syscalls {
		add(s.Handler)
	}
	return out
}
